package main

// C01: sampling tie for the float64 gap, and the glue around the modelled arithmetic.
//
// Every case is a load-profile CONFIGURATION. It is decoded exactly like a section of a pandora config file:
// coreimport.Import registers the limiter plugins, config.Decode runs the mapstructure hooks (string -> duration),
// picks the plugin by its "type", fills the plugin's config struct and validates its `validate` tags. A rejected
// configuration is the observation REJECT. An accepted one yields the real core.Schedule, which is asked for Left(),
// started at t0 and drained; the token offsets are handed to the executable Spec (lean/Pandora/Spec/C01.lean) together
// with the exact rational values of the float64 parameters.

import (
	"encoding/json"
	"fmt"
	"math"
	"math/big"
	"math/rand"
	"os"
	"path/filepath"
	"reflect"
	"regexp"
	"sort"
	"strconv"
	"strings"
	"runtime"
	"sync"
	"sync/atomic"
	"time"
	"unsafe"

	"verifharness/drv"

	"github.com/spf13/afero"
	"github.com/yandex/pandora/core"
	"github.com/yandex/pandora/core/config"
	coreimport "github.com/yandex/pandora/core/import"
	"gopkg.in/yaml.v2"
)

// more tokens than this are not drained: observation TOOMANY (the Lean driver accepts that only when the profile
// really holds more; see Drv/C01.lean capTokens)
const capTokens = 3_000_000

// big=1 cases (a handful per run) are drained up to this many tokens: operation indices beyond 2^24, where an index kept
// in a float32 or a 32-bit intermediate would first go wrong
const capTokensBig = 50_000_000

func ratOf(f float64) string {
	r := new(big.Rat)
	r.SetFloat64(f)
	if r.IsInt() {
		return r.Num().String()
	}
	return r.Num().String() + "/" + r.Denom().String()
}

func parseRat(s string) float64 {
	r, ok := new(big.Rat).SetString(s)
	if !ok {
		panic("bad rational " + s)
	}
	f, exact := r.Float64()
	if !exact {
		panic("rational is not a float64: " + s)
	}
	return f
}

// ---------------------------------------------------------------- generators

func c01Duration(r *rand.Rand) time.Duration {
	switch r.Intn(9) {
	case 0:
		return time.Duration(1+r.Intn(10)) * time.Second
	case 1:
		return time.Duration(1+r.Intn(39)) * 100 * time.Millisecond
	case 2:
		return time.Duration(1000000 + r.Int63n(20_000_000_000)) // any ns count
	case 3:
		return time.Millisecond * time.Duration(1+r.Intn(2000))
	case 4:
		return time.Duration(1+r.Intn(60)) * time.Minute
	case 5:
		return time.Millisecond // the shortest accepted duration
	case 6:
		return time.Duration(1+r.Intn(72)) * time.Hour // long runs: float64 ns lose their last bits
	case 7:
		return time.Duration(1000000 + r.Int63n(5_000_000)) // 1..6 ms, odd ns
	default:
		return time.Duration(500+r.Intn(2500)) * time.Millisecond
	}
}

// a rate such that rate*secs stays below the token budget
func c01Rate(r *rand.Rand, maxRate float64) float64 {
	var v float64
	switch r.Intn(10) {
	case 0:
		v = 0
	case 1:
		v = float64(r.Intn(100)) / 10
	case 2:
		v = float64(1 + r.Intn(50))
	case 3:
		v = float64(r.Intn(100000))
	case 4:
		v = math.Nextafter(float64(1+r.Intn(1000)), math.Inf(1-2*r.Intn(2)))
	case 5:
		v = r.Float64() * 1000
	case 6:
		v = maxRate * r.Float64() // as large as the budget allows (huge rates on short durations)
	case 7:
		v = math.Pow(10, -float64(r.Intn(12))) * (1 + r.Float64()) // tiny rates
	case 8:
		v = float64(int64(maxRate)) // the budget itself, integral
	default:
		v = float64(r.Intn(1000)) + 0.5
	}
	if v > maxRate {
		v = math.Floor(maxRate)
	}
	if v < 0 || math.IsNaN(v) || math.IsInf(v, 0) {
		v = 0
	}
	return v
}

// a second end rate that makes the line ill-conditioned w.r.t. the first (nearly flat, or one end nearly zero)
func c01NearRate(r *rand.Rand, f, maxRate float64) float64 {
	var t float64
	switch r.Intn(6) {
	case 0: // adjacent floats, 1..1000 ulps apart
		t = f
		dir := math.Inf(1 - 2*r.Intn(2))
		for i, k := 0, 1+r.Intn(1000); i < k; i++ {
			t = math.Nextafter(t, dir)
		}
		if r.Intn(2) == 0 {
			t = math.Nextafter(f, dir)
		}
	case 1, 2: // relative slope 10^-3 … 10^-15
		t = f * (1 + float64(1-2*r.Intn(2))*math.Pow(10, -float64(3+r.Intn(13))))
	case 3: // one end tiny
		t = f * math.Pow(10, -float64(3+r.Intn(14)))
	case 4: // one end exactly zero
		t = 0
	default: // absolute difference tiny
		t = f + float64(1-2*r.Intn(2))*math.Pow(2, -float64(10+r.Intn(40)))
	}
	if t < 0 || math.IsNaN(t) {
		t = 0
	}
	if t > maxRate {
		t = f
	}
	return t
}

func lineIn(f, t float64, d int64) string {
	return fmt.Sprintf("kind=line from=%s to=%s dur=%d", ratOf(f), ratOf(t), d)
}
func constIn(ops float64, d int64) string {
	return fmt.Sprintf("kind=const ops=%s dur=%d", ratOf(ops), d)
}
func stepIn(f, t float64, st, d int64) string {
	return fmt.Sprintf("kind=step from=%s to=%s step=%d dur=%d", ratOf(f), ratOf(t), st, d)
}

// configurations at and beyond the border of what validation accepts
func c01Borders(r *rand.Rand, n int) []string {
	neg := []float64{-1, -0.5, -1e-9, -math.SmallestNonzeroFloat64, -1e9}
	badDur := []int64{0, -1, -1000000000, 1, 999999, 500000}
	okDur := []int64{1000000, 1000001, 1500000000, 2000000000}
	var out []string
	for _, d := range badDur {
		out = append(out, constIn(3, d), lineIn(1, 5, d), lineIn(5, 5, d), stepIn(1, 5, 2, d))
	}
	for _, d := range okDur[:2] {
		out = append(out, constIn(3000, d), lineIn(1000, 5000, d), lineIn(0, 0, d), stepIn(1000, 5000, 2000, d), constIn(0, d))
	}
	for _, v := range neg {
		for _, d := range okDur[1:3] {
			out = append(out, constIn(v, d), lineIn(v, 5, d), lineIn(5, v, d), lineIn(v, v, d), stepIn(v, 5, 1, d), stepIn(1, v, 1, d))
		}
	}
	for _, st := range []int64{0, -1, -7, 1, 2} {
		out = append(out, stepIn(1, 6, st, 1500000000))
	}
	for _, tm := range []int64{0, -1, -5, 1, 2} {
		out = append(out, fmt.Sprintf("kind=once times=%d", tm))
	}
	for i := 0; i < n; i++ {
		d := okDur[r.Intn(len(okDur))]
		if r.Intn(2) == 0 {
			d = badDur[r.Intn(len(badDur))]
		}
		v := float64(r.Intn(20))
		if r.Intn(2) == 0 {
			v = -r.Float64() * math.Pow(10, float64(r.Intn(6)-3))
		}
		w := float64(r.Intn(20))
		if r.Intn(4) == 0 {
			w = -w - 0.25
		}
		switch r.Intn(4) {
		case 0:
			out = append(out, constIn(v, d))
		case 1:
			out = append(out, lineIn(v, w, d))
		case 2:
			out = append(out, stepIn(v, w, int64(r.Intn(5)-1), d))
		default:
			out = append(out, fmt.Sprintf("kind=once times=%d", r.Intn(7)-3))
		}
	}
	return out
}

// every combination of a few small rates and awkward durations (thorough tier)
func c01Exhaustive() []string {
	rates := []float64{0, 0.1, 0.5, 1, 2, 3, 7, 10, 33.3, 100, 1000}
	durs := []int64{1000000, 1000001, 333333333, 500000000, 999999999, 1000000000, 1000000001, 1500000000, 2500000000, 10000000001, 60000000000}
	var out []string
	for _, d := range durs {
		for _, f := range rates {
			if f*float64(d)/1e9 <= 400000 {
				out = append(out, constIn(f, d))
			}
			for _, t := range rates {
				if (f+t)/2*float64(d)/1e9 <= 400000 {
					out = append(out, lineIn(f, t, d))
				}
			}
		}
	}
	for _, d := range []int64{1000000, 500000000, 1000000000, 1500000000} {
		for f := 0; f <= 6; f++ {
			for t := 0; t <= 6; t++ {
				for st := 1; st <= 3; st++ {
					out = append(out, stepIn(float64(f), float64(t), int64(st), d))
					if st == 1 {
						out = append(out, stepIn(float64(f)+0.5, float64(t), int64(st), d))
					}
				}
			}
		}
	}
	return out
}

// ---------------------------------------------------------------- the documented examples (docs/*/load-profile.md)

var c01DocBlock = regexp.MustCompile("(?s)```yaml\n(.*?)```")

// c01DocSection returns the `rps` section of the n-th yaml block of docs/<lang>/load-profile.md in the tree under test
func c01DocSection(ref string) (root map[string]interface{}, sec map[string]interface{}, ok bool) {
	lang, num, _ := strings.Cut(ref, ":")
	n, err := strconv.Atoi(num)
	if err != nil || strings.ContainsAny(lang, "/.") {
		return nil, nil, false
	}
	b, err := os.ReadFile(filepath.Join(drv.RepoDir, "docs", lang, "load-profile.md"))
	if err != nil {
		return nil, nil, false
	}
	blocks := c01DocBlock.FindAllStringSubmatch(string(b), -1)
	if n < 0 || n >= len(blocks) {
		return nil, nil, false
	}
	var raw map[string]interface{}
	if yaml.Unmarshal([]byte(blocks[n][1]), &raw) != nil {
		return nil, nil, false
	}
	root, _ = c01StrKeys(raw).(map[string]interface{})
	sec, _ = root["rps"].(map[string]interface{})
	return root, sec, sec != nil
}

// one case per documented const/line/step/once example: the input line carries the numbers the example states (so the
// Spec judges the schedule like any other), `doc=<lang>:<n>` makes the driver decode the DOCUMENTED TEXT itself
func c01DocCases() []string {
	var out []string
	num := func(v interface{}) (float64, bool) {
		switch x := v.(type) {
		case int:
			return float64(x), true
		case float64:
			return x, true
		}
		return 0, false
	}
	for _, lang := range []string{"eng", "rus"} {
		for n := 0; n < 40; n++ {
			ref := fmt.Sprintf("%s:%d", lang, n)
			_, sec, ok := c01DocSection(ref)
			if !ok {
				continue
			}
			kind, _ := sec["type"].(string)
			var d int64
			if ds, ok := sec["duration"].(string); ok {
				pd, err := time.ParseDuration(ds)
				if err != nil {
					continue
				}
				d = int64(pd)
			}
			f, okF := num(sec["from"])
			t, okT := num(sec["to"])
			switch kind {
			case "const":
				if ops, ok := num(sec["ops"]); ok {
					out = append(out, constIn(ops, d)+" doc="+ref)
				}
			case "line":
				if okF && okT {
					out = append(out, lineIn(f, t, d)+" doc="+ref)
				}
			case "step":
				if st, ok := sec["step"].(int); ok && okF && okT {
					out = append(out, stepIn(f, t, int64(st), d)+" doc="+ref)
				}
			case "once":
				if tm, ok := sec["times"].(int); ok {
					out = append(out, fmt.Sprintf("kind=once times=%d doc=%s", tm, ref))
				}
			}
		}
	}
	return out
}

// c01Dims adds the dimensions that are independent of the profile's numbers: how the duration and the numbers are
// written in the config (dsp, enc), whether the schedule is told its start or takes it at the first Next()
// (start=implicit), and whether one or several consumers drain it (conc).
func c01Dims(r *rand.Rand, s string) string {
	if r.Intn(2) == 0 {
		s += " dsp=" + []string{"str", "sec", "ms", "us", "min", "str", "sec"}[r.Intn(7)]
	}
	if r.Intn(20) < 9 {
		s += " enc=" + []string{"int", "yaml", "list", "yamllist", "json"}[r.Intn(5)]
	}
	switch x := r.Intn(100); {
	case x < 2:
		s += fmt.Sprintf(" start=implicit conc=%d", 2+r.Intn(7))
	case x < 6:
		s += " start=implicit"
	case x < 14:
		s += fmt.Sprintf(" conc=%d", 2+r.Intn(7))
	}
	// the section decoded into a schedule FACTORY (the engine's `rps` option) that is called 2..4 times
	if r.Intn(25) == 0 {
		s += fmt.Sprintf(" fac=%d", 2+r.Intn(3))
	}
	// a rate of 0 may simply be left out of the section; half of these after another profile of the same kind
	if strings.Contains(s, "=0 ") && r.Intn(3) == 0 {
		s += " omit=1"
		if r.Intn(2) == 0 {
			s += " warm=1"
		}
	}
	return s
}

// c01Lazy: small leaf profiles that are never Start()ed and whose consumers all do their first Next() at the same time
// (the engine never calls Start on the rps schedule shared by the instances of a pool), each built and drained `trials`
// times; a third of them with scheduling perturbation inside the schedule's methods (inst=1), which also goes to a few
// explicitly started and step profiles.
func c01Lazy(r *rand.Rand, n int) []string {
	var out []string
	for i := 0; i < n; i++ {
		d := time.Duration(1+r.Intn(2000)) * time.Millisecond
		ops := 1 + r.Intn(120)
		rate := float64(ops) / (float64(d) / 1e9)
		var c string
		switch r.Intn(6) {
		case 0:
			c = fmt.Sprintf("kind=once times=%d", ops)
		case 1:
			c = lineIn(math.Floor(rate)+1, math.Floor(rate/2), int64(d))
		case 2:
			c = lineIn(0, math.Floor(2*rate)+1, int64(d))
		case 3:
			// the first level of a composite is started lazily by whichever instance comes first
			st := 1 + int64(rate/3)
			c = stepIn(math.Floor(rate/3)+1, math.Floor(rate/3)+1+float64(2*st), st, int64(d))
		default:
			c = constIn(math.Floor(rate)+0.5, int64(d))
		}
		conc := 2 + r.Intn(7)
		switch i % 3 {
		case 0:
			out = append(out, c+fmt.Sprintf(" start=implicit conc=%d trials=%d inst=1", conc, 24+r.Intn(16)))
		case 1:
			out = append(out, c+fmt.Sprintf(" start=implicit conc=%d trials=%d", conc, 40+r.Intn(60)))
		default:
			if r.Intn(2) == 0 {
				out = append(out, c+fmt.Sprintf(" conc=%d trials=%d inst=1", conc, 3+r.Intn(4)))
			} else {
				st := 1 + int64(rate/3)
				out = append(out, stepIn(math.Floor(rate/3), math.Floor(rate/3)+float64(2*st), st, int64(d))+fmt.Sprintf(" conc=%d trials=%d inst=1", conc, 2+r.Intn(3)))
			}
		}
	}
	return out
}

// c01Thin: step profiles of MANY levels (4..10) with FEW operations each (0..12; levels without any operation
// included), drained by 3..8 consumers — started, or never started — natively (many trials) or with scheduling
// perturbation inside the schedule's methods. A change of level is the composite's only non-trivial moment (one consumer
// starts the next level under the write lock while others wait for that lock or still see the old level); with levels
// this thin a waiting consumer can find the level it waited for already drained by the others, several levels can go by
// while it waits, and every profile has 3..9 such moments instead of 2.
func c01Thin(r *rand.Rand, n int) []string {
	var out []string
	for i := 0; i < n; i++ {
		d := []int64{250e6, 500e6, 1e9, 1e9, 40e6}[r.Intn(5)]
		from := float64(r.Intn(5)) / 2 // 0, 0.5, … 2 operations per second
		st := int64(1 + r.Intn(2))
		if d == 40e6 {
			from, st = float64(r.Intn(3))*12.5, 25 // 0, 0/1, 1, 1/2, 2 … operations per 40 ms level
		}
		levels := 4 + r.Intn(7)
		to := from + float64(st)*float64(levels-1)
		if r.Intn(3) == 0 {
			to += 0.5 // `to` is no level itself
		}
		c := stepIn(from, to, st, d)
		conc := 3 + r.Intn(6)
		switch i % 4 {
		case 0:
			c += fmt.Sprintf(" conc=%d trials=%d inst=1", conc, 6+r.Intn(6))
		case 1:
			c += fmt.Sprintf(" conc=%d trials=%d", conc, 30+r.Intn(30))
		case 2:
			c += fmt.Sprintf(" start=implicit conc=%d trials=%d inst=1", conc, 6+r.Intn(6))
		default:
			c += fmt.Sprintf(" conc=%d trials=%d inst=1 enc=%s", conc, 4+r.Intn(4), []string{"list", "json", "yaml"}[r.Intn(3)])
		}
		out = append(out, c)
	}
	return out
}

// c01Huge: profiles of more than 2^31 (up to 10^13) operations — valid configurations (a rate of 10^7/s over an hour) that
// cannot be drained here; drain=0 looks at Left() before the start (the count) and at the first operations only.
func c01Huge(r *rand.Rand, n int) []string {
	out := []string{
		"kind=once times=2147483648 drain=0", "kind=once times=4294967301 drain=0", "kind=once times=3000000000 drain=0 enc=yaml",
		constIn(3e9, 1e9) + " drain=0", constIn(2147483648.5, 1e9) + " drain=0", constIn(1e7, 3600e9) + " drain=0 dsp=str",
		lineIn(0, 1e10, 1e9) + " drain=0", lineIn(6e9, 1, 1500e6) + " drain=0",
		stepIn(1e9, 3e9, 1e9, 1e9) + " drain=0", stepIn(25e8, 3e9, 250000000, 2e9) + " drain=0 enc=list",
		"kind=once times=3000000000 drain=0 enc=json", constIn(1e7, 3600e9) + " drain=0 enc=json", stepIn(0, 9e9, 3000000000, 5e9) + " drain=0 enc=jsonlist",
	}
	for i := 0; i < n; i++ {
		d := c01Duration(r)
		secs := float64(d) / 1e9
		total := math.Ldexp(1, 31) * (1 + 4000*r.Float64()*r.Float64()) // 2^31 .. 8.6e12 operations
		if r.Intn(4) == 0 {
			total = math.Ldexp(1, 31+r.Intn(12)) + float64(r.Intn(3)) - 1
		}
		rate := total / secs
		var c string
		switch r.Intn(5) {
		case 0:
			c = fmt.Sprintf("kind=once times=%d", int64(total))
		case 1:
			c = lineIn(math.Floor(2*rate*r.Float64()), math.Floor(2*rate*r.Float64())+1, int64(d))
		case 2:
			st := int64(rate/3) + 1
			c = stepIn(math.Floor(rate/3), math.Floor(rate/3)+float64(2*st), st, int64(d))
		default:
			c = constIn(math.Floor(rate)+float64(r.Intn(2))/2, int64(d))
		}
		c += " drain=0"
		if r.Intn(3) == 0 {
			c += " enc=" + []string{"int", "yaml", "list", "json", "json", "jsonlist"}[r.Intn(6)]
		}
		if r.Intn(8) == 0 {
			c += " fac=2"
		}
		out = append(out, c)
	}
	return out
}

func c01Gen(r *rand.Rand, tier string) []string {
	n, nIll, nBorder := 4500, 1500, 200
	budget := 300000.0
	if tier == "thorough" {
		n, nIll, nBorder = 110000, 45000, 5000
		budget = 500000.0
	}
	var out []string
	docCases := c01DocCases()
	// fixed enumeration: fractional-second lines in both directions (the cea82db defect), flat, const, step
	for _, d := range []int64{500e6, 1500e6, 2500e6, 1e6, 999999999, 1000000001, 2e9} {
		for _, ft := range [][2]float64{{0, 10}, {10, 0}, {5, 50}, {100, 1}, {0, 1000}, {3, 3}} {
			out = append(out, lineIn(ft[0], ft[1], d))
		}
		out = append(out, constIn(7, d), stepIn(1, 10, 3, d))
	}
	// the same fixed profiles once more in every notation / start mode / consumer count
	for i, base := range append([]string(nil), out...) {
		out = append(out, base+" dsp="+[]string{"str", "sec", "ms", "us"}[i%4]+" enc="+[]string{"yaml", "list", "int", "yamllist"}[(i/4)%4])
		if i%3 == 0 {
			out = append(out, base+" start=implicit")
		}
		if i%3 == 1 {
			out = append(out, base+fmt.Sprintf(" conc=%d", 2+i%5))
		}
	}
	// … and decoded into a schedule factory that is called several times
	for i, base := range out[:56] {
		if i%4 == 0 {
			out = append(out, base+fmt.Sprintf(" fac=%d", 2+i%3)+[]string{"", " enc=list", " start=implicit", " conc=3"}[(i/4)%4])
		}
	}
	out = append(out, "kind=once times=7 fac=3", "kind=once times=5 fac=2 enc=yamllist")
	nHuge := 60
	if tier == "thorough" {
		nHuge = 1500
	}
	out = append(out, c01Huge(r, nHuge)...)
	out = append(out, docCases...)
	// operation indices beyond 2^24 (2·10^7 operations each)
	out = append(out, constIn(20_000_000, 1e9)+" big=1", lineIn(0, 40_000_000, 1e9)+" big=1", constIn(33_554_433, 600_000_000)+" big=1 conc=4")
	for _, b := range c01Borders(r, nBorder) {
		if r.Intn(2) == 0 {
			b = c01Dims(r, b)
		}
		out = append(out, b)
	}
	if tier == "thorough" {
		out = append(out, c01Exhaustive()...)
		// a few profiles near and beyond the token cap
		out = append(out, constIn(2_900_000, 1e9), lineIn(0, 5_000_000, 1e9), constIn(1e9, 1e6), constIn(4_000_000, 1e9),
			lineIn(1e7, 0, 1e9), constIn(1e19, 1e9), stepIn(1_000_000, 2_000_000, 1_000_000, 1e9))
	}
	withT0 := func(s string) string {
		if r.Intn(3) == 0 {
			s += fmt.Sprintf(" t0=%d", r.Int63n(4_000_000_000_000_000_000))
		}
		return c01Dims(r, s)
	}
	// many small profiles drained by 4..12 consumers: whatever goes wrong only when two consumers meet at a particular
	// point (the last operation, the change of level) has one chance per profile
	nConc := 800
	if tier == "thorough" {
		nConc = 8000
	}
	for i := 0; i < nConc; i++ {
		d := time.Duration(1+r.Intn(3000)) * time.Millisecond
		rate := float64(1+r.Intn(4000)) / (float64(d) / 1e9) // 1..4000 operations
		var c string
		switch r.Intn(4) {
		case 0:
			c = lineIn(math.Floor(rate), math.Floor(rate/2), int64(d))
		case 1:
			st := 1 + int64(rate/3)
			c = stepIn(math.Floor(rate/3), math.Floor(rate/3)+float64(2*st), st, int64(d))
		default:
			c = constIn(math.Floor(rate)+0.5, int64(d))
		}
		out = append(out, c+fmt.Sprintf(" conc=%d", 4+r.Intn(9)))
	}
	nLazy := 90
	if tier == "thorough" {
		nLazy = 900
	}
	out = append(out, c01Lazy(r, nLazy)...)
	nThin := 48
	if tier == "thorough" {
		nThin = 480
	}
	out = append(out, c01Thin(r, nThin)...)
	// rps LISTS of several profiles, with step profiles and nested lists in every position (round 6)
	nSeq := 160
	if tier == "thorough" {
		nSeq = 1600
	}
	out = append(out, c01Seq(r, nSeq)...)
	// ill-conditioned lines
	for i := 0; i < nIll; i++ {
		d := c01Duration(r)
		maxRate := budget / (float64(d) / 1e9)
		f := c01Rate(r, maxRate)
		if f == 0 {
			f = 1 + float64(r.Intn(1000))
			if f > maxRate {
				f = maxRate
			}
		}
		t := c01NearRate(r, f, maxRate)
		if r.Intn(2) == 0 {
			f, t = t, f
		}
		out = append(out, withT0(lineIn(f, t, int64(d))))
	}
	for i := 0; i < n; i++ {
		d := c01Duration(r)
		secs := float64(d) / 1e9
		maxRate := budget / secs // cap tokens per profile
		switch r.Intn(10) {
		case 0, 1, 2:
			out = append(out, withT0(constIn(c01Rate(r, maxRate), int64(d))))
		case 3, 4, 5, 6:
			out = append(out, withT0(lineIn(c01Rate(r, maxRate), c01Rate(r, maxRate), int64(d))))
		case 7, 8:
			f := float64(r.Intn(20))
			if r.Intn(3) == 0 {
				f += 0.5
			}
			if r.Intn(8) == 0 {
				f = c01Rate(r, maxRate/4)
			}
			t := f + float64(r.Intn(40))
			if r.Intn(10) == 0 {
				t = f - 1 - float64(r.Intn(3))
				if t < 0 {
					t = 0
				}
			}
			st := int64(1 + r.Intn(7))
			levels := math.Floor((t-f)/float64(st)) + 1
			if levels < 1 {
				levels = 1
			}
			if (f+t)/2*levels > maxRate || levels > 60 {
				continue
			}
			out = append(out, withT0(stepIn(f, t, st, int64(d))))
		default:
			out = append(out, withT0(fmt.Sprintf("kind=once times=%d", 1+r.Intn(500))))
		}
	}
	return out
}

// ---------------------------------------------------------------- running the real code

var importOnce sync.Once

// c01DurSpelling writes a duration the way a person would in a config file. dsp: ns (default) | str (time.Duration's
// own notation, 1m30.5s) | sec (decimal seconds, 1.5s) | ms | us | min (decimal minutes). Every spelling is checked to
// parse back to exactly d with time.ParseDuration; otherwise the ns spelling is used.
func c01DurSpelling(d int64, dsp string) string {
	ns := fmt.Sprintf("%dns", d)
	if d <= 0 {
		return ns
	}
	frac := func(unit int64, digits int, suffix string) string {
		s := fmt.Sprintf("%d.%0*d", d/unit, digits, d%unit)
		s = strings.TrimRight(s, "0")
		s = strings.TrimSuffix(s, ".")
		return s + suffix
	}
	out := ns
	switch dsp {
	case "str":
		out = time.Duration(d).String()
	case "sec":
		out = frac(1e9, 9, "s")
	case "ms":
		out = frac(1e6, 6, "ms")
	case "us":
		out = frac(1e3, 3, "us")
	case "min":
		if d%6 == 0 { // d/6e10 min has a finite decimal expansion (10 digits) exactly then
			out = strings.TrimRight(fmt.Sprintf("%d.%010d", d/6e10, (d%6e10)/6), "0")
			out = strings.TrimSuffix(out, ".") + "m"
		}
	}
	if back, err := time.ParseDuration(out); err != nil || int64(back) != d {
		return ns
	}
	return out
}

// a float64 the way it is written in YAML; ok=false when the text would not be read back as the same number
func c01YAMLNum(f float64) (string, bool) {
	if math.IsInf(f, 0) || math.IsNaN(f) {
		return "", false
	}
	s := strconv.FormatFloat(f, 'g', -1, 64)
	if f == math.Trunc(f) && math.Abs(f) < 1e15 {
		s = strconv.FormatFloat(f, 'f', -1, 64) // 10000, not 1e+04
	}
	return s, true
}

// YAML maps come back as map[interface{}]interface{}; the config decoder wants string keys (viper does the same)
func c01StrKeys(v interface{}) interface{} {
	switch x := v.(type) {
	case map[string]interface{}:
		out := map[string]interface{}{}
		for k, e := range x {
			out[strings.ToLower(k)] = c01StrKeys(e)
		}
		return out
	case map[interface{}]interface{}:
		out := map[string]interface{}{}
		for k, e := range x {
			out[strings.ToLower(fmt.Sprint(k))] = c01StrKeys(e)
		}
		return out
	case []interface{}:
		out := make([]interface{}, len(x))
		for i, e := range x {
			out[i] = c01StrKeys(e)
		}
		return out
	}
	return v
}

func c01SameNum(v interface{}, want float64) bool {
	switch x := v.(type) {
	case float64:
		return x == want
	case int:
		return float64(x) == want
	case int64:
		return float64(x) == want
	case uint64:
		return float64(x) == want
	}
	return false
}

// c01Decode builds the schedule the way a config file section does. ok=false: the configuration was rejected.
//
//	enc=map (default)  the section as a Go map with float64 rates (what a JSON config gives)
//	enc=int            whole rates as Go ints (what `ops: 10` gives in YAML)
//	enc=yaml           YAML text (numbers and durations as written by hand) parsed into the settings map, keys folded like viper does
//	enc=list           `rps: [section]`: the usual list notation, through the slice -> composite hook and NewComposite
//	enc=yamllist       both
//	enc=json           JSON text read back with encoding/json: every number (rates, times, step, a duration given as a bare
//	                   number of ns when no dsp= is set) is a float64
//	enc=jsonlist       the same inside `rps: [section]`
func c01Decode(m map[string]string) (s core.Schedule, ok bool) {
	s, _, ok = c01DecodeAs(m, false)
	return
}

// c01DecodeAs: asFactory=false decodes the section into a `core.Schedule` field (plugin.New); asFactory=true decodes it
// into a `func() (core.Schedule, error)` field — that is how the engine's instance pool takes its `rps` section
// (engine.InstancePoolConfig.NewRPSSchedule; with rps-per-instance the factory is called once per instance) — and returns
// the factory (plugin.NewFactory: the config struct is filled anew at every call).
func c01DecodeAs(m map[string]string, asFactory bool) (s core.Schedule, f func() (core.Schedule, error), ok bool) {
	importOnce.Do(func() { coreimport.Import(afero.NewMemMapFs()) })
	atoi := func(k string) int64 {
		v, err := strconv.ParseInt(m[k], 10, 64)
		if err != nil {
			panic(err)
		}
		return v
	}
	if ref := m["doc"]; ref != "" {
		root, _, ok := c01DocSection(ref)
		if !ok {
			return nil, nil, false
		}
		return c01DecodeRoot(root, asFactory)
	}
	if m["kind"] == "seq" {
		root, _ := c01SeqRoot(m)
		return c01DecodeRoot(root, asFactory)
	}
	if m["warm"] == "1" {
		// warm=1: another profile of the SAME kind, with every number different from this one's and no rate equal to zero,
		// is decoded first in this process and thrown away. A configuration means what its own section says, whatever
		// was decoded before it.
		w := map[string]string{"kind": m["kind"], "enc": m["enc"], "dsp": m["dsp"]}
		bump := func(k string, by float64) {
			if v, ok := m[k]; ok {
				f := parseRat(v)
				if f < 0 || math.IsNaN(f) || math.IsInf(f, 0) {
					f = 0
				}
				w[k] = ratOf(math.Floor(f) + by)
			}
		}
		bump("ops", 7)
		bump("from", 4)
		bump("to", 9)
		if v, err := strconv.ParseInt(m["step"], 10, 64); err == nil {
			if v < 1 {
				v = 1
			}
			w["step"] = strconv.FormatInt(v+1, 10)
		}
		if v, err := strconv.ParseInt(m["times"], 10, 64); err == nil {
			if v < 1 {
				v = 1
			}
			w["times"] = strconv.FormatInt(v+2, 10)
		}
		if v, err := strconv.ParseInt(m["dur"], 10, 64); err == nil {
			if v < 1000000 {
				v = 1000000
			}
			w["dur"] = strconv.FormatInt(v+1_000_000_000, 10)
		}
		if _, ok := c01Decode(w); !ok {
			panic("the warm-up profile was rejected")
		}
	}
	// omit=1: a rate option whose value is 0 is left out of the section (no option of these profiles is required; an
	// omitted rate is 0)
	omitZero := m["omit"] == "1"
	enc := m["enc"]
	type kvT struct {
		k string
		f float64 // rate
		i int64   // integer option
		isRate bool
	}
	var fields []kvT
	switch m["kind"] {
	case "const":
		fields = []kvT{{k: "ops", f: parseRat(m["ops"]), isRate: true}}
	case "line":
		fields = []kvT{{k: "from", f: parseRat(m["from"]), isRate: true}, {k: "to", f: parseRat(m["to"]), isRate: true}}
	case "step":
		fields = []kvT{{k: "from", f: parseRat(m["from"]), isRate: true}, {k: "to", f: parseRat(m["to"]), isRate: true}, {k: "step", i: atoi("step")}}
	case "once":
		fields = []kvT{{k: "times", i: atoi("times")}}
	default:
		panic("kind")
	}
	if omitZero {
		var kept []kvT
		for _, f := range fields {
			if !(f.isRate && f.f == 0) {
				kept = append(kept, f)
			}
		}
		fields = kept
	}
	dur := ""
	if m["kind"] != "once" {
		dur = c01DurSpelling(atoi("dur"), m["dsp"]) // a string, as in a YAML file
	}
	var root map[string]interface{}
	if enc == "yaml" || enc == "yamllist" {
		ind, first := "  ", "  "
		if enc == "yamllist" {
			ind, first = "    ", "  - "
		}
		var sb strings.Builder
		sb.WriteString("rps:\n" + first + "type: " + m["kind"] + "\n")
		okText := true
		if dur != "" {
			sb.WriteString(ind + "duration: " + dur + "\n")
		}
		for _, f := range fields {
			if f.isRate {
				t, ok := c01YAMLNum(f.f)
				okText = okText && ok
				sb.WriteString(ind + f.k + ": " + t + "\n")
			} else {
				sb.WriteString(ind + f.k + ": " + strconv.FormatInt(f.i, 10) + "\n")
			}
		}
		if okText {
			var raw map[string]interface{}
			if err := yaml.Unmarshal([]byte(sb.String()), &raw); err != nil {
				panic("yaml text of the harness is not readable: " + err.Error())
			}
			all, _ := c01StrKeys(raw).(map[string]interface{})
			// the YAML reader is not under test here: fall back to the map when a number did not survive the text form
			var sec map[string]interface{}
			switch x := all["rps"].(type) {
			case map[string]interface{}:
				sec = x
			case []interface{}:
				if len(x) == 1 {
					sec, _ = x[0].(map[string]interface{})
				}
			}
			same := sec != nil
			for _, f := range fields {
				if same && f.isRate && !c01SameNum(sec[f.k], f.f) {
					same = false
				}
			}
			if same {
				root = all
			}
		}
	}
	if root == nil {
		sec := map[string]interface{}{"type": m["kind"]}
		for _, f := range fields {
			switch {
			case !f.isRate:
				sec[f.k] = f.i
			case enc == "int" && f.f == math.Trunc(f.f) && math.Abs(f.f) < 1e15:
				sec[f.k] = int(f.f)
			default:
				sec[f.k] = f.f
			}
		}
		if dur != "" {
			sec["duration"] = dur
		}
		if (enc == "json" || enc == "jsonlist") && dur != "" && m["dsp"] == "" && atoi("dur") < 1<<53 {
			sec["duration"] = atoi("dur") // a bare JSON number is a number of nanoseconds
		}
		if enc == "list" || enc == "yamllist" || enc == "jsonlist" {
			root = map[string]interface{}{"rps": []interface{}{sec}}
		} else {
			root = map[string]interface{}{"rps": sec}
		}
		if enc == "json" || enc == "jsonlist" {
			// enc=json: the section as JSON text read back with encoding/json — EVERY number, also an integer option
			// (times, step, a duration written as a number of ns), arrives as a float64. Kept only if every integer
			// survives the text form (below 2^53) and the text is writable (no infinite rate).
			exact := true
			for _, f := range fields {
				if !f.isRate && (f.i >= 1<<53 || f.i <= -(1<<53)) {
					exact = false
				}
			}
			if text, err := json.Marshal(root); err == nil && exact {
				var back map[string]interface{}
				if err := json.Unmarshal(text, &back); err != nil {
					panic("json text of the harness is not readable: " + err.Error())
				}
				root = back
			}
		}
	}
	return c01DecodeRoot(root, asFactory)
}

func c01DecodeRoot(root map[string]interface{}, asFactory bool) (core.Schedule, func() (core.Schedule, error), bool) {
	if asFactory {
		var conf struct {
			RPS func() (core.Schedule, error) `config:"rps"`
		}
		if err := config.DecodeAndValidate(root, &conf); err != nil {
			return nil, nil, false
		}
		if conf.RPS == nil {
			panic("decoded schedule factory is nil")
		}
		return nil, conf.RPS, true
	}
	var conf struct {
		RPS core.Schedule `config:"rps"`
	}
	if err := config.DecodeAndValidate(root, &conf); err != nil {
		return nil, nil, false
	}
	if conf.RPS == nil {
		panic("decoded schedule is nil")
	}
	return conf.RPS, nil, true
}

// c01Drain is what one drained schedule showed.
type c01Drain struct {
	left0   int
	toks    []int64 // offsets from t0 (explicit start) or from the clock reading taken before the first Next() (implicit)
	fin     int64
	stable  bool
	mono    bool
	leftMid string // "" or "k:l": Left() was l after k operations of a profile whose Left() before the start was left0 != k + l
	slack   int64 // implicit start: ns between that clock reading and the return of the EARLIEST first Next(); else -1
	tooMany bool
}

// c01DrainOnce starts (or deliberately does not start) the schedule and drains it with one or several consumers.
//
// explicit start: Start(t0), offsets are relative to t0.
// implicit start: the schedule is never told its start; the first Next() takes time.Now() as the profile's start.
// Offsets are reported relative to a clock reading `before` taken before any Next(), together with the width of the
// bracket between `before` and the moment the earliest first Next() RETURNED: whatever Next() returns is start + offset,
// so the start was fixed before any call returned; the Spec places the start inside that bracket.
// conc=N: N consumers (the instances of a pool share one rps schedule, and the engine never calls Start on it) are
// released together and draw until their first ok=false; the handed-out instants are merged and sorted.
func c01DrainOnce(s core.Schedule, capN int, t0 time.Time, implicit bool, conc int) c01Drain {
	d := c01Drain{left0: s.Left(), stable: true, mono: true, slack: -1}
	if !implicit {
		s.Start(t0)
	}
	if conc > 1 {
		type res struct {
			toks  []int64
			fin   int64
			mono  bool
			over  bool
			first int64
		}
		out := make([]res, conc)
		var total int64
		var mu sync.Mutex
		var wg sync.WaitGroup
		var ready, gate int32
		var before time.Time
		panicked := make(chan string, conc)
		for g := 0; g < conc; g++ {
			wg.Add(1)
			go func(g int) {
				defer wg.Done()
				// a panic inside Next() on a consumer's goroutine is this case's observation, not the end of the driver
				defer func() {
					if p := recover(); p != nil {
						panicked <- fmt.Sprintf("%v @ %s", p, c01PanicSite())
					}
				}()
				r := res{mono: true, first: -1}
				atomic.AddInt32(&ready, 1)
				for atomic.LoadInt32(&gate) == 0 {
					runtime.Gosched()
				}
				for {
					tx, ok := s.Next()
					if implicit && r.first < 0 {
						r.first = int64(time.Since(before))
					}
					off := int64(tx.Sub(t0))
					if !ok {
						r.fin = off
						break
					}
					if len(r.toks) > 0 && off < r.toks[len(r.toks)-1] {
						r.mono = false
					}
					r.toks = append(r.toks, off)
					if len(r.toks)%4096 == 0 {
						mu.Lock()
						total += 4096
						over := total > int64(capN)
						mu.Unlock()
						if over {
							r.over = true
							break
						}
					}
				}
				out[g] = r
			}(g)
		}
		for atomic.LoadInt32(&ready) < int32(conc) {
			runtime.Gosched()
		}
		if implicit {
			before = time.Now()
			t0 = before
		}
		atomic.StoreInt32(&gate, 1)
		// a consumer that panics may leave a lock of the schedule held and the others blocked for ever: do not wait for them
		allDone := make(chan struct{})
		go func() { wg.Wait(); close(allDone) }()
		select {
		case <-allDone:
		case p := <-panicked:
			panic("consumer goroutine: " + p)
		}
		select {
		case p := <-panicked:
			panic("consumer goroutine: " + p)
		default:
		}
		for g, r := range out {
			if r.over {
				d.tooMany = true
				return d
			}
			d.toks = append(d.toks, r.toks...)
			d.mono = d.mono && r.mono
			if g == 0 {
				d.fin = r.fin
			} else if r.fin != d.fin {
				d.stable = false
			}
			if implicit && (d.slack < 0 || r.first < d.slack) {
				d.slack = r.first
			}
		}
		sort.Slice(d.toks, func(i, j int) bool { return d.toks[i] < d.toks[j] })
		if len(d.toks) > capN {
			d.tooMany = true
			return d
		}
	} else {
		if d.left0 > 0 && d.left0 <= capN {
			d.toks = make([]int64, 0, d.left0)
		}
		first := true
		for {
			var before time.Time
			if implicit && first {
				before = time.Now()
				t0 = before
			}
			tx, ok := s.Next()
			if implicit && first {
				d.slack = int64(time.Since(before))
				first = false
			}
			off := int64(tx.Sub(t0))
			if !ok {
				d.fin = off
				break
			}
			if len(d.toks) > 0 && off < d.toks[len(d.toks)-1] {
				d.mono = false
			}
			d.toks = append(d.toks, off)
			if len(d.toks) > capN {
				d.tooMany = true
				return d
			}
			// Left() while the profile is being drained (one consumer): after k operations, left0 - k are left
			if k := len(d.toks); d.leftMid == "" && (k == 1 || k == 5 || k == d.left0/2 || k == d.left0-1) {
				if l := s.Left(); l != d.left0-k {
					d.leftMid = fmt.Sprintf("%d:%d", k, l)
				}
			}
		}
	}
	for i := 0; i < 3; i++ {
		tx, ok := s.Next()
		if ok || int64(tx.Sub(t0)) != d.fin {
			d.stable = false
		}
	}
	if s.Left() != 0 {
		d.stable = false
	}
	return d
}

// c01FastForward sets the operation counter of a LEAF schedule — the field `i` of core/schedule's doAtSchedule, an
// atomic 64-bit integer (regenerated as `DoAtSt.i`) — to k, so that the next Next() hands out operation k. The schedule
// itself was built by the real decoder and constructors; only its progress is moved. false: not such a schedule (a
// composite, or the field has another representation): nothing is fast-forwarded.
func c01FastForward(s core.Schedule, k int64) bool {
	v := reflect.ValueOf(s)
	if v.Kind() != reflect.Ptr || v.IsNil() || v.Elem().Kind() != reflect.Struct {
		return false
	}
	f := v.Elem().FieldByName("i")
	if !f.IsValid() || !f.CanAddr() || f.Type().Size() != 8 {
		return false
	}
	// go.uber.org/atomic.Int64 is struct{ _ nocmp (zero size); v int64 }
	if !(f.Kind() == reflect.Int64 || (f.Kind() == reflect.Struct && f.Type().Name() == "Int64")) {
		return false
	}
	atomic.StoreInt64((*int64)(unsafe.Pointer(f.UnsafeAddr())), k)
	return true
}

// c01PanicSite: the innermost frames of github.com/yandex/pandora on the panicking goroutine's stack (function names only)
func c01PanicSite() string {
	pcs := make([]uintptr, 32)
	n := runtime.Callers(3, pcs)
	frames := runtime.CallersFrames(pcs[:n])
	var out []string
	for {
		f, more := frames.Next()
		if strings.Contains(f.Function, "github.com/yandex/pandora/") && len(out) < 3 {
			out = append(out, f.Function[strings.LastIndex(f.Function, "/")+1:])
		}
		if !more {
			break
		}
	}
	return strings.Join(out, " | ")
}

// c01Odd: does this drain differ from the reference drain of the same configuration in what it handed out (number of
// operations, their instants relative to the reported finish time), or does it show an instant before the clock
// reading that preceded every Next()? Used to pick which of `trials=K` repetitions is shown to the Spec.
func c01Odd(ref, d *c01Drain, implicit bool) bool {
	if d.tooMany != ref.tooMany || !d.stable || !d.mono || d.left0 != ref.left0 || len(d.toks) != len(ref.toks) || d.leftMid != "" {
		return true
	}
	if implicit && (d.fin < 0 || (len(d.toks) > 0 && d.toks[0] < 0)) {
		return true
	}
	for i := range d.toks {
		if d.toks[i]-d.fin != ref.toks[i]-ref.fin {
			return true
		}
	}
	return false
}

func c01Run(input string) string {
	m := drv.KV(input)
	if m["inst"] == "1" && !c01IsWorker {
		// scheduling perturbation inside the schedule's own methods: run in the instrumented build of this driver
		if obs, ok := c01RunInWorker(input); ok {
			return obs
		}
	}
	if ref := m["doc"]; ref != "" {
		if _, _, ok := c01DocSection(ref); !ok {
			return "NODOC" // replayed against a tree whose documentation has no such example
		}
	}
	capN := capTokens
	if m["big"] == "1" {
		capN = capTokensBig
	}
	t0 := time.Unix(1_700_000_000, 0)
	if v, ok := m["t0"]; ok {
		ns, err := strconv.ParseInt(v, 10, 64)
		if err != nil {
			panic(err)
		}
		t0 = time.Unix(0, ns)
	}
	implicit := m["start"] == "implicit"
	conc, _ := strconv.Atoi(m["conc"])
	trials, _ := strconv.Atoi(m["trials"])
	if trials < 1 {
		trials = 1
	}
	if trials > 4096 {
		trials = 4096
	}
	if c01IsWorker && m["inst"] == "1" {
		defer c01Perturb(input)()
	}
	// trials=K: the configuration is decoded and drained K times (a fresh schedule each time). What the Spec is shown is
	// the first repetition that differs from the first one or shows an instant before the clock reading taken before
	// any Next(); if there is none, the last repetition.
	// fac=K: the section is decoded ONCE into a schedule factory (how the engine's instance pool takes `rps`), the
	// factory is called K times (rps-per-instance: once per instance) and every schedule it returns is drained; each must
	// be the whole configured profile, whatever was made or drained before it. Shown to the Spec: like trials.
	newSched := func() (core.Schedule, bool) { return c01Decode(m) }
	if fac, _ := strconv.Atoi(m["fac"]); fac > 0 {
		if fac > 64 {
			fac = 64
		}
		_, f, ok := c01DecodeAs(m, true)
		if !ok {
			return "REJECT"
		}
		newSched = func() (core.Schedule, bool) {
			s, err := f()
			if err == nil && s == nil {
				panic("the schedule factory returned nil without an error")
			}
			return s, err == nil
		}
		if trials < fac {
			trials = fac
		}
	}
	if m["drain"] == "0" {
		// drain=0: profiles far too large to drain (more than 2^31 operations): only Left() before the start and the first
		// few operations are looked at
		s, ok := newSched()
		if !ok {
			return "REJECT"
		}
		left0 := s.Left()
		s.Start(t0)
		var sb strings.Builder
		for i := 0; i < 8 && i < left0; i++ {
			tx, ok := s.Next()
			if !ok {
				break
			}
			if i > 0 {
				sb.WriteByte(';')
			}
			fmt.Fprintf(&sb, "%d:%d", i, int64(tx.Sub(t0)))
		}
		obs := fmt.Sprintf("LEFTONLY left0=%d left1=%d toks=%s", left0, s.Left(), sb.String())
		// … and, for a leaf schedule, at operations far inside and at the very end of the profile: the operation counter
		// is fast-forwarded (c01FastForward) to the middle, to 7/8 and to the last two operations; after the last one the
		// schedule must report the end at start + duration and Left() = 0. (Operation indices beyond 2^31, 2^32, up to
		// 10^13: where a narrower integer or an integer product inside the instant's formula wraps.)
		if l := int64(left0); l > 16 && c01FastForward(s, 8) {
			var fb strings.Builder
			over := 0
			for j, k := range []int64{l / 2, l/8*7 + 1, l - 2} {
				c01FastForward(s, k)
				for q := int64(0); q < 2; q++ {
					tx, ok := s.Next()
					if !ok {
						over = -1 // the end reported before operation left0-1
						break
					}
					if j > 0 || q > 0 {
						fb.WriteByte(';')
					}
					fmt.Fprintf(&fb, "%d:%d", k+q, int64(tx.Sub(t0)))
				}
			}
			tx, ok := s.Next()
			if ok && over == 0 {
				over = 1 // an operation beyond Left() before the start
			}
			obs += fmt.Sprintf(" fftoks=%s ffover=%d fffin=%d ffleft=%d", fb.String(), over, int64(tx.Sub(t0)), s.Left())
		}
		return obs
	}
	var d, ref c01Drain
	for k := 0; k < trials; k++ {
		s, ok := newSched()
		if !ok {
			return "REJECT"
		}
		d = c01DrainOnce(s, capN, t0, implicit, conc)
		if k == 0 {
			ref = d
			if implicit && len(d.toks) > 0 && d.toks[0] < 0 || implicit && d.fin < 0 || !d.stable {
				break
			}
			continue
		}
		if c01Odd(&ref, &d, implicit) {
			break
		}
	}
	if d.tooMany {
		return "TOOMANY"
	}
	left0, toks, fin, stable, mono, slack := d.left0, d.toks, d.fin, d.stable, d.mono, d.slack
	var tmin, tmax int64 = math.MaxInt64, math.MinInt64
	for _, off := range toks {
		if off < tmin {
			tmin = off
		}
		if off > tmax {
			tmax = off
		}
	}
	n := len(toks)
	if n == 0 {
		tmin, tmax = 0, 0
	}
	// tokens shown to the Spec: the first and last 12, 24 (thorough: 64) spread deterministically, the places where the spacing
	// changes most abruptly (a local glitch), and for step profiles the tokens around every change of level
	idx := map[int]bool{}
	for i := 0; i < 12 && i < n; i++ {
		idx[i] = true
		idx[n-1-i] = true
	}
	h := int64(len(input))
	for _, c := range input {
		h = h*31 + int64(c)
	}
	rr := rand.New(rand.NewSource(h))
	spread := 24
	if drv.Tier == "thorough" {
		spread = 64
	}
	for i := 0; i < spread && n > 0; i++ {
		idx[rr.Intn(n)] = true
	}
	if n >= 3 {
		type gl struct {
			i int
			v int64
		}
		var worst [4]gl
		for i := 1; i+1 < n; i++ {
			d2 := (toks[i+1] - toks[i]) - (toks[i] - toks[i-1])
			if d2 < 0 {
				d2 = -d2
			}
			for j := range worst {
				if d2 > worst[j].v {
					copy(worst[j+1:], worst[j:len(worst)-1])
					worst[j] = gl{i, d2}
					break
				}
			}
		}
		for _, g := range worst {
			if g.v > 0 {
				idx[g.i-1], idx[g.i], idx[g.i+1] = true, true, true
			}
		}
	}
	// step: how many tokens fall into each level's time slot [j*dur, (j+1)*dur)
	parts := ""
	if m["kind"] == "seq" {
		// an rps list: how many operations fall into the time slot of each part of the flattened list
		sp, _ := c01SeqParse(m["seq"])
		parts = " parts=" + c01SeqCount(c01SeqSlots(sp), toks, func(i int) { idx[i] = true })
	}
	if m["kind"] == "step" {
		d, _ := strconv.ParseInt(m["dur"], 10, 64)
		var cnt []int
		// never Start()ed: the slots are counted from the start the profile took for itself. Every level lasts d, so the
		// reported finish time is start + levels*d and start = fin mod d as long as the start lies less than d after the
		// clock reading (the Lean driver checks that against the bracket and skips the case otherwise).
		var sest int64
		if implicit && d > 0 && fin >= 0 {
			sest = fin % d
			parts = fmt.Sprintf(" sest=%d", sest)
		}
		if d > 0 {
			for i, t := range toks {
				t -= sest
				j := int(t / d)
				if j < 0 {
					j = 0
				}
				for len(cnt) <= j && len(cnt) < 100000 {
					cnt = append(cnt, 0)
				}
				if j < len(cnt) {
					cnt[j]++
				}
				if i > 0 && (toks[i-1]-sest)/d != t/d {
					idx[i-1], idx[i] = true, true
				}
			}
		}
		var ps []string
		for _, c := range cnt {
			ps = append(ps, strconv.Itoa(c))
		}
		parts += " parts=" + strings.Join(ps, ",")
	}
	keys := make([]int, 0, len(idx))
	for i := range idx {
		if i >= 0 && i < n {
			keys = append(keys, i)
		}
	}
	sort.Ints(keys)
	var sb strings.Builder
	for j, i := range keys {
		if j > 0 {
			sb.WriteByte(';')
		}
		fmt.Fprintf(&sb, "%d:%d", i, toks[i])
	}
	b := func(x bool) int {
		if x {
			return 1
		}
		return 0
	}
	sl := ""
	if implicit {
		sl = fmt.Sprintf(" slack=%d", slack)
	}
	if d.leftMid != "" {
		sl += " leftmid=" + d.leftMid
	}
	return fmt.Sprintf("left0=%d n=%d fin=%d finstable=%d mono=%d tmin=%d tmax=%d%s%s toks=%s", left0, n, fin, b(stable), b(mono), tmin, tmax, sl, parts, sb.String())
}

func c01Class(in, obs string) string {
	m := drv.KV(in)
	if obs == "REJECT" {
		return "rejected/" + m["kind"]
	}
	if strings.HasPrefix(obs, "LEFTONLY ") {
		return m["kind"] + "/more-than-2^31-operations"
	}
	o := drv.KV(obs)
	if o["n"] == "0" || o["n"] == "" {
		return ""
	}
	if m["kind"] == "seq" {
		c := "seq/plain"
		switch {
		case strings.Contains(m["seq"], "list(") && strings.Contains(m["seq"], "step:"):
			c = "seq/nested-list+step"
		case strings.Contains(m["seq"], "list("):
			c = "seq/nested-list"
		case strings.Contains(m["seq"], "step:"):
			c = "seq/step-inside"
		}
		if m["enc"] != "" {
			c += "+" + m["enc"]
		}
		if m["conc"] != "" {
			c += "+concurrent"
		}
		if m["fac"] != "" {
			c += "+factory"
		}
		return c
	}
	d, _ := strconv.ParseInt(m["dur"], 10, 64)
	frac := "whole-seconds"
	if d%1e9 != 0 {
		frac = "fractional-seconds"
	}
	c := m["kind"] + "/" + frac
	if m["kind"] == "line" {
		f, t := parseRat(m["from"]), parseRat(m["to"])
		switch {
		case f == t:
			c += "/flat"
		case math.Abs(t-f) <= 1e-6*math.Max(f, t):
			c += "/nearly-flat"
		case f == 0 || t == 0:
			c += "/zero-end"
		case t > f:
			c += "/increasing"
		default:
			c += "/decreasing"
		}
	}
	switch {
	case m["fac"] != "":
		c += "+factory"
	case m["start"] == "implicit" && m["conc"] != "" && m["inst"] == "1":
		c += "+implicit-start-concurrent-perturbed"
	case m["start"] == "implicit" && m["conc"] != "":
		c += "+implicit-start-concurrent"
	case m["inst"] == "1":
		c += "+concurrent-perturbed"
	case m["omit"] == "1":
		c += "+omitted-zero-rate"
	case m["start"] == "implicit":
		c += "+implicit-start"
	case m["conc"] != "":
		c += "+concurrent"
	case m["enc"] == "yaml" || m["enc"] == "yamllist":
		c += "+yaml"
	case m["enc"] == "json" || m["enc"] == "jsonlist":
		c += "+json"
	}
	return c
}

func main() {
	defer c01RemoveInstrumentedWorker()
	drv.Main(&drv.Prop{
		ID:      "C01",
		Gen:     c01Gen,
		Run:     c01Run,
		Class:   c01Class,
		Workers: 16,
		Timeout: 180 * time.Second,
		Rule: "load-profile configurations decoded through the plugin registry + validation (coreimport.Import, config.DecodeAndValidate), one PRNG: " +
			"const/line/step/once; durations 1 ms, odd ns counts, k*100 ms, whole seconds, minutes, hours; rates 0, tiny, decimals, integers, adjacent floats, " +
			"as large as the token budget allows; a stream of ill-conditioned lines (ends 1..1000 ulps apart, relative slope down to 1e-15, one end (nearly) zero); " +
			"a stream at and beyond the validation border (negative rates, durations < 1 ms, step/times < 1); fixed enumeration of fractional-second lines; " +
			"independently of the numbers: the duration written as ns / 1m30.5s / decimal seconds / ms / us / minutes, the section as a Go map, with int rates, as YAML text, " +
			"as a one-element rps list (slice -> composite hook); a rate of 0 may be left out of the section (omit=1), half of those after another profile of the same kind was decoded in the process (warm=1); " +
			"6 % of the profiles are never Start()ed (the first Next() is the start; a third of them with 2..8 consumers doing their first Next() together), 8 % are drained by 2..8 concurrent consumers, plus 800 small profiles by 4..12 consumers; " +
			"90 small profiles (900 in thorough) built and drained `trials` times: never started + 2..8 consumers, a third of them and a few started/step ones in an instrumented build of the driver (go build -overlay: a scheduling point before every statement of every method of core/schedule, function literals included) where each point yields, sleeps some microseconds or does nothing; " +
			"three profiles of 2*10^7 operations (indices beyond 2^24); every const/line/step/once example of docs/{eng,rus}/load-profile.md, decoded from the documented text; thorough adds the full grid of 11 rates x 11 rates x 11 durations and small step grids. non-trivial = at least one token emitted or a rejected configuration; distinct = distinct input line",
	})
}
