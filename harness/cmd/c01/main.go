package main

// C01: sampling tie for the float64 gap. The real schedule constructors are
// drained and the emitted token offsets are handed to the executable Spec
// (lean/Pandora/Spec/C01.lean) together with the exact rational values of the
// float64 parameters.

import (
	"fmt"
	"math"
	"math/big"
	"math/rand"
	"strconv"
	"strings"
	"time"

	"verifharness/drv"

	"github.com/yandex/pandora/core"
	"github.com/yandex/pandora/core/schedule"
)

func ratOf(f float64) string {
	r := new(big.Rat)
	r.SetFloat64(f)
	if r.IsInt() {
		return r.Num().String()
	}
	return r.Num().String() + "/" + r.Denom().String()
}

func parseRat(s string) float64 {
	r, ok := new(big.Rat).SetString(s)
	if !ok {
		panic("bad rational " + s)
	}
	f, _ := r.Float64()
	return f
}

func c01Durations(r *rand.Rand) time.Duration {
	switch r.Intn(6) {
	case 0:
		return time.Duration(1+r.Intn(10)) * time.Second
	case 1:
		return time.Duration(1+r.Intn(39)) * 100 * time.Millisecond
	case 2:
		return time.Duration(1000000 + r.Int63n(20_000_000_000))
	case 3:
		return time.Millisecond * time.Duration(1+r.Intn(2000))
	case 4:
		return time.Duration(1+r.Intn(60)) * time.Minute
	default:
		return time.Duration(500+r.Intn(2500)) * time.Millisecond
	}
}

func c01Rate(r *rand.Rand, maxRate float64) float64 {
	var v float64
	switch r.Intn(7) {
	case 0:
		v = 0
	case 1:
		v = float64(r.Intn(100)) / 10
	case 2:
		v = float64(1 + r.Intn(50))
	case 3:
		v = float64(r.Intn(100000))
	case 4:
		v = math.Nextafter(float64(1+r.Intn(1000)), math.Inf(1-2*r.Intn(2)))
	case 5:
		v = r.Float64() * 1000
	default:
		v = float64(r.Intn(1000)) + 0.5
	}
	if v > maxRate {
		v = math.Floor(maxRate)
	}
	if v < 0 {
		v = 0
	}
	return v
}

func c01Gen(r *rand.Rand, tier string) []string {
	n := 1500
	if tier == "thorough" {
		n = 30000
	}
	var out []string
	// fixed enumerations first: fractional-second lines in both directions (witnesses of the fixed defect)
	for _, d := range []int64{500e6, 1500e6, 2500e6, 1e6, 999999999, 1000000001, 2e9} {
		for _, ft := range [][2]float64{{0, 10}, {10, 0}, {5, 50}, {100, 1}, {0, 1000}, {3, 3}} {
			out = append(out, fmt.Sprintf("kind=line from=%s to=%s dur=%d", ratOf(ft[0]), ratOf(ft[1]), d))
		}
		out = append(out, fmt.Sprintf("kind=const ops=%s dur=%d", ratOf(7), d))
		out = append(out, fmt.Sprintf("kind=step from=%s to=%s step=%d dur=%d", ratOf(1), ratOf(10), 3, d))
	}
	for i := 0; i < n; i++ {
		d := c01Durations(r)
		secs := float64(d) / 1e9
		maxRate := 400000 / secs // cap tokens per profile
		switch r.Intn(10) {
		case 0, 1, 2:
			out = append(out, fmt.Sprintf("kind=const ops=%s dur=%d", ratOf(c01Rate(r, maxRate)), int64(d)))
		case 3, 4, 5, 6:
			out = append(out, fmt.Sprintf("kind=line from=%s to=%s dur=%d", ratOf(c01Rate(r, maxRate)), ratOf(c01Rate(r, maxRate)), int64(d)))
		case 7, 8:
			f := float64(r.Intn(20))
			if r.Intn(3) == 0 {
				f += 0.5
			}
			t := f + float64(r.Intn(40))
			if r.Intn(10) == 0 {
				t = f - 1 - float64(r.Intn(3))
				if t < 0 {
					t = 0
				}
			}
			if t > maxRate {
				continue
			}
			st := 1 + r.Intn(7)
			out = append(out, fmt.Sprintf("kind=step from=%s to=%s step=%d dur=%d", ratOf(f), ratOf(t), st, int64(d)))
		default:
			out = append(out, fmt.Sprintf("kind=once times=%d", 1+r.Intn(500)))
		}
	}
	return out
}

func c01Build(m map[string]string) core.Schedule {
	atoi := func(k string) int64 {
		v, err := strconv.ParseInt(m[k], 10, 64)
		if err != nil {
			panic(err)
		}
		return v
	}
	switch m["kind"] {
	case "const":
		return schedule.NewConstConf(schedule.ConstConfig{Ops: parseRat(m["ops"]), Duration: time.Duration(atoi("dur"))})
	case "line":
		return schedule.NewLineConf(schedule.LineConfig{From: parseRat(m["from"]), To: parseRat(m["to"]), Duration: time.Duration(atoi("dur"))})
	case "step":
		return schedule.NewStepConf(schedule.StepConfig{From: parseRat(m["from"]), To: parseRat(m["to"]), Step: atoi("step"), Duration: time.Duration(atoi("dur"))})
	case "once":
		return schedule.NewOnceConf(schedule.OnceConfig{Times: atoi("times")})
	}
	panic("kind")
}

func c01Run(input string) string {
	m := drv.KV(input)
	s := c01Build(m)
	t0 := time.Unix(1_700_000_000, 0)
	s.Start(t0)
	const capTokens = 3_000_000
	var toks []int64
	mono := true
	var tmin, tmax int64 = math.MaxInt64, math.MinInt64
	var fin int64
	for {
		tx, ok := s.Next()
		off := int64(tx.Sub(t0))
		if !ok {
			fin = off
			break
		}
		if len(toks) > 0 && off < toks[len(toks)-1] {
			mono = false
		}
		if off < tmin {
			tmin = off
		}
		if off > tmax {
			tmax = off
		}
		toks = append(toks, off)
		if len(toks) > capTokens {
			return "TOOMANY"
		}
	}
	stable := true
	for i := 0; i < 3; i++ {
		tx, ok := s.Next()
		if ok || int64(tx.Sub(t0)) != fin {
			stable = false
		}
	}
	if len(toks) == 0 {
		tmin, tmax = 0, 0
	}
	// sample: first 12, last 12, 16 spread, deterministic in the input
	idx := map[int]bool{}
	n := len(toks)
	for i := 0; i < 12 && i < n; i++ {
		idx[i] = true
		idx[n-1-i] = true
	}
	h := int64(len(input))
	for _, c := range input {
		h = h*31 + int64(c)
	}
	rr := rand.New(rand.NewSource(h))
	for i := 0; i < 16 && n > 0; i++ {
		idx[rr.Intn(n)] = true
	}
	var sb strings.Builder
	first := true
	for i := 0; i < n; i++ {
		if idx[i] {
			if !first {
				sb.WriteByte(';')
			}
			first = false
			fmt.Fprintf(&sb, "%d:%d", i, toks[i])
		}
	}
	b := func(x bool) int {
		if x {
			return 1
		}
		return 0
	}
	return fmt.Sprintf("n=%d fin=%d finstable=%d mono=%d tmin=%d tmax=%d toks=%s", n, fin, b(stable), b(mono), tmin, tmax, sb.String())
}

func main() {
	drv.Main(&drv.Prop{
		ID:  "C01",
		Gen: c01Gen,
		Run: c01Run,
		Class: func(in, obs string) string {
			m := drv.KV(in)
			o := drv.KV(obs)
			if o["n"] == "0" || o["n"] == "" {
				return ""
			}
			d, _ := strconv.ParseInt(m["dur"], 10, 64)
			frac := "whole-seconds"
			if d%1e9 != 0 {
				frac = "fractional-seconds"
			}
			return m["kind"] + "/" + frac
		},
		Rule: "profiles drawn from one PRNG: const/line/step/once, durations whole seconds, k*100ms, random ns >= 1ms, minutes; rates 0, decimals, integers, adjacent floats; plus a fixed enumeration of fractional-second lines. non-trivial = at least one token emitted; distinct = distinct input line",
	})
}
