package main

// C16: differential correspondence driver.  One input = one scenario description (a tree, keyed by the names the
// documentation uses in HCL) + a seed for the spelling.  The harness prints the description in BOTH syntaxes itself,
// has the REAL config.ReadAmmoConfig parse both files, dumps both AmmoConfig canonically, builds the registered
// http/scenario or grpc/scenario provider from both files and dumps the ammo they deliver.
//
//	observation:  H=<dump of the HCL file's AmmoConfig | ERR>  Y=<"=" when identical to H | dump | ERR>
//	              A=<number of ammo of one pass when both providers deliver identical ammo | ERR (both refuse) | DIFF… | ->
//
// The Lean driver predicts H from the regenerated struct/tag tables (marshal + decode model) and A from SpreadNames.

import (
	"context"
	"crypto/sha1"
	"encoding/hex"
	"fmt"
	"math/rand"
	"os"
	"reflect"
	"regexp"
	"sort"
	"strconv"
	"strings"
	"time"

	"verifharness/drv"

	"github.com/spf13/afero"
	"github.com/yandex/pandora/components/providers/scenario"
	"github.com/yandex/pandora/components/providers/scenario/config"
	scenarioimport "github.com/yandex/pandora/components/providers/scenario/import"
	"github.com/yandex/pandora/core"
	"github.com/yandex/pandora/core/plugin"
	"github.com/yandex/pandora/core/plugin/pluginconfig"
	"go.uber.org/zap"
)

var memfs = afero.NewMemMapFs()

// data files every description may point to (created once, before any case runs)
var dataFiles = map[string]string{
	"users.csv":         "user_id,name,pass\n1,John,secret\n2,Jack,qwerty\n3,Jim,12345\n",
	"data/items.csv":    "id;title\n10;first item\n20;second item\n",
	"data/pipe.csv":     "a|b|c\nx|y|z\n",
	"filter.json":       `{"data":[{"id":1,"name":"user1"},{"id":2,"name":"user2"}],"flag":true}`,
	"data/array.json":   `[{"id":"a"},{"id":"b"}]`,
	"данные/список.csv": "k,v\nключ,значение\n",
}

func setup() {
	for name, content := range dataFiles {
		if err := afero.WriteFile(memfs, name, []byte(content), 0o644); err != nil {
			panic(err)
		}
	}
	scenarioimport.Import(memfs)
	pluginconfig.AddHooks()
	// compile the decode hooks once, single-threaded (core/config compiles them lazily without a lock)
	_ = afero.WriteFile(memfs, "warmup/a.yaml", []byte("requests: []\n"), 0o644)
	_, _ = config.ReadAmmoConfig(memfs, "warmup/a.yaml")
}

// ---------------------------------------------------------------- running one case

func caseDir(input string) string {
	h := sha1.Sum([]byte(input))
	return "case/" + hex.EncodeToString(h[:8])
}

var debug = os.Getenv("C16_DEBUG") != ""

func readCfg(path string) (string, *config.AmmoConfig) {
	cfg, err := config.ReadAmmoConfig(memfs, path)
	if debug {
		b, _ := afero.ReadFile(memfs, path)
		fmt.Fprintf(os.Stderr, "---- %s\n%s---- err: %v\n", path, b, err)
	}
	if err != nil || cfg == nil {
		return "ERR", nil
	}
	// Locals is the documented YAML-only helper (anchors live there); no decoder reads it
	return dumpValue(cfg, "Locals"), cfg
}

var providerType = reflect.TypeOf((*core.Provider)(nil)).Elem()

// digestOf: name@min_waiting_time_ms[step:sleep_ms,...] of one scenario ammo (names in hex)
func digestOf(a any) string {
	v := reflect.ValueOf(a)
	for v.Kind() == reflect.Ptr || v.Kind() == reflect.Interface {
		v = v.Elem()
	}
	ms := func(f reflect.Value) string { return strconv.FormatInt(f.Int()/int64(time.Millisecond), 10) }
	steps := v.FieldByName("Requests")
	if !steps.IsValid() {
		steps = v.FieldByName("Calls")
	}
	parts := make([]string, steps.Len())
	for i := range parts {
		st := steps.Index(i)
		parts[i] = hexs(st.FieldByName("Name").String()) + ":" + ms(st.FieldByName("Sleep"))
	}
	return hexs(v.FieldByName("Name").String()) + "@" + ms(v.FieldByName("MinWaitingTime")) + "[" + strings.Join(parts, ",") + "]"
}

// rle: consecutive equal entries are written once with a repeat count
func rle(xs []string) string {
	var out []string
	for i := 0; i < len(xs); {
		j := i
		for j < len(xs) && xs[j] == xs[i] {
			j++
		}
		out = append(out, xs[i]+"x"+strconv.Itoa(j-i))
		i = j
	}
	return strings.Join(out, ";")
}

// ammoOf builds the registered provider for the file and returns the dumps and the digests of the ammo of one pass
func ammoOf(kind, path string) ([]string, []string, bool) {
	p, err := plugin.New(providerType, kind, func(conf interface{}) error {
		c, ok := conf.(*scenario.ProviderConfig)
		if !ok {
			return fmt.Errorf("unexpected provider config %T", conf)
		}
		c.File = path
		c.Passes = 1
		return nil
	})
	if err != nil {
		if debug {
			fmt.Fprintf(os.Stderr, "---- provider %s: %v\n", path, err)
		}
		return nil, nil, false
	}
	prov := p.(core.Provider)
	ctx, cancel := context.WithTimeout(context.Background(), 10*time.Second)
	defer cancel()
	done := make(chan error, 1)
	go func() { done <- prov.Run(ctx, core.ProviderDeps{Log: zap.NewNop(), PoolID: "c16"}) }()
	var out, dig []string
	for {
		a, ok := prov.Acquire()
		if !ok {
			break
		}
		out = append(out, dumpValue(a, "ID"))
		dig = append(dig, digestOf(a))
		prov.Release(a)
		if len(out) > 100000 {
			cancel()
			break
		}
	}
	<-done
	return out, dig, true
}

// runCase with its own two-stage watchdog: a case normally takes milliseconds; one that has not finished after
// softLimit is given until hardLimit (a loaded or cold machine), and when it still has not finished the observation is
// SLOW, which the model driver counts as `skip:inconclusive-timeout` — never as a failure (the framework's own HANG
// limit is set above hardLimit)
const (
	softLimit = 20 * time.Second
	hardLimit = 150 * time.Second
)

func runCase(input string) string {
	done := make(chan string, 1)
	go func() {
		defer func() {
			if r := recover(); r != nil {
				done <- "PANIC " + drv.Clean(fmt.Sprint(r))
			}
		}()
		done <- runCase1(input)
	}()
	select {
	case o := <-done:
		return o
	case <-time.After(softLimit):
	}
	select {
	case o := <-done:
		return o
	case <-time.After(hardLimit - softLimit):
		return "SLOW no result within " + hardLimit.String()
	}
}

var bigCount = regexp.MustCompile(`[0-9]{6,}`)

// tooLarge: the ammo list of the description would have millions of entries (a weight or a step multiplier of six or
// more digits; 20-digit numbers overflow strconv.Atoi and are refused, which is cheap): not run
func tooLarge(d *Node) bool {
	scs := d.get("scenario")
	if scs == nil {
		return false
	}
	for _, sc := range scs.L {
		if w := sc.get("weight"); w != nil && w.K == 'i' && w.I > 100000 {
			return true
		}
		if rs := sc.get("requests"); rs != nil {
			for _, x := range rs.L {
				for _, run := range bigCount.FindAllString(x.S, -1) {
					if len(run) <= 19 {
						return true
					}
				}
			}
		}
	}
	return false
}

func runCase1(input string) string {
	m := drv.KV(input)
	d, err := decodeTree(m["d"])
	if err != nil {
		return "BADINPUT " + err.Error()
	}
	if tooLarge(d) {
		return "SLOW not run: the ammo list would have millions of entries"
	}
	sx, _ := strconv.ParseInt(m["sx"], 10, 64)
	fancy := 0
	switch sx % 3 {
	case 1:
		fancy = 30
	case 2:
		fancy = 60
	}
	var hclText string
	if m["hx"] == "1" {
		// corpus line that spells the HCL side explicitly: the file is printed from the lb/hb syntax tree
		hclText, err = printHCLFromAST(m["lb"], m["hb"])
		if err != nil {
			return "BADINPUT " + err.Error()
		}
	} else {
		hf := printHCL(d, rand.New(rand.NewSource(sx)), fancy)
		if want, ok := m["hb"]; ok && (want != hf.hb || m["lb"] != hf.lb) {
			// the input carries the syntax tree of the HCL spelling (the Lean model evaluates it): it must be the one printed
			return "BADINPUT the lb/hb tokens are not the spelling that sx selects"
		}
		hclText = hf.text
	}
	yamlText, _ := printYAML(d, rand.New(rand.NewSource(sx+1)), fancy)
	dir := caseDir(input)
	hp, yp := dir+"/ammo.hcl", dir+"/ammo.yaml"
	if err := afero.WriteFile(memfs, hp, []byte(hclText), 0o644); err != nil {
		panic(err)
	}
	if err := afero.WriteFile(memfs, yp, []byte(yamlText), 0o644); err != nil {
		panic(err)
	}
	defer func() { _ = memfs.RemoveAll(dir) }()

	if pre := m["pre"]; identRe.MatchString(pre) {
		// another, valid, file that defines the local `pre` is parsed first: nothing of it may be visible afterwards
		pp := dir + "/prelude.hcl"
		text := "locals {\n  " + pre + " = \"defined by another file\"\n}\nrequest \"p\" {\n  method = \"GET\"\n  uri = local." + pre + "\n  headers = {}\n}\nscenario \"s\" {\n  requests = [\"p\"]\n}\n"
		if err := afero.WriteFile(memfs, pp, []byte(text), 0o644); err != nil {
			panic(err)
		}
		if d, _ := readCfg(pp); d == "ERR" {
			return "BADINPUT the prelude file is refused"
		}
	}

	hd, hcfg := readCfg(hp)
	yd, ycfg := readCfg(yp)
	ytok := yd
	if yd == hd {
		ytok = "="
	} else if hcfg != nil && ycfg != nil {
		ytok = yd + " D=" + firstDiff(hd, yd)
	}
	atok := "-"
	if hcfg != nil && ycfg != nil {
		kind := "http/scenario"
		if len(hcfg.Requests) == 0 && len(hcfg.Calls) > 0 {
			kind = "grpc/scenario"
		}
		ha, hdig, hok := ammoOf(kind, hp)
		ya, _, yok := ammoOf(kind, yp)
		switch {
		case !hok && !yok:
			atok = "ERR"
		case hok != yok:
			atok = fmt.Sprintf("DIFF:accept:hcl=%v,yaml=%v", hok, yok)
		case len(ha) != len(ya):
			atok = fmt.Sprintf("DIFF:count:%d/%d", len(ha), len(ya))
		default:
			atok = strconv.Itoa(len(ha)) + ":" + rle(hdig)
			for i := range ha {
				if ha[i] != ya[i] {
					atok = fmt.Sprintf("DIFF:ammo%d:%s", i, firstDiff(ha[i], ya[i]))
					break
				}
			}
		}
	}
	return "H=" + hd + " Y=" + ytok + " A=" + atok
}

func class(input, obs string) string {
	m := drv.KV(input)
	d, err := decodeTree(m["d"])
	if err != nil {
		return ""
	}
	var parts []string
	if l := d.get("call"); l != nil && len(l.L) > 0 {
		parts = append(parts, "grpc")
	}
	if l := d.get("request"); l != nil && len(l.L) > 0 {
		parts = append(parts, "http")
	}
	if len(parts) == 0 {
		return ""
	}
	sx, _ := strconv.ParseInt(m["sx"], 10, 64)
	if m["mal"] == "3" {
		parts = append(parts, "broken-"+m["bk"])
	} else if m["fm"] != "" {
		parts = append(parts, "function-matrix")
	} else if m["hx"] == "1" {
		parts = append(parts, "explicit-hcl")
	} else if sx%3 != 0 {
		hf := printHCL(d, rand.New(rand.NewSource(sx)), int(sx%3)*30)
		if len(hf.fns) > 0 {
			parts = append(parts, "locals+functions")
		}
		if hf.redef > 0 {
			parts = append(parts, "local-redefined")
		}
		if hf.bare > 0 {
			parts = append(parts, "bare-number")
		}
		if hf.idx > 0 {
			parts = append(parts, "local-member")
		}
	}
	switch m["mal"] {
	case "1":
		parts = append(parts, "malformed")
	case "2":
		parts = append(parts, "odd-steps")
	}
	if strings.Contains(obs, " A=ERR") {
		parts = append(parts, "ammo-refused")
	}
	if strings.HasPrefix(obs, "H=ERR") {
		parts = append(parts, "rejected")
	}
	return strings.Join(parts, "|")
}

// ---------------------------------------------------------------- generator

type gen struct {
	r *rand.Rand
}

func (g *gen) pick(xs []string) string { return xs[g.r.Intn(len(xs))] }
func (g *gen) chance(pct int) bool     { return g.r.Intn(100) < pct }

var (
	wordsURI    = []string{"/auth", "/list", "/order?x=1&y=2", "/items/{{.request.list_req.postprocessor.item_id}}", "/search?q=a b&lang=ru", "/", "/путь/к/ресурсу", "/a#frag"}
	wordsMethod = []string{"GET", "POST", "PUT", "DELETE", "PATCH", "HEAD", "get"}
	wordsBody   = []string{
		"{\"user_id\":  {{.request.auth_req.preprocessor.user_id}}}\n",
		"{\"item_id\": {{.request.order_req.preprocessor.item_id}}}",
		"<body/>", "a=1&b=2", "line1\nline2\n", "line1\n  indented: yes\nline3", "", "{}", "[1, 2, 3]", "multi\n\nblank line\n",
		"text with trailing spaces  \nnext\n", "tab\tseparated\tvalues\n", "crlf\r\nline\r\n",
	}
	wordsHeaderK = []string{"Content-Type", "Useragent", "Authorization", "X-Trace-ID", "Accept", "x-lower", "Cookie", "Host"}
	wordsHeaderV = []string{"application/json", "Yandex", "Bearer {{.request.auth_req.postprocessor.token}}", "text/html; charset=utf-8", "*/*", "a=b; c=d", "{{.source.variables.header}}", "gzip, deflate"}
	wordsVarK    = []string{"user_id", "token", "item_id", "traceID", "auth", "data", "new_var", "h"}
	wordsVarV    = []string{"source.users[next].user_id", "request.list_req.postprocessor.result[rand].itemId", "$.auth_key", "$.items[0]", "//div[@class='data']", "Content-Type|upper", "Authorization|lower|replace(=,)|substr(6)", "Http-Authorization", "source.var_name[next].0"}
	wordsTag     = []string{"auth", "list", "order", "tag", "case 1", ""}
	wordsCall    = []string{"target.TargetService.Auth", "target.TargetService.List", "pkg.Svc/Method"}
	wordsPayload = []string{
		"{\"login\": \"{{.request.auth_req.preprocessor.user.login}}\", \"pass\": \"{{.request.auth_req.preprocessor.user.pass}}\"}\n",
		"{\"user_id\": {{.request.auth_req.postprocessor.userId}}, \"token\": \"{{.request.auth_req.postprocessor.token}}\"}",
		"{}", "",
	}
	// strings that YAML 1.1 re-types or mis-parses when they are written bare
	wordsYAML = []string{"N", "n", "y", "Y", "yes", "No", "on", "OFF", "true", "False", "null", "Null", "~", "007", "0o17", "0x1F",
		"1e3", "1_000", "12:30:45", "1:20", "2001-01-01", "2001-12-14t21:59:43.10-05:00", ".inf", "-.INF", ".NaN", "+1", "-1", "3.14",
		"-", "- x", "? x", ": x", "a: b", "a:b", "x #c", "#x", "{a}", "[a]", "*a", "&a", "!a", "!!str x", "|", ">", "|-", "%a", "@a", "`a",
		"'", "\"", "a'b\"c", "\\", "a\\nb", "\\x41", "=", "<<", "...", "---", "--- x", ",", "a, b", "k: [v", "}", "]"}
	wordsSpace = []string{"", " ", "  two  ", " lead", "trail ", "\ttab", "a\tb", "x\n", "x\n\n", "\nx", "a\nb", "a\r\nb", "a\rb",
		"line1\n  line2\n", "a \nb", "a\n b", "\n", " \n ", "a\n\nb\n"}
	// (a string that is exactly one ${...} placeholder is a config-variable reference for core/config: both front-ends
	// refuse it for *string / interface targets; corpus only)
	wordsHCL = []string{"x${y}", "%{if}", "a${b}c", "$", "%", "$x", "{", "}", "${", "%{", "a$", "100%", "${a}${b}", "$(x)"}
	// map keys
	wordsKey = []string{"Content-Type", "X-Trace-ID", "user_id", "token", "a.b", "with space", "N", "true", "007", "~", "null", "yes",
		"k:v", "k: v", "k#", "k #c", "-dash", "'q'", "\"dq\"", "{x}", "[y]", "*", "&amp", "!bang", "%", "@at", "=", "a=b", "1e3", "?",
		"- item", "a,b", "\\", "tab\tkey", "trail ", " lead", "a${x}", "UPPER", "upper"}
	dataCSV   = []string{"users.csv", "data/items.csv", "data/pipe.csv", "данные/список.csv"}
	dataJSON  = []string{"filter.json", "data/array.json"}
	delims    = []string{",", ";", "|"}
	fieldPool = []string{"user_id", "name", "pass", "id", "title", "user id", "", "поле", "N", "007"}
)

func uni() []string {
	ls, ps, nel, bom, nbsp, zw := string(rune(0x2028)), string(rune(0x2029)), string(rune(0x85)), string(rune(0xfeff)), string(rune(0xa0)), string(rune(0x200b))
	return []string{"привет мир", "日本語テキスト", "emoji \U0001F600 end", "é", "é", "zero" + zw + "width", "nb" + nbsp + "sp", "line" + ls + "sep",
		"para" + ps + "sep", "next" + nel + "line", bom + "bom", "end" + bom, "שלום", "مرحبا", "Ünïcödé", "tab\tи\nперенос", ls, nel + "x", "a" + ls + "\nb"}
}

var wordsUni = uni()

var alphabet = append([]string{" ", "  ", "\t", "\n", "\r", "\r\n", "\"", "'", "\\", ":", ": ", " #", "#", "-", "- ", "--", "---", "...", "?", "? ", ",", "{", "}", "[", "]",
	"&", "*", "!", "!!", "|", ">", "%", "@", "`", "<", "<<", "=", "~", "$", "${", "%{", "a", "b", "Z", "0", "7", "1e3", "x", "y", "N", "true", "null", ".", "_", "/", "+", "é", "я", "語"},
	string(rune(0x2028)), string(rune(0x2029)), string(rune(0x85)), string(rune(0xfeff)), string(rune(0xa0)), string(rune(0x200b)), string(rune(0x1F600)), string(rune(0x7f)), string(rune(0x1b)), string(rune(0x01)))

// nasty: a random concatenation of characters that matter to YAML or HCL
func (g *gen) nasty() string {
	n := 1 + g.r.Intn(6)
	var b strings.Builder
	for i := 0; i < n; i++ {
		b.WriteString(g.pick(alphabet))
	}
	return b.String()
}

// a value that is exactly one ${...} placeholder is a config-variable reference for core/config (VariableInjectHook):
// for *string / interface targets both front-ends refuse it, which the model does not predict; corpus only
var placeholderRe = regexp.MustCompile(`^\$\{[^{}]+\}$`)

func (g *gen) str(base []string) string {
	s := g.str0(base)
	if placeholderRe.MatchString(strings.TrimSpace(s)) {
		return "x" + s
	}
	return s
}

// str0: a string for a free-text field; base = realistic values of that field
func (g *gen) str0(base []string) string {
	switch x := g.r.Intn(100); {
	case x < 42:
		return g.pick(base)
	case x < 50:
		return g.nasty()
	case x < 70:
		return g.pick(wordsYAML)
	case x < 82:
		return g.pick(wordsUni)
	case x < 92:
		return g.pick(wordsSpace)
	case x < 96:
		return g.pick(wordsHCL)
	default:
		return g.pick(base) + g.pick(wordsYAML) + g.pick(wordsUni)
	}
}

func (g *gen) smap(keys, vals []string, maxN int) *Node {
	n := g.r.Intn(maxN + 1)
	var m []KV
	seen := map[string]bool{}
	for i := 0; i < n; i++ {
		k := g.pick(keys)
		if g.chance(35) {
			k = g.pick(wordsKey)
		} else if g.chance(8) {
			k = g.pick(wordsUni)
		} else if g.chance(8) {
			k = g.nasty()
		}
		if seen[k] || k == "<<" {
			continue
		}
		seen[k] = true
		m = append(m, KV{k, nStr(g.str(vals))})
	}
	return nMap(m)
}

func (g *gen) strs(base []string, maxN int) *Node {
	n := g.r.Intn(maxN + 1)
	var l []string
	for i := 0; i < n; i++ {
		l = append(l, g.str(base))
	}
	if g.chance(20) {
		sort.Strings(l)
	}
	return nStrs(l)
}

func (g *gen) shuffle(m []KV) []KV {
	g.r.Shuffle(len(m), func(i, j int) { m[i], m[j] = m[j], m[i] })
	return m
}

func (g *gen) source(i int) *Node {
	name := fmt.Sprintf("src%d", i)
	if g.chance(15) {
		name = g.pick([]string{"users", "filter_src", "variables", "global", "источник", "N", "007"}) + strconv.Itoa(i)
	}
	var m []KV
	switch g.r.Intn(3) {
	case 0:
		m = append(m, KV{"name", nStr(name)}, KV{"type", nStr("file/csv")}, KV{"file", nStr(g.pick(dataCSV))})
		if g.chance(60) {
			m = append(m, KV{"fields", g.strs(fieldPool, 4)})
		}
		if g.chance(60) {
			m = append(m, KV{"ignore_first_line", nBool(g.chance(60))})
		}
		if g.chance(50) {
			m = append(m, KV{"delimiter", nStr(g.pick(delims))})
		}
	case 1:
		m = append(m, KV{"name", nStr(name)}, KV{"type", nStr("file/json")}, KV{"file", nStr(g.pick(dataJSON))})
	default:
		m = append(m, KV{"name", nStr(name)}, KV{"type", nStr("variables")})
		if g.chance(90) {
			m = append(m, KV{"variables", g.smap([]string{"header", "host", "port", "b"}, []string{"yandex", "localhost", "8090", "s", "true", "3.5"}, 4)})
		}
	}
	return nMap(append(m[:2], g.shuffle(m[2:])...))
}

func (g *gen) reqPost() *Node {
	var m []KV
	switch g.r.Intn(4) {
	case 0, 1:
		m = append(m, KV{"type", nStr(g.pick([]string{"var/jsonpath", "var/xpath", "var/header"}))})
		if g.chance(90) {
			m = append(m, KV{"mapping", g.smap(wordsVarK, wordsVarV, 3)})
		}
	default:
		m = append(m, KV{"type", nStr("assert/response")})
		if g.chance(50) {
			m = append(m, KV{"headers", g.smap(wordsHeaderK, []string{"json", "application/json", "gzip"}, 2)})
		}
		if g.chance(50) {
			m = append(m, KV{"body", g.strs([]string{"token", "key", "\"ok\": true"}, 3)})
		}
		if g.chance(50) {
			sc := g.pick2([]int{200, 201, 404, 0, 500})
			if g.chance(40) {
				sc = 100 + g.r.Intn(500)
			}
			m = append(m, KV{"status_code", nInt(int64(sc))})
		}
		if g.chance(50) {
			m = append(m, KV{"size", nMap(g.shuffle([]KV{{"val", nInt(int64(g.r.Intn(20000)))}, {"op", nStr(g.pick([]string{"eq", "=", "lt", "<", "gt", ">"}))}}))})
		}
	}
	return nMap(append(m[:1], g.shuffle(m[1:])...))
}

func (g *gen) pick2(xs []int) int { return xs[g.r.Intn(len(xs))] }

func (g *gen) request(name string) *Node {
	m := []KV{{"name", nStr(name)}, {"method", nStr(g.str(wordsMethod))}, {"uri", nStr(g.str(wordsURI))},
		{"headers", g.smap(wordsHeaderK, wordsHeaderV, 4)}}
	if g.chance(50) {
		m = append(m, KV{"tag", nStr(g.str(wordsTag))})
	}
	if g.chance(60) {
		m = append(m, KV{"body", nStr(g.str(wordsBody))})
	}
	if g.chance(50) {
		m = append(m, KV{"preprocessor", nMap([]KV{{"mapping", g.smap(wordsVarK, wordsVarV, 3)}})})
	}
	if g.chance(60) {
		n := 1 + g.r.Intn(3)
		var l []*Node
		for i := 0; i < n; i++ {
			l = append(l, g.reqPost())
		}
		m = append(m, KV{"postprocessor", nList(l)})
	}
	if g.chance(40) {
		m = append(m, KV{"templater", nMap([]KV{{"type", nStr(g.pick([]string{"text", "html"}))}})})
	}
	return nMap(append(m[:1], g.shuffle(m[1:])...))
}

func (g *gen) call(name string) *Node {
	m := []KV{{"name", nStr(name)}, {"call", nStr(g.str(wordsCall))}, {"payload", nStr(g.str(wordsPayload))}}
	if g.chance(50) {
		m = append(m, KV{"tag", nStr(g.str(wordsTag))})
	}
	if g.chance(60) {
		m = append(m, KV{"metadata", g.smap([]string{"metadata", "authorization", "x-id"}, []string{"server.proto", "Bearer {{.request.auth_req.postprocessor.token}}", "1"}, 3)})
	}
	if g.chance(50) {
		n := 1 + g.r.Intn(2)
		var l []*Node
		for i := 0; i < n; i++ {
			l = append(l, nMap([]KV{{"type", nStr("prepare")}, {"mapping", g.smap(wordsVarK, wordsVarV, 3)}}))
		}
		m = append(m, KV{"preprocessor", nList(l)})
	}
	if g.chance(50) {
		n := 1 + g.r.Intn(2)
		var l []*Node
		for i := 0; i < n; i++ {
			pm := []KV{{"type", nStr("assert/response")}}
			if g.chance(60) {
				pm = append(pm, KV{"payload", g.strs([]string{"token", "result", "\"ok\""}, 3)})
			}
			if g.chance(60) {
				pm = append(pm, KV{"status_code", nInt(int64(g.pick2([]int{200, 0, 14, 404, 1 + g.r.Intn(16), 100 + g.r.Intn(500)})))})
			}
			l = append(l, nMap(append(pm[:1], g.shuffle(pm[1:])...)))
		}
		m = append(m, KV{"postprocessor", nList(l)})
	}
	return nMap(append(m[:1], g.shuffle(m[1:])...))
}

func (g *gen) scenario(name string, steps []string) *Node {
	m := []KV{{"name", nStr(name)}}
	if g.chance(55) {
		m = append(m, KV{"weight", nInt(int64(g.pick2([]int{1, 2, 3, 4, 6, 10, 50, 0, 100, 7, 9, 15, 33})))})
	}
	if g.chance(55) {
		mwt := int64(g.pick2([]int{10, 1000, 0, 250, 1}))
		if g.chance(50) {
			mwt = int64(g.r.Intn(100000))
		}
		m = append(m, KV{"min_waiting_time", nInt(mwt)})
	}
	var reqs []string
	n := 1 + g.r.Intn(5)
	for i := 0; i < n; i++ {
		s := g.pick(steps)
		switch g.r.Intn(5) {
		case 0:
			reqs = append(reqs, s)
		case 1:
			reqs = append(reqs, fmt.Sprintf("%s(%d)", s, 1+g.r.Intn(3)))
		case 2:
			reqs = append(reqs, fmt.Sprintf("%s(%d, %d)", s, 1+g.r.Intn(3), g.r.Intn(200)))
		case 3:
			reqs = append(reqs, s, fmt.Sprintf("sleep(%d)", g.r.Intn(300)))
		default:
			reqs = append(reqs, " "+s+" ( 2 ) ")
		}
	}
	m = append(m, KV{"requests", nStrs(reqs)})
	return nMap(append(m[:1], g.shuffle(m[1:])...))
}

// describe: one mostly-valid description
func (g *gen) describe() *Node {
	grpc := g.chance(40)
	var top []KV
	if ns := g.r.Intn(4); ns > 0 {
		var l []*Node
		for i := 0; i < ns; i++ {
			l = append(l, g.source(i))
		}
		top = append(top, KV{"variable_source", nList(l)})
	}
	nsteps := 1 + g.r.Intn(4)
	var names []string
	var steps []*Node
	for i := 0; i < nsteps; i++ {
		name := g.pick([]string{"auth_req", "list_req", "order_req", "mainpage", "req", "шаг"}) + strconv.Itoa(i)
		names = append(names, name)
		if grpc {
			steps = append(steps, g.call(name))
		} else {
			steps = append(steps, g.request(name))
		}
	}
	if grpc {
		top = append(top, KV{"call", nList(steps)})
	} else {
		top = append(top, KV{"request", nList(steps)})
		if g.chance(10) {
			// a file may describe both kinds; the http provider ignores the calls
			top = append(top, KV{"call", nList([]*Node{g.call("unused_call")})})
		}
	}
	// a step that no scenario uses may carry any name
	if g.chance(15) {
		odd := g.str([]string{"odd name", "a(b)", "sleep"})
		if grpc {
			top[len(top)-1].V.L = append(top[len(top)-1].V.L, g.call(odd))
		} else {
			for i := range top {
				if top[i].K == "request" {
					top[i].V.L = append(top[i].V.L, g.request(odd))
				}
			}
		}
	}
	nsc := 1 + g.r.Intn(3)
	var scs []*Node
	for i := 0; i < nsc; i++ {
		scs = append(scs, g.scenario(g.pick([]string{"scenario_name", "scenario_", "сценарий ", "s"})+strconv.Itoa(i), names))
	}
	top = append(top, KV{"scenario", nList(scs)})
	return nMap(g.shuffle(top))
}

// mutate: make the description wrong in a way BOTH front-ends must refuse (or both accept)
func (g *gen) mutate(d *Node) {
	all := func(key string) []*Node {
		if l := d.get(key); l != nil {
			return l.L
		}
		return nil
	}
	set := func(n *Node, k string, v *Node) {
		for i := range n.M {
			if n.M[i].K == k {
				n.M[i].V = v
				return
			}
		}
		n.M = append(n.M, KV{k, v})
	}
	reqs, calls, scs, srcs := all("request"), all("call"), all("scenario"), all("variable_source")
	switch g.r.Intn(9) {
	case 0:
		if len(reqs) > 0 {
			set(reqs[0], "postprocessor", nList([]*Node{nMap([]KV{{"type", nStr("var/unknown")}, {"mapping", nMap([]KV{{"a", nStr("b")}})}})}))
			return
		}
	case 1:
		if len(reqs) > 0 {
			set(reqs[0], "postprocessor", nList([]*Node{nMap([]KV{{"type", nStr("var/header")}, {"body", nStrs([]string{"x"})}})}))
			return
		}
	case 2:
		if len(reqs) > 0 {
			set(reqs[0], "postprocessor", nList([]*Node{nMap([]KV{{"type", nStr("assert/response")}, {"size", nMap([]KV{{"val", nInt(5)}, {"op", nStr("~=")}})}})}))
			return
		}
	case 3:
		if len(reqs) > 0 {
			set(reqs[0], "templater", nMap([]KV{{"type", nStr("xml")}}))
			return
		}
	case 4:
		if len(srcs) > 0 {
			set(srcs[0], "type", nStr("file/json"))
			set(srcs[0], "file", nStr("filter.json"))
			set(srcs[0], "fields", nStrs([]string{"a"}))
			return
		}
	case 5:
		if len(calls) > 0 {
			set(calls[0], "postprocessor", nList([]*Node{nMap([]KV{{"type", nStr("assert/body")}})}))
			return
		}
	case 6:
		if len(calls) > 0 {
			set(calls[0], "preprocessor", nList([]*Node{nMap([]KV{{"type", nStr("prepare2")}, {"mapping", nMap(nil)}})}))
			return
		}
	case 7:
		if len(reqs) > 0 {
			set(reqs[0], "postprocessor", nList([]*Node{nMap([]KV{{"type", nStr("assert/response")}, {"size", nMap([]KV{{"val", nInt(-1)}, {"op", nStr("eq")}})}})}))
			return
		}
	}
	if len(scs) > 0 {
		set(scs[0], "requests", nStrs([]string{g.pick([]string{"no_such_step", "sleep(10)", "req(", "req(x)", "req)"})}))
	}
}

// oddSteps: perturb the scenarios / step references in ways the ammo decoders (scenario/http, scenario/grpc
// decodeAmmo, config.ParseShootName, config.SpreadNames) must treat alike for both files; the Lean ammo model predicts
// the outcome (refusal or the exact ammo sequence)
func (g *gen) oddSteps(d *Node) {
	scs := d.get("scenario")
	if scs == nil || len(scs.L) == 0 {
		return
	}
	steps := d.get("request")
	if steps == nil || len(steps.L) == 0 {
		steps = d.get("call")
	}
	if steps == nil || len(steps.L) == 0 {
		return
	}
	stepName := func() string { return steps.L[g.r.Intn(len(steps.L))].get("name").S }
	set := func(n *Node, k string, v *Node) {
		for i := range n.M {
			if n.M[i].K == k {
				n.M[i].V = v
				return
			}
		}
		n.M = append(n.M, KV{k, v})
	}
	sc := scs.L[g.r.Intn(len(scs.L))]
	reqs := sc.get("requests")
	var cur []string
	if reqs != nil {
		for _, x := range reqs.L {
			cur = append(cur, x.S)
		}
	}
	s := stepName()
	switch g.r.Intn(12) {
	case 0:
		odd := []string{s + "(", s + ")", s + "(x)", s + "(2,x)", s + "(1)(2)", s + "(2))", "(2)", s + "(2.5)", s + "(1_0)", s + "(0x2)", s + "( 2"}
		cur = append(cur, g.pick(odd))
	case 1:
		ok := []string{s + "()", s + "(,5)", s + "(+2)", s + "(-1)", s + "(0)", s + "(2,)", s + "(2,-5)", s + "(2, 7, 9)", "\t" + s + " ( 3 , 4 ) ",
			s + "(02)", s + " (1)", "sleep", "sleep()", "sleep(-5)", "sleep(7,9)", " sleep (3)", "sleep(+3)"}
		cur = append(cur, g.pick(ok))
	case 2:
		cur = append([]string{g.pick([]string{"sleep(10)", "sleep", " sleep(1) "})}, cur...)
	case 3:
		cur = append(cur, g.pick([]string{"no_such_step", " " + s, s + " ", "sleep ", "Sleep(3)", strings.ToUpper(s)}))
	case 4:
		set(sc, "weight", nInt(int64(g.pick2([]int{-1, -100}))))
	case 5:
		// two scenarios with the same name and different weights: SpreadNames keeps the last count for both
		cp := nMap(append([]KV{}, sc.M...))
		set(cp, "weight", nInt(int64(g.pick2([]int{1, 2, 3, 5, 7}))))
		scs.L = append(scs.L, cp)
	case 6:
		// two steps with the same name: the later definition wins
		dup := steps.L[g.r.Intn(len(steps.L))]
		cp := nMap(append([]KV{}, dup.M...))
		set(cp, "tag", nStr("second definition"))
		steps.L = append(steps.L, cp)
	case 7:
		cur = nil
	case 8:
		for _, x := range scs.L {
			set(x, "weight", nInt(int64(g.pick2([]int{6, 9, 15, 21, 35, 4, 0, 1, 12}))))
		}
	case 9:
		cur = append(cur, s+"(3)", "sleep(5)", "sleep(7)", s+"(0, 9)", "sleep(11)")
	case 10:
		cur = []string{s + "(0)", "sleep(5)"}
	default:
		cur = append(cur, g.pick([]string{s + "(99999999999999999999)", s + "(1, 99999999999999999999)", s + "(-99999999999999999999)"}))
	}
	set(sc, "requests", nStrs(cur))
}

func line(sx int64, mal int, d *Node) string {
	fancy := 0
	switch sx % 3 {
	case 1:
		fancy = 30
	case 2:
		fancy = 60
	}
	hf := printHCL(d, rand.New(rand.NewSource(sx)), fancy)
	return fmt.Sprintf("sx=%d mal=%d d=%s lb=%s hb=%s", sx, mal, encodeTree(d), hf.lb, hf.hb)
}

func generate(r *rand.Rand, tier string) []string {
	n := 1500
	if tier == "thorough" {
		n = 70000
	}
	g := &gen{r: r}
	var out []string
	for i := 0; i < n; i++ {
		d := g.describe()
		mal := 0
		switch x := g.r.Intn(100); {
		case x < 8:
			mal = 1
			g.mutate(d)
		case x < 20:
			mal = 2
			g.oddSteps(d)
		}
		out = append(out, line(r.Int63n(1<<40), mal, d))
	}
	// exhaustive small enumerations: all of them in the thorough tier, a random sample in the quick tier
	k := 150
	if tier == "thorough" {
		k = 0
	}
	out = append(out, sample(r, enumOptional(), k)...)
	out = append(out, sample(r, enumSteps(), k)...)
	out = append(out, sample(r, enumWeights(), k)...)
	out = append(out, sample(r, enumLocals(), k)...)
	// every registered function on arguments that tell it apart from every other one: all, in both tiers
	out = append(out, enumFunctions()...)
	// files with a piece that does not evaluate (must be refused as a whole)
	nb := 150
	if tier == "thorough" {
		nb = 3000
	}
	for i := 0; i < nb; i++ {
		if l := brokenLine(r, r.Int63n(1<<40), g.describe()); l != "" {
			out = append(out, l)
		}
	}
	return out
}

func main() {
	setup()
	workers := 8
	for i, a := range os.Args {
		if (a == "-tier" || a == "--tier") && i+1 < len(os.Args) && os.Args[i+1] == "thorough" {
			workers = 14
		}
	}
	drv.Main(&drv.Prop{
		ID:      "C16",
		Gen:     generate,
		Run:     runCase,
		Class:   class,
		Workers: workers,
		Timeout: hardLimit + 30*time.Second,
		Rule: "random scenario descriptions (http requests or grpc calls, all registered variable sources / processors / templaters, 1-3 scenarios " +
			"with weights, min_waiting_time, multipliers and sleeps; optional fields present, absent or present-and-zero; strings drawn from realistic " +
			"values, YAML-1.1-special words, unicode incl. line separators/BOM, whitespace/newline shapes, HCL template characters) are printed by the " +
			"harness as HCL (2/3 of the cases through locals blocks, interpolation and the registered collection functions) and as YAML (quoted, plain, " +
			"single-quoted, literal-block scalars, flow collections, locals+anchors+merge keys), parsed by the real ReadAmmoConfig and the registered " +
			"providers, and the canonical dumps compared; the HCL spelling redefines locals in earlier / later blocks (the last definition before the " +
			"use must win) and its syntax tree is evaluated by the Lean model; 8% are malformed (unknown plugin type, key of another plugin, bad " +
			"assert op, unknown step) and must be refused by both front-ends; 12% have odd step references / weights (brackets, signs, sleeps, " +
			"duplicates, negative weight) whose outcome the Lean ammo model predicts; a case is non-trivial when it has at least one request or call",
	})
}
