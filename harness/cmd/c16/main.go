package main

// C16: differential correspondence driver.  One input = one scenario description (a tree, keyed by the names the
// documentation uses in HCL) + a seed for the spelling.  The harness prints the description in BOTH syntaxes itself,
// has the REAL config.ReadAmmoConfig parse both files, dumps both AmmoConfig canonically, builds the registered
// http/scenario or grpc/scenario provider from both files and dumps the ammo they deliver.
//
//	observation:  H=<dump of the HCL file's AmmoConfig | ERR>  Y=<"=" when identical to H | dump | ERR>
//	              A=<number of ammo of one pass when both providers deliver identical ammo | ERR (both refuse) | DIFF… | ->
//
// The Lean driver predicts H from the regenerated struct/tag tables (marshal + decode model) and A from SpreadNames.

import (
	"context"
	"crypto/sha1"
	"encoding/hex"
	"fmt"
	"math/rand"
	"os"
	"reflect"
	"regexp"
	"sort"
	"strconv"
	"strings"
	"sync"
	"time"

	"verifharness/drv"

	"github.com/spf13/afero"
	"github.com/yandex/pandora/components/providers/scenario"
	"github.com/yandex/pandora/components/providers/scenario/config"
	scenarioimport "github.com/yandex/pandora/components/providers/scenario/import"
	"github.com/yandex/pandora/core"
	"github.com/yandex/pandora/core/plugin"
	"github.com/yandex/pandora/core/plugin/pluginconfig"
	"go.uber.org/zap"
)

var memfs = afero.NewMemMapFs()

// fsys: what the real code sees — the in-memory file system behind the fault injector (faultfs.go)
var fsys = &faultFs{Fs: memfs}

// data files every description may point to (created once, before any case runs)
var dataFiles = map[string]string{
	"users.csv":         "user_id,name,pass\n1,John,secret\n2,Jack,qwerty\n3,Jim,12345\n",
	"data/items.csv":    "id;title\n10;first item\n20;second item\n",
	"data/pipe.csv":     "a|b|c\nx|y|z\n",
	"filter.json":       `{"data":[{"id":1,"name":"user1"},{"id":2,"name":"user2"}],"flag":true}`,
	"data/array.json":   `[{"id":"a"},{"id":"b"}]`,
	"данные/список.csv": "k,v\nключ,значение\n",
}

func setup() {
	for name, content := range dataFiles {
		if err := afero.WriteFile(memfs, name, []byte(content), 0o644); err != nil {
			panic(err)
		}
	}
	scenarioimport.Import(fsys)
	pluginconfig.AddHooks()
	// compile the decode hooks once, single-threaded (core/config compiles them lazily without a lock)
	_ = afero.WriteFile(memfs, "warmup/a.yaml", []byte("requests: []\n"), 0o644)
	_, _ = config.ReadAmmoConfig(fsys, "warmup/a.yaml")
}

// ---------------------------------------------------------------- running one case

func caseDir(input string) string {
	h := sha1.Sum([]byte(input))
	return "case/" + hex.EncodeToString(h[:8])
}

var debug = os.Getenv("C16_DEBUG") != ""

func readCfg(path string) (string, *config.AmmoConfig) {
	cfg, err := config.ReadAmmoConfig(fsys, path)
	if debug {
		b, _ := afero.ReadFile(memfs, path)
		fmt.Fprintf(os.Stderr, "---- %s\n%s---- err: %v\n", path, b, err)
	}
	if err != nil || cfg == nil {
		return "ERR", nil
	}
	// Locals is the documented YAML-only helper (anchors live there); no decoder reads it
	return dumpValue(cfg, "Locals"), cfg
}

var providerType = reflect.TypeOf((*core.Provider)(nil)).Elem()

// digestOf: name@min_waiting_time_ms[step:sleep_ms,...] of one scenario ammo (names in hex)
func digestOf(a any) string {
	v := reflect.ValueOf(a)
	for v.Kind() == reflect.Ptr || v.Kind() == reflect.Interface {
		v = v.Elem()
	}
	ms := func(f reflect.Value) string { return strconv.FormatInt(f.Int()/int64(time.Millisecond), 10) }
	steps := v.FieldByName("Requests")
	if !steps.IsValid() {
		steps = v.FieldByName("Calls")
	}
	parts := make([]string, steps.Len())
	for i := range parts {
		st := steps.Index(i)
		parts[i] = hexs(st.FieldByName("Name").String()) + ":" + ms(st.FieldByName("Sleep"))
	}
	return hexs(v.FieldByName("Name").String()) + "@" + ms(v.FieldByName("MinWaitingTime")) + "[" + strings.Join(parts, ",") + "]"
}

// rle: consecutive equal entries are written once with a repeat count
func rle(xs []string) string {
	var out []string
	for i := 0; i < len(xs); {
		j := i
		for j < len(xs) && xs[j] == xs[i] {
			j++
		}
		out = append(out, xs[i]+"x"+strconv.Itoa(j-i))
		i = j
	}
	return strings.Join(out, ";")
}

// ammoOf builds the registered provider for the file and returns the dumps and the digests of the ammo of one pass
func ammoOf(kind, path string) ([]string, []string, bool) {
	p, err := plugin.New(providerType, kind, func(conf interface{}) error {
		c, ok := conf.(*scenario.ProviderConfig)
		if !ok {
			return fmt.Errorf("unexpected provider config %T", conf)
		}
		c.File = path
		c.Passes = 1
		return nil
	})
	if err != nil {
		if debug {
			fmt.Fprintf(os.Stderr, "---- provider %s: %v\n", path, err)
		}
		return nil, nil, false
	}
	prov := p.(core.Provider)
	ctx, cancel := context.WithTimeout(context.Background(), 10*time.Second)
	defer cancel()
	done := make(chan error, 1)
	go func() { done <- prov.Run(ctx, core.ProviderDeps{Log: zap.NewNop(), PoolID: "c16"}) }()
	var out, dig []string
	for {
		a, ok := prov.Acquire()
		if !ok {
			break
		}
		out = append(out, dumpValue(a, "ID"))
		dig = append(dig, digestOf(a))
		prov.Release(a)
		if len(out) > 100000 {
			cancel()
			break
		}
	}
	<-done
	return out, dig, true
}

// runCase with a last-resort watchdog of its own (the limits that count are the parent's, child.go: first attempt,
// then alone beside a reference case): a case that has not finished after hardLimit is SLOW, which the model driver
// counts as `skip:inconclusive-timeout` — never as a failure
const (
	softLimit = 20 * time.Second
	hardLimit = 150 * time.Second
)

func runCase(input string) string {
	done := make(chan string, 1)
	go func() {
		defer func() {
			if r := recover(); r != nil {
				done <- "PANIC " + drv.Clean(fmt.Sprint(r))
			}
		}()
		done <- runCase1(input)
	}()
	select {
	case o := <-done:
		return o
	case <-time.After(softLimit):
	}
	select {
	case o := <-done:
		return o
	case <-time.After(hardLimit - softLimit):
		return "SLOW no result within " + hardLimit.String()
	}
}

// shootRe: `name ( count` of a step reference (config.ParseShootName)
var shootRe = regexp.MustCompile(`^\s*([^()]*?)\s*\(\s*([+-]?[0-9]+)`)

func gcd64(a, b int64) int64 {
	for b != 0 {
		a, b = b, a%b
	}
	return a
}

// tooLarge: the ammo list of the description would have more than 10^5 entries (config.SpreadNames repeats every
// scenario weight/gcd(weights) times) or a step multiplier of six or more digits (20-digit numbers overflow
// strconv.Atoi and are refused, which is cheap; the argument of the pseudo step `sleep` is a duration): not run
func tooLarge(d *Node) bool {
	scs := d.get("scenario")
	if scs == nil {
		return false
	}
	if len(scs.L) > 1 {
		var ws []int64
		var g int64
		for _, sc := range scs.L {
			w := int64(1)
			if x := sc.get("weight"); x != nil && x.K == 'i' && x.I > 0 {
				w = x.I
			}
			ws = append(ws, w)
			g = gcd64(g, w)
		}
		total := int64(0)
		for _, w := range ws {
			total += w / g
			if total > 100000 || total < 0 {
				return true
			}
		}
	}
	for _, sc := range scs.L {
		if rs := sc.get("requests"); rs != nil {
			for _, x := range rs.L {
				if m := shootRe.FindStringSubmatch(x.S); m != nil && m[1] != "sleep" {
					n := strings.TrimLeft(m[2], "+-")
					if len(n) >= 6 && len(n) <= 19 {
						return true
					}
				}
			}
		}
	}
	return false
}

// fileNames: the names the two renderings are stored under (tokens hn / yn, hex; default ammo.hcl / ammo.yaml)
func fileNames(m map[string]string) (string, string, bool) {
	hn, yn := "ammo.hcl", "ammo.yaml"
	for _, t := range []struct {
		k string
		p *string
	}{{"hn", &hn}, {"yn", &yn}} {
		if h, ok := m[t.k]; ok {
			b, err := hex.DecodeString(h)
			if err != nil || len(b) == 0 || strings.ContainsAny(string(b), "/\x00") {
				return "", "", false
			}
			*t.p = string(b)
		}
	}
	return hn, yn, true
}

// companion: another valid description, printed through locals that carry the SAME names as the printer gives the
// locals of the main file (one of 16, rendered once per process) — the front-ends must decode every file on its own,
// whatever was decoded before it (EVERY case first stores a companion under the very paths of its two files, reads
// both, then overwrites them: a failing input replays on its own) or is being decoded at the same time (co=par: three
// goroutines decode companions under the same base names while the main files are read and the providers built)
var (
	companions    [16][2]string
	companionOnce [16]sync.Once
)

func companion(sx int64, i int) (string, string) {
	k := int((uint64(sx) + uint64(i)*5) % 16)
	companionOnce[k].Do(func() {
		g := &gen{r: rand.New(rand.NewSource(int64(0x5eed0000 + k)))}
		var d *Node
		for {
			d = g.describe()
			if !tooLarge(d) {
				break
			}
		}
		h := printHCL(d, rand.New(rand.NewSource(int64(2+7*k))), 60)
		y, _ := printYAML(d, rand.New(rand.NewSource(int64(3+7*k))), 30)
		companions[k] = [2]string{h.text, y}
	})
	return companions[k][0], companions[k][1]
}

func runCase1(input string) string {
	m := drv.KV(input)
	d, err := decodeTree(m["d"])
	if err != nil {
		return "BADINPUT " + err.Error()
	}
	if tooLarge(d) {
		return "SLOW not run: the ammo list would have millions of entries"
	}
	sx, _ := strconv.ParseInt(m["sx"], 10, 64)
	fancy := 0
	switch sx % 3 {
	case 1:
		fancy = 30
	case 2:
		fancy = 60
	}
	var hclText string
	if m["hx"] == "1" {
		// corpus line that spells the HCL side explicitly: the file is printed from the lb/hb syntax tree
		hclText, err = printHCLFromAST(m["lb"], m["hb"])
		if err != nil {
			return "BADINPUT " + err.Error()
		}
	} else {
		hf := printHCL(d, rand.New(rand.NewSource(sx)), fancy)
		if want, ok := m["hb"]; ok && (want != hf.hb || m["lb"] != hf.lb) {
			// the input carries the syntax tree of the HCL spelling (the Lean model evaluates it): it must be the one printed
			return "BADINPUT the lb/hb tokens are not the spelling that sx selects"
		}
		hclText = hf.text
	}
	yamlText, _ := printYAML(d, rand.New(rand.NewSource(sx+1)), fancy)
	if enc := m["enc"]; enc != "" {
		// how the two files are saved (enc.go): CRLF line terminators, all or some
		var ok bool
		if hclText, yamlText, ok = encodeTexts(enc, hclText, yamlText, sx); !ok {
			return "SLOW not run: unknown enc mode, or the printed texts carry a CR of their own"
		}
	}
	if pad := m["pad"]; pad != "" {
		// size (enc.go): a comment block of that many KiB in both files, the description goes on after it
		kib, err := strconv.Atoi(pad)
		if err != nil || kib < 1 || kib > 8192 {
			return "BADINPUT pad"
		}
		one := m["pl"] == "1"
		hclText, yamlText = padText(hclText, kib, true, one), padText(yamlText, kib, false, one)
	}
	dir := caseDir(input)
	hname, yname, ok := fileNames(m)
	if !ok {
		return "BADINPUT file name"
	}
	hp, yp := dir+"/"+hname, dir+"/"+yname
	defer func() { _ = memfs.RemoveAll(dir) }()
	write := func(path, text string) {
		if err := afero.WriteFile(memfs, path, []byte(text), 0o644); err != nil {
			panic(err)
		}
	}
	co := m["co"]
	{
		// the same two paths held another description a moment ago
		ch, cy := companion(sx, 0)
		write(hp, ch)
		write(yp, cy)
		_, _ = config.ReadAmmoConfig(fsys, hp)
		_, _ = config.ReadAmmoConfig(fsys, yp)
	}
	if hi := m["hi"]; hi != "" {
		// more history (history.go): accepted and REJECTED descriptions converted from the same two paths first
		if !validHistory(hi) {
			return "BADINPUT history"
		}
		for i := 0; i < len(hi); i++ {
			ph, py, _ := historyFiles(hi[i], sx, i)
			write(hp, ph)
			write(yp, py)
			_, _ = config.ReadAmmoConfig(fsys, hp)
			_, _ = config.ReadAmmoConfig(fsys, yp)
		}
	}
	write(hp, hclText)
	write(yp, yamlText)
	if ff := m["ff"]; ff != "" {
		ph, ok1 := parseFaultPlan(ff, hclText, true)
		py, ok2 := parseFaultPlan(ff, yamlText, false)
		if !ok1 || !ok2 {
			return "BADINPUT fault plan"
		}
		fsys.arm(hp, ph)
		fsys.arm(yp, py)
		defer func() { fsys.disarm(hp); fsys.disarm(yp) }()
	}
	if co == "par" {
		stop := make(chan struct{})
		var wg sync.WaitGroup
		for i := 1; i <= 3; i++ {
			ch, cy := companion(sx, i)
			chp, cyp := fmt.Sprintf("%s/co%d/%s", dir, i, hname), fmt.Sprintf("%s/co%d/%s", dir, i, yname)
			write(chp, ch)
			write(cyp, cy)
			wg.Add(1)
			go func() {
				defer wg.Done()
				defer func() { _ = recover() }()
				for n := 0; n < 2000; n++ {
					select {
					case <-stop:
						return
					default:
					}
					_, _ = config.ReadAmmoConfig(fsys, chp)
					_, _ = config.ReadAmmoConfig(fsys, cyp)
				}
			}()
		}
		defer func() { close(stop); wg.Wait() }()
	}

	if pre := m["pre"]; identRe.MatchString(pre) {
		// another, valid, file that defines the local `pre` is parsed first: nothing of it may be visible afterwards
		pp := dir + "/prelude.hcl"
		text := "locals {\n  " + pre + " = \"defined by another file\"\n}\nrequest \"p\" {\n  method = \"GET\"\n  uri = local." + pre + "\n  headers = {}\n}\nscenario \"s\" {\n  requests = [\"p\"]\n}\n"
		if err := afero.WriteFile(memfs, pp, []byte(text), 0o644); err != nil {
			panic(err)
		}
		if d, _ := readCfg(pp); d == "ERR" {
			return "BADINPUT the prelude file is refused"
		}
	}

	hd, hcfg := readCfg(hp)
	yd, ycfg := readCfg(yp)
	if co == "par" {
		// while the companions are being decoded the same file must keep decoding to the same thing
		for j := 0; j < 4; j++ {
			if hd2, hcfg2 := readCfg(hp); hd2 != hd {
				hd, hcfg = hd2, hcfg2
				break
			}
			if yd2, ycfg2 := readCfg(yp); yd2 != yd {
				yd, ycfg = yd2, ycfg2
				break
			}
		}
	}
	ytok := yd
	if yd == hd {
		ytok = "="
	} else if hcfg != nil && ycfg != nil {
		ytok = yd + " D=" + firstDiff(hd, yd)
	}
	atok := "-"
	if hcfg != nil && ycfg != nil {
		kind := "http/scenario"
		if len(hcfg.Requests) == 0 && len(hcfg.Calls) > 0 {
			kind = "grpc/scenario"
		}
		ha, hdig, hok := ammoOf(kind, hp)
		ya, _, yok := ammoOf(kind, yp)
		switch {
		case !hok && !yok:
			atok = "ERR"
		case hok != yok:
			atok = fmt.Sprintf("DIFF:accept:hcl=%v,yaml=%v", hok, yok)
		case len(ha) != len(ya):
			atok = fmt.Sprintf("DIFF:count:%d/%d", len(ha), len(ya))
		default:
			atok = strconv.Itoa(len(ha)) + ":" + rle(hdig)
			for i := range ha {
				if ha[i] != ya[i] {
					atok = fmt.Sprintf("DIFF:ammo%d:%s", i, firstDiff(ha[i], ya[i]))
					break
				}
			}
		}
	}
	return "H=" + hd + " Y=" + ytok + " A=" + atok
}

func class(input, obs string) string {
	m := drv.KV(input)
	d, err := decodeTree(m["d"])
	if err != nil {
		return ""
	}
	var parts []string
	if l := d.get("call"); l != nil && len(l.L) > 0 {
		parts = append(parts, "grpc")
	}
	if l := d.get("request"); l != nil && len(l.L) > 0 {
		parts = append(parts, "http")
	}
	if len(parts) == 0 {
		return ""
	}
	sx, _ := strconv.ParseInt(m["sx"], 10, 64)
	if m["mal"] == "3" {
		parts = append(parts, "broken-"+m["bk"])
	} else if m["mal"] == "4" {
		parts = append(parts, m["bk"])
	} else if m["fm"] != "" {
		parts = append(parts, "function-matrix")
	} else if m["hx"] == "1" {
		parts = append(parts, "explicit-hcl")
	} else if sx%3 != 0 {
		hf := printHCL(d, rand.New(rand.NewSource(sx)), int(sx%3)*30)
		if len(hf.fns) > 0 {
			parts = append(parts, "locals+functions")
		}
		if hf.redef > 0 {
			parts = append(parts, "local-redefined")
		}
		if hf.bare > 0 {
			parts = append(parts, "bare-number")
		}
		if hf.idx > 0 {
			parts = append(parts, "local-member")
		}
		if hf.nulls > 0 {
			parts = append(parts, "null-local")
		}
	}
	switch m["mal"] {
	case "1":
		parts = append(parts, "malformed")
	case "2":
		parts = append(parts, "odd-steps")
	}
	if m["hn"] != "" {
		parts = append(parts, "file-name")
	}
	if m["co"] != "" {
		parts = append(parts, "companion-"+m["co"])
	}
	if m["nb"] != "" {
		parts = append(parts, "numeric-boundary")
	}
	if m["big"] != "" {
		parts = append(parts, "large-file")
	}
	if m["enc"] != "" {
		parts = append(parts, "saved-"+m["enc"])
	}
	if m["hi"] != "" {
		parts = append(parts, "history")
	}
	if m["pad"] != "" {
		parts = append(parts, "padded")
	}
	if ff := m["ff"]; ff != "" {
		parts = append(parts, "io-fault-"+strings.TrimRight(strings.Split(ff, "+")[0], "0123456789"))
	}
	if strings.Contains(obs, " A=ERR") {
		parts = append(parts, "ammo-refused")
	}
	if strings.HasPrefix(obs, "H=ERR") {
		parts = append(parts, "rejected")
	}
	return strings.Join(parts, "|")
}

// ---------------------------------------------------------------- generator

type gen struct {
	r *rand.Rand
}

func (g *gen) pick(xs []string) string { return xs[g.r.Intn(len(xs))] }
func (g *gen) chance(pct int) bool     { return g.r.Intn(100) < pct }

var (
	wordsURI    = []string{"/auth", "/list", "/order?x=1&y=2", "/items/{{.request.list_req.postprocessor.item_id}}", "/search?q=a b&lang=ru", "/", "/путь/к/ресурсу", "/a#frag"}
	wordsMethod = []string{"GET", "POST", "PUT", "DELETE", "PATCH", "HEAD", "get"}
	wordsBody   = []string{
		"{\"user_id\":  {{.request.auth_req.preprocessor.user_id}}}\n",
		"{\"item_id\": {{.request.order_req.preprocessor.item_id}}}",
		"<body/>", "a=1&b=2", "line1\nline2\n", "line1\n  indented: yes\nline3", "", "{}", "[1, 2, 3]", "multi\n\nblank line\n",
		"text with trailing spaces  \nnext\n", "tab\tseparated\tvalues\n", "crlf\r\nline\r\n",
	}
	wordsHeaderK = []string{"Content-Type", "Useragent", "Authorization", "X-Trace-ID", "Accept", "x-lower", "Cookie", "Host"}
	wordsHeaderV = []string{"application/json", "Yandex", "Bearer {{.request.auth_req.postprocessor.token}}", "text/html; charset=utf-8", "*/*", "a=b; c=d", "{{.source.variables.header}}", "gzip, deflate"}
	wordsVarK    = []string{"user_id", "token", "item_id", "traceID", "auth", "data", "new_var", "h"}
	wordsVarV    = []string{"source.users[next].user_id", "request.list_req.postprocessor.result[rand].itemId", "$.auth_key", "$.items[0]", "//div[@class='data']", "Content-Type|upper", "Authorization|lower|replace(=,)|substr(6)", "Http-Authorization", "source.var_name[next].0"}
	wordsTag     = []string{"auth", "list", "order", "tag", "case 1", ""}
	wordsCall    = []string{"target.TargetService.Auth", "target.TargetService.List", "pkg.Svc/Method"}
	wordsPayload = []string{
		"{\"login\": \"{{.request.auth_req.preprocessor.user.login}}\", \"pass\": \"{{.request.auth_req.preprocessor.user.pass}}\"}\n",
		"{\"user_id\": {{.request.auth_req.postprocessor.userId}}, \"token\": \"{{.request.auth_req.postprocessor.token}}\"}",
		"{}", "",
	}
	// strings that YAML 1.1 re-types or mis-parses when they are written bare
	wordsYAML = []string{"N", "n", "y", "Y", "yes", "No", "on", "OFF", "true", "False", "null", "Null", "~", "007", "0o17", "0x1F",
		"1e3", "1_000", "12:30:45", "1:20", "2001-01-01", "2001-12-14t21:59:43.10-05:00", ".inf", "-.INF", ".NaN", "+1", "-1", "3.14",
		"-", "- x", "? x", ": x", "a: b", "a:b", "x #c", "#x", "{a}", "[a]", "*a", "&a", "!a", "!!str x", "|", ">", "|-", "%a", "@a", "`a",
		"'", "\"", "a'b\"c", "\\", "a\\nb", "\\x41", "=", "<<", "...", "---", "--- x", ",", "a, b", "k: [v", "}", "]"}
	wordsSpace = []string{"", " ", "  two  ", " lead", "trail ", "\ttab", "a\tb", "x\n", "x\n\n", "\nx", "a\nb", "a\r\nb", "a\rb",
		"line1\n  line2\n", "a \nb", "a\n b", "\n", " \n ", "a\n\nb\n"}
	// (a string that is exactly one ${...} placeholder is a config-variable reference for core/config: both front-ends
	// refuse it for *string / interface targets; corpus only)
	wordsHCL = []string{"x${y}", "%{if}", "a${b}c", "$", "%", "$x", "{", "}", "${", "%{", "a$", "100%", "${a}${b}", "$(x)"}
	// map keys
	wordsKey = []string{"Content-Type", "X-Trace-ID", "user_id", "token", "a.b", "with space", "N", "true", "007", "~", "null", "yes",
		"k:v", "k: v", "k#", "k #c", "-dash", "'q'", "\"dq\"", "{x}", "[y]", "*", "&amp", "!bang", "%", "@at", "=", "a=b", "1e3", "?",
		"- item", "a,b", "\\", "tab\tkey", "trail ", " lead", "a${x}", "UPPER", "upper"}
	dataCSV   = []string{"users.csv", "data/items.csv", "data/pipe.csv", "данные/список.csv"}
	dataJSON  = []string{"filter.json", "data/array.json"}
	delims    = []string{",", ";", "|"}
	fieldPool = []string{"user_id", "name", "pass", "id", "title", "user id", "", "поле", "N", "007"}
)

func uni() []string {
	ls, ps, nel, bom, nbsp, zw := string(rune(0x2028)), string(rune(0x2029)), string(rune(0x85)), string(rune(0xfeff)), string(rune(0xa0)), string(rune(0x200b))
	return []string{"привет мир", "日本語テキスト", "emoji \U0001F600 end", "é", "é", "zero" + zw + "width", "nb" + nbsp + "sp", "line" + ls + "sep",
		"para" + ps + "sep", "next" + nel + "line", bom + "bom", "end" + bom, "שלום", "مرحبا", "Ünïcödé", "tab\tи\nперенос", ls, nel + "x", "a" + ls + "\nb"}
}

var wordsUni = uni()

var alphabet = append([]string{" ", "  ", "\t", "\n", "\r", "\r\n", "\"", "'", "\\", ":", ": ", " #", "#", "-", "- ", "--", "---", "...", "?", "? ", ",", "{", "}", "[", "]",
	"&", "*", "!", "!!", "|", ">", "%", "@", "`", "<", "<<", "=", "~", "$", "${", "%{", "a", "b", "Z", "0", "7", "1e3", "x", "y", "N", "true", "null", ".", "_", "/", "+", "é", "я", "語"},
	string(rune(0x2028)), string(rune(0x2029)), string(rune(0x85)), string(rune(0xfeff)), string(rune(0xa0)), string(rune(0x200b)), string(rune(0x1F600)), string(rune(0x7f)), string(rune(0x1b)), string(rune(0x01)))

// nasty: a random concatenation of characters that matter to YAML or HCL
func (g *gen) nasty() string {
	n := 1 + g.r.Intn(6)
	var b strings.Builder
	for i := 0; i < n; i++ {
		b.WriteString(g.pick(alphabet))
	}
	return b.String()
}

// a value that is exactly one ${...} placeholder is a config-variable reference for core/config (VariableInjectHook):
// for *string / interface targets both front-ends refuse it, which the model does not predict; corpus only
var placeholderRe = regexp.MustCompile(`^\$\{[^{}]+\}$`)

func (g *gen) str(base []string) string {
	s := g.str0(base)
	if placeholderRe.MatchString(strings.TrimSpace(s)) {
		return "x" + s
	}
	return s
}

// str0: a string for a free-text field; base = realistic values of that field
// long: a string around the widths at which yaml.v2 folds scalars (80) and beyond, with single / double / leading /
// trailing spaces and the characters that decide how it is quoted
func (g *gen) long() string {
	n := g.pick2([]int{70, 78, 79, 80, 81, 82, 100, 127, 128, 129, 160, 300, 1000, 4000})
	words := []string{"lorem", "ipsum", "a", "x:", "#c", "'q'", "\"d\"", "{{.request.a.b}}", "k=v", "-", "é", "日本", "0", "true", "%{x}", "$${y}"}
	var b strings.Builder
	if g.chance(15) {
		b.WriteString(" ")
	}
	for b.Len() < n {
		b.WriteString(g.pick(words))
		switch g.r.Intn(12) {
		case 0:
			b.WriteString("  ")
		case 1:
			b.WriteString("")
		case 2:
			b.WriteString("\n")
		default:
			b.WriteString(" ")
		}
	}
	out := b.String()
	if g.chance(70) {
		out = strings.TrimRight(out, " \n")
	}
	return out
}

func (g *gen) str0(base []string) string {
	if g.r.Intn(100) < 3 {
		return g.long()
	}
	switch x := g.r.Intn(100); {
	case x < 42:
		return g.pick(base)
	case x < 50:
		return g.nasty()
	case x < 70:
		return g.pick(wordsYAML)
	case x < 82:
		return g.pick(wordsUni)
	case x < 92:
		return g.pick(wordsSpace)
	case x < 96:
		return g.pick(wordsHCL)
	default:
		return g.pick(base) + g.pick(wordsYAML) + g.pick(wordsUni)
	}
}

func (g *gen) smap(keys, vals []string, maxN int) *Node {
	n := g.r.Intn(maxN + 1)
	var m []KV
	seen := map[string]bool{}
	for i := 0; i < n; i++ {
		k := g.pick(keys)
		if g.chance(35) {
			k = g.pick(wordsKey)
		} else if g.chance(8) {
			k = g.pick(wordsUni)
		} else if g.chance(8) {
			k = g.nasty()
		}
		if seen[k] || k == "<<" {
			continue
		}
		seen[k] = true
		m = append(m, KV{k, nStr(g.str(vals))})
	}
	return nMap(m)
}

func (g *gen) strs(base []string, maxN int) *Node {
	n := g.r.Intn(maxN + 1)
	var l []string
	for i := 0; i < n; i++ {
		l = append(l, g.str(base))
	}
	if g.chance(20) {
		sort.Strings(l)
	}
	return nStrs(l)
}

func (g *gen) shuffle(m []KV) []KV {
	g.r.Shuffle(len(m), func(i, j int) { m[i], m[j] = m[j], m[i] })
	return m
}

func (g *gen) source(i int) *Node {
	name := fmt.Sprintf("src%d", i)
	if g.chance(15) {
		name = g.pick([]string{"users", "filter_src", "variables", "global", "источник", "N", "007"}) + strconv.Itoa(i)
	}
	var m []KV
	switch g.r.Intn(3) {
	case 0:
		m = append(m, KV{"name", nStr(name)}, KV{"type", nStr("file/csv")}, KV{"file", nStr(g.pick(dataCSV))})
		if g.chance(60) {
			m = append(m, KV{"fields", g.strs(fieldPool, 4)})
		}
		if g.chance(60) {
			m = append(m, KV{"ignore_first_line", nBool(g.chance(60))})
		}
		if g.chance(50) {
			m = append(m, KV{"delimiter", nStr(g.pick(delims))})
		}
	case 1:
		m = append(m, KV{"name", nStr(name)}, KV{"type", nStr("file/json")}, KV{"file", nStr(g.pick(dataJSON))})
	default:
		m = append(m, KV{"name", nStr(name)}, KV{"type", nStr("variables")})
		if g.chance(90) {
			m = append(m, KV{"variables", g.smap([]string{"header", "host", "port", "b"}, []string{"yandex", "localhost", "8090", "s", "true", "3.5"}, 4)})
		}
	}
	return nMap(append(m[:2], g.shuffle(m[2:])...))
}

func (g *gen) reqPost() *Node {
	var m []KV
	switch g.r.Intn(4) {
	case 0, 1:
		m = append(m, KV{"type", nStr(g.pick([]string{"var/jsonpath", "var/xpath", "var/header"}))})
		if g.chance(90) {
			m = append(m, KV{"mapping", g.smap(wordsVarK, wordsVarV, 3)})
		}
	default:
		m = append(m, KV{"type", nStr("assert/response")})
		if g.chance(50) {
			m = append(m, KV{"headers", g.smap(wordsHeaderK, []string{"json", "application/json", "gzip"}, 2)})
		}
		if g.chance(50) {
			m = append(m, KV{"body", g.strs([]string{"token", "key", "\"ok\": true"}, 3)})
		}
		if g.chance(50) {
			sc := g.pick2([]int{200, 201, 404, 0, 500})
			if g.chance(40) {
				sc = 100 + g.r.Intn(500)
			}
			m = append(m, KV{"status_code", nInt(int64(sc))})
		}
		if g.chance(50) {
			m = append(m, KV{"size", nMap(g.shuffle([]KV{{"val", nInt(int64(g.r.Intn(20000)))}, {"op", nStr(g.pick([]string{"eq", "=", "lt", "<", "gt", ">"}))}}))})
		}
	}
	return nMap(append(m[:1], g.shuffle(m[1:])...))
}

func (g *gen) pick2(xs []int) int { return xs[g.r.Intn(len(xs))] }

func (g *gen) request(name string) *Node {
	m := []KV{{"name", nStr(name)}, {"method", nStr(g.str(wordsMethod))}, {"uri", nStr(g.str(wordsURI))},
		{"headers", g.smap(wordsHeaderK, wordsHeaderV, 4)}}
	if g.chance(50) {
		m = append(m, KV{"tag", nStr(g.str(wordsTag))})
	}
	if g.chance(60) {
		m = append(m, KV{"body", nStr(g.str(wordsBody))})
	}
	if g.chance(50) {
		m = append(m, KV{"preprocessor", nMap([]KV{{"mapping", g.smap(wordsVarK, wordsVarV, 3)}})})
	}
	if g.chance(60) {
		n := 1 + g.r.Intn(3)
		var l []*Node
		for i := 0; i < n; i++ {
			l = append(l, g.reqPost())
		}
		m = append(m, KV{"postprocessor", nList(l)})
	}
	if g.chance(40) {
		m = append(m, KV{"templater", nMap([]KV{{"type", nStr(g.pick([]string{"text", "html"}))}})})
	}
	return nMap(append(m[:1], g.shuffle(m[1:])...))
}

func (g *gen) call(name string) *Node {
	m := []KV{{"name", nStr(name)}, {"call", nStr(g.str(wordsCall))}, {"payload", nStr(g.str(wordsPayload))}}
	if g.chance(50) {
		m = append(m, KV{"tag", nStr(g.str(wordsTag))})
	}
	if g.chance(60) {
		m = append(m, KV{"metadata", g.smap([]string{"metadata", "authorization", "x-id"}, []string{"server.proto", "Bearer {{.request.auth_req.postprocessor.token}}", "1"}, 3)})
	}
	if g.chance(50) {
		n := 1 + g.r.Intn(2)
		var l []*Node
		for i := 0; i < n; i++ {
			l = append(l, nMap([]KV{{"type", nStr("prepare")}, {"mapping", g.smap(wordsVarK, wordsVarV, 3)}}))
		}
		m = append(m, KV{"preprocessor", nList(l)})
	}
	if g.chance(50) {
		n := 1 + g.r.Intn(2)
		var l []*Node
		for i := 0; i < n; i++ {
			pm := []KV{{"type", nStr("assert/response")}}
			if g.chance(60) {
				pm = append(pm, KV{"payload", g.strs([]string{"token", "result", "\"ok\""}, 3)})
			}
			if g.chance(60) {
				pm = append(pm, KV{"status_code", nInt(int64(g.pick2([]int{200, 0, 14, 404, 1 + g.r.Intn(16), 100 + g.r.Intn(500)})))})
			}
			l = append(l, nMap(append(pm[:1], g.shuffle(pm[1:])...)))
		}
		m = append(m, KV{"postprocessor", nList(l)})
	}
	return nMap(append(m[:1], g.shuffle(m[1:])...))
}

func (g *gen) scenario(name string, steps []string) *Node {
	m := []KV{{"name", nStr(name)}}
	if g.chance(55) {
		m = append(m, KV{"weight", nInt(int64(g.pick2([]int{1, 2, 3, 4, 6, 10, 50, 0, 100, 7, 9, 15, 33})))})
	}
	if g.chance(55) {
		mwt := int64(g.pick2([]int{10, 1000, 0, 250, 1}))
		if g.chance(50) {
			mwt = int64(g.r.Intn(100000))
		}
		m = append(m, KV{"min_waiting_time", nInt(mwt)})
	}
	var reqs []string
	n := 1 + g.r.Intn(5)
	for i := 0; i < n; i++ {
		s := g.pick(steps)
		switch g.r.Intn(5) {
		case 0:
			reqs = append(reqs, s)
		case 1:
			reqs = append(reqs, fmt.Sprintf("%s(%d)", s, 1+g.r.Intn(3)))
		case 2:
			reqs = append(reqs, fmt.Sprintf("%s(%d, %d)", s, 1+g.r.Intn(3), g.r.Intn(200)))
		case 3:
			reqs = append(reqs, s, fmt.Sprintf("sleep(%d)", g.r.Intn(300)))
		default:
			reqs = append(reqs, " "+s+" ( 2 ) ")
		}
	}
	m = append(m, KV{"requests", nStrs(reqs)})
	return nMap(append(m[:1], g.shuffle(m[1:])...))
}

// int boundaries: around the widths a "simplified" field type would cut at (int8 … int64, float64's 2^53), and the
// largest waiting time / sleep that `time.Millisecond * time.Duration(x)` still holds
var (
	bigInts = []int64{127, 128, 255, 256, 32767, 32768, 65535, 65536, 1<<31 - 1, 1 << 31, 1<<32 - 1, 1 << 32, 1<<53 - 1, 1 << 53, 1<<53 + 1,
		9223372036854, 9223372036855, 1 << 62, 1<<63 - 1}
	negInts = []int64{-1, -128, -129, -32769, -1 << 31, -1<<31 - 1, -9223372036854, -9223372036855, -1 << 63}
)

func (g *gen) bigInt(neg bool) int64 {
	if neg && g.chance(30) {
		return negInts[g.r.Intn(len(negInts))]
	}
	return bigInts[g.r.Intn(len(bigInts))]
}

// boundaries: numbers at the edges in every integer field of the description; weights keep the ammo list small (one
// scenario, or all weights multiples 1–3 of one large base)
func (g *gen) boundaries(d *Node) {
	set := func(n *Node, k string, v *Node) {
		for i := range n.M {
			if n.M[i].K == k {
				n.M[i].V = v
				return
			}
		}
		n.M = append(n.M, KV{k, v})
	}
	if scs := d.get("scenario"); scs != nil {
		base := g.bigInt(false)
		for _, sc := range scs.L {
			if g.chance(60) {
				k := int64(1 + g.r.Intn(3))
				if base > (1<<63-1)/k {
					k = 1
				}
				set(sc, "weight", nInt(base*k))
			} else if len(scs.L) > 1 {
				set(sc, "weight", nInt(base))
			}
			if g.chance(70) {
				set(sc, "min_waiting_time", nInt(g.bigInt(true)))
			}
			if rs := sc.get("requests"); rs != nil && len(rs.L) > 0 && g.chance(50) {
				// a large sleep after the first step, and a large second argument
				first := rs.L[0].S
				if m := shootRe.FindStringSubmatch(first); m != nil {
					first = m[1]
				}
				first = strings.TrimSpace(first)
				if first != "" && first != "sleep" && !strings.ContainsAny(first, "()") {
					extra := []*Node{nStr(fmt.Sprintf("sleep(%d)", g.bigInt(true))), nStr(fmt.Sprintf("%s(1, %d)", first, g.bigInt(true))),
						nStr(fmt.Sprintf("sleep(%d)", g.bigInt(false)))}
					rs.L = append(rs.L[:1], append(extra[:1+g.r.Intn(3)], rs.L[1:]...)...)
				}
			}
		}
	}
	walkPost := func(steps *Node) {
		if steps == nil {
			return
		}
		for _, st := range steps.L {
			if pp := st.get("postprocessor"); pp != nil {
				for _, p := range pp.L {
					if t := p.get("type"); t != nil && t.S == "assert/response" {
						if g.chance(70) {
							set(p, "status_code", nInt(g.bigInt(true)))
						}
						if sz := p.get("size"); sz != nil && sz.K == 'm' && g.chance(70) {
							set(sz, "val", nInt(g.bigInt(false)))
						}
					}
				}
			}
		}
	}
	walkPost(d.get("request"))
	walkPost(d.get("call"))
}

// describe: one mostly-valid description
func (g *gen) describe() *Node {
	grpc := g.chance(40)
	var top []KV
	if ns := g.r.Intn(4); ns > 0 {
		var l []*Node
		for i := 0; i < ns; i++ {
			l = append(l, g.source(i))
		}
		top = append(top, KV{"variable_source", nList(l)})
	}
	nsteps := 1 + g.r.Intn(4)
	var names []string
	var steps []*Node
	for i := 0; i < nsteps; i++ {
		name := g.pick([]string{"auth_req", "list_req", "order_req", "mainpage", "req", "шаг"}) + strconv.Itoa(i)
		names = append(names, name)
		if grpc {
			steps = append(steps, g.call(name))
		} else {
			steps = append(steps, g.request(name))
		}
	}
	if grpc {
		top = append(top, KV{"call", nList(steps)})
	} else {
		top = append(top, KV{"request", nList(steps)})
		if g.chance(10) {
			// a file may describe both kinds; the http provider ignores the calls
			top = append(top, KV{"call", nList([]*Node{g.call("unused_call")})})
		}
	}
	// a step that no scenario uses may carry any name
	if g.chance(15) {
		odd := g.str([]string{"odd name", "a(b)", "sleep"})
		if grpc {
			top[len(top)-1].V.L = append(top[len(top)-1].V.L, g.call(odd))
		} else {
			for i := range top {
				if top[i].K == "request" {
					top[i].V.L = append(top[i].V.L, g.request(odd))
				}
			}
		}
	}
	nsc := 1 + g.r.Intn(3)
	var scs []*Node
	for i := 0; i < nsc; i++ {
		scs = append(scs, g.scenario(g.pick([]string{"scenario_name", "scenario_", "сценарий ", "s"})+strconv.Itoa(i), names))
	}
	top = append(top, KV{"scenario", nList(scs)})
	return nMap(g.shuffle(top))
}

// optionalAttrs: the SCALAR arguments both syntaxes allow to leave out (pointers to string / number / bool in the HCL
// structs: gohcl stores `x = null` as a nil pointer, i.e. "left out").  Not listed: the optional collections
// (`fields`, `variables`, `mapping`, `headers`, `body`, `payload`, `metadata`: pointer to slice / map) — for those gocty
// allocates the pointer and stores a nil collection, yaml.v2 then writes `fields: []`, which is an EMPTY list, not an
// absent one (and a key the selected plugin may not know): `x = null` is not a spelling of "left out" for them.
var optionalAttrs = map[string][]string{
	"variable_source": {"file", "ignore_first_line", "delimiter"},
	"request":         {"tag", "body"},
	"call":            {"tag"},
	"scenario":        {"weight", "min_waiting_time"},
	"reqpost":         {"status_code"},
	"callpost":        {"status_code"},
	"size":            {"val", "op"},
}

// nulls: optional arguments the description leaves out are listed explicitly as null (the HCL printer spells them as
// `x = null`, `x = local.z` with `z = null` in a locals block, or through a derived local; the YAML printer leaves
// them out)
func (g *gen) nulls(d *Node) {
	add := func(n *Node, st string) {
		if n == nil || n.K != 'm' {
			return
		}
		for _, k := range optionalAttrs[st] {
			if n.get(k) == nil && g.chance(60) {
				n.M = append(n.M, KV{k, nNull()})
			}
		}
	}
	each := func(l *Node, f func(*Node)) {
		if l != nil {
			for _, x := range l.L {
				f(x)
			}
		}
	}
	each(d.get("variable_source"), func(x *Node) { add(x, "variable_source") })
	each(d.get("scenario"), func(x *Node) { add(x, "scenario") })
	each(d.get("request"), func(x *Node) {
		add(x, "request")
		each(x.get("postprocessor"), func(p *Node) {
			if t := p.get("type"); t != nil && t.S == "assert/response" {
				add(p, "reqpost")
				add(p.get("size"), "size")
			}
		})
	})
	each(d.get("call"), func(x *Node) {
		add(x, "call")
		each(x.get("postprocessor"), func(p *Node) { add(p, "callpost") })
	})
}

// sparse: drop sections and optional fields (never what a scenario refers to)
func (g *gen) sparse(d *Node) {
	drop := func(n *Node, keys ...string) {
		var m []KV
		for _, kv := range n.M {
			keep := true
			for _, k := range keys {
				if kv.K == k && g.chance(65) {
					keep = false
				}
			}
			if keep {
				m = append(m, kv)
			}
		}
		n.M = m
	}
	drop(d, "variable_source")
	for _, key := range []string{"request", "call"} {
		if l := d.get(key); l != nil {
			for _, st := range l.L {
				drop(st, "tag", "body", "metadata", "preprocessor", "postprocessor", "templater")
			}
		}
	}
	if l := d.get("scenario"); l != nil {
		for _, sc := range l.L {
			drop(sc, "weight", "min_waiting_time")
		}
	}
}

// multiline: bodies / payloads of several lines that end in a line break (heredoc / literal block scalar material),
// incl. blank lines, indented lines, lines that look like YAML or HCL syntax
var wordsLines = []string{"{", "}", "  \"user_id\": {{.request.auth_req.preprocessor.user_id}},", "  indented: yes", "key: value", "- item", "a=1&b=2",
	"<body/>", "line", "EOT2", "x = 1", "# not a comment", "${not.a.template}", "%{ if }", "строка", "日本語", "trailing", "\ttab", "|", ">", "---", "..."}

func (g *gen) multiline(d *Node) {
	text := func() string {
		n := 2 + g.r.Intn(5)
		var b strings.Builder
		for i := 0; i < n; i++ {
			b.WriteString(g.pick(wordsLines))
			b.WriteString("\n")
			if g.chance(10) {
				b.WriteString("\n")
			}
		}
		s := b.String()
		if g.chance(15) {
			s = strings.TrimSuffix(s, "\n")
		}
		return s
	}
	for _, key := range []struct{ list, field string }{{"request", "body"}, {"call", "payload"}} {
		if l := d.get(key.list); l != nil {
			for _, st := range l.L {
				if !g.chance(75) {
					continue
				}
				done := false
				for i := range st.M {
					if st.M[i].K == key.field {
						st.M[i].V = nStr(text())
						done = true
					}
				}
				if !done {
					st.M = append(st.M, KV{key.field, nStr(text())})
				}
			}
		}
	}
}

// enlarge: n more steps of the kind the description has; the last one is used by the first scenario (a file cut short
// loses it)
func (g *gen) enlarge(d *Node, n int) {
	key := "request"
	if l := d.get("request"); l == nil || len(l.L) == 0 {
		key = "call"
	}
	steps := d.get(key)
	if steps == nil {
		return
	}
	last := ""
	for i := 0; i < n; i++ {
		last = "bulk" + strconv.Itoa(i)
		if key == "call" {
			steps.L = append(steps.L, g.call(last))
		} else {
			steps.L = append(steps.L, g.request(last))
		}
	}
	if scs := d.get("scenario"); scs != nil && len(scs.L) > 0 {
		if rs := scs.L[0].get("requests"); rs != nil {
			rs.L = append(rs.L, nStr(last))
		}
	}
}

// mutate: make the description wrong in a way BOTH front-ends must refuse (or both accept)
func (g *gen) mutate(d *Node) {
	all := func(key string) []*Node {
		if l := d.get(key); l != nil {
			return l.L
		}
		return nil
	}
	set := func(n *Node, k string, v *Node) {
		for i := range n.M {
			if n.M[i].K == k {
				n.M[i].V = v
				return
			}
		}
		n.M = append(n.M, KV{k, v})
	}
	reqs, calls, scs, srcs := all("request"), all("call"), all("scenario"), all("variable_source")
	switch g.r.Intn(9) {
	case 0:
		if len(reqs) > 0 {
			set(reqs[0], "postprocessor", nList([]*Node{nMap([]KV{{"type", nStr("var/unknown")}, {"mapping", nMap([]KV{{"a", nStr("b")}})}})}))
			return
		}
	case 1:
		if len(reqs) > 0 {
			set(reqs[0], "postprocessor", nList([]*Node{nMap([]KV{{"type", nStr("var/header")}, {"body", nStrs([]string{"x"})}})}))
			return
		}
	case 2:
		if len(reqs) > 0 {
			set(reqs[0], "postprocessor", nList([]*Node{nMap([]KV{{"type", nStr("assert/response")}, {"size", nMap([]KV{{"val", nInt(5)}, {"op", nStr("~=")}})}})}))
			return
		}
	case 3:
		if len(reqs) > 0 {
			set(reqs[0], "templater", nMap([]KV{{"type", nStr("xml")}}))
			return
		}
	case 4:
		if len(srcs) > 0 {
			set(srcs[0], "type", nStr("file/json"))
			set(srcs[0], "file", nStr("filter.json"))
			set(srcs[0], "fields", nStrs([]string{"a"}))
			return
		}
	case 5:
		if len(calls) > 0 {
			set(calls[0], "postprocessor", nList([]*Node{nMap([]KV{{"type", nStr("assert/body")}})}))
			return
		}
	case 6:
		if len(calls) > 0 {
			set(calls[0], "preprocessor", nList([]*Node{nMap([]KV{{"type", nStr("prepare2")}, {"mapping", nMap(nil)}})}))
			return
		}
	case 7:
		if len(reqs) > 0 {
			set(reqs[0], "postprocessor", nList([]*Node{nMap([]KV{{"type", nStr("assert/response")}, {"size", nMap([]KV{{"val", nInt(-1)}, {"op", nStr("eq")}})}})}))
			return
		}
	}
	if len(scs) > 0 {
		set(scs[0], "requests", nStrs([]string{g.pick([]string{"no_such_step", "sleep(10)", "req(", "req(x)", "req)"})}))
	}
}

// oddSteps: perturb the scenarios / step references in ways the ammo decoders (scenario/http, scenario/grpc
// decodeAmmo, config.ParseShootName, config.SpreadNames) must treat alike for both files; the Lean ammo model predicts
// the outcome (refusal or the exact ammo sequence)
func (g *gen) oddSteps(d *Node) {
	scs := d.get("scenario")
	if scs == nil || len(scs.L) == 0 {
		return
	}
	steps := d.get("request")
	if steps == nil || len(steps.L) == 0 {
		steps = d.get("call")
	}
	if steps == nil || len(steps.L) == 0 {
		return
	}
	stepName := func() string { return steps.L[g.r.Intn(len(steps.L))].get("name").S }
	set := func(n *Node, k string, v *Node) {
		for i := range n.M {
			if n.M[i].K == k {
				n.M[i].V = v
				return
			}
		}
		n.M = append(n.M, KV{k, v})
	}
	sc := scs.L[g.r.Intn(len(scs.L))]
	reqs := sc.get("requests")
	var cur []string
	if reqs != nil {
		for _, x := range reqs.L {
			cur = append(cur, x.S)
		}
	}
	s := stepName()
	switch g.r.Intn(12) {
	case 0:
		odd := []string{s + "(", s + ")", s + "(x)", s + "(2,x)", s + "(1)(2)", s + "(2))", "(2)", s + "(2.5)", s + "(1_0)", s + "(0x2)", s + "( 2"}
		cur = append(cur, g.pick(odd))
	case 1:
		ok := []string{s + "()", s + "(,5)", s + "(+2)", s + "(-1)", s + "(0)", s + "(2,)", s + "(2,-5)", s + "(2, 7, 9)", "\t" + s + " ( 3 , 4 ) ",
			s + "(02)", s + " (1)", "sleep", "sleep()", "sleep(-5)", "sleep(7,9)", " sleep (3)", "sleep(+3)"}
		cur = append(cur, g.pick(ok))
	case 2:
		cur = append([]string{g.pick([]string{"sleep(10)", "sleep", " sleep(1) "})}, cur...)
	case 3:
		cur = append(cur, g.pick([]string{"no_such_step", " " + s, s + " ", "sleep ", "Sleep(3)", strings.ToUpper(s)}))
	case 4:
		set(sc, "weight", nInt(int64(g.pick2([]int{-1, -100}))))
	case 5:
		// two scenarios with the same name and different weights: SpreadNames keeps the last count for both
		cp := nMap(append([]KV{}, sc.M...))
		set(cp, "weight", nInt(int64(g.pick2([]int{1, 2, 3, 5, 7}))))
		scs.L = append(scs.L, cp)
	case 6:
		// two steps with the same name: the later definition wins
		dup := steps.L[g.r.Intn(len(steps.L))]
		cp := nMap(append([]KV{}, dup.M...))
		set(cp, "tag", nStr("second definition"))
		steps.L = append(steps.L, cp)
	case 7:
		cur = nil
	case 8:
		for _, x := range scs.L {
			set(x, "weight", nInt(int64(g.pick2([]int{6, 9, 15, 21, 35, 4, 0, 1, 12}))))
		}
	case 9:
		cur = append(cur, s+"(3)", "sleep(5)", "sleep(7)", s+"(0, 9)", "sleep(11)")
	case 10:
		cur = []string{s + "(0)", "sleep(5)"}
	default:
		cur = append(cur, g.pick([]string{s + "(99999999999999999999)", s + "(1, 99999999999999999999)", s + "(-99999999999999999999)"}))
	}
	set(sc, "requests", nStrs(cur))
}

func line(sx int64, mal int, d *Node, extra ...string) string {
	fancy := 0
	switch sx % 3 {
	case 1:
		fancy = 30
	case 2:
		fancy = 60
	}
	hf := printHCL(d, rand.New(rand.NewSource(sx)), fancy)
	x := ""
	for _, e := range extra {
		if e != "" {
			x += " " + e
		}
	}
	return fmt.Sprintf("sx=%d mal=%d%s d=%s lb=%s hb=%s", sx, mal, x, encodeTree(d), hf.lb, hf.hb)
}

// namePairs: the names the two renderings of one description are stored under — one base name, the extensions in the
// same style: upper / mixed case, further dots and extensions in front, hidden files, unicode, spaces
var namePairs = [][2]string{
	{"AMMO.HCL", "AMMO.YAML"}, {"Ammo.Hcl", "Ammo.Yaml"}, {"ammo.hCL", "ammo.yAML"}, {"a.yaml.hcl", "a.hcl.yaml"}, {"a.yml.hcl", "a.yml.yaml"},
	{".hcl", ".yaml"}, {".yml.hcl", ".yml.yaml"}, {"payload.v2.hcl", "payload.v2.yaml"}, {"данные.hcl", "данные.yaml"}, {"my ammo.hcl", "my ammo.yaml"},
	{"hcl.yaml.HCL", "hcl.yaml.YAML"}, {"x..hcl", "x..yaml"}, {"UPPER.hcl", "UPPER.yaml"}, {"payload.json.hcl", "payload.json.yaml"},
}

// faultToken: one fault (mostly a read fault at an item boundary, where the prefix read so far is a well-formed
// file of its own), sometimes two that coincide
func faultToken(r *rand.Rand) string {
	one := func() string {
		switch x := r.Intn(100); {
		case x < 6:
			return "open"
		case x < 12:
			return "stat"
		case x < 24:
			return "close"
		case x < 32:
			return "read1000"
		case x < 36:
			return "read0"
		default:
			return "read" + strconv.Itoa(50+r.Intn(940))
		}
	}
	t := one()
	if r.Intn(100) < 15 {
		if u := one(); u != t && !(strings.HasPrefix(u, "read") && strings.HasPrefix(t, "read")) {
			t += "+" + u
		}
	}
	return t
}

func nameTokens(r *rand.Rand) string {
	p := namePairs[r.Intn(len(namePairs))]
	return "hn=" + hex.EncodeToString([]byte(p[0])) + " yn=" + hex.EncodeToString([]byte(p[1]))
}

func generate(r *rand.Rand, tier string) []string {
	n := 1500
	if tier == "thorough" {
		n = 38000
	}
	g := &gen{r: r}
	var out []string
	// the round-6 streams come FIRST: on a starved machine the run's time budget (child.go) cuts the END of the list
	var head []string
	// HISTORIES (history.go): SPARSE descriptions (sections and optional fields left out: whatever a rendering leaves
	// out could be inherited from an earlier conversion) after one to three other conversions, half of them rejected
	// by the common decoder after the HCL side was marshalled
	nh := 150
	if tier == "thorough" {
		nh = 1500
	}
	for i := 0; i < nh; i++ {
		d := g.describe()
		g.sparse(d)
		head = append(head, line(r.Int63n(1<<40), 0, d, "hi="+historyToken(r)))
	}
	// optional arguments left out as NULL — literally, through a local whose value is null, through a local derived
	// from it; and strings as coalesce(local.z, "value") with z = null (a local may hold null and be referenced later)
	nn := 120
	if tier == "thorough" {
		nn = 1200
	}
	for i := 0; i < nn; i++ {
		d := g.describe()
		g.nulls(d)
		sx := r.Int63n(1<<40)/3*3 + 1 + int64(i%2)
		head = append(head, line(sx, 0, d))
	}
	// how the files are SAVED (enc.go): CRLF line terminators (all / some / first / all but the first / one file only);
	// the descriptions of this stream carry multi-line bodies and payloads, which the printers spell as heredocs and
	// block scalars — the places where a line terminator of the FILE stands inside a value
	ne := 140
	if tier == "thorough" {
		ne = 1500
	}
	for i := 0; i < ne; i++ {
		d := g.describe()
		if i%4 != 3 {
			g.multiline(d)
		}
		sx := r.Int63n(1 << 40)
		if i%3 == 0 {
			sx = sx/3*3 + 2 // the fancy spelling (locals, heredocs in locals, literal block scalars)
		}
		head = append(head, line(sx, 0, d, "enc="+encModes[i%len(encModes)]))
	}
	// SIZE (enc.go): both files padded with a comment block of 63 KiB … 4.1 MiB, the description goes on after it
	np := 1
	if tier == "thorough" {
		np = 4
	}
	for k := 0; k < np; k++ {
		for _, kib := range padSizes {
			d := g.describe()
			for len(d.get("scenario").L) < 2 {
				d = g.describe()
			}
			pl := ""
			if kib == 63 || kib == 65 || kib == 1025 || kib == 2048 {
				pl = "pl=1"
			}
			head = append(head, line(r.Int63n(1<<40), 0, d, "pad="+strconv.Itoa(kib), pl))
			if kib == 65 {
				head = append(head, line(r.Int63n(1<<40), 0, g.describe(), "pad=65"))
			}
		}
	}
	out = append(out, head...)
	for i := 0; i < n; i++ {
		d := g.describe()
		mal := 0
		nb, names, co := "", "", ""
		switch x := g.r.Intn(100); {
		case x < 8:
			mal = 1
			g.mutate(d)
		case x < 20:
			mal = 2
			g.oddSteps(d)
		case x < 28:
			nb = "nb=1"
			g.boundaries(d)
		case x < 40:
			g.nulls(d)
		}
		if g.chance(12) {
			names = nameTokens(g.r)
		}
		if g.chance(8) {
			co = "co=par"
		}
		enc := ""
		if g.chance(6) {
			enc = "enc=" + g.pick(encModes)
		}
		hi := ""
		if g.chance(30) {
			hi = "hi=" + historyToken(g.r)
		}
		out = append(out, line(r.Int63n(1<<40), mal, d, nb, names, co, enc, hi))
	}
	// exhaustive small enumerations: all of them in the thorough tier, a random sample in the quick tier
	k := 150
	if tier == "thorough" {
		k = 0
	}
	out = append(out, sample(r, enumOptional(), k)...)
	out = append(out, sample(r, enumSteps(), k)...)
	out = append(out, sample(r, enumWeights(), k)...)
	out = append(out, sample(r, enumLocals(), k)...)
	// every registered function on arguments that tell it apart from every other one: all, in both tiers
	out = append(out, enumFunctions()...)
	// files with a piece that does not evaluate (must be refused as a whole)
	nb := 150
	if tier == "thorough" {
		nb = 3000
	}
	for i := 0; i < nb; i++ {
		if l := brokenLine(r, r.Int63n(1<<40), g.describe()); l != "" {
			out = append(out, l)
		}
	}
	// files with a `locals` block the format does not admit (a label after the keyword): hcl drops such a block with an
	// error; the file must be refused as a whole
	nl := 60
	if tier == "thorough" {
		nl = 1200
	}
	for i := 0; i < nl; i++ {
		if l := labelledLine(r, r.Int63n(1<<40), g.describe()); l != "" {
			out = append(out, l)
		}
	}
	// I/O faults at a particular point of reading the two files (faultfs.go): whatever the front-end, a file that
	// could not be read completely must be refused
	nf := 160
	if tier == "thorough" {
		nf = 2500
	}
	for i := 0; i < nf; i++ {
		out = append(out, line(r.Int63n(1<<40), 0, g.describe(), "ff="+faultToken(r)))
	}
	// LARGE descriptions: 80–300 more steps, the files are 30–200 KB (buffers, single reads, size limits of the hop)
	nbig := 6
	if tier == "thorough" {
		nbig = 40
	}
	for i := 0; i < nbig; i++ {
		d := g.describe()
		g.enlarge(d, 80+r.Intn(220))
		out = append(out, line(r.Int63n(1<<40), 0, d, "big=1"))
	}
	// every pair of file names once
	for _, p := range namePairs {
		out = append(out, line(r.Int63n(1<<40), 0, g.describe(), "hn="+hex.EncodeToString([]byte(p[0]))+" yn="+hex.EncodeToString([]byte(p[1]))))
	}
	return out
}

func main() {
	if os.Getenv("C16_CHILD") != "" {
		childMain()
		return
	}
	setup()
	defer closePool()
	workers := 8
	for i, a := range os.Args {
		if (a == "-tier" || a == "--tier") && i+1 < len(os.Args) && os.Args[i+1] == "thorough" {
			workers = 14
			setLimits("thorough")
		}
	}
	poolSize = workers
	drv.Main(&drv.Prop{
		ID:      "C16",
		Gen:     generate,
		Run:     runViaChild,
		Class:   class,
		Workers: workers,
		Timeout: frameworkTimeout(),
		Rule: "random scenario descriptions (http requests or grpc calls, all registered variable sources / processors / templaters, 1-3 scenarios " +
			"with weights, min_waiting_time, multipliers and sleeps; optional fields present, absent or present-and-zero; strings drawn from realistic " +
			"values, YAML-1.1-special words, unicode incl. line separators/BOM, whitespace/newline shapes, HCL template characters) are printed by the " +
			"harness as HCL (2/3 of the cases through locals blocks, interpolation and the registered collection functions) and as YAML (quoted, plain, " +
			"single-quoted, literal-block scalars, flow collections, locals+anchors+merge keys), parsed by the real ReadAmmoConfig and the registered " +
			"providers, and the canonical dumps compared; the HCL spelling redefines locals in earlier / later blocks (the last definition before the " +
			"use must win) and its syntax tree is evaluated by the Lean model; 8% are malformed (unknown plugin type, key of another plugin, bad " +
			"assert op, unknown step) and must be refused by both front-ends; 12% have odd step references / weights (brackets, signs, sleeps, " +
			"duplicates, negative weight) whose outcome the Lean ammo model predicts; 8% carry numbers at the int8…int64 / 2^53 / duration edges in " +
			"every integer field (weights kept proportional); 12% are stored under other file names (upper / mixed case extensions, further " +
			"extensions and dots in front, hidden files, unicode); EVERY case is decoded after another description was read from the same two " +
			"paths, 8% while three goroutines decode other files with the same base names; every case runs in a child process (a crash of " +
			"the Go runtime is the observation PANIC of that case); files with a `locals` block carrying a label must be " +
			"refused as a whole; strings include 70–4000 character texts around yaml.v2's folding width; round 6: 30% of the random cases and 150 sparse " +
			"descriptions are converted after 1-3 other conversions from the same paths (hi=: full descriptions REJECTED by the common decoder, by " +
			"yaml.Unmarshal of the hop, by a locals block, by the syntax; accepted ones); 6% + 140 multi-line descriptions are saved with CR LF line " +
			"terminators (all / some / first / all but first / one file only); 12% + 120 leave optional scalar arguments out as null (literal, a local " +
			"whose value is null, a derived local, coalesce(local.z, v)); 11 cases pad both files with a 63 KiB - 4.1 MiB comment block (lines or one " +
			"line) in front of the rest of the description; a case is non-trivial when it has at least one request or call",
	})
}
