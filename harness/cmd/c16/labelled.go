package main

// mal=4: HCL files with a `locals` block the format does not admit — one or two labels after the keyword
// (`locals "prod" { … }`).  hcl's PartialContent takes such a block out of the body, reports an error diagnostic for it
// ("Extraneous label for locals") and returns it to nobody: unless ParseHCLFile returns those diagnostics, the block's
// definitions silently disappear.  "Locals blocks are fully evaluated before conversion": the file must be refused.
//
// In the encoded syntax tree a label is an entry of the block under the reserved key `!label` (not an identifier, so
// never the name of a local).

import (
	"fmt"
	"math/rand"
)

const labelKey = "!label"

var labelPool = []string{"prod", "x", "тест", "a b", "locals", "0"}

func labelledLine(r *rand.Rand, sx int64, d *Node) string {
	fancy := 0
	switch sx % 3 {
	case 1:
		fancy = 30
	case 2:
		fancy = 60
	}
	hf := printHCL(d, rand.New(rand.NewSource(sx)), fancy)
	l, err := parseHX(hf.lb)
	if err != nil || l.k != 'l' {
		return ""
	}
	labels := func(blk *hnode) {
		n := 1 + r.Intn(2)
		var keys []string
		var vals []*hnode
		for i := 0; i < n; i++ {
			keys = append(keys, labelKey)
			vals = append(vals, &hnode{k: 's', s: labelPool[r.Intn(len(labelPool))]})
		}
		blk.keys = append(keys, blk.keys...)
		blk.list = append(vals, blk.list...)
	}
	insert := func(at int, blk *hnode) {
		l.list = append(l.list, nil)
		copy(l.list[at+1:], l.list[at:])
		l.list[at] = blk
	}
	kind := ""
	switch k := r.Intn(4); {
	case k == 0 || len(l.list) == 0:
		// a labelled block that defines a name nothing uses
		kind = "unused"
		blk := &hnode{k: 'm', keys: []string{"zz_labelled"}, list: []*hnode{{k: 's', s: "v"}}}
		labels(blk)
		insert(r.Intn(len(l.list)+1), blk)
	case k == 1:
		// a labelled block AFTER a block, giving one of that block's locals another value: the later definition would win
		i := r.Intn(len(l.list))
		if len(l.list[i].keys) == 0 {
			return ""
		}
		kind = "redefines"
		name := l.list[i].keys[r.Intn(len(l.list[i].keys))]
		blk := &hnode{k: 'm', keys: []string{name}, list: []*hnode{{k: 's', s: "value of the labelled block"}}}
		labels(blk)
		insert(i+1+r.Intn(len(l.list)-i), blk)
	case k == 2:
		// an existing block gets a label: its definitions disappear
		kind = "moved"
		labels(l.list[r.Intn(len(l.list))])
	default:
		// an empty labelled block
		kind = "empty"
		blk := &hnode{k: 'm'}
		labels(blk)
		insert(r.Intn(len(l.list)+1), blk)
	}
	return fmt.Sprintf("sx=%d mal=4 hx=1 bk=labelled-%s d=%s lb=%s hb=%s", sx, kind, encodeTree(d), l.enc(), hf.hb)
}
