package main

// Round 6: HISTORIES.  A description is decoded on its own: whatever the process converted before it — accepted or
// REJECTED, at whatever stage of the way from the file to AmmoConfig — must leave nothing behind (a pooled buffer that
// is only reset on success, a parser / context / struct that keeps what an earlier file put there).  EVERY case already
// reads a valid companion from its two paths first (main.go); token hi=<letters> adds up to four more conversions
// between the companion and the files of the case, each stored under the same two paths and read through the real
// ReadAmmoConfig (both renderings):
//
//	r   a FULL http description (two variable sources, every optional field of a request, three scenarios) that both
//	    front-ends parse and the common decoder REJECTS (unknown postprocessor type): the HCL side is marshalled and
//	    rejected by DecodeMap
//	g   the same for grpc (calls with every optional field, unknown preprocessor type)
//	k   rejected later still: the plugin is known, one of its keys is not (ErrorUnused)
//	u   the HCL file is rejected by yaml.Unmarshal of the hop (a header named `<<`, finding merge-key); its YAML twin is
//	    accepted
//	e   the HCL file is rejected by the evaluation of a `locals` block (element of an empty list), after a full body
//	x   neither file parses (syntax)
//	a   the full http description, accepted
//	v   another valid companion
//
// The model has no state to predict (regenerated `pkgStateUses`, `C16_front_ends_stateless`): its prediction for the
// case is the prediction without the history.

import (
	"math/rand"
	"strings"
	"sync"
)

const historyLetters = "rgkuexav"

func fullHTTP(postType string, extraKey bool) *Node {
	post := []KV{{"type", nStr(postType)}, {"mapping", nMap([]KV{{"stale_var", nStr("$.stale")}})}}
	if extraKey {
		post = []KV{{"type", nStr("var/header")}, {"mapping", nMap([]KV{{"stale_var", nStr("Stale-Header")}})}, {"body", nStrs([]string{"stale"})}}
	}
	req := func(name string) *Node {
		return nMap([]KV{{"name", nStr(name)}, {"method", nStr("POST")}, {"uri", nStr("/stale/" + name)},
			{"headers", nMap([]KV{{"Stale-Header", nStr("stale")}, {"Content-Type", nStr("application/stale")}})},
			{"tag", nStr("stale tag")}, {"body", nStr("stale body\nsecond line\n")},
			{"preprocessor", nMap([]KV{{"mapping", nMap([]KV{{"stale_id", nStr("source.stale_users[next].user_id")}})}})},
			{"postprocessor", nList([]*Node{
				nMap([]KV{{"type", nStr("assert/response")}, {"headers", nMap([]KV{{"Stale", nStr("yes")}})}, {"body", nStrs([]string{"stale"})},
					{"status_code", nInt(418)}, {"size", nMap([]KV{{"val", nInt(77)}, {"op", nStr(">")}})}}),
				nMap(post)})},
			{"templater", nMap([]KV{{"type", nStr("html")}})}})
	}
	return nMap([]KV{
		{"variable_source", nList([]*Node{
			nMap([]KV{{"name", nStr("stale_users")}, {"type", nStr("file/csv")}, {"file", nStr("users.csv")},
				{"fields", nStrs([]string{"user_id", "name", "pass"})}, {"ignore_first_line", nBool(true)}, {"delimiter", nStr(",")}}),
			nMap([]KV{{"name", nStr("stale_vars")}, {"type", nStr("variables")}, {"variables", nMap([]KV{{"stale", nStr("yes")}, {"port", nStr("8090")}})}})})},
		{"request", nList([]*Node{req("stale_req"), req("auth_req0"), req("list_req1")})},
		{"scenario", nList([]*Node{
			nMap([]KV{{"name", nStr("stale_scenario")}, {"weight", nInt(5)}, {"min_waiting_time", nInt(4321)}, {"requests", nStrs([]string{"stale_req(2, 17)", "sleep(9)"})}}),
			nMap([]KV{{"name", nStr("scenario_name0")}, {"weight", nInt(7)}, {"min_waiting_time", nInt(1234)}, {"requests", nStrs([]string{"stale_req"})}}),
			nMap([]KV{{"name", nStr("s1")}, {"weight", nInt(11)}, {"requests", nStrs([]string{"auth_req0", "list_req1"})}})})},
	})
}

func fullGRPC(preType string) *Node {
	call := func(name string) *Node {
		return nMap([]KV{{"name", nStr(name)}, {"call", nStr("stale.Service.Method")}, {"tag", nStr("stale tag")},
			{"metadata", nMap([]KV{{"stale-meta", nStr("yes")}})}, {"payload", nStr("{\"stale\": true}\n")},
			{"preprocessor", nList([]*Node{nMap([]KV{{"type", nStr(preType)}, {"mapping", nMap([]KV{{"stale_id", nStr("source.stale_vars.stale")}})}})})},
			{"postprocessor", nList([]*Node{nMap([]KV{{"type", nStr("assert/response")}, {"payload", nStrs([]string{"stale"})}, {"status_code", nInt(14)}})})}})
	}
	return nMap([]KV{
		{"variable_source", nList([]*Node{
			nMap([]KV{{"name", nStr("stale_vars")}, {"type", nStr("variables")}, {"variables", nMap([]KV{{"stale", nStr("yes")}})}}),
			nMap([]KV{{"name", nStr("stale_json")}, {"type", nStr("file/json")}, {"file", nStr("filter.json")}})})},
		{"call", nList([]*Node{call("stale_call"), call("auth_req0")})},
		{"scenario", nList([]*Node{
			nMap([]KV{{"name", nStr("stale_scenario")}, {"weight", nInt(3)}, {"min_waiting_time", nInt(999)}, {"requests", nStrs([]string{"stale_call(3)"})}}),
			nMap([]KV{{"name", nStr("s0")}, {"weight", nInt(2)}, {"requests", nStrs([]string{"auth_req0"})}})})},
	})
}

var (
	historyTexts map[byte][2]string
	historyOnce  sync.Once
)

// historyFiles: the two renderings (HCL, YAML) of the predecessor a letter stands for
func historyFiles(letter byte, sx int64, i int) (string, string, bool) {
	historyOnce.Do(func() {
		pr := func(d *Node, k int64, fancy int) [2]string {
			h := printHCL(d, rand.New(rand.NewSource(11+k)), fancy)
			y, _ := printYAML(d, rand.New(rand.NewSource(12+k)), fancy/2)
			return [2]string{h.text, y}
		}
		full := pr(fullHTTP("var/header", false), 6, 60)
		historyTexts = map[byte][2]string{
			'r': pr(fullHTTP("var/unknown", false), 1, 0),
			'g': pr(fullGRPC("prepare2"), 2, 30),
			'k': pr(fullHTTP("var/header", true), 3, 0),
			'a': full,
			'u': {"variable_source \"stale_vars\" \"variables\" {\n  variables = { stale = \"yes\" }\n}\nrequest \"stale_req\" {\n  method = \"GET\"\n  uri = \"/stale\"\n  headers = { \"<<\" = \"stale\" }\n  tag = \"stale tag\"\n  body = \"stale body\"\n}\nscenario \"stale_scenario\" {\n  weight = 5\n  min_waiting_time = 4321\n  requests = [\"stale_req\"]\n}\n",
				"variable_sources:\n  - {name: stale_vars, type: variables, variables: {stale: \"yes\"}}\nrequests:\n  - name: stale_req\n    method: GET\n    uri: /stale\n    headers: {\"<<\": stale}\n    tag: stale tag\n    body: stale body\nscenarios:\n  - {name: stale_scenario, weight: 5, min_waiting_time: 4321, requests: [stale_req]}\n"},
			'e': {full[0] + "locals {\n  stale_bad = element([], 0)\n}\n", full[1]},
			'x': {"request \"stale_req\" {\n  method = \"GET\"\n  uri = \n", "requests:\n  - name: stale_req\n   method: [GET\n"},
		}
	})
	if letter == 'v' {
		h, y := companion(sx, 7+i)
		return h, y, true
	}
	t, ok := historyTexts[letter]
	return t[0], t[1], ok
}

func validHistory(h string) bool {
	if len(h) == 0 || len(h) > 4 {
		return false
	}
	for i := 0; i < len(h); i++ {
		if !strings.ContainsRune(historyLetters, rune(h[i])) {
			return false
		}
	}
	return true
}

func historyToken(r *rand.Rand) string {
	n := 1
	switch x := r.Intn(10); {
	case x < 5:
		n = 1
	case x < 8:
		n = 2
	default:
		n = 3
	}
	var b strings.Builder
	for i := 0; i < n; i++ {
		// the rejected-by-the-decoder kinds are the ones that get furthest: half of the draws
		if r.Intn(2) == 0 {
			b.WriteByte("rgk"[r.Intn(3)])
		} else {
			b.WriteByte(historyLetters[r.Intn(len(historyLetters))])
		}
	}
	return b.String()
}
