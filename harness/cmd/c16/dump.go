package main

// Canonical dump of decoded values (AmmoConfig, scenario ammo): zero-valued fields are left out (the decoder leaves
// absent fields at their zero value; nil and empty slices/maps are the same to every reader), struct fields sorted
// by name, map keys sorted bytewise, strings in hex.  The Lean driver prints the model's record in the same format.
//
//	string  s<hex>      int  i<dec>     bool  t | f      list  [a,b]     map  {<hexkey>:v,...}
//	struct  (Field=v;Field=v)           plugin  (Field=v;...;type=s<hex>)   (plugin name from the concrete type)

import (
	"encoding/hex"
	"fmt"
	"reflect"
	"sort"
	"strconv"
	"strings"
	"time"
)

// concrete plugin types -> registered plugin name (what the user writes under `type`)
var pluginNames = map[string]string{
	"*vs.VariableSourceCsv":                   "file/csv",
	"*vs.VariableSourceJSON":                  "file/json",
	"*vs.VariableSourceVariables":             "variables",
	"*postprocessor.VarJsonpathPostprocessor": "var/jsonpath",
	"*postprocessor.VarXpathPostprocessor":    "var/xpath",
	"*postprocessor.VarHeaderPostprocessor":   "var/header",
	"*postprocessor.AssertResponse":           "assert/response",
	"*templater.TextTemplater":                "text",
	"*templater.HTMLTemplater":                "html",
	"*preprocessor.PreparePreprocessor":       "prepare",
}

type dumper struct {
	skipFields map[string]bool
}

func hexs(s string) string { return hex.EncodeToString([]byte(s)) }

// dump returns ("", false) for a zero value
func (d *dumper) dump(v reflect.Value) (string, bool) {
	if !v.IsValid() {
		return "", false
	}
	switch v.Kind() {
	case reflect.String:
		if v.Len() == 0 {
			return "", false
		}
		return "s" + hexs(v.String()), true
	case reflect.Int, reflect.Int8, reflect.Int16, reflect.Int32, reflect.Int64:
		if v.Int() == 0 {
			return "", false
		}
		return "i" + strconv.FormatInt(v.Int(), 10), true
	case reflect.Uint, reflect.Uint8, reflect.Uint16, reflect.Uint32, reflect.Uint64:
		if v.Uint() == 0 {
			return "", false
		}
		return "i" + strconv.FormatUint(v.Uint(), 10), true
	case reflect.Float32, reflect.Float64:
		if v.Float() == 0 {
			return "", false
		}
		return "r" + strconv.FormatFloat(v.Float(), 'g', -1, 64), true
	case reflect.Bool:
		if !v.Bool() {
			return "", false
		}
		return "t", true
	case reflect.Slice, reflect.Array:
		if v.Len() == 0 {
			return "", false
		}
		if v.Type().Elem().Kind() == reflect.Uint8 {
			return "s" + hex.EncodeToString(v.Bytes()), true
		}
		parts := make([]string, v.Len())
		for i := 0; i < v.Len(); i++ {
			parts[i] = d.elem(v.Index(i))
		}
		return "[" + strings.Join(parts, ",") + "]", true
	case reflect.Map:
		if v.Len() == 0 {
			return "", false
		}
		type ent struct{ k, v string }
		var ents []ent
		it := v.MapRange()
		for it.Next() {
			k := it.Key()
			for k.Kind() == reflect.Interface {
				k = k.Elem()
			}
			ks := ""
			if k.Kind() == reflect.String {
				ks = hexs(k.String())
			} else {
				ks = hexs(fmt.Sprint(k.Interface()))
			}
			ents = append(ents, ent{ks, d.elem(it.Value())})
		}
		sort.Slice(ents, func(i, j int) bool { return ents[i].k < ents[j].k })
		parts := make([]string, len(ents))
		for i, e := range ents {
			parts[i] = e.k + ":" + e.v
		}
		return "{" + strings.Join(parts, ",") + "}", true
	case reflect.Ptr:
		if v.IsNil() {
			return "", false
		}
		return d.present(v.Elem()), true
	case reflect.Interface:
		if v.IsNil() {
			return "", false
		}
		e := v.Elem()
		tn := e.Type().String()
		if name, ok := pluginNames[tn]; ok {
			if e.Kind() == reflect.Ptr {
				if e.IsNil() {
					return "", false
				}
				e = e.Elem()
			}
			return d.structFields(e, "s"+hexs(name)), true
		}
		if e.Kind() == reflect.Ptr && e.IsNil() {
			// a typed nil pointer stored in an interface (http scenario: absent preprocessor)
			return "", false
		}
		return d.dump(e)
	case reflect.Struct:
		s := d.structFields(v, "")
		if s == "()" {
			return "", false
		}
		return s, true
	}
	return "?" + v.Kind().String(), true
}

// present: a value that exists (pointee of a non-nil pointer): printed even when it is the zero value
func (d *dumper) present(v reflect.Value) string {
	if s, ok := d.dump(v); ok {
		return s
	}
	switch v.Kind() {
	case reflect.String:
		return "s"
	case reflect.Bool:
		return "f"
	case reflect.Struct:
		return "()"
	case reflect.Slice, reflect.Array:
		return "[]"
	case reflect.Map:
		return "{}"
	case reflect.Int, reflect.Int8, reflect.Int16, reflect.Int32, reflect.Int64, reflect.Uint, reflect.Uint8, reflect.Uint16, reflect.Uint32, reflect.Uint64:
		return "i0"
	}
	return "nil"
}

// elem: element of a list / value of a map: always printed
func (d *dumper) elem(v reflect.Value) string {
	for v.Kind() == reflect.Interface {
		if v.IsNil() {
			return "nil"
		}
		if _, ok := pluginNames[v.Elem().Type().String()]; ok {
			break
		}
		v = v.Elem()
	}
	if s, ok := d.dump(v); ok {
		return s
	}
	return d.present(v)
}

func (d *dumper) structFields(v reflect.Value, typeName string) string {
	if v.Type() == reflect.TypeOf(time.Time{}) {
		return "(time)"
	}
	type ent struct{ k, v string }
	var ents []ent
	t := v.Type()
	for i := 0; i < t.NumField(); i++ {
		f := t.Field(i)
		if f.PkgPath != "" || d.skipFields[f.Name] {
			continue
		}
		if s, ok := d.dump(v.Field(i)); ok {
			ents = append(ents, ent{f.Name, s})
		}
	}
	if typeName != "" {
		ents = append(ents, ent{"type", typeName})
	}
	sort.Slice(ents, func(i, j int) bool { return ents[i].k < ents[j].k })
	parts := make([]string, len(ents))
	for i, e := range ents {
		parts[i] = e.k + "=" + e.v
	}
	return "(" + strings.Join(parts, ";") + ")"
}

func dumpValue(x any, skip ...string) string {
	d := &dumper{skipFields: map[string]bool{}}
	for _, s := range skip {
		d.skipFields[s] = true
	}
	v := reflect.ValueOf(x)
	for v.Kind() == reflect.Ptr && !v.IsNil() {
		v = v.Elem()
	}
	if s, ok := d.dump(v); ok {
		return s
	}
	return "()"
}
