package main

// Exhaustive small enumerations (thorough tier: all of them; quick tier: a random sample):
//
//	enumOptional  every combination of {absent, present-and-zero, present} over the optional fields of a request, a call,
//	              a variable source and a scenario, all processor kinds
//	enumSteps     every step reference made of up to three tokens of a small alphabet (names, brackets, commas, signs,
//	              blanks, `sleep`) and every name(count, sleep) shape: ParseShootName / convertScenarioToAmmo
//	enumWeights   every weight vector over {0,1,2,3,4,6,9} for one to three scenarios (and two scenarios of one name):
//	              SpreadNames
//	enumLocals    every well-formed arrangement of two locals over up to three `locals` blocks (literal, reference to a
//	              local of an earlier block, interpolation), i.e. every redefinition pattern: decodeLocals

import (
	"fmt"
	"math/rand"
	"strings"
)

func kvs(pairs ...any) []KV {
	var out []KV
	for i := 0; i+1 < len(pairs); i += 2 {
		if pairs[i+1] == nil {
			continue
		}
		out = append(out, KV{pairs[i].(string), pairs[i+1].(*Node)})
	}
	return out
}

func smapN(pairs ...string) *Node {
	var m []KV
	for i := 0; i+1 < len(pairs); i += 2 {
		m = append(m, KV{pairs[i], nStr(pairs[i+1])})
	}
	return nMap(m)
}

func orNil(n *Node, present bool) any {
	if !present {
		return nil
	}
	return n
}

// tri: 0 absent, 1 present-and-zero, 2 present
func triStr(i int, v string) any {
	switch i {
	case 1:
		return nStr("")
	case 2:
		return nStr(v)
	}
	return nil
}

func scenarioOf(step string) *Node {
	return nList([]*Node{nMap(kvs("name", nStr("s"), "requests", nStrs([]string{step})))})
}

func enumOptional() []string {
	var out []string
	i := int64(0)
	add := func(d *Node) {
		// each combination at all three spelling levels (literals only / locals + functions / more of them)
		for lvl := int64(0); lvl < 3; lvl++ {
			i++
			out = append(out, line(i*3+lvl, 0, d))
		}
	}
	// http request
	posts := [][]*Node{
		nil,
		{nMap(kvs("type", nStr("var/header"), "mapping", smapN()))},
		{nMap(kvs("type", nStr("var/jsonpath"), "mapping", smapN("a", "$.a"))), nMap(kvs("type", nStr("var/xpath"), "mapping", smapN("b", "//b")))},
		{nMap(kvs("type", nStr("assert/response")))},
		{nMap(kvs("type", nStr("assert/response"), "headers", smapN(), "body", nStrs(nil), "status_code", nInt(0)))},
		{nMap(kvs("type", nStr("assert/response"), "headers", smapN("h", "v"), "body", nStrs([]string{"x"}), "status_code", nInt(204),
			"size", nMap(kvs("val", nInt(10), "op", nStr(">")))))},
		{nMap(kvs("type", nStr("assert/response"), "size", nMap(kvs("val", nInt(0), "op", nStr("eq")))))},
	}
	for tag := 0; tag < 3; tag++ {
		for body := 0; body < 3; body++ {
			for hdr := 0; hdr < 2; hdr++ {
				for pre := 0; pre < 3; pre++ {
					for tmpl := 0; tmpl < 3; tmpl++ {
						for _, post := range posts {
							h := smapN()
							if hdr == 1 {
								h = smapN("Content-Type", "text/plain")
							}
							var preN, tmplN, postN any
							switch pre {
							case 1:
								preN = nMap(kvs("mapping", smapN()))
							case 2:
								preN = nMap(kvs("mapping", smapN("a", "source.v.a")))
							}
							switch tmpl {
							case 1:
								tmplN = nMap(kvs("type", nStr("text")))
							case 2:
								tmplN = nMap(kvs("type", nStr("html")))
							}
							if post != nil {
								postN = nList(post)
							}
							req := nMap(kvs("name", nStr("r"), "method", nStr("GET"), "uri", nStr("/"), "headers", h,
								"tag", triStr(tag, "t"), "body", triStr(body, "b"), "preprocessor", preN, "postprocessor", postN, "templater", tmplN))
							add(nMap(kvs("request", nList([]*Node{req}), "scenario", scenarioOf("r"))))
						}
					}
				}
			}
		}
	}
	// grpc call
	cposts := [][]*Node{
		nil,
		{nMap(kvs("type", nStr("assert/response")))},
		{nMap(kvs("type", nStr("assert/response"), "payload", nStrs(nil), "status_code", nInt(0)))},
		{nMap(kvs("type", nStr("assert/response"), "payload", nStrs([]string{"x"}), "status_code", nInt(200))), nMap(kvs("type", nStr("assert/response"), "status_code", nInt(14)))},
	}
	cpres := [][]*Node{
		nil,
		{nMap(kvs("type", nStr("prepare"), "mapping", smapN()))},
		{nMap(kvs("type", nStr("prepare"), "mapping", smapN("a", "source.v.a"))), nMap(kvs("type", nStr("prepare"), "mapping", smapN("b", "c")))},
	}
	for tag := 0; tag < 3; tag++ {
		for md := 0; md < 3; md++ {
			for _, pre := range cpres {
				for _, post := range cposts {
					for pl := 0; pl < 2; pl++ {
						var mdN, preN, postN any
						switch md {
						case 1:
							mdN = smapN()
						case 2:
							mdN = smapN("authorization", "x")
						}
						if pre != nil {
							preN = nList(pre)
						}
						if post != nil {
							postN = nList(post)
						}
						payload := ""
						if pl == 1 {
							payload = "{}"
						}
						call := nMap(kvs("name", nStr("c"), "call", nStr("pkg.Svc.M"), "payload", nStr(payload), "tag", triStr(tag, "t"),
							"metadata", mdN, "preprocessor", preN, "postprocessor", postN))
						add(nMap(kvs("call", nList([]*Node{call}), "scenario", scenarioOf("c"))))
					}
				}
			}
		}
	}
	// variable sources
	one := nMap(kvs("name", nStr("r"), "method", nStr("GET"), "uri", nStr("/"), "headers", smapN()))
	for f := 0; f < 3; f++ {
		for ifl := 0; ifl < 3; ifl++ {
			for dl := 0; dl < 3; dl++ {
				var fN, iN any
				switch f {
				case 1:
					fN = nStrs(nil)
				case 2:
					fN = nStrs([]string{"id", "name"})
				}
				switch ifl {
				case 1:
					iN = nBool(false)
				case 2:
					iN = nBool(true)
				}
				src := nMap(kvs("name", nStr("users"), "type", nStr("file/csv"), "file", nStr("users.csv"), "fields", fN, "ignore_first_line", iN, "delimiter", triStr(dl, ",")))
				add(nMap(kvs("variable_source", nList([]*Node{src}), "request", nList([]*Node{one}), "scenario", scenarioOf("r"))))
			}
		}
	}
	for v := 0; v < 3; v++ {
		var vN any
		switch v {
		case 1:
			vN = smapN()
		case 2:
			vN = smapN("host", "localhost", "port", "8090")
		}
		src := nMap(kvs("name", nStr("v"), "type", nStr("variables"), "variables", vN))
		js := nMap(kvs("name", nStr("j"), "type", nStr("file/json"), "file", nStr("filter.json")))
		add(nMap(kvs("variable_source", nList([]*Node{src, js}), "request", nList([]*Node{one}), "scenario", scenarioOf("r"))))
	}
	// scenario
	for w := 0; w < 3; w++ {
		for mw := 0; mw < 3; mw++ {
			for two := 0; two < 2; two++ {
				var wN, mN any
				switch w {
				case 1:
					wN = nInt(0)
				case 2:
					wN = nInt(2)
				}
				switch mw {
				case 1:
					mN = nInt(0)
				case 2:
					mN = nInt(5)
				}
				scs := []*Node{nMap(kvs("name", nStr("s"), "weight", wN, "min_waiting_time", mN, "requests", nStrs([]string{"r"})))}
				if two == 1 {
					scs = append(scs, nMap(kvs("name", nStr("s2"), "requests", nStrs([]string{"r(2)"}))))
				}
				add(nMap(kvs("request", nList([]*Node{one}), "scenario", nList(scs))))
			}
		}
	}
	return out
}

func enumSteps() []string {
	var refs []string
	alphabet := []string{"r", "q", "sleep", "(", ")", ",", "2", "-1", "+3", " ", "x", "0"}
	var rec func(prefix string, depth int)
	rec = func(prefix string, depth int) {
		if depth > 0 {
			refs = append(refs, prefix)
		}
		if depth == 3 {
			return
		}
		for _, a := range alphabet {
			rec(prefix+a, depth+1)
		}
	}
	rec("", 0)
	args := []string{"", "2", "-1", "+3", "x", "0", " 2 ", "02"}
	for _, name := range []string{"r", "sleep", " r "} {
		for _, a := range args {
			for _, b := range args {
				refs = append(refs, name+"("+a+","+b+")")
			}
			refs = append(refs, name+"("+a+")")
		}
	}
	seen := map[string]bool{}
	var out []string
	i := int64(0)
	for _, ref := range refs {
		if seen[ref] {
			continue
		}
		seen[ref] = true
		i++
		r := nMap(kvs("name", nStr("r"), "method", nStr("GET"), "uri", nStr("/"), "headers", smapN()))
		q := nMap(kvs("name", nStr("q"), "method", nStr("GET"), "uri", nStr("/q"), "headers", smapN()))
		var d *Node
		if i%2 == 0 {
			d = nMap(kvs("request", nList([]*Node{r, q}), "scenario", nList([]*Node{nMap(kvs("name", nStr("s"), "requests", nStrs([]string{"q", ref})))})))
		} else {
			rc := nMap(kvs("name", nStr("r"), "call", nStr("a.B.C"), "payload", nStr("{}")))
			qc := nMap(kvs("name", nStr("q"), "call", nStr("a.B.D"), "payload", nStr("{}")))
			d = nMap(kvs("call", nList([]*Node{rc, qc}), "scenario", nList([]*Node{nMap(kvs("name", nStr("s"), "requests", nStrs([]string{ref, "q"})))})))
		}
		out = append(out, line(i*3, 2, d))
	}
	return out
}

func enumWeights() []string {
	ws := []int64{0, 1, 2, 3, 4, 6, 9}
	var out []string
	i := int64(0)
	c := nMap(kvs("name", nStr("c"), "call", nStr("a.B.C"), "payload", nStr("{}")))
	add := func(names []string, weights []int64) {
		i++
		var scs []*Node
		for k := range names {
			scs = append(scs, nMap(kvs("name", nStr(names[k]), "weight", nInt(weights[k]), "requests", nStrs([]string{"c"}))))
		}
		out = append(out, line(i*3, 2, nMap(kvs("call", nList([]*Node{c}), "scenario", nList(scs)))))
	}
	for _, a := range ws {
		add([]string{"a"}, []int64{a})
		for _, b := range ws {
			add([]string{"a", "b"}, []int64{a, b})
			add([]string{"a", "a"}, []int64{a, b})
			for _, c3 := range ws {
				add([]string{"a", "b", "c"}, []int64{a, b, c3})
			}
		}
	}
	add([]string{"a", "b", "a"}, []int64{2, 3, 5})
	add([]string{"a", "b"}, []int64{-1, 1})
	return out
}

// ---- locals arrangements: a tiny evaluator of the harness's own (literals, references, interpolation)

type ldef struct {
	kind int // 0 undefined, 1 literal, 2 reference to a, 3 reference to b, 4 "${local.a}-", 5 "${local.b}+"
}

func enumLocals() []string {
	names := []string{"a", "b"}
	var out []string
	idx := int64(0)
	nkinds := 6
	total := 1
	for i := 0; i < 6; i++ {
		total *= nkinds
	}
	for code := 0; code < total; code++ {
		// code -> 3 blocks x 2 names
		var blocks [3][2]int
		c := code
		for b := 0; b < 3; b++ {
			for n := 0; n < 2; n++ {
				blocks[b][n] = c % nkinds
				c /= nkinds
			}
		}
		// an empty block followed by a non-empty one duplicates a shorter arrangement
		skip := false
		for b := 0; b < 2; b++ {
			if blocks[b][0] == 0 && blocks[b][1] == 0 && (blocks[b+1][0] != 0 || blocks[b+1][1] != 0) {
				skip = true
			}
		}
		if skip {
			continue
		}
		env := map[string]string{}
		ok := true
		var lb strings.Builder
		lb.WriteString("[")
		for b := 0; b < 3 && ok; b++ {
			if blocks[b][0] == 0 && blocks[b][1] == 0 {
				continue
			}
			newVars := map[string]string{}
			lb.WriteString("{")
			for n := 0; n < 2; n++ {
				k := blocks[b][n]
				if k == 0 {
					continue
				}
				var val, enc string
				ref := func(name string) (string, bool) {
					v, have := env[name]
					return v, have
				}
				switch k {
				case 1:
					val = fmt.Sprintf("%s%d", names[n], b)
					enc = encStr(val)
				case 2, 3:
					v, have := ref(names[k-2])
					if !have {
						ok = false
					}
					val, enc = v, encLocal(names[k-2])
				case 4:
					v, have := ref("a")
					if !have {
						ok = false
					}
					val, enc = v+"-", "T["+encLocal("a")+encStr("-")+"]"
				case 5:
					v, have := ref("b")
					if !have {
						ok = false
					}
					val, enc = v+"+", "T["+encLocal("b")+encStr("+")+"]"
				}
				newVars[names[n]] = val
				lb.WriteString("k" + hexs(names[n]) + "." + enc)
			}
			lb.WriteString("}")
			for k, v := range newVars {
				env[k] = v
			}
		}
		lb.WriteString("]")
		if !ok {
			continue
		}
		va, haveA := env["a"]
		vb, haveB := env["b"]
		if !haveA || !haveB {
			continue
		}
		idx++
		d := nMap(kvs("request", nList([]*Node{nMap(kvs("name", nStr("r"), "method", nStr("GET"), "uri", nStr("/"+va), "headers", smapN("x", vb), "tag", nStr(vb)))}),
			"scenario", scenarioOf("r")))
		hb := "{k" + hexs("request") + ".[{k" + hexs("name") + "." + encStr("r") + "k" + hexs("method") + "." + encStr("GET") +
			"k" + hexs("uri") + ".T[" + encStr("/") + encLocal("a") + "]" +
			"k" + hexs("headers") + ".{k" + hexs("x") + "." + encLocal("b") + "}" +
			"k" + hexs("tag") + "." + encLocal("b") + "}]" +
			"k" + hexs("scenario") + ".[{k" + hexs("name") + "." + encStr("s") + "k" + hexs("requests") + ".[" + encStr("r") + "]}]}"
		out = append(out, fmt.Sprintf("sx=%d mal=0 hx=1 d=%s lb=%s hb=%s", idx*3, encodeTree(d), lb.String(), hb))
	}
	return out
}

// sample: n random members (all when n <= 0 or n >= len)
func sample(r *rand.Rand, xs []string, n int) []string {
	if n <= 0 || n >= len(xs) {
		return xs
	}
	out := make([]string, 0, n)
	for _, i := range r.Perm(len(xs))[:n] {
		out = append(out, xs[i])
	}
	return out
}
