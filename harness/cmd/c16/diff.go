package main

// First difference of two canonical dumps (dump.go), as a path: `Requests[0].Body:hcl=<absent>,yaml=s` — the detail a
// reader of a VIOLATION needs (which field of which request differs between the two front-ends).

import (
	"sort"
	"strconv"
	"strings"
)

type dnode struct {
	kind   byte // 'a' atom, 'l' list, 'm' map, 's' struct
	atom   string
	elems  []*dnode
	fields map[string]*dnode
}

type dparser struct {
	s string
	p int
}

func (d *dparser) peek() byte {
	if d.p < len(d.s) {
		return d.s[d.p]
	}
	return 0
}

func (d *dparser) value() *dnode {
	switch d.peek() {
	case '[':
		d.p++
		n := &dnode{kind: 'l'}
		for d.p < len(d.s) && d.peek() != ']' {
			n.elems = append(n.elems, d.value())
			if d.peek() == ',' {
				d.p++
			}
		}
		d.p++
		return n
	case '{', '(':
		open := d.peek()
		cls, sep, eq := byte('}'), byte(','), byte(':')
		kind := byte('m')
		if open == '(' {
			cls, sep, eq, kind = ')', ';', '=', 's'
		}
		d.p++
		n := &dnode{kind: kind, fields: map[string]*dnode{}}
		for d.p < len(d.s) && d.peek() != cls {
			i := d.p
			for d.p < len(d.s) && d.s[d.p] != eq && d.s[d.p] != cls {
				d.p++
			}
			key := d.s[i:d.p]
			if d.peek() != eq {
				// "(time)" and the like
				n.fields[key] = &dnode{kind: 'a', atom: ""}
				break
			}
			d.p++
			n.fields[key] = d.value()
			if d.peek() == sep {
				d.p++
			}
		}
		d.p++
		return n
	}
	i := d.p
	for d.p < len(d.s) && !strings.ContainsRune(",;)]}", rune(d.s[d.p])) {
		d.p++
	}
	return &dnode{kind: 'a', atom: d.s[i:d.p]}
}

func parseDump(s string) *dnode {
	d := &dparser{s: s}
	return d.value()
}

func short(n *dnode, raw string) string {
	if n == nil {
		return "<absent>"
	}
	if len(raw) > 80 {
		raw = raw[:80] + "..."
	}
	return raw
}

func render(n *dnode) string {
	if n == nil {
		return "<absent>"
	}
	switch n.kind {
	case 'a':
		return n.atom
	case 'l':
		parts := make([]string, len(n.elems))
		for i, e := range n.elems {
			parts[i] = render(e)
		}
		return "[" + strings.Join(parts, ",") + "]"
	}
	keys := make([]string, 0, len(n.fields))
	for k := range n.fields {
		keys = append(keys, k)
	}
	sort.Strings(keys)
	parts := make([]string, len(keys))
	for i, k := range keys {
		if n.kind == 'm' {
			parts[i] = k + ":" + render(n.fields[k])
		} else {
			parts[i] = k + "=" + render(n.fields[k])
		}
	}
	if n.kind == 'm' {
		return "{" + strings.Join(parts, ",") + "}"
	}
	return "(" + strings.Join(parts, ";") + ")"
}

func diffNodes(path string, a, b *dnode) string {
	leaf := func() string {
		return path + ":hcl=" + short(a, render(a)) + ",yaml=" + short(b, render(b))
	}
	if a == nil || b == nil || a.kind != b.kind {
		return leaf()
	}
	switch a.kind {
	case 'a':
		if a.atom != b.atom {
			return leaf()
		}
		return ""
	case 'l':
		for i := 0; i < len(a.elems) && i < len(b.elems); i++ {
			if d := diffNodes(path+"["+strconv.Itoa(i)+"]", a.elems[i], b.elems[i]); d != "" {
				return d
			}
		}
		if len(a.elems) != len(b.elems) {
			return path + ":hcl=" + strconv.Itoa(len(a.elems)) + "-elements,yaml=" + strconv.Itoa(len(b.elems)) + "-elements"
		}
		return ""
	}
	keys := map[string]bool{}
	for k := range a.fields {
		keys[k] = true
	}
	for k := range b.fields {
		keys[k] = true
	}
	ks := make([]string, 0, len(keys))
	for k := range keys {
		ks = append(ks, k)
	}
	sort.Strings(ks)
	for _, k := range ks {
		sub := path + "." + k
		if a.kind == 'm' {
			sub = path + "{" + k + "}"
		}
		if d := diffNodes(sub, a.fields[k], b.fields[k]); d != "" {
			return d
		}
	}
	return ""
}

// firstDiff: "" when the dumps are equal
func firstDiff(hcl, yaml string) string {
	if hcl == yaml {
		return ""
	}
	d := diffNodes("", parseDump(hcl), parseDump(yaml))
	d = strings.TrimPrefix(d, ".")
	if d == "" {
		return "?"
	}
	return strings.ReplaceAll(d, " ", "_")
}
