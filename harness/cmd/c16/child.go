package main

// Every case is run in a CHILD process (the same binary, C16_CHILD=1): a pool of long-lived children, one per worker,
// each running one case at a time.  The real front-ends are meant to be stateless, so on a sound tree this changes
// nothing; on a tree that is not — a shared map written by two providers at once (the Go runtime aborts the whole
// process with `fatal error: concurrent map writes`), a log.Fatal / os.Exit on some input, a spin that the in-process
// watchdog cannot stop — only the child dies, the case that killed it gets the observation `PANIC the process died: …`
// (a concrete, replayable failing input) and the run goes on with a fresh child.  Concurrency inside one process is
// still exercised, deliberately and replayably, by the `co=par` cases.

import (
	"bufio"
	"fmt"
	"io"
	"math/rand"
	"os"
	"os/exec"
	"strings"
	"sync"
	"syscall"
	"time"

	"verifharness/drv"
)

// a tree that is not sound may make the real code build an absurdly large ammo list: the child may not take the
// machine down with it (address space capped; the Go runtime then aborts this child only)
const childAddressSpace = 8 << 30

func childMain() {
	lim := syscall.Rlimit{Cur: childAddressSpace, Max: childAddressSpace}
	_ = syscall.Setrlimit(syscall.RLIMIT_AS, &lim)
	if os.Getenv("C16_CHILD") != "probe" {
		// (the probe child does reference work with the harness's own code only: it must not depend on the tree under test)
		setup()
	}
	rd := bufio.NewReaderSize(os.Stdin, 1<<16)
	w := bufio.NewWriter(os.Stdout)
	for {
		line, err := rd.ReadString('\n')
		if strings.HasPrefix(line, "PROBE") {
			_, _ = w.WriteString(probeWork() + "\n")
			_ = w.Flush()
			continue
		}
		if line != "" {
			obs := runCase(strings.TrimRight(line, "\r\n"))
			obs = strings.NewReplacer("\n", " ", "\r", " ", "\t", " ").Replace(obs)
			_, _ = w.WriteString(obs + "\n")
			_ = w.Flush()
			if strings.HasPrefix(obs, "SLOW no result") {
				// the case is still running somewhere in this process: do not run the next one beside it
				os.Exit(0)
			}
		}
		if err != nil {
			return
		}
	}
}

// headBuffer keeps the first bytes written since the last reset (the Go runtime prints the reason of a crash first)
type headBuffer struct {
	mu  sync.Mutex
	buf []byte
}

func (h *headBuffer) Write(p []byte) (int, error) {
	h.mu.Lock()
	if room := 4096 - len(h.buf); room > 0 {
		if len(p) < room {
			room = len(p)
		}
		h.buf = append(h.buf, p[:room]...)
	}
	h.mu.Unlock()
	if debug {
		_, _ = os.Stderr.Write(p)
	}
	return len(p), nil
}

func (h *headBuffer) reset() { h.mu.Lock(); h.buf = h.buf[:0]; h.mu.Unlock() }

func (h *headBuffer) reason() string {
	h.mu.Lock()
	defer h.mu.Unlock()
	for _, l := range strings.Split(string(h.buf), "\n") {
		l = strings.TrimSpace(l)
		if strings.HasPrefix(l, "fatal error:") || strings.HasPrefix(l, "panic:") || strings.HasPrefix(l, "runtime:") || strings.Contains(l, "FATAL") {
			return l
		}
	}
	if i := strings.IndexByte(string(h.buf), '\n'); i > 0 {
		return strings.TrimSpace(string(h.buf[:i]))
	}
	return strings.TrimSpace(string(h.buf))
}

type child struct {
	cmd  *exec.Cmd
	in   io.WriteCloser
	out  *bufio.Reader
	errs *headBuffer
}

func spawn() (*child, error) { return spawnMode("1") }

func spawnMode(mode string) (*child, error) {
	exe, err := os.Executable()
	if err != nil {
		return nil, err
	}
	cmd := exec.Command(exe)
	cmd.Env = append(os.Environ(), "C16_CHILD="+mode)
	in, err := cmd.StdinPipe()
	if err != nil {
		return nil, err
	}
	out, err := cmd.StdoutPipe()
	if err != nil {
		return nil, err
	}
	hb := &headBuffer{}
	cmd.Stderr = hb
	if err := cmd.Start(); err != nil {
		return nil, err
	}
	return &child{cmd: cmd, in: in, out: bufio.NewReaderSize(out, 1<<16), errs: hb}, nil
}

func (c *child) kill() {
	_ = c.in.Close()
	_ = c.cmd.Process.Kill()
	_ = c.cmd.Wait()
}

var (
	poolOnce sync.Once
	pool     chan *child
	poolSize = 8
)

func initPool() {
	pool = make(chan *child, poolSize)
	for i := 0; i < poolSize; i++ {
		pool <- nil // spawned on first use
	}
	runStart = time.Now()
}

func closePool() {
	if pool == nil {
		return
	}
	if os.Getenv("C16_TIMES") != "" {
		timesMu.Lock()
		fmt.Fprintf(os.Stderr, "c16: %d cases, slowest first attempt %v, suspects %d, confirmed hangs %d, wall %v\n  %s\n",
			nCases, slowest.Round(time.Millisecond), suspects, confirmed, time.Since(runStart).Round(time.Millisecond), drv.Trunc(slowestInput, 300))
		timesMu.Unlock()
	}
	for i := 0; i < poolSize; i++ {
		select {
		case c := <-pool:
			if c != nil {
				c.kill()
			}
		case <-time.After(2 * time.Second):
			return
		}
	}
}

// ---------------------------------------------------------------- time limits and the hang verdict
//
// A case takes milliseconds.  What the harness reports about one that does not finish:
//
//  1. first attempt, among the other cases of the run: a pooled child, limit firstLimit.  Not finishing here proves
//     nothing (cold caches, a loaded machine, a stalled sibling): the child is killed and the case becomes a SUSPECT.
//  2. a suspect is run again ALONE: every other worker of this run is held back (gate), a fresh child gets the case with
//     the generous aloneLimit, and beside it one more child keeps doing a fixed piece of REFERENCE work (harness code only:
//     printing descriptions) and measures how long each round takes.  The case finishes -> that observation counts, nothing
//     else is said.  It does not finish although at least three reference rounds in a row finished meanwhile, each in
//     under aloneLimit/20 -> `HANG confirmed alone …` (Spec: fail:hang, with the input as the replay).  It does not
//     finish and the reference rounds were slow or too few -> `SLOW …`: the machine was not responsive, nothing is
//     judged (skip:inconclusive-timeout).
//  3. a tree that hangs on one input usually hangs on hundreds: at most hangBudget+1 suspects are run alone, and after
//     stopAfter suspects the remaining cases are not run at all (`SLOW not run`), so that the run ends with its
//     concrete failing inputs within the time budget instead of waiting out every case.
//  4. independent of hangs: a case not STARTED within runBudget of the run's first case is `SLOW not run` (a quick run on
//     an overloaded machine ends in bounded time; what was run is judged).
var (
	firstLimit = 10 * time.Second
	aloneLimit = 30 * time.Second
	runBudget  = 75 * time.Second
	hangBudget = 1
	stopAfter  = 12

	gate     sync.RWMutex // first attempts hold it shared, a run-alone holds it exclusively
	aloneMu  sync.Mutex   // one run-alone at a time
	timesMu  sync.Mutex
	runStart time.Time

	nCases, suspects, aloneRuns, confirmed int
	slowest                     time.Duration
	slowestInput                string
)

func setLimits(tier string) {
	if tier == "thorough" {
		firstLimit, aloneLimit, runBudget, hangBudget, stopAfter = 20*time.Second, 60*time.Second, 25*time.Minute, 3, 40
	}
}

// frameworkTimeout: the framework's own watchdog (observation HANG, unconfirmed, counted as inconclusive) must never
// fire before this file has had its say: a first attempt, waiting for the run-alone of other suspects, the own one
func frameworkTimeout() time.Duration {
	return firstLimit + time.Duration(hangBudget+2)*(aloneLimit+firstLimit) + 2*time.Minute
}

// once runs one case in child c (nil: a fresh one); ok=false: no reply within limit (the child is killed) — obs is
// then empty; a child that died is a reply (PANIC …)
func once(c *child, input string, limit time.Duration) (obs string, ok bool, back *child) {
	if c == nil {
		var err error
		if c, err = spawn(); err != nil {
			// no child processes on this machine: run the case here
			return runCase(input), true, nil
		}
	}
	c.errs.reset()
	type reply struct {
		line string
		err  error
	}
	done := make(chan reply, 1)
	go func() {
		if _, err := io.WriteString(c.in, input+"\n"); err != nil {
			done <- reply{"", err}
			return
		}
		l, err := c.out.ReadString('\n')
		done <- reply{l, err}
	}()
	timer := time.NewTimer(limit)
	defer timer.Stop()
	select {
	case r := <-done:
		if r.err == nil {
			if strings.HasPrefix(r.line, "SLOW no result") {
				c.kill() // the child leaves after such a reply
				return "", false, nil
			}
			return strings.TrimRight(r.line, "\r\n"), true, c
		}
		_ = c.cmd.Wait()
		time.Sleep(20 * time.Millisecond) // let the stderr copier finish
		why := c.errs.reason()
		c.kill()
		return "PANIC the process died: " + drv.Trunc(drv.Clean(why), 300), true, nil
	case <-timer.C:
		c.kill()
		return "", false, nil
	}
}

// probeWork: the reference work of the responsiveness probe — the harness's OWN code only (nothing of the tree under
// test, which may be what hangs): a few dozen descriptions generated and printed in both syntaxes, some tens of
// milliseconds of CPU, allocation and a round trip through two pipes
func probeWork() string {
	g := &gen{r: rand.New(rand.NewSource(0x5eed16))}
	n := 0
	for i := 0; i < 40; i++ {
		d := g.describe()
		h := printHCL(d, rand.New(rand.NewSource(int64(i))), 60)
		y, _ := printYAML(d, rand.New(rand.NewSource(int64(i+1))), 30)
		n += len(h.text) + len(y)
	}
	return fmt.Sprintf("PROBE ok %d", n)
}

// runViaChild: one case in a child process
func runViaChild(input string) string {
	poolOnce.Do(initPool)
	timesMu.Lock()
	nCases++
	limit := firstLimit
	stop := suspects >= stopAfter
	late := time.Since(runStart) > runBudget
	if aloneRuns > hangBudget {
		limit = firstLimit / 4
	}
	nconf := confirmed
	timesMu.Unlock()
	if stop {
		return fmt.Sprintf("SLOW not run: %d cases of this run did not finish among the others (%d of them confirmed as hangs when run alone)", stopAfter, nconf)
	}
	if late {
		return "SLOW not run: the run's time budget of " + runBudget.String() + " was used up before this case started"
	}
	gate.RLock()
	c := <-pool
	t0 := time.Now()
	obs, ok, back := once(c, input, limit)
	dt := time.Since(t0)
	pool <- back
	gate.RUnlock()
	if ok {
		timesMu.Lock()
		if dt > slowest {
			slowest, slowestInput = dt, input
		}
		timesMu.Unlock()
		return obs
	}
	return runAlone(input, limit)
}

// runAlone: the second look at a case that did not finish among the others
func runAlone(input string, first time.Duration) string {
	timesMu.Lock()
	suspects++
	timesMu.Unlock()
	aloneMu.Lock()
	defer aloneMu.Unlock()
	timesMu.Lock()
	full := aloneRuns > hangBudget
	if !full {
		aloneRuns++
	}
	timesMu.Unlock()
	if full {
		return fmt.Sprintf("SLOW no result within %v among the other cases; not run alone: %d cases of this run were run alone already (%d confirmed hangs)", first, aloneRuns, confirmed)
	}
	gate.Lock() // every first attempt in flight is over, no new one starts
	defer gate.Unlock()
	// the reference work, again and again, in a child of its own
	ref := "PROBE"
	stopRef := make(chan struct{})
	type refStat struct {
		n        int
		max      time.Duration
		streak   int // reference rounds in a row under the bound, up to now
		bestRun  int
		lastDone time.Time
	}
	var rs refStat
	var rmu sync.Mutex
	bound := aloneLimit / 20
	refDone := make(chan struct{})
	go func() {
		defer close(refDone)
		rc, err := spawnMode("probe")
		if err != nil {
			return
		}
		defer func() {
			if rc != nil {
				rc.kill()
			}
		}()
		for {
			select {
			case <-stopRef:
				return
			default:
			}
			if rc == nil {
				if rc, err = spawnMode("probe"); err != nil {
					return
				}
			}
			t0 := time.Now()
			_, ok, back := once(rc, ref, aloneLimit)
			rc = back
			dt := time.Since(t0)
			rmu.Lock()
			rs.n++
			if dt > rs.max {
				rs.max = dt
			}
			if ok && dt < bound {
				rs.streak++
				if rs.streak > rs.bestRun {
					rs.bestRun = rs.streak
				}
			} else {
				rs.streak = 0
			}
			rs.lastDone = time.Now()
			rmu.Unlock()
			select {
			case <-stopRef:
				return
			case <-time.After(aloneLimit / 40):
			}
		}
	}()
	t0 := time.Now()
	obs, ok, back := once(nil, input, aloneLimit)
	if back != nil {
		back.kill()
	}
	close(stopRef)
	select {
	case <-refDone:
	case <-time.After(2 * time.Second): // a round still in flight is a slow round: it will not be counted as a quick one
	}
	if ok {
		return obs
	}
	rmu.Lock()
	defer rmu.Unlock()
	// responsive: the reference case kept finishing quickly up to the end of the wait
	responsive := rs.n >= 3 && rs.max < bound && time.Since(rs.lastDone) < 4*bound+aloneLimit/40
	if responsive {
		timesMu.Lock()
		confirmed++
		timesMu.Unlock()
		// (no measured values in the observation: the same hang gives the same line)
		_ = t0
		return fmt.Sprintf("HANG confirmed alone: no result within %v among the other cases and none within %v when run alone, while the reference work beside it finished every round within %v",
			first, aloneLimit, bound)
	}
	return fmt.Sprintf("SLOW no result within %v when run alone, but the machine was not responsive: %d reference rounds, the slowest %v (bound %v)",
		aloneLimit, rs.n, rs.max.Round(time.Millisecond), bound)
}
