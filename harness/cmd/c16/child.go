package main

// Every case is run in a CHILD process (the same binary, C16_CHILD=1): a pool of long-lived children, one per worker,
// each running one case at a time.  The real front-ends are meant to be stateless, so on a sound tree this changes
// nothing; on a tree that is not — a shared map written by two providers at once (the Go runtime aborts the whole
// process with `fatal error: concurrent map writes`), a log.Fatal / os.Exit on some input, a spin that the in-process
// watchdog cannot stop — only the child dies, the case that killed it gets the observation `PANIC the process died: …`
// (a concrete, replayable failing input) and the run goes on with a fresh child.  Concurrency inside one process is
// still exercised, deliberately and replayably, by the `co=par` cases.

import (
	"bufio"
	"io"
	"os"
	"os/exec"
	"strings"
	"sync"
	"syscall"
	"time"

	"verifharness/drv"
)

// a tree that is not sound may make the real code build an absurdly large ammo list: the child may not take the
// machine down with it (address space capped; the Go runtime then aborts this child only)
const childAddressSpace = 8 << 30

func childMain() {
	lim := syscall.Rlimit{Cur: childAddressSpace, Max: childAddressSpace}
	_ = syscall.Setrlimit(syscall.RLIMIT_AS, &lim)
	setup()
	rd := bufio.NewReaderSize(os.Stdin, 1<<16)
	w := bufio.NewWriter(os.Stdout)
	for {
		line, err := rd.ReadString('\n')
		if line != "" {
			obs := runCase(strings.TrimRight(line, "\r\n"))
			obs = strings.NewReplacer("\n", " ", "\r", " ", "\t", " ").Replace(obs)
			_, _ = w.WriteString(obs + "\n")
			_ = w.Flush()
			if strings.HasPrefix(obs, "SLOW no result") {
				// the case is still running somewhere in this process: do not run the next one beside it
				os.Exit(0)
			}
		}
		if err != nil {
			return
		}
	}
}

// headBuffer keeps the first bytes written since the last reset (the Go runtime prints the reason of a crash first)
type headBuffer struct {
	mu  sync.Mutex
	buf []byte
}

func (h *headBuffer) Write(p []byte) (int, error) {
	h.mu.Lock()
	if room := 4096 - len(h.buf); room > 0 {
		if len(p) < room {
			room = len(p)
		}
		h.buf = append(h.buf, p[:room]...)
	}
	h.mu.Unlock()
	if debug {
		_, _ = os.Stderr.Write(p)
	}
	return len(p), nil
}

func (h *headBuffer) reset() { h.mu.Lock(); h.buf = h.buf[:0]; h.mu.Unlock() }

func (h *headBuffer) reason() string {
	h.mu.Lock()
	defer h.mu.Unlock()
	for _, l := range strings.Split(string(h.buf), "\n") {
		l = strings.TrimSpace(l)
		if strings.HasPrefix(l, "fatal error:") || strings.HasPrefix(l, "panic:") || strings.HasPrefix(l, "runtime:") || strings.Contains(l, "FATAL") {
			return l
		}
	}
	if i := strings.IndexByte(string(h.buf), '\n'); i > 0 {
		return strings.TrimSpace(string(h.buf[:i]))
	}
	return strings.TrimSpace(string(h.buf))
}

type child struct {
	cmd  *exec.Cmd
	in   io.WriteCloser
	out  *bufio.Reader
	errs *headBuffer
}

func spawn() (*child, error) {
	exe, err := os.Executable()
	if err != nil {
		return nil, err
	}
	cmd := exec.Command(exe)
	cmd.Env = append(os.Environ(), "C16_CHILD=1")
	in, err := cmd.StdinPipe()
	if err != nil {
		return nil, err
	}
	out, err := cmd.StdoutPipe()
	if err != nil {
		return nil, err
	}
	hb := &headBuffer{}
	cmd.Stderr = hb
	if err := cmd.Start(); err != nil {
		return nil, err
	}
	return &child{cmd: cmd, in: in, out: bufio.NewReaderSize(out, 1<<16), errs: hb}, nil
}

func (c *child) kill() {
	_ = c.in.Close()
	_ = c.cmd.Process.Kill()
	_ = c.cmd.Wait()
}

var (
	poolOnce sync.Once
	pool     chan *child
	poolSize = 8
)

func initPool() {
	pool = make(chan *child, poolSize)
	for i := 0; i < poolSize; i++ {
		pool <- nil // spawned on first use
	}
}

func closePool() {
	if pool == nil {
		return
	}
	for i := 0; i < poolSize; i++ {
		select {
		case c := <-pool:
			if c != nil {
				c.kill()
			}
		case <-time.After(2 * time.Second):
			return
		}
	}
}

// runViaChild: one case in a child process
func runViaChild(input string) string {
	poolOnce.Do(initPool)
	c := <-pool
	if c == nil {
		var err error
		if c, err = spawn(); err != nil {
			pool <- nil
			// no child processes on this machine: run the case here
			return runCase(input)
		}
	}
	c.errs.reset()
	type reply struct {
		line string
		err  error
	}
	done := make(chan reply, 1)
	go func() {
		if _, err := io.WriteString(c.in, input+"\n"); err != nil {
			done <- reply{"", err}
			return
		}
		l, err := c.out.ReadString('\n')
		done <- reply{l, err}
	}()
	select {
	case r := <-done:
		if r.err == nil {
			if strings.HasPrefix(r.line, "SLOW no result") {
				c.kill() // the child leaves after such a reply
				pool <- nil
			} else {
				pool <- c
			}
			return strings.TrimRight(r.line, "\r\n")
		}
		_ = c.cmd.Wait()
		time.Sleep(20 * time.Millisecond) // let the stderr copier finish
		why := c.errs.reason()
		c.kill()
		pool <- nil
		return "PANIC the process died: " + drv.Trunc(drv.Clean(why), 300)
	case <-time.After(hardLimit + 20*time.Second):
		c.kill()
		pool <- nil
		return "SLOW no result within " + hardLimit.String() + " (child killed)"
	}
}
