package main

// Round 6: how the two files are SAVED.  The line terminators of a file are not part of the description: a scenario
// file saved by an editor with CRLF line endings (all of them, or — after a merge — some of them) denotes what the same
// file saved with LF denotes, in both syntaxes.  The HCL front-end normalises CRLF in front of the parser
// (config/hcl.go ParseHCLFile: hcl keeps the carriage returns of the file inside heredoc templates), yaml.v2 reads any
// line break of a block scalar as LF.
//
// token enc=<mode>:
//
//	crlf    every line terminator of both files is CR LF
//	mix     a pseudo-random subset (chosen by sx) of the line terminators of both files is CR LF
//	crlf1   only the FIRST line terminator is CR LF (a file whose first line was pasted from elsewhere)
//	crlfn   every line terminator but the first is CR LF
//	crlfh   only the HCL file is saved with CR LF / crlfy: only the YAML file
//
// The printers never put a raw CR into a file (hclQuote / the YAML printers escape it, a string with a CR is never
// printed as a heredoc or as a block scalar), so every CR of the stored file is a line terminator's.

import (
	"math/rand"
	"strings"
)

var encModes = []string{"crlf", "mix", "crlf1", "crlfn", "crlfh", "crlfy"}

func saveAs(text, mode string, seed int64) string {
	lines := strings.SplitAfter(text, "\n")
	r := rand.New(rand.NewSource(seed ^ 0x63726c66))
	var b strings.Builder
	b.Grow(len(text) + len(lines))
	nth := 0
	for _, ln := range lines {
		if !strings.HasSuffix(ln, "\n") {
			b.WriteString(ln)
			continue
		}
		conv := false
		switch mode {
		case "crlf":
			conv = true
		case "mix":
			conv = r.Intn(2) == 0
		case "crlf1":
			conv = nth == 0
		case "crlfn":
			conv = nth > 0
		}
		nth++
		if conv && !strings.HasSuffix(ln, "\r\n") {
			b.WriteString(ln[:len(ln)-1])
			b.WriteString("\r\n")
		} else {
			b.WriteString(ln)
		}
	}
	return b.String()
}

// encodeTexts: the two texts as the mode stores them; ok=false: unknown mode, or a text that already carries a CR
// (the printers' contract above is broken: not a case of this dimension)
func encodeTexts(mode, hclText, yamlText string, sx int64) (string, string, bool) {
	if strings.Contains(hclText, "\r") || strings.Contains(yamlText, "\r") {
		return "", "", false
	}
	switch mode {
	case "crlf", "mix", "crlf1", "crlfn":
		return saveAs(hclText, mode, sx), saveAs(yamlText, mode, sx+1), true
	case "crlfh":
		return saveAs(hclText, "crlf", sx), yamlText, true
	case "crlfy":
		return hclText, saveAs(yamlText, "crlf", sx), true
	}
	return "", "", false
}

// ---- size (round 6): token pad=<KiB>.  A comment block of that many KiB is inserted into BOTH files at the top-level
// item boundary nearest to 35 % of the text (start of the file when there is none in front of the end): the description
// goes on AFTER the padding.  Comments are no part of the description in either syntax; a front-end that reads only the
// first n bytes of a file (a size limit, one Read into a fixed buffer, a line cap) loses what follows.  Sizes are drawn
// around 64 KiB, 1 MiB and 4 MiB.

var padSizes = []int{63, 64, 65, 1023, 1024, 1025, 1100, 2048, 4096, 4200}

// oneLine (token pl=1): the padding is ONE comment line of that length (a reader with a line cap — bufio.Scanner's
// 64 KiB token limit — fails or cuts there)
func padText(text string, kib int, hcl, oneLine bool) string {
	off := cutPoint(text, 350, hcl)
	if off >= len(text) {
		off = 0
	}
	line := "# " + strings.Repeat("padding ", 15) + "\n"
	n := kib * 1024
	if oneLine {
		return text[:off] + "# " + strings.Repeat("long line ", n/10) + "\n" + text[off:]
	}
	var b strings.Builder
	b.Grow(len(text) + n + 2*len(line))
	b.WriteString(text[:off])
	for w := 0; w < n; w += len(line) {
		b.WriteString(line)
	}
	b.WriteString(text[off:])
	return b.String()
}
