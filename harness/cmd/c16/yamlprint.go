package main

// Prints a description tree as a YAML scenario file, spelled the way the documentation spells it
// (`variable_sources`, `requests`, `postprocessors` ... lists of maps with `name` / `type` keys).
// Scalars are quoted so that YAML 1.1 cannot re-type them (bare N, true, ~, 007 ... are not strings);
// with fancy > 0 the printer also uses plain / single-quoted / literal-block scalars where those are
// safe, flow collections, shuffled keys, and the documented `locals:` + anchors + `<<:` merge idiom.

import (
	"fmt"
	"math/rand"
	"regexp"
	"strconv"
	"strings"
	"unicode/utf8"
)

type yamlPrinter struct {
	r       *rand.Rand
	fancy   int
	anchors []string // lines of the locals: block
	nanchor int
	used    map[string]bool
}

func yamlDQ(s string) string {
	var b strings.Builder
	b.WriteByte('"')
	for i := 0; i < len(s); {
		c, sz := utf8.DecodeRuneInString(s[i:])
		switch {
		case c == utf8.RuneError && sz == 1:
			fmt.Fprintf(&b, `\x%02x`, s[i])
		case c == '"':
			b.WriteString(`\"`)
		case c == '\\':
			b.WriteString(`\\`)
		case c == '\n':
			b.WriteString(`\n`)
		case c == '\r':
			b.WriteString(`\r`)
		case c == '\t':
			b.WriteString(`\t`)
		case c < 0x20 || c == 0x7f:
			fmt.Fprintf(&b, `\x%02x`, c)
		case c == 0x85 || c == 0xa0 || c == 0x2028 || c == 0x2029 || c == 0xfeff:
			fmt.Fprintf(&b, `\u%04x`, c)
		default:
			b.WriteString(s[i : i+sz])
		}
		i += sz
	}
	b.WriteByte('"')
	return b.String()
}

var plainRe = regexp.MustCompile(`^[A-Za-z][A-Za-z0-9_/.-]*$`)

// YAML 1.1 words that are not strings when written bare
var yamlWords = map[string]bool{"y": true, "n": true, "yes": true, "no": true, "on": true, "off": true, "true": true,
	"false": true, "null": true, "nan": true, "inf": true}

func plainOK(s string) bool {
	return plainRe.MatchString(s) && !yamlWords[strings.ToLower(s)] && !strings.HasSuffix(s, ".") && !strings.HasSuffix(s, "-")
}

func printableLine(s string) bool {
	for _, c := range s {
		if c < 0x20 || c == 0x7f || c == 0x85 || c == 0xa0 || c == 0x2028 || c == 0x2029 || c == 0xfeff || c == utf8.RuneError {
			return false
		}
	}
	return true
}

func singleOK(s string) bool {
	return utf8.ValidString(s) && printableLine(s) && !strings.HasPrefix(s, " ") && !strings.HasSuffix(s, " ")
}

// literalOK: every line is non-empty, has no leading/trailing blank and only printable characters; at most one
// trailing newline
func literalOK(s string) bool {
	if !utf8.ValidString(s) || !strings.Contains(s, "\n") {
		return false
	}
	body := strings.TrimSuffix(s, "\n")
	for _, line := range strings.Split(body, "\n") {
		if line == "" || !printableLine(line) || strings.TrimSpace(line) != line {
			return false
		}
	}
	return true
}

func (p *yamlPrinter) roll() bool { return p.fancy > 0 && p.r.Intn(100) < p.fancy }

// scalar in value position; ind = indentation of the parent mapping's keys
func (p *yamlPrinter) str(s string, ind string, block bool) string {
	if p.roll() {
		switch p.r.Intn(3) {
		case 0:
			if plainOK(s) {
				p.used["plain"] = true
				return s
			}
		case 1:
			if singleOK(s) {
				p.used["single"] = true
				return "'" + strings.ReplaceAll(s, "'", "''") + "'"
			}
		case 2:
			if block && literalOK(s) {
				p.used["literal"] = true
				chomp := "-"
				body := s
				if strings.HasSuffix(s, "\n") {
					chomp = ""
					body = strings.TrimSuffix(s, "\n")
				}
				var b strings.Builder
				b.WriteString("|" + chomp + "\n")
				lines := strings.Split(body, "\n")
				for i, line := range lines {
					b.WriteString(ind + "  " + line)
					if i+1 < len(lines) {
						b.WriteString("\n")
					}
				}
				return b.String()
			}
		}
	}
	return yamlDQ(s)
}

func (p *yamlPrinter) key(s string) string {
	if p.roll() && plainOK(s) {
		return s
	}
	if p.roll() && singleOK(s) && s != "" {
		return "'" + strings.ReplaceAll(s, "'", "''") + "'"
	}
	return yamlDQ(s)
}

func (p *yamlPrinter) flowStrs(l []*Node) string {
	parts := make([]string, len(l))
	for i, x := range l {
		parts[i] = yamlDQ(x.S)
	}
	return "[" + strings.Join(parts, ", ") + "]"
}

func (p *yamlPrinter) flowMap(m []KV) string {
	parts := make([]string, len(m))
	for i, kv := range m {
		parts[i] = yamlDQ(kv.K) + ": " + yamlDQ(kv.V.S)
	}
	return "{" + strings.Join(parts, ", ") + "}"
}

// value of `key:` at indentation ind; returns the text after "key:" (starting with " " or "\n")
func (p *yamlPrinter) leaf(f fspec, v *Node, ind string) string {
	switch f.ty {
	case tStr:
		return " " + p.str(v.S, ind, true)
	case tInt:
		return " " + strconv.FormatInt(v.I, 10)
	case tBool:
		return " " + strconv.FormatBool(v.B)
	case tStrs:
		if len(v.L) == 0 {
			return " []"
		}
		if p.r.Intn(2) == 0 {
			p.used["flow"] = true
			return " " + p.flowStrs(v.L)
		}
		var b strings.Builder
		for _, x := range v.L {
			b.WriteString("\n" + ind + "  - " + p.str(x.S, ind+"  ", true))
		}
		return b.String()
	case tSMap:
		if len(v.M) == 0 {
			return " {}"
		}
		if p.r.Intn(3) == 0 {
			p.used["flow"] = true
			return " " + p.flowMap(v.M)
		}
		m := v.M
		var b strings.Builder
		if p.roll() && len(m) >= 1 {
			// documented idiom: an anchored map under locals:, merged with `<<:`; explicit keys win over merged ones
			p.used["anchor"] = true
			cut := 1 + p.r.Intn(len(m))
			p.nanchor++
			name := fmt.Sprintf("a%d", p.nanchor)
			anch := append([]KV{}, m[:cut]...)
			if cut < len(m) {
				anch = append(anch, KV{m[cut].K, nStr("overridden by the explicit key")})
			}
			p.anchors = append(p.anchors, fmt.Sprintf("  %s: &%s %s", name, name, p.flowMap(anch)))
			b.WriteString("\n" + ind + "  <<: *" + name)
			m = m[cut:]
		}
		for _, kv := range m {
			b.WriteString("\n" + ind + "  " + p.key(kv.K) + ": " + p.str(kv.V.S, ind+"  ", true))
		}
		return b.String()
	}
	panic("yaml leaf: bad type")
}

// mapping body of a struct at indentation ind; first = text that replaces the indentation of the first line ("- ")
func (p *yamlPrinter) mapping(b *strings.Builder, st string, n *Node, ind string, first string) {
	wrote := false
	prefix := func() string {
		if !wrote && first != "" {
			wrote = true
			return first
		}
		wrote = true
		return ind
	}
	for _, kv := range n.M {
		f, ok := specOf(st, kv.K)
		if !ok {
			panic("unknown field " + st + "." + kv.K)
		}
		if kv.V.K == 'n' {
			continue
		}
		switch f.kind {
		case kLabel, kAttr:
			b.WriteString(prefix() + f.yamlKey() + ":" + p.leaf(f, kv.V, ind) + "\n")
		case kBlock:
			if len(kv.V.M) == 0 || !p.hasContent(f.sub, kv.V) {
				b.WriteString(prefix() + f.yamlKey() + ": {}\n")
				continue
			}
			b.WriteString(prefix() + f.yamlKey() + ":\n")
			p.mapping(b, f.sub, kv.V, ind+"  ", "")
		case kBlocks:
			if len(kv.V.L) == 0 {
				continue
			}
			b.WriteString(prefix() + f.yamlKey() + ":\n")
			for _, x := range kv.V.L {
				if !p.hasContent(f.sub, x) {
					b.WriteString(ind + "  - {}\n")
					continue
				}
				p.mapping(b, f.sub, x, ind+"    ", ind+"  - ")
			}
		}
	}
	if !wrote && first != "" {
		b.WriteString(first + "{}\n")
	}
}

func (p *yamlPrinter) hasContent(st string, n *Node) bool {
	for _, kv := range n.M {
		if kv.V.K == 'n' {
			continue
		}
		f, _ := specOf(st, kv.K)
		if f.kind == kBlocks && len(kv.V.L) == 0 {
			continue
		}
		return true
	}
	return false
}

func printYAML(d *Node, r *rand.Rand, fancy int) (string, []string) {
	p := &yamlPrinter{r: r, fancy: fancy, used: map[string]bool{}}
	var main strings.Builder
	p.mapping(&main, "ammo", d, "", "")
	out := main.String()
	if strings.TrimSpace(out) == "" {
		out = "{}\n"
	}
	if len(p.anchors) > 0 {
		out = "locals:\n" + strings.Join(p.anchors, "\n") + "\n" + out
	}
	var used []string
	for k := range p.used {
		used = append(used, k)
	}
	return out, used
}
