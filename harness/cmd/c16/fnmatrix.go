package main

// enumFunctions: for every collection function that config/hcl.go registers, scenario files whose attributes are
// spelled by calls on which the function is told apart from EVERY other registered function (and from the go-cty stdlib
// functions of similar shape): bound to a neighbour's implementation the call has another value or fails.  The argument
// lists are the table `fnWitnesses` of lean/Pandora/Spec/C16.lean (theorem C16_functions_distinguished proves the
// separation for the model; fnmatrix_test.go checks it against the real go-cty implementations for every pair), plus
// shapes with empty / single-member / duplicate / unsorted arguments.  All of them run in both tiers.

import (
	"fmt"
)

type fnCase struct {
	fn   string
	str  *fnStr  // an expression for a string attribute (request tag)
	list *fnList // an expression for a list attribute (assert/response body)
	smap *fnMap  // an expression for a map attribute (request headers)
	// model: false = the Lean model does not evaluate the expression (a cty map as opposed to an object)
	note string
}

type fnStr struct {
	e hx
	v string
}
type fnList struct {
	e hx
	v []string
}
type fnMap struct {
	e hx
	v []KV
}

func sl(ss ...string) hx { return plainList(ss) }

func om(pairs ...string) hx {
	var kv []kvx
	for i := 0; i+1 < len(pairs); i += 2 {
		kv = append(kv, kvx{pairs[i], qs(pairs[i+1])})
	}
	return quotedObject(kv)
}

func kvl(pairs ...string) []KV {
	var m []KV
	for i := 0; i+1 < len(pairs); i += 2 {
		m = append(m, KV{pairs[i], nStr(pairs[i+1])})
	}
	return m
}

func null() hx { return hx{"null", "n"} }

func fnCases() []fnCase {
	L := sl("b", "", "a", "b")
	M := om("b", "1", "a", "2")
	return []fnCase{
		// coalesce: first non-null argument (an empty string / empty list is not null)
		{fn: "coalesce", str: &fnStr{call("coalesce", qs("a"), qs("b")), "a"}},
		{fn: "coalesce", str: &fnStr{call("coalesce", null(), qs("b")), "b"}},
		{fn: "coalesce", str: &fnStr{call("coalesce", qs(""), qs("b")), ""}, list: &fnList{call("coalesce", sl(), sl("a")), nil}},
		{fn: "coalesce", str: &fnStr{call("coalesce", qs("a"), intLit(1)), "a"}, smap: &fnMap{call("coalesce", om("a", "1", "b", "2"), om("a", "3", "b", "4")), kvl("a", "1", "b", "2")}},
		// coalescelist: first NON-EMPTY list
		{fn: "coalescelist", list: &fnList{call("coalescelist", sl(), sl("a", "b")), []string{"a", "b"}}},
		{fn: "coalescelist", list: &fnList{call("coalescelist", sl("a"), sl("b")), []string{"a"}}},
		{fn: "coalescelist", list: &fnList{call("coalescelist", sl(), sl(), sl("c"), sl("d")), []string{"c"}}},
		// the one-list functions on one list with an empty member, a duplicate, unsorted: all results differ
		{fn: "compact", list: &fnList{call("compact", L), []string{"b", "a", "b"}}},
		{fn: "distinct", list: &fnList{call("distinct", L), []string{"b", "", "a"}}},
		{fn: "sort", list: &fnList{call("sort", L), []string{"", "a", "b", "b"}}},
		{fn: "reverse", list: &fnList{call("reverse", L), []string{"b", "a", "", "b"}}},
		{fn: "compact", list: &fnList{call("compact", sl("", "")), nil}},
		{fn: "sort", list: &fnList{call("sort", sl("B", "a", "C", "10", "9", "é", "z")), []string{"10", "9", "B", "C", "a", "z", "é"}}},
		{fn: "distinct", list: &fnList{call("distinct", sl("x", "x", "x")), []string{"x"}}},
		{fn: "compact", list: &fnList{call("compact", tuple(qs("a"), intLit(1), hx{"true", "t"}, qs(""))), []string{"a", "1", "true"}}},
		// concat / flatten
		{fn: "concat", list: &fnList{call("concat", sl("a"), sl("b", "a")), []string{"a", "b", "a"}}},
		{fn: "concat", list: &fnList{call("concat", sl(), sl("a"), sl()), []string{"a"}}},
		{fn: "flatten", list: &fnList{call("flatten", tuple(sl("a"), tuple(sl("b"), qs("a")))), []string{"a", "b", "a"}}},
		{fn: "flatten", list: &fnList{call("flatten", tuple(sl(), tuple(sl()))), nil}},
		// element wraps around, index does not; index on a map
		{fn: "element", str: &fnStr{call("element", sl("a", "b", "c"), intLit(4)), "b"}},
		{fn: "element", str: &fnStr{call("element", sl("a"), intLit(0)), "a"}},
		{fn: "index", str: &fnStr{call("index", sl("a", "b"), intLit(1)), "b"}},
		{fn: "index", str: &fnStr{call("index", call("zipmap", sl("a", "b"), call("split", qs(","), qs("x,y"))), qs("b")), "y"},
			note: "index on a cty map (the model does not distinguish maps from objects: no prediction)"},
		// keys / values: key order
		{fn: "keys", list: &fnList{call("keys", M), []string{"a", "b"}}},
		{fn: "values", list: &fnList{call("values", M), []string{"2", "1"}}},
		{fn: "keys", list: &fnList{call("keys", om()), nil}},
		// lookup: present key / default
		{fn: "lookup", str: &fnStr{call("lookup", om("a", "x"), qs("a"), qs("d")), "x"}},
		{fn: "lookup", str: &fnStr{call("lookup", om("a", "x"), qs("b"), qs("d")), "d"}},
		// merge: later arguments win, null arguments are skipped
		{fn: "merge", smap: &fnMap{call("merge", om("a", "1", "b", "2"), om("b", "3", "c", "4")), kvl("a", "1", "b", "3", "c", "4")}},
		{fn: "merge", smap: &fnMap{call("merge", om("a", "1"), null(), om("a", "2"), om("a", "3")), kvl("a", "3")}},
		{fn: "merge", smap: &fnMap{call("merge", om("a", "1")), kvl("a", "1")}},
		// slice / split / zipmap
		{fn: "slice", list: &fnList{call("slice", sl("a", "b", "c", "d"), intLit(1), intLit(3)), []string{"b", "c"}}},
		{fn: "slice", list: &fnList{call("slice", sl("a", "b"), intLit(2), intLit(2)), nil}},
		{fn: "split", list: &fnList{call("split", qs(","), qs("a,b,,c")), []string{"a", "b", "", "c"}}},
		{fn: "split", list: &fnList{call("split", qs(""), qs("aбc")), []string{"a", "б", "c"}}},
		{fn: "split", list: &fnList{call("split", qs("--"), qs("a---b")), []string{"a", "-b"}}},
		{fn: "zipmap", smap: &fnMap{call("zipmap", sl("a", "b"), sl("1", "2")), kvl("a", "1", "b", "2")}},
		{fn: "zipmap", smap: &fnMap{call("zipmap", sl("a", "a"), sl("1", "2")), kvl("a", "2")}},
		// functions of a local, in a local
		{fn: "merge", smap: &fnMap{call("merge", om("a", "1"), call("zipmap", call("keys", M), call("reverse", call("values", M)))), kvl("a", "1", "b", "2")}},
		{fn: "element", str: &fnStr{call("element", call("concat", call("split", qs(" "), qs("p q")), call("compact", sl("", "r"))), intLit(5)), "r"}},
	}
}

func enumFunctions() []string {
	var out []string
	for i, c := range fnCases() {
		req := []KV{{"name", nStr("r")}, {"method", nStr("GET")}, {"uri", nStr("/")}}
		var hreq []kvx
		hreq = append(hreq, kvx{"name", qs("r")}, kvx{"method", qs("GET")}, kvx{"uri", qs("/")})
		if c.smap != nil {
			req = append(req, KV{"headers", nMap(c.smap.v)})
			hreq = append(hreq, kvx{"headers", c.smap.e})
		} else {
			req = append(req, KV{"headers", nMap(nil)})
			hreq = append(hreq, kvx{"headers", hx{"{}", "{}"}})
		}
		if c.str != nil {
			req = append(req, KV{"tag", nStr(c.str.v)})
			hreq = append(hreq, kvx{"tag", c.str.e})
		}
		if c.list != nil {
			req = append(req, KV{"postprocessor", nList([]*Node{nMap([]KV{{"type", nStr("assert/response")}, {"body", nStrs(c.list.v)}})})})
			hreq = append(hreq, kvx{"postprocessor", hx{"", "[" + encObject([]kvx{{"type", qs("assert/response")}, {"body", c.list.e}}) + "]"}})
		}
		d := nMap([]KV{{"request", nList([]*Node{nMap(req)})}, {"scenario", scenarioOf("r")}})
		hb := encObject([]kvx{
			{"request", hx{"", "[" + encObject(hreq) + "]"}},
			{"scenario", hx{"", "[" + encObject([]kvx{{"name", qs("s")}, {"requests", sl("r")}}) + "]"}},
		})
		// once in the body, once through a locals block
		out = append(out, fmt.Sprintf("sx=%d mal=0 hx=1 fm=%s d=%s lb=[] hb=%s", i*3, c.fn, encodeTree(d), hb))
		var ldefs, hreq2 []kvx
		for _, kv := range hreq {
			switch kv.k {
			case "tag", "headers", "postprocessor":
				if kv.k == "postprocessor" {
					ldefs = append(ldefs, kvx{"v_body", c.list.e})
					hreq2 = append(hreq2, kvx{"postprocessor", hx{"", "[" + encObject([]kvx{{"type", qs("assert/response")}, {"body", hx{"", encLocal("v_body")}}}) + "]"}})
				} else if kv.v.enc == "{}" {
					hreq2 = append(hreq2, kv)
				} else {
					ldefs = append(ldefs, kvx{"v_" + kv.k, kv.v})
					hreq2 = append(hreq2, kvx{kv.k, hx{"", encLocal("v_" + kv.k)}})
				}
			default:
				hreq2 = append(hreq2, kv)
			}
		}
		hb2 := encObject([]kvx{
			{"request", hx{"", "[" + encObject(hreq2) + "]"}},
			{"scenario", hx{"", "[" + encObject([]kvx{{"name", qs("s")}, {"requests", sl("r")}}) + "]"}},
		})
		out = append(out, fmt.Sprintf("sx=%d mal=0 hx=1 fm=%s d=%s lb=[%s] hb=%s", i*3, c.fn, encodeTree(d), encObject(ldefs), hb2))
	}
	return out
}
