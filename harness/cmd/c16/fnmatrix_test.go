package main

// Self-test of the function matrix (not part of ./check; run with
// `cd /verif/harness && go test -tags verif ./cmd/c16 -run TestFnMatrix`): every file of enumFunctions() is
// evaluated with the real hcl / go-cty under the function table of config/hcl.go (copied here ONLY to build the
// one-slip variants) and under every variant in which ONE name is bound to another function — each of the other 16
// registered ones and the go-cty stdlib functions of similar shape.  Every variant must change the outcome (other
// AmmoHCL, or an error) of at least one file: a slip in the table cannot go unnoticed by the matrix.

import (
	"fmt"
	"sort"
	"testing"

	"github.com/hashicorp/hcl/v2"
	"github.com/hashicorp/hcl/v2/gohcl"
	"github.com/hashicorp/hcl/v2/hclparse"
	"github.com/yandex/pandora/components/providers/scenario/config"
	"github.com/zclconf/go-cty/cty"
	"github.com/zclconf/go-cty/cty/function"
	"github.com/zclconf/go-cty/cty/function/stdlib"
	"gopkg.in/yaml.v2"
	"verifharness/drv"
)

func fnmatrixTable() map[string]function.Function {
	return map[string]function.Function{
		"coalesce": stdlib.CoalesceFunc, "coalescelist": stdlib.CoalesceListFunc, "compact": stdlib.CompactFunc,
		"concat": stdlib.ConcatFunc, "distinct": stdlib.DistinctFunc, "element": stdlib.ElementFunc, "flatten": stdlib.FlattenFunc,
		"index": stdlib.IndexFunc, "keys": stdlib.KeysFunc, "lookup": stdlib.LookupFunc, "merge": stdlib.MergeFunc,
		"reverse": stdlib.ReverseListFunc, "slice": stdlib.SliceFunc, "sort": stdlib.SortFunc, "split": stdlib.SplitFunc,
		"values": stdlib.ValuesFunc, "zipmap": stdlib.ZipmapFunc,
	}
}

// other stdlib functions a table entry could be bound to by mistake
func fnmatrixNeighbours() map[string]function.Function {
	return map[string]function.Function{
		"ReverseFunc": stdlib.ReverseFunc, "SubstrFunc": stdlib.SubstrFunc, "ContainsFunc": stdlib.ContainsFunc, "ChunklistFunc": stdlib.ChunklistFunc,
		"LengthFunc": stdlib.LengthFunc, "HasIndexFunc": stdlib.HasIndexFunc, "SetUnionFunc": stdlib.SetUnionFunc, "SetIntersectionFunc": stdlib.SetIntersectionFunc,
		"SetSubtractFunc": stdlib.SetSubtractFunc, "SetSymmetricDifferenceFunc": stdlib.SetSymmetricDifferenceFunc, "SetProductFunc": stdlib.SetProductFunc,
		"JoinFunc": stdlib.JoinFunc, "RegexFunc": stdlib.RegexFunc, "RegexAllFunc": stdlib.RegexAllFunc, "UpperFunc": stdlib.UpperFunc, "LowerFunc": stdlib.LowerFunc,
		"TrimFunc": stdlib.TrimFunc, "TrimPrefixFunc": stdlib.TrimPrefixFunc, "TrimSuffixFunc": stdlib.TrimSuffixFunc, "TrimSpaceFunc": stdlib.TrimSpaceFunc,
		"ChompFunc": stdlib.ChompFunc, "IndentFunc": stdlib.IndentFunc, "TitleFunc": stdlib.TitleFunc, "StrlenFunc": stdlib.StrlenFunc, "ReplaceFunc": stdlib.ReplaceFunc,
		"RangeFunc": stdlib.RangeFunc, "MaxFunc": stdlib.MaxFunc, "MinFunc": stdlib.MinFunc, "ConcatFunc2": stdlib.ConcatFunc, "EqualFunc": stdlib.EqualFunc,
		"NotEqualFunc": stdlib.NotEqualFunc, "JSONEncodeFunc": stdlib.JSONEncodeFunc, "FormatListFunc": stdlib.FormatListFunc, "FormatFunc": stdlib.FormatFunc,
		"AndFunc": stdlib.AndFunc, "OrFunc": stdlib.OrFunc, "AddFunc": stdlib.AddFunc, "SortFunc2": stdlib.SortFunc,
	}
}

func fnmatrixEval(text string, fns map[string]function.Function) string {
	parser := hclparse.NewParser()
	f, diag := parser.ParseHCL([]byte(text), "x.hcl")
	if diag.HasErrors() {
		return "PARSE"
	}
	schema := &hcl.BodySchema{Blocks: []hcl.BlockHeaderSchema{{Type: "locals"}}}
	lc, rest, _ := f.Body.PartialContent(schema)
	vars := map[string]cty.Value{}
	ctx := &hcl.EvalContext{Variables: map[string]cty.Value{"local": cty.ObjectVal(vars)}, Functions: fns}
	for _, b := range lc.Blocks {
		attrs, d := b.Body.JustAttributes()
		if d.HasErrors() {
			return "ERR"
		}
		nv := map[string]cty.Value{}
		for n, a := range attrs {
			v, d := a.Expr.Value(ctx)
			if d.HasErrors() {
				return "ERR"
			}
			nv[n] = v
		}
		for k, v := range nv {
			vars[k] = v
		}
		ctx = &hcl.EvalContext{Variables: map[string]cty.Value{"local": cty.ObjectVal(vars)}, Functions: fns}
	}
	var out config.AmmoHCL
	if d := gohcl.DecodeBody(rest, ctx, &out); d.HasErrors() {
		return "ERR"
	}
	b, err := yaml.Marshal(out)
	if err != nil {
		return "ERR"
	}
	return string(b)
}

func TestFnMatrix(t *testing.T) {
	var files []string
	for _, line := range enumFunctions() {
		m := drv.KV(line)
		text, err := printHCLFromAST(m["lb"], m["hb"])
		if err != nil {
			t.Fatalf("%v: %s", err, line)
		}
		files = append(files, text)
	}
	base := make([]string, len(files))
	for i, f := range files {
		base[i] = fnmatrixEval(f, fnmatrixTable())
		if base[i] == "ERR" || base[i] == "PARSE" {
			t.Fatalf("file %d does not evaluate under the real table:\n%s", i, f)
		}
	}
	var names []string
	for n := range fnmatrixTable() {
		names = append(names, n)
	}
	sort.Strings(names)
	cands := map[string]function.Function{}
	for n, f := range fnmatrixTable() {
		cands["table:"+n] = f
	}
	for n, f := range fnmatrixNeighbours() {
		cands["stdlib:"+n] = f
	}
	pairs, missed := 0, 0
	for _, name := range names {
		for cn, cf := range cands {
			if cn == "table:"+name || (name == "concat" && cn == "stdlib:ConcatFunc2") || (name == "sort" && cn == "stdlib:SortFunc2") {
				continue
			}
			tbl := fnmatrixTable()
			tbl[name] = cf
			pairs++
			changed := 0
			for i, f := range files {
				if fnmatrixEval(f, tbl) != base[i] {
					changed++
				}
			}
			if changed == 0 {
				missed++
				t.Errorf("%s bound to %s: no file of the matrix changes", name, cn)
			}
		}
	}
	fmt.Printf("function matrix: %d files, %d one-slip tables, %d unnoticed\n", len(files), pairs, missed)
}
