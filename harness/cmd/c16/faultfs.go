package main

// Round 4: a fault-injecting file system in front of the in-memory one.  `ReadAmmoConfig` opens the file, asks for its
// Stat, hands it to `ParseHCLFile` / `ParseAmmoConfig` (both `io.ReadAll`) and closes it in a deferred function whose
// error is joined to the result.  A description that could not be READ COMPLETELY is not a description: whatever the
// front-end, the file must be refused — and a fault at the same point must not make one front-end accept a truncated
// prefix that happens to parse (a prefix of an HCL file cut at a block boundary, a prefix of a YAML file cut at a line
// boundary, are well-formed files of their own) while the other refuses.
//
// token ff=<plan>, plan = items joined by `+` (coinciding faults):
//
//	open          Open fails
//	stat          Stat of the opened file fails
//	read<permille> Read delivers the bytes up to the item boundary nearest to that fraction of the file (a top-level
//	              block start of the HCL file, a top-level key / list item start of the YAML file), then fails;
//	              read1000 = every byte is delivered, then the error instead of io.EOF
//	close         Close fails (after whatever happened before)
//
// The plan is armed for the two files of the case only, after the companion files were read from the same paths.

import (
	"errors"
	"os"
	"strconv"
	"strings"
	"sync"

	"github.com/spf13/afero"
)

type faultPlan struct {
	open, stat, close bool
	readAt            int // -1: no read fault; otherwise the number of bytes delivered before the error
}

var errInjected = errors.New("injected I/O fault")

type faultFs struct {
	afero.Fs
	mu    sync.Mutex
	plans map[string]faultPlan
}

func (f *faultFs) arm(path string, p faultPlan) {
	f.mu.Lock()
	if f.plans == nil {
		f.plans = map[string]faultPlan{}
	}
	f.plans[path] = p
	f.mu.Unlock()
}

func (f *faultFs) disarm(path string) {
	f.mu.Lock()
	delete(f.plans, path)
	f.mu.Unlock()
}

func (f *faultFs) plan(path string) (faultPlan, bool) {
	f.mu.Lock()
	defer f.mu.Unlock()
	p, ok := f.plans[path]
	return p, ok
}

func (f *faultFs) Open(name string) (afero.File, error) {
	p, armed := f.plan(name)
	if armed && p.open {
		return nil, &os.PathError{Op: "open", Path: name, Err: errInjected}
	}
	file, err := f.Fs.Open(name)
	if err != nil || !armed {
		return file, err
	}
	return &faultFile{File: file, p: p}, nil
}

func (f *faultFs) OpenFile(name string, flag int, perm os.FileMode) (afero.File, error) {
	if flag == os.O_RDONLY {
		return f.Open(name)
	}
	return f.Fs.OpenFile(name, flag, perm)
}

type faultFile struct {
	afero.File
	p    faultPlan
	done int
}

func (f *faultFile) Stat() (os.FileInfo, error) {
	if f.p.stat {
		return nil, errInjected
	}
	return f.File.Stat()
}

func (f *faultFile) Read(b []byte) (int, error) {
	if f.p.readAt < 0 {
		return f.File.Read(b)
	}
	room := f.p.readAt - f.done
	if room <= 0 {
		return 0, errInjected
	}
	if len(b) > room {
		b = b[:room]
	}
	n, err := f.File.Read(b)
	f.done += n
	if err != nil {
		// (the file is shorter than the plan says: the fault comes in place of io.EOF)
		return n, errInjected
	}
	return n, nil
}

func (f *faultFile) Close() error {
	err := f.File.Close()
	if f.p.close {
		return errInjected
	}
	return err
}

// parseFaultPlan: the ff token against the text of one file
func parseFaultPlan(tok, text string, hcl bool) (faultPlan, bool) {
	p := faultPlan{readAt: -1}
	for _, it := range strings.Split(tok, "+") {
		switch {
		case it == "open":
			p.open = true
		case it == "stat":
			p.stat = true
		case it == "close":
			p.close = true
		case strings.HasPrefix(it, "read"):
			pm, err := strconv.Atoi(it[4:])
			if err != nil || pm < 0 || pm > 1000 {
				return p, false
			}
			p.readAt = cutPoint(text, pm, hcl)
		default:
			return p, false
		}
	}
	return p, true
}

// cutPoint: the offset of the item boundary nearest to permille/1000 of the text (the start of a line whose first
// character opens a top-level item: not a space, not a closing brace, not a heredoc terminator); 1000 = the whole text
func cutPoint(text string, permille int, hcl bool) int {
	if permille >= 1000 {
		return len(text)
	}
	target := len(text) * permille / 1000
	best, bestD := 0, len(text)+1
	off := 0
	inHeredoc := ""
	for _, ln := range strings.SplitAfter(text, "\n") {
		top := len(ln) > 0 && ln[0] != ' ' && ln[0] != '\t' && ln[0] != '}' && ln[0] != '\n' && ln[0] != '#'
		if hcl {
			t := strings.TrimSpace(ln)
			if inHeredoc != "" {
				top = false
				if t == inHeredoc {
					inHeredoc = ""
				}
			} else if strings.HasSuffix(strings.TrimRight(ln, "\n"), "<<EOT") {
				inHeredoc = "EOT" // (the only heredoc form hclprint.go writes)
			}
		}
		if top {
			d := off - target
			if d < 0 {
				d = -d
			}
			if d < bestD {
				best, bestD = off, d
			}
		}
		off += len(ln)
	}
	return best
}
