package main

// mal=3: HCL files that the language does NOT evaluate — a `locals` block (used by the body or not) or an attribute
// with an undefined local, a local of a LATER block or of the same block, an unknown function, a call that fails, a
// missing member — built from the syntax tree of a valid spelling.  "Conveniences are fully evaluated before
// conversion": the HCL front-end must refuse the file as a whole, wherever the failing piece sits.  `pre=<name>`: the
// undefined local is one that ANOTHER file, parsed just before in the same process, defines: files are independent.

import (
	"fmt"
	"math/rand"
)

func brokenExprs() []hx {
	return []hx{
		{"", encLocal("undefined_zz")},
		call("upper", qs("x")),
		call("element", tuple(), intLit(0)),
		call("lookup", object(), qs("k")),
		call("slice", sl("a"), intLit(1), intLit(0)),
		call("zipmap", sl("a"), tuple()),
		call("index", sl("a"), intLit(3)),
		call("coalescelist", tuple(), tuple()),
		call("keys", sl("a")),
		call("merge", qs("a")),
		call("sort", tuple(sl("a"))),
		idxAttr(object(kvx{"k", qs("v")}), "nokey"),
		idxBr(sl("x"), intLit(5)),
		{"", "T[" + encStr("a") + encLocal("undefined_zz") + "]"},
		call("concat", sl("a"), hx{"", encLocal("undefined_zz")}),
	}
}

// breakFile returns the lb/hb encodings of the spelling (lb, hb) with one failing piece added; "" when the shape
// cannot be applied to this file
func breakFile(r *rand.Rand, lb, hb string) (string, string, string, string) {
	l, err := parseHX(lb)
	if err != nil || l.k != 'l' {
		return "", "", "", ""
	}
	body, err := parseHX(hb)
	if err != nil {
		return "", "", "", ""
	}
	pre := ""
	exprs := brokenExprs()
	bad := exprs[r.Intn(len(exprs))]
	if r.Intn(4) == 0 {
		// a local that OTHER files of this run define (the printer numbers its locals s1, m2, l3 …) but this one does not:
		// what an earlier file defined must not be visible here
		defined := map[string]bool{}
		for _, blk := range l.list {
			for _, k := range blk.keys {
				defined[k] = true
			}
		}
		pool := []string{"s1", "s2", "s3", "m1", "m2", "l1", "l2", "n1", "n2", "o1", "o2", "t1", "d2", "d3", "b1"}
		r.Shuffle(len(pool), func(i, j int) { pool[i], pool[j] = pool[j], pool[i] })
		for _, name := range pool {
			if !defined[name] {
				bad = hx{"", encLocal(name)}
				pre = name
				break
			}
		}
	}
	badNode, err := parseHX(bad.enc)
	if err != nil {
		panic("broken.go: " + err.Error())
	}
	insertBlock := func(at int, blk *hnode) {
		l.list = append(l.list, nil)
		copy(l.list[at+1:], l.list[at:])
		l.list[at] = blk
	}
	kind := ""
	switch r.Intn(6) {
	case 0:
		// a block of its own (first / between / last) that nothing uses
		kind = "unused-block"
		insertBlock(r.Intn(len(l.list)+1), &hnode{k: 'm', keys: []string{"zz_bad"}, list: []*hnode{badNode}})
	case 1:
		// one more definition inside an existing block
		if len(l.list) == 0 {
			return "", "", "", ""
		}
		kind = "in-block"
		blk := l.list[r.Intn(len(l.list))]
		at := r.Intn(len(blk.keys) + 1)
		blk.keys = append(blk.keys[:at], append([]string{"zz_bad"}, blk.keys[at:]...)...)
		blk.list = append(blk.list[:at], append([]*hnode{badNode}, blk.list[at:]...)...)
	case 2:
		// a block that uses a local of its own
		kind = "own-block"
		insertBlock(r.Intn(len(l.list)+1), &hnode{k: 'm', keys: []string{"zz_a", "zz_b"}, list: []*hnode{{k: 's', s: "v"}, {k: 'L', s: "zz_a"}}})
	case 3:
		// a block that uses a local defined only LATER
		kind = "later-block"
		at := r.Intn(len(l.list) + 1)
		insertBlock(at, &hnode{k: 'm', keys: []string{"zz_b"}, list: []*hnode{{k: 'L', s: "zz_later"}}})
		insertBlock(at+1+r.Intn(len(l.list)-at), &hnode{k: 'm', keys: []string{"zz_later"}, list: []*hnode{{k: 's', s: "v"}}})
	case 4, 5:
		// the failing expression in the body: the tag of the first request / call
		kind = "body"
		var steps *hnode
		if steps = body.get("request"); steps == nil || len(steps.list) == 0 {
			steps = body.get("call")
		}
		if steps == nil || len(steps.list) == 0 || steps.list[0].k != 'm' {
			return "", "", "", ""
		}
		st := steps.list[0]
		done := false
		for i, k := range st.keys {
			if k == "tag" {
				st.list[i] = badNode
				done = true
			}
		}
		if !done {
			st.keys = append(st.keys, "tag")
			st.list = append(st.list, badNode)
		}
	}
	if kind == "own-block" || kind == "later-block" {
		pre = ""
	}
	return l.enc(), body.enc(), kind, pre
}

func brokenLine(r *rand.Rand, sx int64, d *Node) string {
	fancy := 0
	switch sx % 3 {
	case 1:
		fancy = 30
	case 2:
		fancy = 60
	}
	hf := printHCL(d, rand.New(rand.NewSource(sx)), fancy)
	for try := 0; try < 8; try++ {
		lb, hb, kind, pre := breakFile(r, hf.lb, hf.hb)
		if kind != "" {
			if pre != "" {
				// pre=<name>: the harness first parses another (valid) HCL file that defines this local
				return fmt.Sprintf("sx=%d mal=3 hx=1 bk=%s-foreign pre=%s d=%s lb=%s hb=%s", sx, kind, pre, encodeTree(d), lb, hb)
			}
			return fmt.Sprintf("sx=%d mal=3 hx=1 bk=%s d=%s lb=%s hb=%s", sx, kind, encodeTree(d), lb, hb)
		}
	}
	return ""
}
