package main

// Prints a description tree as an HCL scenario file.  With fancy > 0 values are spelled through `locals` blocks,
// template interpolation and the collection functions that config/hcl.go registers; the harness picks spellings whose
// value it knows (the expression is built FROM the target value), so the evaluated description stays the tree.

import (
	"encoding/hex"
	"fmt"
	"math/rand"
	"regexp"
	"sort"
	"strconv"
	"strings"
	"unicode/utf8"
)

// hx: an HCL expression as text and as the encoded syntax tree handed to the Lean model
// (tree.go grammar extended by  L<hexname>.  local.name,  T[e*]  template,  F<hexname>.[e*]  function call)
type hx struct {
	txt string
	enc string
}

type localDef struct {
	name string
	e    hx
}

// locals blocks, in file order: pre (decoy definitions that a later block redefines), base, derive (may reference
// base), post (late redefinitions of base locals that are only used through a derived local)
const (
	stPre = iota
	stBase
	stDerive
	stPost
	nStages
)

type hclPrinter struct {
	r      *rand.Rand
	fancy  int // 0 = literals only; otherwise percentage of values spelled indirectly
	blocks [nStages][]localDef
	nloc   int
	redef  int // number of redefinitions of a local in another block
	bare   int // strings written as bare numbers / bools
	idx    int // index / attribute accesses into a local
	nulls  int // locals whose value is null
	usedFn map[string]bool
}

func encStr(s string) string { return "s" + hex.EncodeToString([]byte(s)) + "." }
func encInt(i int64) string  { return "i" + strconv.FormatInt(i, 10) + "." }
func encBool(b bool) string {
	if b {
		return "t"
	}
	return "f"
}
func encLocal(name string) string { return "L" + hex.EncodeToString([]byte(name)) + "." }
func encCall(fn string, args ...hx) string {
	var b strings.Builder
	b.WriteString("F" + hex.EncodeToString([]byte(fn)) + ".[")
	for _, a := range args {
		b.WriteString(a.enc)
	}
	b.WriteString("]")
	return b.String()
}

func qs(s string) hx { return hx{hclQuote(s), encStr(s)} }

// bracket index e[k] and attribute access e.name (both: E.idx in the Lean model)
func idxBr(e, k hx) hx { return hx{e.txt + "[" + k.txt + "]", "X[" + e.enc + k.enc + "]"} }
func idxAttr(e hx, name string) hx {
	return hx{e.txt + "." + name, "A[" + e.enc + encStr(name) + "]"}
}

var bareIntRe = regexp.MustCompile(`^(0|-?[1-9][0-9]{0,14})$`)

// bare: a string that looks like a decimal number / a bool may be written as a bare HCL number / bool where a string is
// expected: gohcl converts it to its text (`port = 8090` in a map[string]string denotes "8090")
func bare(s string) (hx, bool) {
	switch {
	case s == "true" || s == "false":
		return hx{s, encBool(s == "true")}, true
	case bareIntRe.MatchString(s):
		i, err := strconv.ParseInt(s, 10, 64)
		if err != nil {
			return hx{}, false
		}
		return hx{s, encInt(i)}, true
	}
	return hx{}, false
}

// lit: the string as a quoted literal, or (one time in two, when it looks like one) as a bare number / bool
func (p *hclPrinter) lit(s string) hx {
	if b, ok := bare(s); ok && p.fancy > 0 && p.r.Intn(2) == 0 {
		p.bare++
		return b
	}
	return qs(s)
}

func call(fn string, args ...hx) hx {
	parts := make([]string, len(args))
	for i, a := range args {
		parts[i] = a.txt
	}
	return hx{fn + "(" + strings.Join(parts, ", ") + ")", encCall(fn, args...)}
}

func hclQuote(s string) string {
	var b strings.Builder
	b.WriteByte('"')
	for i := 0; i < len(s); {
		c, sz := utf8.DecodeRuneInString(s[i:])
		rest := s[i+sz:]
		switch {
		case c == '"':
			b.WriteString(`\"`)
		case c == '\\':
			b.WriteString(`\\`)
		case c == '\n':
			b.WriteString(`\n`)
		case c == '\r':
			b.WriteString(`\r`)
		case c == '\t':
			b.WriteString(`\t`)
		case (c == '$' || c == '%') && strings.HasPrefix(rest, "{"):
			b.WriteRune(c)
			b.WriteRune(c)
		case c < 0x20 || c == 0x7f || c == 0x85 || c == 0x2028 || c == 0x2029 || c == 0xfeff:
			fmt.Fprintf(&b, `\u%04x`, c)
		default:
			b.WriteString(s[i : i+sz])
		}
		i += sz
	}
	b.WriteByte('"')
	return b.String()
}

var identRe = regexp.MustCompile(`^[A-Za-z_][A-Za-z0-9_-]*$`)

func hclKey(r *rand.Rand, k string) string {
	if identRe.MatchString(k) && k != "true" && k != "false" && k != "null" && r.Intn(3) > 0 {
		return k
	}
	return hclQuote(k)
}

func heredocOK(s string) bool {
	if !strings.HasSuffix(s, "\n") || !utf8.ValidString(s) {
		return false
	}
	for _, c := range s {
		if c == '\n' {
			continue
		}
		if c < 0x20 || c == 0x7f || c == 0x85 || c == 0x2028 || c == 0x2029 || c == 0xfeff {
			return false
		}
	}
	for _, line := range strings.Split(strings.TrimSuffix(s, "\n"), "\n") {
		if strings.TrimSpace(line) == "EOT" {
			return false
		}
	}
	return true
}

func heredoc(s string) string {
	s = strings.ReplaceAll(s, "${", "$${")
	s = strings.ReplaceAll(s, "%{", "%%{")
	return "<<EOT\n" + s + "EOT"
}

// newLocal defines `name = e` in the locals block of `stage` and returns the reference and the name.  decoy is an
// expression of the same type with a DIFFERENT value: with some probability the name is ALSO defined, as the decoy, in
// an EARLIER block — the later (real) definition must win (config/hcl.go decodeLocals: mergeMaps(vars, newVars)).
func (p *hclPrinter) newLocal(prefix string, e, decoy hx, stage int) (hx, string) {
	p.nloc++
	name := fmt.Sprintf("%s%d", prefix, p.nloc)
	p.blocks[stage] = append(p.blocks[stage], localDef{name, e})
	if decoy.txt != "" && p.r.Intn(100) < 35 {
		early := stPre
		if stage == stDerive && p.r.Intn(2) == 0 {
			early = stBase
		}
		p.blocks[early] = append(p.blocks[early], localDef{name, decoy})
		p.redef++
	}
	return hx{"local." + name, encLocal(name)}, name
}

// lateRedef: the base local `name` is used ONLY through a derived local (evaluated when its block is decoded): a block
// after the derived one may redefine the name without changing the description
func (p *hclPrinter) lateRedef(name string, decoy hx) {
	if p.r.Intn(100) < 40 {
		p.blocks[stPost] = append(p.blocks[stPost], localDef{name, decoy})
		p.redef++
	}
}

// nullExpr: how an argument that is left out is spelled (ok=false: not at all)
func (p *hclPrinter) nullExpr() (hx, bool) {
	lit := hx{"null", "n"}
	if p.fancy == 0 {
		if p.r.Intn(2) == 0 {
			return hx{}, false
		}
		return lit, true
	}
	switch p.r.Intn(5) {
	case 0:
		return hx{}, false
	case 1:
		return lit, true
	case 2, 3:
		p.nulls++
		l, _ := p.newLocal("z", lit, hx{}, stBase)
		return l, true
	default:
		p.nulls++
		l, _ := p.newLocal("z", lit, hx{}, stBase)
		d, _ := p.newLocal("d", l, hx{}, stDerive)
		return d, true
	}
}

func (p *hclPrinter) roll() bool { return p.fancy > 0 && p.r.Intn(100) < p.fancy }

func (p *hclPrinter) fn(name string) { p.usedFn[name] = true }

// ---- strings

func (p *hclPrinter) strLit(s string, allowHeredoc bool) hx {
	if allowHeredoc && heredocOK(s) && p.r.Intn(2) == 0 {
		return hx{heredoc(s), encStr(s)}
	}
	return p.lit(s)
}

func decoyStr(s string) hx { return qs(s + "#decoy") }

// strExpr: an HCL expression whose value is s.  inline: the expression is nested in another one (no heredoc).
func (p *hclPrinter) strExpr(s string, inline bool) hx {
	if !p.roll() {
		return p.strLit(s, !inline)
	}
	switch p.r.Intn(10) {
	case 7:
		// a member of an object local: local.m.key / local.m["key"]
		p.idx++
		key := []string{"key", "k2", "Content-Type", "a b"}[p.r.Intn(4)]
		l, _ := p.newLocal("o", object(kvx{"other", qs("x")}, kvx{key, p.lit(s)}), object(kvx{key, decoyStr(s)}, kvx{"other", qs("x")}), stBase)
		if identRe.MatchString(key) && p.r.Intn(2) == 0 {
			return idxAttr(l, key)
		}
		return idxBr(l, qs(key))
	case 8:
		// a member of a tuple local: local.t[1]
		p.idx++
		l, _ := p.newLocal("t", tuple(qs("x"), p.lit(s), qs("y")), tuple(qs("x"), decoyStr(s)), stBase)
		return idxBr(l, intLit(1))
	case 9:
		// a derived local picks the member of a base local; the base is redefined later
		p.idx++
		l, name := p.newLocal("o", object(kvx{"key", p.lit(s)}), object(kvx{"key", decoyStr(s)}), stBase)
		d, _ := p.newLocal("d", idxAttr(l, "key"), decoyStr(s), stDerive)
		p.lateRedef(name, object(kvx{"key", qs(s + "#late")}))
		return d
	case 0:
		l, _ := p.newLocal("s", p.lit(s), decoyStr(s), stBase)
		return l
	case 1:
		// interpolation of a local into a template: "${local.a}rest" or "begin${local.b}"
		rs := []rune(s)
		if len(rs) >= 2 {
			cut := 1 + p.r.Intn(len(rs)-1)
			a, b := string(rs[:cut]), string(rs[cut:])
			if !strings.HasSuffix(a, "$") && !strings.HasSuffix(a, "%") {
				if p.r.Intn(2) == 0 {
					l, _ := p.newLocal("s", qs(a), decoyStr(a), stBase)
					q := hclQuote(b)
					return hx{`"${` + l.txt + `}` + q[1:], "T[" + l.enc + encStr(b) + "]"}
				}
				l, _ := p.newLocal("s", qs(b), decoyStr(b), stBase)
				q := hclQuote(a)
				return hx{q[:len(q)-1] + `${` + l.txt + `}"`, "T[" + encStr(a) + l.enc + "]"}
			}
		}
		return qs(s)
	case 2:
		// element wraps around: index 1, 4, 7 of a 3-tuple is its second member
		p.fn("element")
		idx := int64(1 + 3*p.r.Intn(3))
		return call("element", tuple(qs("x"), qs(s), qs("y")), hx{strconv.FormatInt(idx, 10), encInt(idx)})
	case 3:
		p.fn("lookup")
		if p.r.Intn(3) == 0 {
			// the key is missing: the default is the value
			return call("lookup", object(kvx{"j", qs("no")}), qs("k"), qs(s))
		}
		return call("lookup", object(kvx{"k", qs(s)}, kvx{"j", qs("no")}), qs("k"), qs("dflt"))
	case 4:
		if p.r.Intn(2) == 0 {
			// stdlib index = element access
			p.fn("index")
			return call("index", tuple(qs("x"), qs(s)), hx{"1", encInt(1)})
		}
		p.fn("coalesce")
		switch p.r.Intn(3) {
		case 0:
			return call("coalesce", hx{"null", "n"}, qs(s), qs("other"))
		case 1:
			// a local whose value is null, defined in an earlier block: coalesce(local.z1, "value")
			p.nulls++
			z, _ := p.newLocal("z", hx{"null", "n"}, hx{}, stBase)
			return call("coalesce", z, qs(s), qs("other"))
		}
		return call("coalesce", qs(s), qs("other"))
	case 5:
		// a local defined from another local (previous block)
		l, name := p.newLocal("s", qs(s), decoyStr(s), stBase)
		d, _ := p.newLocal("d", l, decoyStr(s), stDerive)
		p.lateRedef(name, qs(s+"#late"))
		return d
	default:
		// a derived local that interpolates a base local
		rs := []rune(s)
		if len(rs) >= 2 {
			cut := 1 + p.r.Intn(len(rs)-1)
			a, b := string(rs[:cut]), string(rs[cut:])
			if !strings.HasSuffix(a, "$") && !strings.HasSuffix(a, "%") {
				l, name := p.newLocal("s", qs(b), decoyStr(b), stBase)
				q := hclQuote(a)
				d, _ := p.newLocal("d", hx{q[:len(q)-1] + `${` + l.txt + `}"`, "T[" + encStr(a) + l.enc + "]"}, decoyStr(s), stDerive)
				p.lateRedef(name, qs(b+"#late"))
				return d
			}
		}
		return qs(s)
	}
}

// ---- tuples and objects of expressions

type kvx struct {
	k string
	v hx
}

func tuple(xs ...hx) hx {
	parts := make([]string, len(xs))
	var enc strings.Builder
	enc.WriteString("[")
	for i, x := range xs {
		parts[i] = x.txt
		enc.WriteString(x.enc)
	}
	enc.WriteString("]")
	return hx{"[" + strings.Join(parts, ", ") + "]", enc.String()}
}

func encObject(kvs []kvx) string {
	var enc strings.Builder
	enc.WriteString("{")
	for _, kv := range kvs {
		enc.WriteString("k" + hex.EncodeToString([]byte(kv.k)) + "." + kv.v.enc)
	}
	enc.WriteString("}")
	return enc.String()
}

// object: single-line object constructor with bare / quoted keys
func object(kvs ...kvx) hx {
	if len(kvs) == 0 {
		return hx{"{}", "{}"}
	}
	parts := make([]string, len(kvs))
	for i, kv := range kvs {
		k := kv.k
		if !identRe.MatchString(k) || k == "true" || k == "false" || k == "null" {
			k = hclQuote(k)
		}
		parts[i] = k + " = " + kv.v.txt
	}
	return hx{"{ " + strings.Join(parts, ", ") + " }", encObject(kvs)}
}

// ---- lists of strings

func (p *hclPrinter) listLit(ss []string) hx {
	parts := make([]hx, len(ss))
	for i, s := range ss {
		parts[i] = p.strExpr(s, true)
	}
	return tuple(parts...)
}

func plainList(ss []string) hx {
	parts := make([]hx, len(ss))
	for i, s := range ss {
		parts[i] = qs(s)
	}
	return tuple(parts...)
}

func hasDup(ss []string) bool {
	seen := map[string]bool{}
	for _, s := range ss {
		if seen[s] {
			return true
		}
		seen[s] = true
	}
	return false
}

func contains(ss []string, x string) bool {
	for _, s := range ss {
		if s == x {
			return true
		}
	}
	return false
}

func intLit(i int) hx { return hx{strconv.Itoa(i), encInt(int64(i))} }

func (p *hclPrinter) listExpr(ss []string) hx {
	if !p.roll() || len(ss) == 0 {
		return p.listLit(ss)
	}
	decoy := plainList([]string{"decoy"})
	switch p.r.Intn(12) {
	case 0:
		p.fn("concat")
		cut := p.r.Intn(len(ss) + 1)
		return call("concat", plainList(ss[:cut]), plainList(ss[cut:]))
	case 1:
		p.fn("reverse")
		rev := make([]string, len(ss))
		for i, s := range ss {
			rev[len(ss)-1-i] = s
		}
		return call("reverse", plainList(rev))
	case 2:
		ok := true
		for _, s := range ss {
			if strings.Contains(s, ",") {
				ok = false
			}
		}
		if ok {
			p.fn("split")
			return call("split", qs(","), qs(strings.Join(ss, ",")))
		}
	case 3:
		if !contains(ss, "") {
			p.fn("compact")
			var in []string
			for _, s := range ss {
				if p.r.Intn(2) == 0 {
					in = append(in, "")
				}
				in = append(in, s)
			}
			in = append(in, "")
			return call("compact", plainList(in))
		}
	case 4:
		if !hasDup(ss) {
			p.fn("distinct")
			in := append([]string{}, ss...)
			in = append(in, ss[p.r.Intn(len(ss))], ss[0])
			return call("distinct", plainList(in))
		}
	case 5:
		p.fn("flatten")
		cut := p.r.Intn(len(ss) + 1)
		return call("flatten", tuple(plainList(ss[:cut]), tuple(plainList(ss[cut:]))))
	case 6:
		p.fn("slice")
		in := append([]string{"pre"}, ss...)
		in = append(in, "post", "post2")
		return call("slice", plainList(in), intLit(1), intLit(1+len(ss)))
	case 7:
		if sort.StringsAreSorted(ss) {
			p.fn("sort")
			perm := append([]string{}, ss...)
			p.r.Shuffle(len(perm), func(i, j int) { perm[i], perm[j] = perm[j], perm[i] })
			return call("sort", plainList(perm))
		}
	case 8:
		if sort.StringsAreSorted(ss) && !hasDup(ss) {
			p.fn("keys")
			var kv []kvx
			for _, s := range ss {
				kv = append(kv, kvx{s, qs("v")})
			}
			p.r.Shuffle(len(kv), func(i, j int) { kv[i], kv[j] = kv[j], kv[i] })
			return call("keys", quotedObject(kv))
		}
	case 9:
		p.fn("values")
		var kv []kvx
		for i, s := range ss {
			kv = append(kv, kvx{fmt.Sprintf("k%03d", i), qs(s)})
		}
		p.r.Shuffle(len(kv), func(i, j int) { kv[i], kv[j] = kv[j], kv[i] })
		return call("values", object(kv...))
	case 10:
		if p.r.Intn(2) == 0 {
			p.fn("coalescelist")
			if p.r.Intn(2) == 0 {
				return call("coalescelist", plainList(ss), plainList([]string{"other"}))
			}
			return call("coalescelist", tuple(), plainList(ss))
		}
		l, _ := p.newLocal("l", plainList(ss), decoy, stBase)
		return l
	case 11:
		// a derived local that concatenates a base local with a literal tuple
		p.fn("concat")
		cut := p.r.Intn(len(ss) + 1)
		l, name := p.newLocal("l", plainList(ss[:cut]), decoy, stBase)
		d, _ := p.newLocal("dl", call("concat", l, plainList(ss[cut:])), decoy, stDerive)
		p.lateRedef(name, plainList([]string{"late"}))
		return d
	}
	return p.listLit(ss)
}

// quotedObject: object constructor whose keys are all quoted
func quotedObject(kvs []kvx) hx {
	if len(kvs) == 0 {
		return hx{"{}", "{}"}
	}
	parts := make([]string, len(kvs))
	for i, kv := range kvs {
		parts[i] = hclQuote(kv.k) + " = " + kv.v.txt
	}
	return hx{"{ " + strings.Join(parts, ", ") + " }", encObject(kvs)}
}

// ---- maps of strings

func (p *hclPrinter) mapLit(m []KV, multiline bool, ind string) hx {
	if len(m) == 0 {
		return hx{"{}", "{}"}
	}
	parts := make([]string, len(m))
	kvs := make([]kvx, len(m))
	for i, kv := range m {
		v := p.strExpr(kv.V.S, true)
		parts[i] = hclKey(p.r, kv.K) + " = " + v.txt
		kvs[i] = kvx{kv.K, v}
	}
	if multiline {
		return hx{"{\n" + ind + "  " + strings.Join(parts, "\n"+ind+"  ") + "\n" + ind + "}", encObject(kvs)}
	}
	return hx{"{ " + strings.Join(parts, ", ") + " }", encObject(kvs)}
}

func plainMap(r *rand.Rand, m []KV) hx {
	if len(m) == 0 {
		return hx{"{}", "{}"}
	}
	parts := make([]string, len(m))
	kvs := make([]kvx, len(m))
	for i, kv := range m {
		parts[i] = hclKey(r, kv.K) + " = " + hclQuote(kv.V.S)
		kvs[i] = kvx{kv.K, qs(kv.V.S)}
	}
	return hx{"{ " + strings.Join(parts, ", ") + " }", encObject(kvs)}
}

func (p *hclPrinter) mapExpr(m []KV, ind string) hx {
	if !p.roll() || len(m) == 0 {
		return p.mapLit(m, p.r.Intn(2) == 0, ind)
	}
	decoy := object(kvx{"decoy", qs("1")})
	switch p.r.Intn(5) {
	case 0:
		// merge of two object literals; the second overrides a key of the first
		p.fn("merge")
		cut := p.r.Intn(len(m) + 1)
		a := append([]KV{}, m[:cut]...)
		b := append([]KV{}, m[cut:]...)
		if len(b) > 0 {
			a = append(a, KV{b[0].K, nStr("overridden")})
		}
		return call("merge", plainMap(p.r, a), plainMap(p.r, b))
	case 1:
		// the documented idiom: merge(local.common, {...})
		p.fn("merge")
		cut := p.r.Intn(len(m) + 1)
		l, _ := p.newLocal("m", plainMap(p.r, m[:cut]), decoy, stBase)
		return call("merge", l, plainMap(p.r, m[cut:]))
	case 2:
		p.fn("zipmap")
		var ks, vs []string
		for _, kv := range m {
			ks = append(ks, kv.K)
			vs = append(vs, kv.V.S)
		}
		return call("zipmap", plainList(ks), plainList(vs))
	case 3:
		l, _ := p.newLocal("m", plainMap(p.r, m), decoy, stBase)
		return l
	default:
		// a local merged from a local of the previous block
		p.fn("merge")
		cut := p.r.Intn(len(m) + 1)
		l, name := p.newLocal("m", plainMap(p.r, m[:cut]), decoy, stBase)
		d, _ := p.newLocal("dm", call("merge", l, plainMap(p.r, m[cut:])), decoy, stDerive)
		p.lateRedef(name, object(kvx{"late", qs("1")}))
		return d
	}
}

// ---- numbers and booleans

func (p *hclPrinter) intExpr(i int64) hx {
	lit := hx{strconv.FormatInt(i, 10), encInt(i)}
	if !p.roll() {
		return lit
	}
	l, _ := p.newLocal("n", lit, hx{strconv.FormatInt(i+1, 10), encInt(i + 1)}, stBase)
	return l
}

func (p *hclPrinter) boolExpr(b bool) hx {
	lit := hx{strconv.FormatBool(b), encBool(b)}
	if !p.roll() {
		return lit
	}
	l, _ := p.newLocal("b", lit, hx{strconv.FormatBool(!b), encBool(!b)}, stBase)
	return l
}

// ---- bodies

func (p *hclPrinter) attrExpr(f fspec, v *Node, ind string) hx {
	switch f.ty {
	case tStr:
		return p.strExpr(v.S, false)
	case tInt:
		return p.intExpr(v.I)
	case tBool:
		return p.boolExpr(v.B)
	case tStrs:
		ss := make([]string, len(v.L))
		for i, x := range v.L {
			ss[i] = x.S
		}
		return p.listExpr(ss)
	case tSMap:
		return p.mapExpr(v.M, ind)
	}
	panic("attrExpr: bad type")
}

// block prints one block and returns the encoding of its body (labels included as literal entries)
func (p *hclPrinter) block(b *strings.Builder, name, st string, n *Node, ind string) string {
	b.WriteString(ind + name)
	for _, f := range schema[st] {
		if f.kind == kLabel {
			if v := n.get(f.name); v != nil && v.K == 's' {
				b.WriteString(" " + hclQuote(v.S))
			}
		}
	}
	b.WriteString(" {\n")
	enc := p.body(b, st, n, ind+"  ")
	b.WriteString(ind + "}\n")
	return enc
}

// body prints the attributes and nested blocks of a struct; the returned encoding mirrors the node (same keys, same
// order) with expressions at the leaves
func (p *hclPrinter) body(b *strings.Builder, st string, n *Node, ind string) string {
	var enc strings.Builder
	enc.WriteString("{")
	for _, kv := range n.M {
		f, ok := specOf(st, kv.K)
		if !ok {
			panic("unknown field " + st + "." + kv.K)
		}
		enc.WriteString("k" + hex.EncodeToString([]byte(kv.K)) + ".")
		if kv.V.K == 'n' {
			// an optional argument the description leaves out (all of them are pointers in the HCL structs): not written at
			// all, written as `null`, or as a reference to a local whose value is null (directly or through a derived local)
			if f.kind == kAttr {
				if e, ok := p.nullExpr(); ok {
					b.WriteString(ind + f.name + " = " + e.txt + "\n")
					enc.WriteString(e.enc)
					continue
				}
			}
			enc.WriteString("n")
			continue
		}
		switch f.kind {
		case kLabel:
			kv.V.encode(&enc)
		case kAttr:
			e := p.attrExpr(f, kv.V, ind)
			b.WriteString(ind + f.name + " = " + e.txt + "\n")
			enc.WriteString(e.enc)
		case kBlock:
			enc.WriteString(p.block(b, f.name, f.sub, kv.V, ind))
		case kBlocks:
			enc.WriteString("[")
			for _, x := range kv.V.L {
				enc.WriteString(p.block(b, f.name, f.sub, x, ind))
			}
			enc.WriteString("]")
		}
	}
	enc.WriteString("}")
	return enc.String()
}

// hclFile: the printed file, the functions it uses, the number of locals redefined in another block, and the encoded
// syntax tree: lb = the locals blocks in file order, hb = the body
type hclFile struct {
	text  string
	fns   []string
	redef int
	bare  int
	idx   int
	nulls int
	lb    string
	hb    string
}

func printHCL(d *Node, r *rand.Rand, fancy int) hclFile {
	p := &hclPrinter{r: r, fancy: fancy, usedFn: map[string]bool{}}
	var main strings.Builder
	hb := p.body(&main, "ammo", d, "")
	var texts []string
	var lb strings.Builder
	lb.WriteString("[")
	nlocals := 0
	for _, defs := range p.blocks {
		if len(defs) == 0 {
			continue
		}
		nlocals += len(defs)
		var t strings.Builder
		t.WriteString("locals {\n")
		lb.WriteString("{")
		for _, d := range defs {
			t.WriteString("  " + d.name + " = " + d.e.txt + "\n")
			lb.WriteString("k" + hex.EncodeToString([]byte(d.name)) + "." + d.e.enc)
		}
		t.WriteString("}\n")
		lb.WriteString("}")
		texts = append(texts, t.String())
	}
	lb.WriteString("]")
	// locals blocks are evaluated in source order; where they sit relative to their uses does not matter
	at := r.Intn(len(texts) + 1)
	var out strings.Builder
	for i, t := range texts {
		if i == at {
			out.WriteString(main.String())
		}
		out.WriteString(t)
	}
	if at == len(texts) {
		out.WriteString(main.String())
	}
	var fns []string
	for f := range p.usedFn {
		fns = append(fns, f)
	}
	if nlocals > 0 {
		fns = append(fns, "locals")
	}
	sort.Strings(fns)
	return hclFile{text: out.String(), fns: fns, redef: p.redef, bare: p.bare, idx: p.idx, nulls: p.nulls, lb: lb.String(), hb: hb}
}
