package main

// Prints a description tree as an HCL scenario file.  With fancy > 0 values are spelled through `locals` blocks,
// template interpolation and the collection functions that config/hcl.go registers; the harness picks spellings whose
// value it knows (the expression is built FROM the target value), so the evaluated description stays the tree.

import (
	"fmt"
	"math/rand"
	"regexp"
	"sort"
	"strconv"
	"strings"
	"unicode/utf8"
)

type hclPrinter struct {
	r      *rand.Rand
	fancy  int // 0 = literals only; otherwise percentage of values spelled indirectly
	base   []string // locals of the first block: "name = expr"
	derive []string // locals of the second block (may reference the first)
	nloc   int
	usedFn map[string]bool
}

func hclQuote(s string) string {
	var b strings.Builder
	b.WriteByte('"')
	for i := 0; i < len(s); {
		c, sz := utf8.DecodeRuneInString(s[i:])
		rest := s[i+sz:]
		switch {
		case c == '"':
			b.WriteString(`\"`)
		case c == '\\':
			b.WriteString(`\\`)
		case c == '\n':
			b.WriteString(`\n`)
		case c == '\r':
			b.WriteString(`\r`)
		case c == '\t':
			b.WriteString(`\t`)
		case (c == '$' || c == '%') && strings.HasPrefix(rest, "{"):
			b.WriteRune(c)
			b.WriteRune(c)
		case c < 0x20 || c == 0x7f || c == 0x85 || c == 0x2028 || c == 0x2029 || c == 0xfeff:
			fmt.Fprintf(&b, `\u%04x`, c)
		default:
			b.WriteString(s[i : i+sz])
		}
		i += sz
	}
	b.WriteByte('"')
	return b.String()
}

var identRe = regexp.MustCompile(`^[A-Za-z_][A-Za-z0-9_-]*$`)

func hclKey(r *rand.Rand, k string) string {
	if identRe.MatchString(k) && k != "true" && k != "false" && k != "null" && r.Intn(3) > 0 {
		return k
	}
	return hclQuote(k)
}

func heredocOK(s string) bool {
	if !strings.HasSuffix(s, "\n") || !utf8.ValidString(s) {
		return false
	}
	for _, c := range s {
		if c == '\n' {
			continue
		}
		if c < 0x20 || c == 0x7f || c == 0x85 || c == 0x2028 || c == 0x2029 || c == 0xfeff {
			return false
		}
	}
	for _, line := range strings.Split(strings.TrimSuffix(s, "\n"), "\n") {
		if strings.TrimSpace(line) == "EOT" {
			return false
		}
	}
	return true
}

func heredoc(s string) string {
	s = strings.ReplaceAll(s, "${", "$${")
	s = strings.ReplaceAll(s, "%{", "%%{")
	return "<<EOT\n" + s + "EOT"
}

func (p *hclPrinter) newLocal(prefix, expr string, derived bool) string {
	p.nloc++
	name := fmt.Sprintf("%s%d", prefix, p.nloc)
	if derived {
		p.derive = append(p.derive, name+" = "+expr)
	} else {
		p.base = append(p.base, name+" = "+expr)
	}
	return "local." + name
}

func (p *hclPrinter) roll() bool { return p.fancy > 0 && p.r.Intn(100) < p.fancy }

func (p *hclPrinter) fn(name string) { p.usedFn[name] = true }

// ---- strings

func (p *hclPrinter) strLit(s string, allowHeredoc bool) string {
	if allowHeredoc && heredocOK(s) && p.r.Intn(2) == 0 {
		return heredoc(s)
	}
	return hclQuote(s)
}

// strExpr: an HCL expression whose value is s.  inline: the expression is nested in another one (no heredoc).
func (p *hclPrinter) strExpr(s string, inline bool) string {
	if !p.roll() {
		return p.strLit(s, !inline)
	}
	switch p.r.Intn(6) {
	case 0:
		return p.newLocal("s", hclQuote(s), false)
	case 1:
		// interpolation of a local into a template
		rs := []rune(s)
		if len(rs) >= 2 {
			cut := 1 + p.r.Intn(len(rs)-1)
			a, b := string(rs[:cut]), string(rs[cut:])
			if !strings.HasSuffix(a, "$") && !strings.HasSuffix(a, "%") {
				l := p.newLocal("s", hclQuote(a), false)
				q := hclQuote(b)
				return `"${` + l + `}` + q[1:]
			}
		}
		return hclQuote(s)
	case 2:
		p.fn("element")
		return fmt.Sprintf("element([%s, %s, %s], 1)", hclQuote("x"), hclQuote(s), hclQuote("y"))
	case 3:
		p.fn("lookup")
		return fmt.Sprintf("lookup({ k = %s, j = %s }, %s, %s)", hclQuote(s), hclQuote("no"), hclQuote("k"), hclQuote("dflt"))
	case 4:
		if p.r.Intn(2) == 0 {
			// stdlib index = element access
			p.fn("index")
			return fmt.Sprintf("index([%s, %s], 1)", hclQuote("x"), hclQuote(s))
		}
		p.fn("coalesce")
		return fmt.Sprintf("coalesce(%s, %s)", hclQuote(s), hclQuote("other"))
	default:
		// a local defined from another local
		l := p.newLocal("s", hclQuote(s), false)
		return p.newLocal("d", l, true)
	}
}

// ---- lists of strings

func (p *hclPrinter) listLit(ss []string) string {
	parts := make([]string, len(ss))
	for i, s := range ss {
		parts[i] = p.strExpr(s, true)
	}
	return "[" + strings.Join(parts, ", ") + "]"
}

func plainList(ss []string) string {
	parts := make([]string, len(ss))
	for i, s := range ss {
		parts[i] = hclQuote(s)
	}
	return "[" + strings.Join(parts, ", ") + "]"
}

func hasDup(ss []string) bool {
	seen := map[string]bool{}
	for _, s := range ss {
		if seen[s] {
			return true
		}
		seen[s] = true
	}
	return false
}

func contains(ss []string, x string) bool {
	for _, s := range ss {
		if s == x {
			return true
		}
	}
	return false
}

func (p *hclPrinter) listExpr(ss []string) string {
	if !p.roll() || len(ss) == 0 {
		return p.listLit(ss)
	}
	switch p.r.Intn(11) {
	case 0:
		p.fn("concat")
		cut := p.r.Intn(len(ss) + 1)
		return fmt.Sprintf("concat(%s, %s)", plainList(ss[:cut]), plainList(ss[cut:]))
	case 1:
		p.fn("reverse")
		rev := make([]string, len(ss))
		for i, s := range ss {
			rev[len(ss)-1-i] = s
		}
		return "reverse(" + plainList(rev) + ")"
	case 2:
		ok := true
		for _, s := range ss {
			if strings.Contains(s, ",") {
				ok = false
			}
		}
		if ok {
			p.fn("split")
			return fmt.Sprintf("split(%s, %s)", hclQuote(","), hclQuote(strings.Join(ss, ",")))
		}
	case 3:
		if !contains(ss, "") {
			p.fn("compact")
			var in []string
			for _, s := range ss {
				if p.r.Intn(2) == 0 {
					in = append(in, "")
				}
				in = append(in, s)
			}
			in = append(in, "")
			return "compact(" + plainList(in) + ")"
		}
	case 4:
		if !hasDup(ss) {
			p.fn("distinct")
			in := append([]string{}, ss...)
			in = append(in, ss[p.r.Intn(len(ss))], ss[0])
			return "distinct(" + plainList(in) + ")"
		}
	case 5:
		p.fn("flatten")
		cut := p.r.Intn(len(ss) + 1)
		return fmt.Sprintf("flatten([%s, [%s]])", plainList(ss[:cut]), plainList(ss[cut:]))
	case 6:
		p.fn("slice")
		in := append([]string{"pre"}, ss...)
		in = append(in, "post", "post2")
		return fmt.Sprintf("slice(%s, 1, %d)", plainList(in), 1+len(ss))
	case 7:
		if sort.StringsAreSorted(ss) {
			p.fn("sort")
			perm := append([]string{}, ss...)
			p.r.Shuffle(len(perm), func(i, j int) { perm[i], perm[j] = perm[j], perm[i] })
			return "sort(" + plainList(perm) + ")"
		}
	case 8:
		if sort.StringsAreSorted(ss) && !hasDup(ss) {
			p.fn("keys")
			var kv []string
			for _, s := range ss {
				kv = append(kv, hclQuote(s)+" = "+hclQuote("v"))
			}
			p.r.Shuffle(len(kv), func(i, j int) { kv[i], kv[j] = kv[j], kv[i] })
			return "keys({ " + strings.Join(kv, ", ") + " })"
		}
	case 9:
		p.fn("values")
		var kv []string
		for i, s := range ss {
			kv = append(kv, fmt.Sprintf("k%03d = %s", i, hclQuote(s)))
		}
		p.r.Shuffle(len(kv), func(i, j int) { kv[i], kv[j] = kv[j], kv[i] })
		return "values({ " + strings.Join(kv, ", ") + " })"
	case 10:
		if p.r.Intn(2) == 0 {
			p.fn("coalescelist")
			return "coalescelist([], " + plainList(ss) + ")"
		}
		return p.newLocal("l", plainList(ss), false)
	}
	return p.listLit(ss)
}

// ---- maps of strings

func (p *hclPrinter) mapLit(m []KV, multiline bool, ind string) string {
	if len(m) == 0 {
		return "{}"
	}
	parts := make([]string, len(m))
	for i, kv := range m {
		parts[i] = hclKey(p.r, kv.K) + " = " + p.strExpr(kv.V.S, true)
	}
	if multiline {
		return "{\n" + ind + "  " + strings.Join(parts, "\n"+ind+"  ") + "\n" + ind + "}"
	}
	return "{ " + strings.Join(parts, ", ") + " }"
}

func plainMap(r *rand.Rand, m []KV) string {
	if len(m) == 0 {
		return "{}"
	}
	parts := make([]string, len(m))
	for i, kv := range m {
		parts[i] = hclKey(r, kv.K) + " = " + hclQuote(kv.V.S)
	}
	return "{ " + strings.Join(parts, ", ") + " }"
}

func (p *hclPrinter) mapExpr(m []KV, ind string) string {
	if !p.roll() || len(m) == 0 {
		return p.mapLit(m, p.r.Intn(2) == 0, ind)
	}
	switch p.r.Intn(5) {
	case 0:
		// merge of two object literals; the second overrides a key of the first
		p.fn("merge")
		cut := p.r.Intn(len(m) + 1)
		a := append([]KV{}, m[:cut]...)
		b := append([]KV{}, m[cut:]...)
		if len(b) > 0 {
			a = append(a, KV{b[0].K, nStr("overridden")})
		}
		return fmt.Sprintf("merge(%s, %s)", plainMap(p.r, a), plainMap(p.r, b))
	case 1:
		// the documented idiom: merge(local.common, {...})
		p.fn("merge")
		cut := p.r.Intn(len(m) + 1)
		l := p.newLocal("m", plainMap(p.r, m[:cut]), false)
		return fmt.Sprintf("merge(%s, %s)", l, plainMap(p.r, m[cut:]))
	case 2:
		p.fn("zipmap")
		var ks, vs []string
		for _, kv := range m {
			ks = append(ks, kv.K)
			vs = append(vs, kv.V.S)
		}
		return fmt.Sprintf("zipmap(%s, %s)", plainList(ks), plainList(vs))
	case 3:
		return p.newLocal("m", plainMap(p.r, m), false)
	default:
		// a local merged from a local of the previous block
		p.fn("merge")
		cut := p.r.Intn(len(m) + 1)
		l := p.newLocal("m", plainMap(p.r, m[:cut]), false)
		return p.newLocal("dm", fmt.Sprintf("merge(%s, %s)", l, plainMap(p.r, m[cut:])), true)
	}
}

// ---- numbers and booleans

func (p *hclPrinter) intExpr(i int64) string {
	if !p.roll() {
		return strconv.FormatInt(i, 10)
	}
	return p.newLocal("n", strconv.FormatInt(i, 10), false)
}

func (p *hclPrinter) boolExpr(b bool) string {
	if !p.roll() {
		return strconv.FormatBool(b)
	}
	return p.newLocal("b", strconv.FormatBool(b), false)
}

// ---- bodies

func (p *hclPrinter) attrExpr(f fspec, v *Node, ind string) string {
	switch f.ty {
	case tStr:
		return p.strExpr(v.S, false)
	case tInt:
		return p.intExpr(v.I)
	case tBool:
		return p.boolExpr(v.B)
	case tStrs:
		ss := make([]string, len(v.L))
		for i, x := range v.L {
			ss[i] = x.S
		}
		return p.listExpr(ss)
	case tSMap:
		return p.mapExpr(v.M, ind)
	}
	panic("attrExpr: bad type")
}

func (p *hclPrinter) block(b *strings.Builder, name, st string, n *Node, ind string) {
	b.WriteString(ind + name)
	for _, f := range schema[st] {
		if f.kind == kLabel {
			if v := n.get(f.name); v != nil && v.K == 's' {
				b.WriteString(" " + hclQuote(v.S))
			}
		}
	}
	b.WriteString(" {\n")
	p.body(b, st, n, ind+"  ")
	b.WriteString(ind + "}\n")
}

func (p *hclPrinter) body(b *strings.Builder, st string, n *Node, ind string) {
	for _, kv := range n.M {
		f, ok := specOf(st, kv.K)
		if !ok {
			panic("unknown field " + st + "." + kv.K)
		}
		if kv.V.K == 'n' {
			continue
		}
		switch f.kind {
		case kLabel:
		case kAttr:
			b.WriteString(ind + f.name + " = " + p.attrExpr(f, kv.V, ind) + "\n")
		case kBlock:
			p.block(b, f.name, f.sub, kv.V, ind)
		case kBlocks:
			for _, x := range kv.V.L {
				p.block(b, f.name, f.sub, x, ind)
			}
		}
	}
}

func printHCL(d *Node, r *rand.Rand, fancy int) (string, []string) {
	p := &hclPrinter{r: r, fancy: fancy, usedFn: map[string]bool{}}
	var main strings.Builder
	p.body(&main, "ammo", d, "")
	var out strings.Builder
	loc := func(xs []string) string {
		if len(xs) == 0 {
			return ""
		}
		return "locals {\n  " + strings.Join(xs, "\n  ") + "\n}\n"
	}
	// locals blocks are evaluated in source order; where the block sits relative to its uses does not matter
	switch r.Intn(3) {
	case 0:
		out.WriteString(loc(p.base) + loc(p.derive) + main.String())
	case 1:
		out.WriteString(loc(p.base) + main.String() + loc(p.derive))
	default:
		out.WriteString(main.String() + loc(p.base) + loc(p.derive))
	}
	var fns []string
	for f := range p.usedFn {
		fns = append(fns, f)
	}
	if len(p.base)+len(p.derive) > 0 {
		fns = append(fns, "locals")
	}
	sort.Strings(fns)
	return out.String(), fns
}
