package main

// Description trees and the documentation-level schema of the scenario format (independent of the code under test).

import (
	"encoding/hex"
	"fmt"
	"strconv"
	"strings"
)

// Node kinds: 'n' null, 's' string, 'i' int, 'b' bool, 'l' list, 'm' map/struct (ordered)
type Node struct {
	K byte
	S string
	I int64
	B bool
	L []*Node
	M []KV
}

type KV struct {
	K string
	V *Node
}

func nNull() *Node          { return &Node{K: 'n'} }
func nStr(s string) *Node   { return &Node{K: 's', S: s} }
func nInt(i int64) *Node    { return &Node{K: 'i', I: i} }
func nBool(b bool) *Node    { return &Node{K: 'b', B: b} }
func nList(l []*Node) *Node { return &Node{K: 'l', L: l} }
func nMap(m []KV) *Node     { return &Node{K: 'm', M: m} }

func nStrs(ss []string) *Node {
	l := make([]*Node, len(ss))
	for i, s := range ss {
		l[i] = nStr(s)
	}
	return nList(l)
}

func (n *Node) get(k string) *Node {
	if n == nil || n.K != 'm' {
		return nil
	}
	for _, kv := range n.M {
		if kv.K == k {
			return kv.V
		}
	}
	return nil
}

// encode: n | s<hex>. | i<dec>. | t | f | [v*] | {(k<hex>.v)*}
func (n *Node) encode(b *strings.Builder) {
	switch n.K {
	case 'n':
		b.WriteByte('n')
	case 's':
		b.WriteByte('s')
		b.WriteString(hex.EncodeToString([]byte(n.S)))
		b.WriteByte('.')
	case 'i':
		b.WriteByte('i')
		b.WriteString(strconv.FormatInt(n.I, 10))
		b.WriteByte('.')
	case 'b':
		if n.B {
			b.WriteByte('t')
		} else {
			b.WriteByte('f')
		}
	case 'l':
		b.WriteByte('[')
		for _, x := range n.L {
			x.encode(b)
		}
		b.WriteByte(']')
	case 'm':
		b.WriteByte('{')
		for _, kv := range n.M {
			b.WriteByte('k')
			b.WriteString(hex.EncodeToString([]byte(kv.K)))
			b.WriteByte('.')
			kv.V.encode(b)
		}
		b.WriteByte('}')
	}
}

func encodeTree(n *Node) string {
	var b strings.Builder
	n.encode(&b)
	return b.String()
}

type treeParser struct {
	s string
	p int
}

func (t *treeParser) upToDot() (string, error) {
	i := strings.IndexByte(t.s[t.p:], '.')
	if i < 0 {
		return "", fmt.Errorf("missing '.' at %d", t.p)
	}
	r := t.s[t.p : t.p+i]
	t.p += i + 1
	return r, nil
}

func (t *treeParser) value() (*Node, error) {
	if t.p >= len(t.s) {
		return nil, fmt.Errorf("unexpected end")
	}
	c := t.s[t.p]
	t.p++
	switch c {
	case 'n':
		return nNull(), nil
	case 't':
		return nBool(true), nil
	case 'f':
		return nBool(false), nil
	case 's':
		h, err := t.upToDot()
		if err != nil {
			return nil, err
		}
		b, err := hex.DecodeString(h)
		if err != nil {
			return nil, err
		}
		return nStr(string(b)), nil
	case 'i':
		d, err := t.upToDot()
		if err != nil {
			return nil, err
		}
		i, err := strconv.ParseInt(d, 10, 64)
		if err != nil {
			return nil, err
		}
		return nInt(i), nil
	case '[':
		var l []*Node
		for {
			if t.p >= len(t.s) {
				return nil, fmt.Errorf("unterminated list")
			}
			if t.s[t.p] == ']' {
				t.p++
				return nList(l), nil
			}
			v, err := t.value()
			if err != nil {
				return nil, err
			}
			l = append(l, v)
		}
	case '{':
		var m []KV
		for {
			if t.p >= len(t.s) {
				return nil, fmt.Errorf("unterminated map")
			}
			if t.s[t.p] == '}' {
				t.p++
				return nMap(m), nil
			}
			if t.s[t.p] != 'k' {
				return nil, fmt.Errorf("expected key at %d", t.p)
			}
			t.p++
			h, err := t.upToDot()
			if err != nil {
				return nil, err
			}
			kb, err := hex.DecodeString(h)
			if err != nil {
				return nil, err
			}
			v, err := t.value()
			if err != nil {
				return nil, err
			}
			m = append(m, KV{string(kb), v})
		}
	}
	return nil, fmt.Errorf("bad tag %q at %d", c, t.p-1)
}

func decodeTree(s string) (*Node, error) {
	t := &treeParser{s: s}
	v, err := t.value()
	if err != nil {
		return nil, err
	}
	if t.p != len(s) {
		return nil, fmt.Errorf("trailing input at %d", t.p)
	}
	return v, nil
}

// ---------------------------------------------------------------- schema of the documented format

type fkind int

const (
	kLabel fkind = iota
	kAttr
	kBlock  // at most one block
	kBlocks // repeated block
)

type ftype int

const (
	tStr ftype = iota
	tInt
	tBool
	tStrs
	tSMap
	tStruct
)

type fspec struct {
	name string // the name written in HCL
	kind fkind
	ty   ftype
	sub  string // struct name for blocks
}

// yamlKey: the documented YAML spelling: attributes and labels keep their name, a repeated block x is the list xs.
func (f fspec) yamlKey() string {
	if f.kind == kBlocks {
		return f.name + "s"
	}
	return f.name
}

// docs/eng/scenario-http-generator.md, scenario-grpc-generator.md, scenario/variable_source.md
var schema = map[string][]fspec{
	"ammo": {
		{"variable_source", kBlocks, tStruct, "source"},
		{"request", kBlocks, tStruct, "request"},
		{"call", kBlocks, tStruct, "call"},
		{"scenario", kBlocks, tStruct, "scenario"},
	},
	"source": {
		{"name", kLabel, tStr, ""},
		{"type", kLabel, tStr, ""},
		{"file", kAttr, tStr, ""},
		{"fields", kAttr, tStrs, ""},
		{"ignore_first_line", kAttr, tBool, ""},
		{"delimiter", kAttr, tStr, ""},
		{"variables", kAttr, tSMap, ""},
	},
	"request": {
		{"name", kLabel, tStr, ""},
		{"method", kAttr, tStr, ""},
		{"uri", kAttr, tStr, ""},
		{"headers", kAttr, tSMap, ""},
		{"tag", kAttr, tStr, ""},
		{"body", kAttr, tStr, ""},
		{"preprocessor", kBlock, tStruct, "reqpre"},
		{"postprocessor", kBlocks, tStruct, "reqpost"},
		{"templater", kBlock, tStruct, "templater"},
	},
	"reqpre": {
		{"mapping", kAttr, tSMap, ""},
	},
	"reqpost": {
		{"type", kLabel, tStr, ""},
		{"mapping", kAttr, tSMap, ""},
		{"headers", kAttr, tSMap, ""},
		{"body", kAttr, tStrs, ""},
		{"status_code", kAttr, tInt, ""},
		{"size", kBlock, tStruct, "size"},
	},
	"size": {
		{"val", kAttr, tInt, ""},
		{"op", kAttr, tStr, ""},
	},
	"templater": {
		{"type", kAttr, tStr, ""},
	},
	"call": {
		{"name", kLabel, tStr, ""},
		{"call", kAttr, tStr, ""},
		{"tag", kAttr, tStr, ""},
		{"metadata", kAttr, tSMap, ""},
		{"payload", kAttr, tStr, ""},
		{"preprocessor", kBlocks, tStruct, "callpre"},
		{"postprocessor", kBlocks, tStruct, "callpost"},
	},
	"callpre": {
		{"type", kLabel, tStr, ""},
		{"mapping", kAttr, tSMap, ""},
	},
	"callpost": {
		{"type", kLabel, tStr, ""},
		{"payload", kAttr, tStrs, ""},
		{"status_code", kAttr, tInt, ""},
	},
	"scenario": {
		{"name", kLabel, tStr, ""},
		{"weight", kAttr, tInt, ""},
		{"min_waiting_time", kAttr, tInt, ""},
		{"requests", kAttr, tStrs, ""},
	},
}

func specOf(st, name string) (fspec, bool) {
	for _, f := range schema[st] {
		if f.name == name {
			return f, true
		}
	}
	return fspec{}, false
}
