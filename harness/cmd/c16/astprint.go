package main

// Prints an HCL file from the encoded syntax tree of an input line (`lb` = locals blocks, `hb` = body) — for corpus
// lines that spell the HCL side explicitly (`hx=1`): hand-written witnesses with locals redefinitions, function calls
// and interpolation.  Generated cases are printed by hclprint.go, which emits the same encoding.

import (
	"encoding/hex"
	"fmt"
	"strconv"
	"strings"
)

// hnode kinds: n s i b (literals), l tuple, m object/body, L local, T template, F call
type hnode struct {
	k    byte
	s    string // string literal, local name, function name
	i    int64
	b    bool
	list []*hnode
	keys []string // for m
}

type hparser struct {
	s string
	p int
}

func (t *hparser) upToDot() (string, error) {
	i := strings.IndexByte(t.s[t.p:], '.')
	if i < 0 {
		return "", fmt.Errorf("missing '.' at %d", t.p)
	}
	r := t.s[t.p : t.p+i]
	t.p += i + 1
	return r, nil
}

func (t *hparser) hexToDot() (string, error) {
	h, err := t.upToDot()
	if err != nil {
		return "", err
	}
	b, err := hex.DecodeString(h)
	return string(b), err
}

func (t *hparser) listUntil(end byte) ([]*hnode, error) {
	var l []*hnode
	for {
		if t.p >= len(t.s) {
			return nil, fmt.Errorf("unterminated list")
		}
		if t.s[t.p] == end {
			t.p++
			return l, nil
		}
		v, err := t.value()
		if err != nil {
			return nil, err
		}
		l = append(l, v)
	}
}

func (t *hparser) value() (*hnode, error) {
	if t.p >= len(t.s) {
		return nil, fmt.Errorf("unexpected end")
	}
	c := t.s[t.p]
	t.p++
	switch c {
	case 'n':
		return &hnode{k: 'n'}, nil
	case 't':
		return &hnode{k: 'b', b: true}, nil
	case 'f':
		return &hnode{k: 'b'}, nil
	case 's', 'L':
		s, err := t.hexToDot()
		if err != nil {
			return nil, err
		}
		return &hnode{k: c, s: s}, nil
	case 'i':
		d, err := t.upToDot()
		if err != nil {
			return nil, err
		}
		i, err := strconv.ParseInt(d, 10, 64)
		if err != nil {
			return nil, err
		}
		return &hnode{k: 'i', i: i}, nil
	case '[':
		l, err := t.listUntil(']')
		return &hnode{k: 'l', list: l}, err
	case 'T':
		if t.p >= len(t.s) || t.s[t.p] != '[' {
			return nil, fmt.Errorf("T without [ at %d", t.p)
		}
		t.p++
		l, err := t.listUntil(']')
		return &hnode{k: 'T', list: l}, err
	case 'X', 'A':
		if t.p >= len(t.s) || t.s[t.p] != '[' {
			return nil, fmt.Errorf("%c without [ at %d", c, t.p)
		}
		t.p++
		l, err := t.listUntil(']')
		if err == nil && (len(l) != 2 || (c == 'A' && l[1].k != 's')) {
			err = fmt.Errorf("%c needs an expression and a key at %d", c, t.p)
		}
		return &hnode{k: c, list: l}, err
	case 'F':
		name, err := t.hexToDot()
		if err != nil {
			return nil, err
		}
		if t.p >= len(t.s) || t.s[t.p] != '[' {
			return nil, fmt.Errorf("F without [ at %d", t.p)
		}
		t.p++
		l, err := t.listUntil(']')
		return &hnode{k: 'F', s: name, list: l}, err
	case '{':
		n := &hnode{k: 'm'}
		for {
			if t.p >= len(t.s) {
				return nil, fmt.Errorf("unterminated map")
			}
			if t.s[t.p] == '}' {
				t.p++
				return n, nil
			}
			if t.s[t.p] != 'k' {
				return nil, fmt.Errorf("expected key at %d", t.p)
			}
			t.p++
			k, err := t.hexToDot()
			if err != nil {
				return nil, err
			}
			v, err := t.value()
			if err != nil {
				return nil, err
			}
			n.keys = append(n.keys, k)
			n.list = append(n.list, v)
		}
	}
	return nil, fmt.Errorf("bad tag %q at %d", c, t.p-1)
}

func parseHX(s string) (*hnode, error) {
	t := &hparser{s: s}
	v, err := t.value()
	if err != nil {
		return nil, err
	}
	if t.p != len(s) {
		return nil, fmt.Errorf("trailing input at %d", t.p)
	}
	return v, nil
}

// expr: the node as an HCL expression
func (n *hnode) expr() string {
	switch n.k {
	case 'n':
		return "null"
	case 's':
		return hclQuote(n.s)
	case 'i':
		return strconv.FormatInt(n.i, 10)
	case 'b':
		return strconv.FormatBool(n.b)
	case 'L':
		return "local." + n.s
	case 'l':
		parts := make([]string, len(n.list))
		for i, x := range n.list {
			parts[i] = x.expr()
		}
		return "[" + strings.Join(parts, ", ") + "]"
	case 'm':
		if len(n.list) == 0 {
			return "{}"
		}
		parts := make([]string, len(n.list))
		for i, x := range n.list {
			parts[i] = hclQuote(n.keys[i]) + " = " + x.expr()
		}
		return "{ " + strings.Join(parts, ", ") + " }"
	case 'T':
		var b strings.Builder
		b.WriteByte('"')
		for _, x := range n.list {
			if x.k == 's' {
				q := hclQuote(x.s)
				b.WriteString(q[1 : len(q)-1])
			} else {
				b.WriteString("${" + x.expr() + "}")
			}
		}
		b.WriteByte('"')
		return b.String()
	case 'F':
		parts := make([]string, len(n.list))
		for i, x := range n.list {
			parts[i] = x.expr()
		}
		return n.s + "(" + strings.Join(parts, ", ") + ")"
	case 'X':
		return n.list[0].expr() + "[" + n.list[1].expr() + "]"
	case 'A':
		return n.list[0].expr() + "." + n.list[1].s
	}
	return "null"
}

// enc: the node in the encoding parseHX reads
func (n *hnode) enc() string {
	switch n.k {
	case 'n':
		return "n"
	case 's':
		return encStr(n.s)
	case 'i':
		return encInt(n.i)
	case 'b':
		return encBool(n.b)
	case 'L':
		return encLocal(n.s)
	case 'l', 'T', 'X', 'A', 'F':
		var b strings.Builder
		switch n.k {
		case 'l':
			b.WriteString("[")
		case 'F':
			b.WriteString("F" + hex.EncodeToString([]byte(n.s)) + ".[")
		default:
			b.WriteString(string(n.k) + "[")
		}
		for _, x := range n.list {
			b.WriteString(x.enc())
		}
		b.WriteString("]")
		return b.String()
	case 'm':
		var b strings.Builder
		b.WriteString("{")
		for i, x := range n.list {
			b.WriteString("k" + hex.EncodeToString([]byte(n.keys[i])) + "." + x.enc())
		}
		b.WriteString("}")
		return b.String()
	}
	return "n"
}

func (n *hnode) get(k string) *hnode {
	for i, kk := range n.keys {
		if kk == k {
			return n.list[i]
		}
	}
	return nil
}

func astBlock(b *strings.Builder, name, st string, n *hnode, ind string) error {
	if n.k != 'm' {
		return fmt.Errorf("block %s is not a body", name)
	}
	b.WriteString(ind + name)
	for _, f := range schema[st] {
		if f.kind == kLabel {
			if v := n.get(f.name); v != nil && v.k == 's' {
				b.WriteString(" " + hclQuote(v.s))
			}
		}
	}
	b.WriteString(" {\n")
	if err := astBody(b, st, n, ind+"  "); err != nil {
		return err
	}
	b.WriteString(ind + "}\n")
	return nil
}

func astBody(b *strings.Builder, st string, n *hnode, ind string) error {
	if n.k != 'm' {
		return fmt.Errorf("body of %s is not a map", st)
	}
	for i, k := range n.keys {
		f, ok := specOf(st, k)
		if !ok {
			return fmt.Errorf("unknown field %s.%s", st, k)
		}
		v := n.list[i]
		if v.k == 'n' {
			continue
		}
		switch f.kind {
		case kLabel:
		case kAttr:
			b.WriteString(ind + f.name + " = " + v.expr() + "\n")
		case kBlock:
			if err := astBlock(b, f.name, f.sub, v, ind); err != nil {
				return err
			}
		case kBlocks:
			if v.k != 'l' {
				return fmt.Errorf("%s.%s is not a list of blocks", st, k)
			}
			for _, x := range v.list {
				if err := astBlock(b, f.name, f.sub, x, ind); err != nil {
					return err
				}
			}
		}
	}
	return nil
}

// printHCLFromAST: locals blocks first (source order), then the body
func printHCLFromAST(lb, hb string) (string, error) {
	var out strings.Builder
	if lb != "" {
		l, err := parseHX(lb)
		if err != nil {
			return "", fmt.Errorf("lb: %w", err)
		}
		if l.k != 'l' {
			return "", fmt.Errorf("lb is not a list")
		}
		for _, blk := range l.list {
			if blk.k != 'm' {
				return "", fmt.Errorf("lb: a locals block is not a map")
			}
			out.WriteString("locals")
			for i, k := range blk.keys {
				if k == labelKey {
					out.WriteString(" " + hclQuote(blk.list[i].s))
				}
			}
			out.WriteString(" {\n")
			for i, k := range blk.keys {
				if k != labelKey {
					out.WriteString("  " + k + " = " + blk.list[i].expr() + "\n")
				}
			}
			out.WriteString("}\n")
		}
	}
	body, err := parseHX(hb)
	if err != nil {
		return "", fmt.Errorf("hb: %w", err)
	}
	if err := astBody(&out, "ammo", body, ""); err != nil {
		return "", err
	}
	return out.String(), nil
}
