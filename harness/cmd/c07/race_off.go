//go:build !race

package main

const c07Race = false
