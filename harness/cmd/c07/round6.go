package main

// Round 6 dimensions of the C07 driver.
//
//   shoot=1   after a delivered request has been read (canonReq), the consumer does to it what the consumer of a request
//             does: components/guns/http BaseGun.Shoot sets req.URL.Scheme, req.URL.Host = the resolved target and req.Host
//             when it is empty; the client consumes and replaces the body; middlewares / tracing set, add and delete
//             headers and may rewrite path and query. The request is the consumer's: nothing it does to the request at
//             field or map level may reach the decoded entry, so the NEXT request built from the same entry (preload, the
//             http/json array, any wrap-around) must still be the request written in the file. The observation (taken
//             before the mutation) and the model's prediction are the same as without the token.
//             Not done: writing an ELEMENT of a header's value slice in place (`req.Header[k][0] = …`): the request shares
//             the value slices with the entry (util.EnrichRequestWithHeaders: `req.Header[key] = values`); no gun,
//             middleware or net/http function does that (Pandora.Model.C07Build states both: `C07_build_pure`,
//             `C07_build_elem_write_counterexample`).

import (
	"net/http"
	"sort"
	"strings"
)

// c07Shoot: set per case by c07Run (a worker child runs one case at a time)
var c07Shoot bool

func c07ShootLikeAGun(req *http.Request) {
	if !c07Shoot || req == nil {
		return
	}
	if req.URL != nil {
		// BaseGun.Shoot
		req.URL.Scheme = "https"
		if req.Host == "" {
			req.Host = "gun-target.example"
		}
		req.URL.Host = "203.0.113.7:8443"
		// a rewriting middleware
		req.URL.Path = "/shot" + req.URL.Path
		req.URL.RawPath = ""
		req.URL.RawQuery = "shot=1"
		req.URL.User = nil
	}
	if req.Header != nil {
		keys := make([]string, 0, len(req.Header))
		for k := range req.Header {
			keys = append(keys, k)
		}
		sort.Strings(keys)
		for i, k := range keys {
			switch i % 3 {
			case 0:
				req.Header.Add(k, "shot") // append to the value list of an existing header
			case 1:
				req.Header.Set(k, "shot") // replace
			case 2:
				req.Header.Del(k)
			}
		}
		req.Header.Set("X-Shot", "1")
	}
	req.Method = "SHOT"
	req.Body = http.NoBody
	req.ContentLength = 0
	req.Close = true
}

// r6Decorate: every second case is "shot"
func r6Decorate(out []string) {
	for i := range out {
		if i%2 == 1 && !strings.Contains(out[i], " shoot=") {
			out[i] += " shoot=1"
		}
	}
}
