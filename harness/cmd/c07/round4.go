package main

// Round 4 dimensions of the C07 driver.
//
//   via=reg | via=http   the provider is built the way a real run builds it: a config MAP (what the YAML reader hands on)
//                        `{type: uri|uripost|raw|http/json, file, limit, preload, headers}` (via=reg) or
//                        `{type: http, decoder: uri|uripost|raw|jsonline, …}` (via=http) decoded by core/config with the
//                        plugin hooks into a core.Provider: phttp.Import's registrations, core/plugin, core/register,
//                        the field names of config.Config, the DecoderType conversion and every decode hook of core/config
//                        are on the path. What is delivered must not depend on the route.
//   uris=1               (uri format only) the lines of the file are given in the `uris` option instead of a file:
//                        NewProvider joins them with "\n" (no final newline) - the same bytes, hence the same delivery.
//   long=1               a run over more than 2^16 deliveries of a three-entry file (counters / indices in a narrow
//                        integer type only show there); streaming with a limit, preload, and the http/json array mode.

import (
	"fmt"
	"math/rand"
	"strings"
	"sync"

	"verifharness/drv"

	"github.com/spf13/afero"
	phttp "github.com/yandex/pandora/components/providers/http"
	"github.com/yandex/pandora/components/providers/http/config"
	"github.com/yandex/pandora/core"
	coreconfig "github.com/yandex/pandora/core/config"
	"github.com/yandex/pandora/core/plugin/pluginconfig"
)

// r4SwapFs: phttp.Import binds ONE file system into the registered factories; the driver's cases each have their own
// (memory file, short reads, EOF-with-data), so the registered one forwards to the file system of the running case.
// A child process runs one case at a time.
type r4SwapFs struct {
	afero.Fs
}

var (
	r4Once sync.Once
	r4Fs   = &r4SwapFs{}
)

var r4TypeName = map[config.DecoderType]string{
	config.DecoderURI: "uri", config.DecoderURIPost: "uripost", config.DecoderRaw: "raw", config.DecoderJSONLine: "http/json",
}

// r4NewProvider: conf as a map through the registry. The map holds what a YAML document would hold: strings, ints, bools
// and lists of strings.
func r4NewProvider(via string, fs afero.Fs, conf config.Config) (core.Provider, error) {
	r4Once.Do(func() {
		pluginconfig.AddHooks()
		phttp.Import(r4Fs)
	})
	r4Fs.Fs = fs
	m := map[string]interface{}{}
	if via == "http" {
		m["type"] = "http"
		m["decoder"] = string(conf.Decoder)
	} else {
		m["type"] = r4TypeName[conf.Decoder]
	}
	if conf.File != "" {
		m["file"] = conf.File
	}
	if conf.Limit != 0 {
		m["limit"] = int(conf.Limit)
	}
	if conf.Preload {
		m["preload"] = true
	}
	if len(conf.Headers) > 0 {
		l := make([]interface{}, len(conf.Headers))
		for i, h := range conf.Headers {
			l[i] = h
		}
		m["headers"] = l
	}
	if len(conf.Uris) > 0 {
		l := make([]interface{}, len(conf.Uris))
		for i, h := range conf.Uris {
			l[i] = h
		}
		m["uris"] = l
	}
	var holder struct {
		P core.Provider `config:"p"`
	}
	if err := coreconfig.Decode(map[string]interface{}{"p": m}, &holder); err != nil {
		return nil, err
	}
	if holder.P == nil {
		return nil, fmt.Errorf("registry returned no provider")
	}
	return holder.P, nil
}

// r4ViaOK: strings that the config hooks would rewrite (`${…}` placeholders) do not go through the map route.
func r4ViaOK(l string) bool {
	kv := map[string]string{}
	for _, f := range strings.Fields(l) {
		if i := strings.IndexByte(f, '='); i > 0 {
			kv[f[:i]] = f[i+1:]
		}
	}
	for _, h := range parseCfg(kv["cfgh"]) {
		if strings.Contains(h, "$") {
			return false
		}
	}
	if kv["uris"] == "1" && strings.Contains(string(unhx(kv["file"])), "$") {
		return false
	}
	return true
}

// r4Decorate adds the route tokens to the generated cases (own random stream: the older dimensions keep their draws).
func r4Decorate(out []string, r *rand.Rand) {
	for i := range out {
		// http/json: the rendered file goes to the Lean side too, which reads the JSON text itself (Pandora.Model.C07Json)
		if strings.HasPrefix(out[i], "fmt=json ") && !strings.Contains(out[i], " jfile=") {
			out[i] += " jfile=" + hx(renderJSON(drv.KV(out[i])))
		}
		if len(out[i]) > 1<<20 {
			continue
		}
		if strings.HasPrefix(out[i], "fmt=uri ") && !strings.Contains(out[i], " rd=") && !strings.Contains(out[i], " eofd=") && r.Intn(3) == 0 {
			out[i] += " uris=1"
		}
		if r.Intn(4) == 0 && r4ViaOK(out[i]) {
			out[i] += []string{" via=reg", " via=http"}[r.Intn(2)]
		}
	}
}

// r4Long: runs of more than 2^16 deliveries over three entries (65536 is not a multiple of 3: an index computed from a
// counter that wraps at 2^16 leaves the file order there; a limit compared with such a counter is never reached).
func r4Long(r *rand.Rand, tier string) []string {
	var out []string
	ks := []int{65536 + 8}
	if tier == "thorough" {
		ks = []int{65536 + 8, 65535, 2*65536 + 5}
	}
	for _, k := range ks {
		uri := []item{{kind: 'r', a: []byte("/a")}, {kind: 'h', a: []byte("X-A"), b: []byte("v")}, {kind: 'r', a: []byte("/b"), b: []byte("t")}, {kind: 'r', a: []byte("/c")}}
		post := []item{{kind: 'r', a: []byte("/a"), c: []byte("x")}, {kind: 'r', a: []byte("/b"), b: []byte("t"), c: []byte("yz\n")}, {kind: 'r', a: []byte("/c")}}
		kt := fmt.Sprintf(" k=%d ", k)
		out = append(out,
			c07KTok.ReplaceAllString(caseLine("uri", uri, layout{fnl: true}, true, nil), kt)+" long=1",
			c07KTok.ReplaceAllString(caseLine("uripost", post, layout{fnl: false}, false, nil), kt)+" long=1",
			c07KTok.ReplaceAllString(caseLine("uri", uri, layout{fnl: false}, false, nil), kt)+" long=1 via=reg",
			fmt.Sprintf("fmt=json k=%d pre=0 mode=array sep=0 omit=1 ord=0 fnl=1 ents=%s jx=0 long=1", k,
				encEnts([]entity{{method: "GET", uri: "/a"}, {method: "POST", uri: "/b", body: "x", tag: "t"}, {method: "GET", uri: "/c", host: "h"}})),
		)
		if tier == "thorough" {
			out = append(out,
				c07KTok.ReplaceAllString(caseLine("uripost", post, layout{fnl: true}, true, nil), kt)+" long=1",
				fmt.Sprintf("fmt=json k=%d pre=1 mode=line sep=0 omit=1 ord=0 fnl=1 ents=%s jx=0 long=1", k,
					encEnts([]entity{{method: "GET", uri: "/a"}, {method: "POST", uri: "/b", body: "x", tag: "t"}, {method: "GET", uri: "/c", host: "h"}})),
			)
		}
	}
	// the `uris` option with repeated and padded strings, header entries between them, an empty string (a blank line)
	rep := []item{{kind: 'r', a: []byte("/a")}, {kind: 'r', a: []byte("/a")}, {kind: 'h', a: []byte("X-A"), b: []byte("v")}, {kind: 'r', a: []byte("/b"), b: []byte("t")},
		{kind: 'r', a: []byte("/a")}, {kind: 'h', a: []byte("X-A"), b: []byte("v")}, {kind: 'r', a: []byte("/b"), b: []byte("t")}}
	for i, fnl := range []bool{false, true, false} {
		lay := layout{fnl: fnl}
		if i == 2 {
			lay = randLayout(r, flagsOf(1+2+4), len(rep))
			lay.fnl = false
		}
		l := caseLine("uri", rep, lay, i == 1, nil) + " uris=1"
		if i > 0 {
			l += " via=reg"
		}
		out = append(out, l)
	}
	return out
}
