//go:build race

package main

// c07Race: this driver was built with the race detector (props/C07.json "race": true; second run of ./check C07)
const c07Race = true
