package main

// C07: ammo decoding fidelity (uri, uripost, raw, http/json).
//
// A case is an entry list rendered into one of the formats with a layout (blank
// lines, padding, CRLF, inner header padding, final newline present/absent,
// trailing blanks). The REAL provider (components/providers/http.NewProvider on
// an afero in-memory file, Run + Acquire) is drained for ceil(2.5 passes) and every
// delivered request is printed canonically. The Lean driver re-renders the
// entries with its own renderer (must reproduce the file byte for byte),
// decodes the file bytes with the model and evaluates the Spec (delivered ==
// entries cycled) on the implementation's observation.
//
// Input line (k=v tokens, all byte strings in hex):
//
//	fmt=uri|uripost|raw  k=<limit> pre=0|1 file=<hex> [cfgh=<n>/<hex,hex>]   (cfgh: the provider's `headers` option, strings "[key: value]")
//	    [lim0=1] (Limit = 0, exactly k taken) [rd=<n>] (short reads) [eofd=1] (the last Read returns data together with io.EOF) [cons=<n>] (n concurrent consumers: reqs= is the sorted multiset) [win=<n>] (n deliveries in flight)
//	    items=<it;it;…> lead=<pad,pad> per=<pre:post:i1:i2:i3:i4:blank,blank;…> fnl=0|1 trail=<pad> [tbl=<frame>>canon;…]
//	    it = h:<key>:<val> | r:<uri>:<tag>[:<body>] | f:<tag>:<frame>
//	    (items/lead/per/fnl/trail are absent on the malformed stream: differential only)
//	fmt=json k=<limit> pre=0|1 mode=line|pretty|array sep=<n> omit=0|1 ord=<n> fnl=0|1
//	    ents=<host:method:uri:tag:body:k=v+k=v;…>
//
// Observation: err=<class> n=<count> reqs=<r;r;…>,
// r = m=<hex>,u=<hex>,h=<hex>,hd=<k>:<v>[+<v>]|…,b=<hex>,t=<hex>

import (
	"bufio"
	"bytes"
	"context"
	"encoding/hex"
	"encoding/json"
	"fmt"
	"io"
	"math/rand"
	"net/http"
	"os"
	"os/exec"
	"path/filepath"
	"regexp"
	"sort"
	"strconv"
	"strings"
	"sync"
	"sync/atomic"
	"time"

	"verifharness/drv"

	"github.com/spf13/afero"
	phttp "github.com/yandex/pandora/components/providers/http"
	"github.com/yandex/pandora/components/providers/http/config"
	"github.com/yandex/pandora/core"
	"github.com/yandex/pandora/core/aggregator/netsample"
	"go.uber.org/zap"
)

// ---------------------------------------------------------------- entries, layout, renderer

type item struct {
	kind    byte // 'h' header (a=key b=val) | 'r' request (a=uri b=tag c=body) | 'f' raw frame (b=tag c=frame)
	a, b, c []byte
}

type ilay struct {
	pre, post      []byte
	i1, i2, i3, i4 []byte
	blanks         [][]byte
	szPlus         bool // the size field of a uripost / raw entry is written with a leading '+'
	szZeros        int  // ... with this many leading zeros (fixed-width sizes such as 010 = ten)
}

// sizeText: the size field as its author may spell it (mirrors Pandora.Model.C07 `sizeText`)
func sizeText(l ilay, n int) []byte {
	var o []byte
	if l.szPlus {
		o = append(o, '+')
	}
	for i := 0; i < l.szZeros; i++ {
		o = append(o, '0')
	}
	return append(o, strconv.Itoa(n)...)
}

type layout struct {
	lead  [][]byte
	per   []ilay
	fnl   bool
	trail []byte
}

func hx(b []byte) string { return hex.EncodeToString(b) }

func unhx(s string) []byte {
	b, err := hex.DecodeString(s)
	if err != nil {
		panic("bad hex " + s)
	}
	return b
}

func content(format string, it item, l ilay) []byte {
	var o []byte
	switch it.kind {
	case 'h':
		o = append(o, '[')
		o = append(o, l.i1...)
		o = append(o, it.a...)
		o = append(o, l.i2...)
		o = append(o, ':')
		o = append(o, l.i3...)
		o = append(o, it.b...)
		o = append(o, l.i4...)
		o = append(o, ']')
	case 'r':
		if format == "uripost" {
			o = append(o, sizeText(l, len(it.c))...)
			o = append(o, ' ')
		}
		o = append(o, it.a...)
		if len(it.b) > 0 {
			o = append(o, ' ')
			o = append(o, it.b...)
		}
	case 'f':
		o = append(o, sizeText(l, len(it.c))...)
		if len(it.b) > 0 {
			o = append(o, ' ')
			o = append(o, it.b...)
		}
	}
	return o
}

func (it item) payload(format string) []byte {
	if it.kind == 'f' || (it.kind == 'r' && format == "uripost") {
		return it.c
	}
	return nil
}

// render mirrors Pandora.Model.C07 `render` (the Lean driver checks that both produce the same bytes).
func render(format string, items []item, lay layout) []byte {
	var o []byte
	for _, b := range lay.lead {
		o = append(o, b...)
		o = append(o, '\n')
	}
	if len(items) == 0 {
		return append(o, lay.trail...)
	}
	for i, it := range items {
		var l ilay
		if i < len(lay.per) {
			l = lay.per[i]
		}
		o = append(o, l.pre...)
		o = append(o, content(format, it, l)...)
		o = append(o, l.post...)
		last := i == len(items)-1
		body := it.payload(format)
		if last && !lay.fnl {
			if len(body) > 0 {
				o = append(o, '\n')
				o = append(o, body...)
			}
			break
		}
		o = append(o, '\n')
		o = append(o, body...)
		for _, b := range l.blanks {
			o = append(o, b...)
			o = append(o, '\n')
		}
		if last {
			o = append(o, lay.trail...)
		}
	}
	return o
}

func encItems(items []item) string {
	var s []string
	for _, it := range items {
		switch it.kind {
		case 'h':
			s = append(s, "h:"+hx(it.a)+":"+hx(it.b))
		case 'r':
			s = append(s, "r:"+hx(it.a)+":"+hx(it.b)+":"+hx(it.c))
		case 'f':
			s = append(s, "f:"+hx(it.b)+":"+hx(it.c))
		}
	}
	return strings.Join(s, ";")
}

func encPads(p [][]byte) string {
	var s []string
	for _, b := range p {
		s = append(s, hx(b))
	}
	return strings.Join(s, ",")
}

// a blank-line list is encoded with a leading count so that [""] and [] differ: "<n>/<pad,pad>"
func encBlankList(p [][]byte) string { return strconv.Itoa(len(p)) + "/" + encPads(p) }

func encLayout(lay layout) string {
	var per []string
	for _, l := range lay.per {
		f := []string{hx(l.pre), hx(l.post), hx(l.i1), hx(l.i2), hx(l.i3), hx(l.i4), encBlankList(l.blanks)}
		if l.szPlus || l.szZeros > 0 {
			f = append(f, map[bool]string{false: "0", true: "1"}[l.szPlus], strconv.Itoa(l.szZeros))
		}
		per = append(per, strings.Join(f, ":"))
	}
	f := "0"
	if lay.fnl {
		f = "1"
	}
	return "lead=" + encBlankList(lay.lead) + " per=" + strings.Join(per, ";") + " fnl=" + f + " trail=" + hx(lay.trail)
}

// ---------------------------------------------------------------- canonical observation of a request

func canonReq(req *http.Request) string {
	var body []byte
	if req.Body != nil {
		body, _ = io.ReadAll(req.Body)
	}
	keys := make([]string, 0, len(req.Header))
	for k := range req.Header {
		keys = append(keys, k)
	}
	sort.Strings(keys)
	var hd []string
	for _, k := range keys {
		var vs []string
		for _, v := range req.Header[k] {
			vs = append(vs, hx([]byte(v)))
		}
		hd = append(hd, hx([]byte(k))+":"+strings.Join(vs, "+"))
	}
	return "m=" + hx([]byte(req.Method)) + ",u=" + hx([]byte(req.URL.RequestURI())) + ",h=" + hx([]byte(req.Host)) +
		",hd=" + strings.Join(hd, "|") + ",b=" + hx(body)
}

func classifyErr(err error) string {
	if err == nil {
		return "ok"
	}
	s := err.Error()
	switch {
	case strings.Contains(s, "ammo limit faced"), strings.Contains(s, "passes limit faced"), strings.Contains(s, "context canceled"):
		return "ok"
	case strings.Contains(s, "header line wrong format"):
		return "hdrformat"
	case strings.Contains(s, "missing header key"):
		return "emptykey"
	case strings.Contains(s, "wrong ammo bodySize format"):
		return "wrongsize"
	case strings.Contains(s, "wrong ammo format"):
		return "ammoformat"
	case strings.Contains(s, "invalid payload size line"):
		return "rawsize"
	case strings.Contains(s, "ammo size should not be negative"):
		return "negsize"
	case strings.Contains(s, "failed to read ammo"):
		return "shortread"
	case strings.Contains(s, "no ammo in file"):
		return "noammo"
	case strings.Contains(s, "token too long"):
		return "toolong"
	case strings.Contains(s, "invalid HTTP method"):
		return "badmethod"
	case strings.Contains(s, "failed to decode ammo"), strings.Contains(s, "cant read json array"), strings.Contains(s, "invalid json token"):
		return "jsonerr"
	case strings.Contains(s, "invalid URL"), strings.Contains(s, "parse \""):
		return "urlparse"
	case strings.Contains(s, "PANIC"):
		return "panic"
	}
	w := strings.Fields(s)
	if len(w) > 4 {
		w = w[:4]
	}
	return "other:" + strings.Join(w, "_")
}

type requester interface {
	Request() (*http.Request, *netsample.Sample)
}

// parseCfg decodes "cfgh=<n>/<hex,hex>" into the strings of the `headers` option.
func parseCfg(s string) []string {
	if s == "" {
		return nil
	}
	f := strings.SplitN(s, "/", 2)
	n, _ := strconv.Atoi(f[0])
	if n == 0 || len(f) != 2 {
		return nil
	}
	var out []string
	for _, h := range strings.Split(f[1], ",") {
		out = append(out, string(unhx(h)))
	}
	return out
}

func encCfg(hs []string) string {
	if len(hs) == 0 {
		return ""
	}
	var b [][]byte
	for _, h := range hs {
		b = append(b, []byte(h))
	}
	return " cfgh=" + encBlankList(b)
}

// shortFs: the ammo file is opened through a file whose Read hands out at most `max` bytes per call (a legal io.Reader:
// pipes, network file systems and throttled readers behave like this). What is delivered must not depend on it.
type shortFs struct {
	afero.Fs
	max int
}

func (s shortFs) Open(name string) (afero.File, error) {
	f, err := s.Fs.Open(name)
	if err != nil {
		return nil, err
	}
	return &shortFile{File: f, max: s.max}, nil
}

type shortFile struct {
	afero.File
	max int
}

func (f *shortFile) Read(p []byte) (int, error) {
	if len(p) > f.max {
		p = p[:f.max]
	}
	return f.File.Read(p)
}

// eofFs: the ammo file is opened through a file whose LAST successful Read returns its bytes together with io.EOF
// (`n > 0, io.EOF`), which the io.Reader contract explicitly allows ("a Reader returning a non-zero number of bytes at
// the end of the input stream may return either err == EOF or err == nil") and which files behind FUSE / network file
// systems and many in-memory readers do.  bufio hands such a result through unchanged when it reads straight into the
// caller's buffer (reads of at least its buffer size), so hand-written read loops meet it.
type eofFs struct {
	afero.Fs
}

func (s eofFs) Open(name string) (afero.File, error) {
	f, err := s.Fs.Open(name)
	if err != nil {
		return nil, err
	}
	st, err := f.Stat()
	if err != nil {
		return nil, err
	}
	return &eofFile{File: f, size: st.Size()}, nil
}

type eofFile struct {
	afero.File
	size, pos int64
}

func (f *eofFile) Read(p []byte) (int, error) {
	n, err := f.File.Read(p)
	f.pos += int64(n)
	if err == nil && n > 0 && f.pos >= f.size {
		err = io.EOF
	}
	return n, err
}

func (f *eofFile) Seek(offset int64, whence int) (int64, error) {
	pos, err := f.File.Seek(offset, whence)
	if err == nil {
		f.pos = pos
	}
	return pos, err
}

// runProvider drains the real provider. unlimited: the provider runs with Limit = 0 (no limit) and exactly k requests are
// taken before the run is cancelled (only for files on which no decoder error is expected).
// window > 1: the consumer keeps up to `window` acquired ammo in flight (acquired, request not yet read, not released)
// before it reads them in order - what an instance pool does while requests are on the wire. Deliveries that share state
// (one reader, one buffer, one ammo object handed out twice) show up deterministically this way.
func runProvider(dec config.DecoderType, file []byte, k int, preload bool, headers []string, unlimited bool, maxRead int, consumers int, window int, eofData bool) string {
	return runProviderVia(dec, file, k, preload, headers, unlimited, maxRead, consumers, window, eofData, "", false)
}

// via: "" = phttp.NewProvider called directly, "reg" / "http" = through the plugin registry from a config map (round4.go);
// uris: the file's lines are handed over in the `uris` option instead of a file.
func runProviderVia(dec config.DecoderType, file []byte, k int, preload bool, headers []string, unlimited bool, maxRead int, consumers int, window int, eofData bool, via string, uris bool) string {
	mem := afero.NewMemMapFs()
	if err := afero.WriteFile(mem, "/ammo", file, 0o644); err != nil {
		panic(err)
	}
	var fs afero.Fs = mem
	if eofData {
		fs = eofFs{Fs: fs}
	}
	if maxRead > 0 {
		fs = shortFs{Fs: fs, max: maxRead}
	}
	conf := config.Config{Decoder: dec, File: "/ammo", Limit: uint(k), Preload: preload, Headers: headers}
	want := k + 4
	if unlimited {
		conf.Limit = 0
		want = k
	}
	if uris {
		conf.File = ""
		conf.Uris = strings.Split(string(file), "\n")
	}
	var p core.Provider
	var err error
	if via != "" {
		p, err = r4NewProvider(via, fs, conf)
	} else {
		p, err = phttp.NewProvider(fs, conf)
	}
	if err != nil {
		return "err=" + classifyErr(err) + " n=0 reqs="
	}
	ctx, cancel := context.WithCancel(context.Background())
	defer cancel()
	done := make(chan error, 1)
	go func() {
		defer func() {
			if r := recover(); r != nil {
				done <- fmt.Errorf("PANIC %v", r)
			}
		}()
		done <- p.Run(ctx, core.ProviderDeps{Log: zap.NewNop()})
	}()
	var reqs []string
	buildErr := false
	if consumers > 1 {
		// several instances share the provider (what an instance pool does): every consumer acquires, reads its request
		// completely and releases, concurrently with the others and with the decoder goroutine. Which consumer gets which
		// entry is up to the scheduler, so the observation is the MULTISET of delivered requests (sorted).
		var mu sync.Mutex
		var wg sync.WaitGroup
		var taken int64
		for c := 0; c < consumers; c++ {
			wg.Add(1)
			go func() {
				defer wg.Done()
				defer func() {
					if r := recover(); r != nil {
						mu.Lock()
						reqs = append(reqs, "PANIC "+drv.Clean(fmt.Sprint(r)))
						mu.Unlock()
					}
				}()
				for atomic.AddInt64(&taken, 1) <= int64(want) {
					a, ok := p.Acquire()
					if !ok {
						if a != nil {
							mu.Lock()
							buildErr = true
							mu.Unlock()
						}
						return
					}
					rq, ok2 := a.(requester)
					if !ok2 {
						mu.Lock()
						reqs = append(reqs, "?notarequest")
						mu.Unlock()
						continue
					}
					req, sample := rq.Request()
					line := canonReq(req) + ",t=" + hx([]byte(sample.Tags()))
					c07ShootLikeAGun(req)
					p.Release(a)
					mu.Lock()
					reqs = append(reqs, line)
					mu.Unlock()
				}
			}()
		}
		wg.Wait()
		sort.Strings(reqs)
	}
	var pending []core.Ammo
	flush := func() {
		for _, a := range pending {
			rq, ok2 := a.(requester)
			if !ok2 {
				reqs = append(reqs, "?notarequest")
				continue
			}
			req, sample := rq.Request()
			reqs = append(reqs, canonReq(req)+",t="+hx([]byte(sample.Tags())))
			c07ShootLikeAGun(req)
			p.Release(a)
		}
		pending = pending[:0]
	}
	for consumers <= 1 && len(reqs)+len(pending) < want {
		a, ok := p.Acquire()
		if !ok {
			if a != nil {
				buildErr = true
			}
			break
		}
		pending = append(pending, a)
		if len(pending) >= window {
			flush()
		}
	}
	flush()
	cancel()
	var runErr error
	select {
	case runErr = <-done:
	case <-time.After(10 * time.Second):
		return "HANG"
	}
	e := classifyErr(runErr)
	if buildErr {
		e = "build"
	}
	return "err=" + e + " n=" + strconv.Itoa(len(reqs)) + " reqs=" + strings.Join(reqs, ";")
}

// ---------------------------------------------------------------- http/json rendering

type entity struct {
	host, method, uri, tag, body string
	hk, hv                       []string
}

func parseEnts(s string) []entity {
	var out []entity
	if s == "" {
		return out
	}
	for _, e := range strings.Split(s, ";") {
		f := strings.Split(e, ":")
		if len(f) != 6 {
			panic("bad entity " + e)
		}
		en := entity{host: string(unhx(f[0])), method: string(unhx(f[1])), uri: string(unhx(f[2])), tag: string(unhx(f[3])), body: string(unhx(f[4]))}
		if f[5] != "" {
			for _, kvp := range strings.Split(f[5], "+") {
				kv := strings.SplitN(kvp, "=", 2)
				en.hk = append(en.hk, string(unhx(kv[0])))
				en.hv = append(en.hv, string(unhx(kv[1])))
			}
		}
		out = append(out, en)
	}
	return out
}

func encEnts(es []entity) string {
	var out []string
	for _, e := range es {
		var hs []string
		for i := range e.hk {
			hs = append(hs, hx([]byte(e.hk[i]))+"="+hx([]byte(e.hv[i])))
		}
		out = append(out, strings.Join([]string{hx([]byte(e.host)), hx([]byte(e.method)), hx([]byte(e.uri)), hx([]byte(e.tag)), hx([]byte(e.body)), strings.Join(hs, "+")}, ":"))
	}
	return strings.Join(out, ";")
}

var jsonOrders = [][]string{
	{"host", "method", "uri", "headers", "tag", "body"},
	{"body", "tag", "headers", "uri", "method", "host"},
	{"uri", "host", "tag", "method", "body", "headers"},
}

var jsonSeps = []string{"\n", "\r\n", "\n\n", " \n\t", ""}

func jstr(s string) string {
	b, err := json.Marshal(s)
	if err != nil {
		panic(err)
	}
	return string(b)
}

func renderEntity(e entity, order []string, omit bool) string {
	var fields []string
	for _, name := range order {
		switch name {
		case "headers":
			if omit && len(e.hk) == 0 {
				continue
			}
			var hs []string
			for i := range e.hk {
				hs = append(hs, jstr(e.hk[i])+":"+jstr(e.hv[i]))
			}
			fields = append(fields, `"headers":{`+strings.Join(hs, ",")+"}")
		default:
			v := map[string]string{"host": e.host, "method": e.method, "uri": e.uri, "tag": e.tag, "body": e.body}[name]
			if omit && v == "" {
				continue
			}
			fields = append(fields, jstr(name)+":"+jstr(v))
		}
	}
	return "{" + strings.Join(fields, ",") + "}"
}

// jsonLeads: white space JSON permits before the first value (kv jx, low two bits)
var jsonLeads = []string{"", "\n", " \n\t ", "\r\n\r\n"}

func renderJSON(kv map[string]string) []byte {
	es := parseEnts(kv["ents"])
	ord, _ := strconv.Atoi(kv["ord"])
	sepi, _ := strconv.Atoi(kv["sep"])
	order := jsonOrders[ord%len(jsonOrders)]
	sep := jsonSeps[sepi%len(jsonSeps)]
	omit := kv["omit"] == "1"
	var objs []string
	jx, _ := strconv.Atoi(kv["jx"])
	for i, e := range es {
		o := renderEntity(e, order, omit)
		if jx&4 != 0 && i%2 == 0 { // a field the decoder does not know, and `null` for an empty headers object
			o = `{"comment":{"n":[1,2,{"uri":"/no"}],"host":null},` + strings.TrimPrefix(strings.Replace(o, `"headers":{}`, `"headers":null`, 1), "{")
		}
		if kv["mode"] == "pretty" || (kv["mode"] == "array" && sepi%2 == 1) {
			var buf bytes.Buffer
			if err := json.Indent(&buf, []byte(o), "", "  "); err != nil {
				panic(err)
			}
			o = buf.String()
		}
		objs = append(objs, o)
	}
	var out string
	if kv["mode"] == "array" {
		out = "[" + strings.Join(objs, ","+sep) + "]"
	} else {
		if sep == "" {
			sep = "\n"
		}
		out = strings.Join(objs, sep)
	}
	if kv["fnl"] == "1" {
		out += "\n"
	}
	if jx&8 != 0 {
		out += " \n\t\n"
	}
	return []byte(jsonLeads[jx&3] + out)
}

// ---------------------------------------------------------------- Run / Class

func c07Run(input string) string {
	kv := drv.KV(input)
	k, _ := strconv.Atoi(kv["k"])
	if k < 1 {
		k = 1
	}
	pre := kv["pre"] == "1"
	cfg := parseCfg(kv["cfgh"])
	unl := kv["lim0"] == "1"
	rd, _ := strconv.Atoi(kv["rd"])
	cons, _ := strconv.Atoi(kv["cons"])
	win, _ := strconv.Atoi(kv["win"])
	eofd := kv["eofd"] == "1"
	via := kv["via"]
	c07Shoot = kv["shoot"] == "1"
	switch kv["fmt"] {
	case "uri":
		return runProviderVia(config.DecoderURI, unhx(kv["file"]), k, pre, cfg, unl, rd, cons, win, eofd, via, kv["uris"] == "1")
	case "uripost":
		return runProviderVia(config.DecoderURIPost, unhx(kv["file"]), k, pre, cfg, unl, rd, cons, win, eofd, via, false)
	case "raw":
		return runProviderVia(config.DecoderRaw, unhx(kv["file"]), k, pre, cfg, unl, rd, cons, win, eofd, via, false)
	case "json":
		jf := renderJSON(kv)
		if kv["jfile"] != "" { // the bytes the Lean side reads are the bytes the provider reads
			jf = unhx(kv["jfile"])
		}
		return runProviderVia(config.DecoderJSONLine, jf, k, pre, cfg, unl, rd, cons, win, eofd, via, false)
	}
	return "err=badinput n=0 reqs="
}

func c07Class(input, obs string) string {
	kv := drv.KV(input)
	o := drv.KV(obs)
	c := kv["fmt"]
	if kv["fmt"] == "json" {
		c += "/" + kv["mode"]
	} else if _, ok := kv["items"]; !ok {
		c += "/malformed"
	} else if kv["fnl"] == "0" {
		c += "/nofinalnl"
	} else {
		c += "/wellformed"
	}
	if kv["lim0"] == "1" {
		c += "/nolimit"
	}
	if kv["rd"] != "" {
		c += "/shortreads"
	}
	if kv["eofd"] != "" {
		c += "/eof-with-data"
	}
	if kv["cons"] != "" {
		c += "/consumers"
	}
	if kv["win"] != "" {
		c += "/inflight"
	}
	if hasLongLine(kv["file"]) {
		c += "/longline"
	}
	if kv["pre"] == "1" {
		c += "/preload"
	}
	if kv["via"] != "" {
		c += "/via-registry"
	}
	if kv["uris"] != "" {
		c += "/uris-option"
	}
	if kv["long"] != "" {
		c += "/65536+"
	}
	if kv["cfgh"] != "" {
		c += "/headers-option"
	}
	if kv["shoot"] != "" {
		c += "/shot"
	}
	if o["err"] != "ok" {
		c += "/err"
	}
	return c
}

// hasLongLine: the (hex) file has a line of more than 4096 bytes (the default bufio buffer)
func hasLongLine(fileHex string) bool {
	if len(fileHex) <= 2*4096 {
		return false
	}
	run := 0
	for i := 0; i+1 < len(fileHex); i += 2 {
		if fileHex[i] == '0' && fileHex[i+1] == 'a' {
			run = 0
			continue
		}
		run++
		if run > 4096 {
			return true
		}
	}
	return false
}

// ---------------------------------------------------------------- generators

var wsNoLF = []byte{' ', '\t', '\r', '\v', '\f'}

// white-space runes other than the ASCII ones (strings.TrimSpace = unicode.IsSpace): permitted as padding as well
var uniSpaces = []string{"\u0085", "\u00a0", "\u1680", "\u2000", "\u2003", "\u200a", "\u2028", "\u2029", "\u202f", "\u205f", "\u3000"}

// c07UniPad: the layout being generated mixes Unicode white space into its padding (set per layout by randLayout)
var c07UniPad bool

func pad(r *rand.Rand, max int, crOK bool) []byte {
	n := r.Intn(max + 1)
	var o []byte
	for i := 0; i < n; i++ {
		b := wsNoLF[r.Intn(len(wsNoLF))]
		if r.Intn(3) > 0 {
			b = ' '
		}
		if b == '\r' && !crOK {
			b = '\t'
		}
		if c07UniPad && r.Intn(3) == 0 {
			o = append(o, uniSpaces[r.Intn(len(uniSpaces))]...)
			continue
		}
		o = append(o, b)
	}
	return o
}

var uriPool = []string{"/", "/a", "/b", "/a/b/c", "/a?b=c", "/search?q=a%20b&x=1", "/x?", "/p;q=1,2", "/0", "/a//b/../c/./", "/A-Z_a.z~1", "/q?u=http://h/p?z", "/%7Euser/%2F", "/very/long/" + strings.Repeat("segment/", 12) + "end?k=" + strings.Repeat("v", 40), "/a:b@c", "/f(1)*'!'$+",
	// absolute-form targets: the request goes to path+query, Host is the URL's authority (a [Host: …] line does not override it)
	"http://example.org/abs?x=1", "http://h.x:8080/", "http://10.0.0.1/a/b;c=1?d=e&f"}
var tagPool = []string{"", "", "t", "tag", "my tag", "a  b", " lead", "тег", "tag x", "t\rx", "[x]", "0", "12 /z", "tag é", "日本", "x:y"}
var hkeyPool = []string{"X-A", "x-a", "X-B", "Host", "host", "Content-Type", "A", "User-Agent", "My Key", "x_y", "Connection", "Ünï"}
var hvalPool = []string{"", "v", "b", "example.com", "other.net:8080", "a: b", "x]y", "[z", "application/json", "v w  x", "знач", "]", "a:b:c"}

func randBody(r *rand.Rand) []byte {
	switch r.Intn(12) {
	case 0, 1:
		return nil
	case 2:
		return []byte("hello")
	case 3:
		return []byte("\n")
	case 4:
		return []byte("[A: b]\n")
	case 5:
		return []byte("3 /x\nabc\n")
	case 6:
		return []byte{0}
	case 7:
		return []byte("line1\r\nline2\n\n")
	case 8:
		return []byte("\n\n[\n")
	case 9:
		return []byte(`{"a": [1,2,3], "b": "c d"}`)
	default:
		n := r.Intn(40)
		b := make([]byte, n)
		for i := range b {
			switch r.Intn(6) {
			case 0:
				b[i] = '\n'
			case 1:
				b[i] = '['
			case 2:
				b[i] = 0
			case 3:
				b[i] = ' '
			default:
				b[i] = byte(r.Intn(256))
			}
		}
		return b
	}
}

var methodPool = []string{"GET", "POST", "PUT", "DELETE", "PATCH", "HEAD", "OPTIONS", "PURGE", ""}

// frameHdrNames: header names of generated frames (several spellings of one name: they make one multi-valued header;
// Connection / Cookie / Content-Type: headers a "clean-up" of the decoded request would be tempted to touch)
var frameHdrNames = []string{"X-A", "x-b", "User-Agent", "Accept", "X-A", "x-a", "Connection", "content-type", "X_y", "accept-ENCODING", "Cookie", "Authorization"}

// exoticFrames: valid HTTP that is outside the class of plain frames the Lean side reads itself (a folded header line,
// a chunked body, a repeated Content-Length, Pragma): what they denote comes from the library table
var exoticFrames = []string{
	"POST /chunked HTTP/1.1\r\nHost: h.x\r\nTransfer-Encoding: chunked\r\n\r\n5\r\nhello\r\n0\r\n\r\n",
	"GET /folded HTTP/1.1\r\nHost: example.com\r\nX-Long: first\r\n second\r\n\tthird\r\nAccept: a\r\n\r\n",
	"PUT /twice HTTP/1.1\r\nHost: h\r\nContent-Length: 3\r\nContent-Length: 3\r\n\r\nabc",
	"GET /pragma HTTP/1.0\r\nHost: h\r\nPragma: no-cache\r\n\r\n",
	"GET /ver HTTP/1.2\r\nHost: h\r\n\r\n",
}

func randFrame(r *rand.Rand) []byte {
	if r.Intn(16) == 0 {
		return []byte(exoticFrames[r.Intn(len(exoticFrames))])
	}
	m := methodPool[r.Intn(len(methodPool)-1)]
	u := uriPool[r.Intn(len(uriPool))]
	eol := "\r\n"
	if r.Intn(3) == 0 {
		eol = "\n"
	}
	ver := "HTTP/1.1"
	if r.Intn(3) == 0 {
		ver = "HTTP/1.0"
	}
	// blanks an author may put around a header value (`Key:value`, `Key:   value  `, a TAB)
	gap := func() string { return []string{" ", " ", " ", "", "  ", "\t", " \t "}[r.Intn(7)] }
	post := func() string { return []string{"", "", "", " ", "\t", "  "}[r.Intn(6)] }
	s := m + " " + u + " " + ver + eol
	if r.Intn(5) > 0 {
		s += []string{"Host", "Host", "host", "HOST"}[r.Intn(4)] + ":" + gap() + []string{"example.com", "h.x:8080", "10.0.0.1", "EXAMPLE.org", "Api.Example.COM:8443"}[r.Intn(5)] + post() + eol
	}
	nh := r.Intn(4)
	for i := 0; i < nh; i++ {
		name := frameHdrNames[r.Intn(len(frameHdrNames))]
		val := hvalPool[r.Intn(len(hvalPool))]
		switch name {
		case "Connection":
			val = []string{"close", "keep-alive", "Keep-Alive, Upgrade"}[r.Intn(3)]
		case "Cookie":
			val = "a=b; c=d"
		}
		s += name + ":" + gap() + val + post() + eol
	}
	var body []byte
	if m == "POST" || m == "PUT" || m == "PATCH" || r.Intn(6) == 0 {
		body = randBody(r)
		s += []string{"Content-Length", "Content-Length", "content-length"}[r.Intn(3)] + ":" + gap() + strconv.Itoa(len(body)) + eol
	}
	s += eol
	return append([]byte(s), body...)
}

type flags struct{ blanks, lead, padding, crlf, fnl bool }

func flagsOf(n int) flags {
	return flags{blanks: n&1 != 0, lead: n&2 != 0, padding: n&4 != 0, crlf: n&8 != 0, fnl: n&16 != 0}
}

func randBlanks(r *rand.Rand, f flags, max int) [][]byte {
	if !f.blanks {
		return nil
	}
	n := r.Intn(max + 1)
	var o [][]byte
	for i := 0; i < n; i++ {
		var p []byte
		if f.padding {
			p = pad(r, 3, false)
		}
		if f.crlf {
			p = append(p, '\r')
		}
		o = append(o, p)
	}
	return o
}

func randLayout(r *rand.Rand, f flags, n int) layout {
	var lay layout
	lay.fnl = f.fnl
	c07UniPad = f.padding && r.Intn(4) == 0
	defer func() { c07UniPad = false }()
	if f.lead {
		lay.lead = randBlanks(r, flags{blanks: true, padding: f.padding, crlf: f.crlf}, 3)
		if len(lay.lead) == 0 {
			lay.lead = [][]byte{nil}
		}
	}
	for i := 0; i < n; i++ {
		var l ilay
		if f.padding {
			l.pre = pad(r, 3, true)
			l.post = pad(r, 3, true)
			l.i1, l.i2, l.i3, l.i4 = pad(r, 2, true), pad(r, 2, true), pad(r, 2, true), pad(r, 2, true)
		}
		if f.crlf {
			l.post = append(l.post, '\r')
		}
		l.blanks = randBlanks(r, f, 2)
		// the spelling of the size field (uripost / raw; ignored by uri): fixed-width sizes with leading zeros, an explicit '+'
		// - strconv.Atoi reads all of them as the same decimal number
		if r.Intn(5) == 0 {
			l.szZeros = []int{1, 1, 2, 3, 5, 19, 24}[r.Intn(7)]
		}
		if r.Intn(12) == 0 {
			l.szPlus = true
		}
		lay.per = append(lay.per, l)
	}
	if f.blanks && f.padding && r.Intn(2) == 0 {
		lay.trail = pad(r, 3, true)
	}
	return lay
}

func randItems(r *rand.Rand, format string, nreq int) []item {
	var items []item
	for i := 0; i < nreq; i++ {
		if format != "raw" {
			for r.Intn(3) == 0 {
				items = append(items, item{kind: 'h', a: []byte(hkeyPool[r.Intn(len(hkeyPool))]), b: []byte(hvalPool[r.Intn(len(hvalPool))])})
			}
		}
		tag := []byte(tagPool[r.Intn(len(tagPool))])
		switch format {
		case "uri":
			items = append(items, item{kind: 'r', a: []byte(uriPool[r.Intn(len(uriPool))]), b: tag})
		case "uripost":
			items = append(items, item{kind: 'r', a: []byte(uriPool[r.Intn(len(uriPool))]), b: tag, c: randBody(r)})
		case "raw":
			items = append(items, item{kind: 'f', b: tag, c: randFrame(r)})
		}
	}
	if format != "raw" && r.Intn(4) == 0 { // trailing header line (applies to nothing)
		items = append(items, item{kind: 'h', a: []byte(hkeyPool[r.Intn(len(hkeyPool))]), b: []byte(hvalPool[r.Intn(len(hvalPool))])})
	}
	return items
}

// frameTable: what the library (net/http.ReadRequest, called here directly) makes of each frame; the Lean side reads plain
// frames itself (Pandora.Model.C07Frame `frameReq`, must agree with this table) and looks the others up here. The provider's `headers` option (EnrichRequestWithHeaders in
// RawAmmo.BuildRequest) is NOT applied here: the Lean side does that itself (Spec.enrichCanon).
func frameTable(frames [][]byte) string {
	seen := map[string]bool{}
	var out []string
	for _, f := range frames {
		if seen[string(f)] {
			continue
		}
		seen[string(f)] = true
		// the LIBRARY's reading of the frame (not the code under test: raw.DecodeRequest post-processes this)
		req, err := http.ReadRequest(bufio.NewReader(bytes.NewReader(f)))
		if err != nil {
			out = append(out, hx(f)+">!")
			continue
		}
		out = append(out, hx(f)+">"+canonReq(req))
	}
	return strings.Join(out, ";")
}

// candidateFrames: for the malformed stream the frames of a raw file are not known in advance; every line that
// starts with an integer n > 0 followed by n available bytes gives a candidate (a superset of what any framing
// of the file can cut out after a size line).
func candidateFrames(file []byte) [][]byte {
	var out [][]byte
	for i := 0; i < len(file); {
		j := bytes.IndexByte(file[i:], '\n')
		if j < 0 {
			break
		}
		line := strings.TrimSpace(string(file[i : i+j]))
		sz, _, _ := strings.Cut(line, " ")
		if n, err := strconv.Atoi(sz); err == nil && n > 0 && n <= len(file)-(i+j+1) && len(out) < 64 {
			out = append(out, file[i+j+1:i+j+1+n])
		}
		i += j + 1
	}
	return out
}

// lim0: run the provider without a limit (Limit = 0) and take exactly k requests
func lim0(on bool) string {
	if on {
		return " lim0=1"
	}
	return ""
}

// manyPasses: every sixth call of limitFor asks for four and a half passes instead of two and a half
var limitCalls int

// (further variants: exact pass boundaries, many passes; a caller that needs the value twice uses lastLimit)
func limitFor(nreq int) int {
	limitCalls++
	k := (5*nreq + 1) / 2
	switch {
	case limitCalls%6 == 0 && nreq <= 8:
		k = (9*nreq + 1) / 2
	case limitCalls%12 == 3: // the limit falls exactly on a pass boundary, or one before / after it
		k = []int{nreq, 2 * nreq, 3 * nreq, nreq + 1, 2*nreq - 1}[(limitCalls/12)%5]
	case limitCalls%12 == 9 && nreq <= 3: // many passes over a short file
		k = 7*nreq + 1
	}
	if k < 3 {
		k = 3
	}
	return k
}

func countReqs(items []item) int {
	n := 0
	for _, it := range items {
		if it.kind != 'h' {
			n++
		}
	}
	return n
}

func caseLine(format string, items []item, lay layout, pre bool, cfg []string) string {
	file := render(format, items, lay)
	p := "0"
	if pre {
		p = "1"
	}
	s := fmt.Sprintf("fmt=%s k=%d pre=%s file=%s items=%s %s", format, limitFor(countReqs(items)), p, hx(file), encItems(items), encLayout(lay))
	s += encCfg(cfg)
	if format == "raw" {
		var frames [][]byte
		for _, it := range items {
			frames = append(frames, it.c)
		}
		s += " tbl=" + frameTable(frames)
	}
	return s
}

func malformedLine(format string, file []byte, frames [][]byte, k int, cfg []string) string {
	s := fmt.Sprintf("fmt=%s k=%d pre=0 file=%s", format, k, hx(file))
	s += encCfg(cfg)
	if format == "raw" {
		s += " tbl=" + frameTable(append(frames, candidateFrames(file)...))
	}
	return s
}

// randCfg: the provider's `headers` option for about a quarter of the cases: keys from the same pool as the file's
// header lines (so that they collide, also in another letter case, and include Host), distinct canonical keys.
func randCfg(r *rand.Rand) []string {
	if r.Intn(4) != 0 {
		return nil
	}
	seen := map[string]bool{}
	var out []string
	n := 1 + r.Intn(3)
	for i := 0; i < n; i++ {
		k := hkeyPool[r.Intn(len(hkeyPool))]
		ck := http.CanonicalHeaderKey(k)
		if seen[ck] {
			continue
		}
		seen[ck] = true
		v := []string{"cfg", "cfg.example.org", "c v", ""}[r.Intn(4)]
		out = append(out, "["+string(pad(r, 1, false))+k+":"+string(pad(r, 2, false))+v+"]")
	}
	return out
}

var malformedFixed = map[string][]string{
	"uri": {"", "\n\n", "[A: b]\n", "[A b]\n/a\n", "[: b]\n/a\n", "[]\n/a", "[A: b\n/a\n", "/a\n[\n/b\n", "/a t\n/%zz\n", "/a\n /b  \n\r\n", "/a\x01\n", "/a\n[A:b]",
		"/ok\n" + strings.Repeat("a", 65535) + "\n", "/ok\n/" + strings.Repeat("a", 65535) + "\n", "/ok\n/" + strings.Repeat("a", 65535)},
	"uripost": {"", "\n", "[A: b]\n", "5 /a\nhel", "5 /a\n", "x /a\nabc\n", "5\nhello\n", "5  /a\nhello\n", "-1 /a\n", "+3 /a t\nabc\n", "03 /a\nabc", "3 /a\nabc[A:b\n3 /b\nabc\n",
		"0 /a\n[A]\n0 /b\n", "99999999999999999999 /a\n", "3 /%zz\nabc\n", "0 /a", "0 /a t t2  ", "3 /a\nabc0 /b", "[A: b]", "1_0 /a\n0123456789\n", "0x3 /a\nabc\n", "3 /a\r\nabc\r\n0 /b\r"},
	"raw": {"", "\n\n", "x\n", "5\nGET", "-1 t\n", "0 t\n", "0 t", "5 t", " \n5"},
}

// white-space runes other than the ASCII ones at the edges of lines (strings.TrimSpace removes them too)
var unicodeEdge = map[string][]string{
	"uri":     {"/a t\u00a0\n/b\n", "\u0085\n/a\n", "\u2028/a x\n", "[A: b\u3000]\n/a\n", "[\u00a0A\u2003:\u1680b]\n/a\n", "/a\u00a0t\n", "\u202f\u205f\n/a\u2029"},
	"uripost": {"1 /a t\u00a0\nx", "\u0085\n0 /a\n", "\u20281 /a x\ny\n", "[A: b\u3000]\n0 /a\n", "0 /a\u00a0t\n", "0\u00a0/a\n", "2 /a\n\u00a0\n0 /b\n"},
	"raw":     {"16 t\u00a0\n" + enumFrame, "\u0085\n16\n" + enumFrame, "\u200116 t\n" + enumFrame + "\u3000\n", "16\u00a0t\n" + enumFrame},
}

var readSizes = []int{1, 1, 2, 3, 7, 64, 1000, 4095, 4096, 4097}

// c07Gen: the streams of c07Streams; every third case additionally reads its file through short reads (token rd=<max bytes per Read>)
func c07Gen(r *rand.Rand, tier string) []string {
	out := c07GenAll(r, tier)
	if !c07Race {
		return out
	}
	// the run under the race detector (5-10 times slower) keeps what can race: every case with concurrent consumers,
	// deliveries in flight or preload, and a sample of the rest; no multi-megabyte files
	var keep []string
	for i, l := range out {
		conc := strings.Contains(l, " cons=") || ((strings.Contains(l, " win=") || strings.Contains(l, " pre=1 ")) && i%2 == 0)
		every := 8
		if tier == "thorough" {
			every = 40
			conc = conc && i%4 == 0
		}
		if len(l) < 1<<19 && (conc || i%every == 0) && !strings.Contains(l, " long=1") {
			keep = append(keep, l)
		}
	}
	return keep
}

func c07GenAll(r *rand.Rand, tier string) []string {
	out := c07Streams(r, tier)
	r2 := rand.New(rand.NewSource(r.Int63()))
	for i := range out {
		if r2.Intn(3) == 0 && !strings.Contains(out[i], " rd=") {
			n := readSizes[r2.Intn(len(readSizes))]
			// a bufio.Scanner re-scans its whole buffer for the newline after every Read: a uri line of L bytes read n bytes at
			// a time costs L*L/(2n) byte comparisons (2.6 MB two bytes at a time: minutes - the library's own behaviour, not a
			// hang of the decoder). Files with very long uri lines are read through short reads of at least a page.
			if strings.HasPrefix(out[i], "fmt=uri ") && len(out[i]) > 400000 && n < 1000 {
				n += 4095
			}
			out[i] += fmt.Sprintf(" rd=%d", n)
		}
		// one case in five: the file's last Read returns its data together with io.EOF
		if r2.Intn(5) == 0 && !strings.Contains(out[i], " eofd=") {
			out[i] += " eofd=1"
		}
		// one well-formed case in six is drained by 2-4 concurrent consumers (entries known, no frame that is not a request)
		wf := strings.Contains(out[i], " items=") || strings.HasPrefix(out[i], "fmt=json ")
		if strings.Contains(out[i], " cons=") {
			continue
		}
		if wf && r2.Intn(6) == 0 && !strings.Contains(out[i], ">!") && len(out[i]) < 1<<20 {
			out[i] += fmt.Sprintf(" cons=%d", 2+r2.Intn(3))
		} else if r2.Intn(4) == 0 && len(out[i]) < 1<<20 {
			// one case in four keeps 2..16 deliveries in flight before reading them (often more than one pass of the file)
			out[i] += fmt.Sprintf(" win=%d", []int{2, 2, 3, 4, 7, 16}[r2.Intn(6)])
		}
	}
	// round 4: construction through the plugin registry from a config map, the `uris` option, runs above 2^16 deliveries
	r4 := rand.New(rand.NewSource(r2.Int63()))
	r4Decorate(out, r4)
	out = append(out, r4Long(r4, tier)...)
	// round 6: every second case mutates each delivered request the way a gun / middleware does after reading it
	r6Decorate(out)
	return out
}

func c07Streams(r *rand.Rand, tier string) []string {
	limitCalls = 0
	var out []string
	formats := []string{"uri", "uripost", "raw"}
	thorough := tier == "thorough"
	// 1 well-formed entry lists x layouts
	if thorough {
		for _, f := range formats {
			for fl := 0; fl < 32; fl++ {
				for n := 1; n <= 6; n++ {
					for rep := 0; rep < 10; rep++ {
						items := randItems(r, f, n)
						out = append(out, caseLine(f, items, randLayout(r, flagsOf(fl), len(items)), rep%5 == 4, randCfg(r))+lim0(rep%5 == 2))
					}
				}
			}
		}
	} else {
		for _, f := range formats {
			for i := 0; i < 500; i++ {
				items := randItems(r, f, 1+r.Intn(6))
				out = append(out, caseLine(f, items, randLayout(r, flagsOf(r.Intn(32)), len(items)), r.Intn(6) == 0, randCfg(r))+lim0(r.Intn(5) == 0))
			}
		}
	}
	// 2 the last entry without a final newline, every shape of last item
	nlast := 150
	if thorough {
		nlast = 6000
	}
	for i := 0; i < nlast; i++ {
		f := formats[r.Intn(2)]
		items := randItems(r, f, 1+r.Intn(3))
		if f == "uripost" && r.Intn(2) == 0 {
			for j := len(items) - 1; j >= 0; j-- {
				if items[j].kind == 'r' {
					items[j].c = nil
					items = items[:j+1]
					break
				}
			}
		}
		fl := flagsOf(r.Intn(16))
		out = append(out, caseLine(f, items, randLayout(r, fl, len(items)), i%7 == 3, nil)+lim0(i%5 == 1))
	}
	// 3 no entries at all (headers / blanks only)
	for _, f := range formats {
		out = append(out, caseLine(f, nil, layout{lead: [][]byte{nil, []byte(" ")}, fnl: true}, false, nil))
		if f != "raw" {
			out = append(out, caseLine(f, []item{{kind: 'h', a: []byte("A"), b: []byte("b")}}, layout{fnl: true}, false, nil))
		}
	}
	// 4 malformed stream: fixed witnesses + mutations of well-formed files (differential only)
	for _, f := range formats {
		for _, s := range malformedFixed[f] {
			out = append(out, malformedLine(f, []byte(s), nil, 4, nil))
		}
	}
	for _, f := range formats {
		for i, s := range unicodeEdge[f] {
			line := malformedLine(f, []byte(s), nil, 4, nil)
			if i%2 == 1 {
				line = strings.Replace(line, " pre=0 ", " pre=1 ", 1)
			}
			out = append(out, line)
		}
	}
	// a malformed `headers` option fails NewProvider whatever the file holds
	for _, f := range formats {
		for _, h := range [][]string{{"[A b]"}, {"[X-A: v]", "[: x]"}, {"A: b"}, {"[A: b]", "[a: c]"}} {
			out = append(out, malformedLine(f, []byte(map[string]string{"uri": "/a\n", "uripost": "0 /a\n", "raw": "16 t\nGET / HTTP/1.0\n\n"}[f]), nil, 3, h))
		}
	}
	nmut := 800
	if thorough {
		nmut = 40000
	}
	for i := 0; i < nmut; i++ {
		f := formats[r.Intn(3)]
		items := randItems(r, f, 1+r.Intn(4))
		file := render(f, items, randLayout(r, flagsOf(r.Intn(32)), len(items)))
		var frames [][]byte
		for _, it := range items {
			if it.kind == 'f' {
				frames = append(frames, it.c)
			}
		}
		if len(file) == 0 {
			continue
		}
		nm := 1 + r.Intn(2)
		for j := 0; j < nm && len(file) > 0; j++ {
			p := r.Intn(len(file))
			switch r.Intn(6) {
			case 0: // delete a byte
				file = append(append([]byte{}, file[:p]...), file[p+1:]...)
			case 1: // insert a byte
				b := []byte{' ', '\n', '[', ']', ':', '0', '9', 'x', '\r', 0xc2, 0x85, '-'}[r.Intn(12)]
				file = append(append(append([]byte{}, file[:p]...), b), file[p:]...)
			case 2: // truncate
				file = file[:p]
			case 3: // change a digit
				for q := 0; q < len(file); q++ {
					if c := file[(p+q)%len(file)]; c >= '0' && c <= '9' {
						file[(p+q)%len(file)] = byte('0' + r.Intn(10))
						break
					}
				}
			case 4: // replace a byte
				file[p] = byte(r.Intn(256))
			case 5: // duplicate a chunk
				q := p + r.Intn(len(file)-p)
				file = append(append(append([]byte{}, file[:q]...), file[p:q]...), file[q:]...)
			}
		}
		out = append(out, malformedLine(f, file, frames, limitFor(len(items)), nil))
	}
	// 6 bodies / frames larger than the decoders' read chunk (1 MiB): readSized assembles them chunk-wise
	bigSizes := []int{1<<20 + 5, 1 << 20}
	if thorough {
		bigSizes = []int{1 << 20, 1<<20 + 1, 2 << 20, 5<<19 + 7}
	}
	for i, n := range bigSizes {
		body := make([]byte, n)
		for j := range body {
			body[j] = byte(r.Intn(256))
		}
		items := []item{{kind: 'r', a: []byte("/big"), b: []byte("big tag"), c: body}, {kind: 'r', a: []byte("/b"), c: []byte("x\n")}}
		// the first one is read one byte per Read call, the others through reads that do not divide the chunk size
		// k = one pass and one more delivery: the megabytes are printed twice, not three times
		out = append(out, c07KTok.ReplaceAllString(caseLine("uripost", items, layout{fnl: i%2 == 0}, i%2 == 1, nil), " k=3 ")+fmt.Sprintf(" rd=%d", []int{1, 4093, 65537, 3}[i%4]))
		if !thorough && i > 0 {
			continue // quick: the frame variant once
		}
		frame := append([]byte("POST /big HTTP/1.1\r\nHost: h\r\nContent-Length: "+strconv.Itoa(n)+"\r\n\r\n"), body...)
		fitems := []item{{kind: 'f', b: []byte("big tag"), c: frame}, {kind: 'f', c: []byte("GET / HTTP/1.0\r\n\r\n")}}
		out = append(out, c07KTok.ReplaceAllString(caseLine("raw", fitems, layout{fnl: true}, i%2 == 0, nil), " k=3 "))
	}
	// 6b a uri line (target / header value) larger than 1 MiB: no line format has a length limit
	nhuge := 1
	if thorough {
		nhuge = 4
	}
	for i := 0; i < nhuge; i++ {
		n := bigSizes[i%len(bigSizes)] + 11*i
		var items []item
		if i%2 == 0 {
			items = []item{{kind: 'r', a: []byte("/first"), b: []byte("t")}, {kind: 'r', a: append([]byte("/huge?q="), fill(r, n, alnum+"&=")...), b: []byte("huge tag")}, {kind: 'r', a: []byte("/last")}}
		} else {
			items = []item{{kind: 'h', a: []byte("X-Huge"), b: append(fill(r, n, alnum+" ;,="), 'x')}, {kind: 'r', a: []byte("/a"), b: []byte("t")}}
		}
		out = append(out, c07KTok.ReplaceAllString(caseLine("uri", items, layout{fnl: i%2 == 0}, i%2 == 1, nil), fmt.Sprintf(" k=%d ", countReqs(items)+1)))
	}
	// 10 mid-size bodies / frames: larger than the bufio.Reader buffer (4096: io.ReadFull through a bufio.Reader copies what is
	// buffered and then reads the rest straight from the file) but far below the 1 MiB chunk; followed by further entries
	midSizes := []int{4095, 4096, 4097, 5000 + r.Intn(3000), 8192, 12288 + r.Intn(9), 20000 + r.Intn(20000), 65537}
	nmid := 6
	if thorough {
		nmid = 80
	}
	for i := 0; i < nmid; i++ {
		n := midSizes[i%len(midSizes)]
		body := fill(r, n, alnum+"\n\n [:]\r")
		items := randItems(r, "uripost", 1+r.Intn(2))
		items = append(items, item{kind: 'r', a: []byte("/mid?n=" + strconv.Itoa(n)), b: []byte("mid " + strconv.Itoa(i)), c: body})
		items = append(items, randItems(r, "uripost", 1+r.Intn(2))...)
		out = append(out, caseLine("uripost", items, randLayout(r, flagsOf(r.Intn(32)), len(items)), i%3 == 1, randCfgSmall(r)))
		if i%2 == 0 {
			frame := append([]byte("PUT /mid HTTP/1.1\r\nHost: h\r\nContent-Length: "+strconv.Itoa(n)+"\r\n\r\n"), body...)
			fitems := append(randItems(r, "raw", 1), item{kind: 'f', b: []byte("mid"), c: frame})
			fitems = append(fitems, randItems(r, "raw", 1+r.Intn(2))...)
			out = append(out, caseLine("raw", fitems, randLayout(r, flagsOf(r.Intn(32)), len(fitems)), i%4 == 2, nil))
		}
	}
	// 12 a body / frame larger than the bufio buffer as the LAST bytes of the file (no final newline), the file's last Read
	// returning data together with io.EOF: the end of the input reaches the size-prefixed reader in the middle of a payload
	nlastbig := 4
	if thorough {
		nlastbig = 48
	}
	for i := 0; i < nlastbig; i++ {
		n := midSizes[(i+3)%len(midSizes)]
		body := fill(r, n, alnum+"\n\n [:]\r")
		items := randItems(r, "uripost", 1+r.Intn(2))
		items = append(items, item{kind: 'r', a: []byte("/lastbig?n=" + strconv.Itoa(n)), b: []byte("last " + strconv.Itoa(i)), c: body})
		lay := randLayout(r, flagsOf(r.Intn(16)), len(items)) // fnl = false
		line := caseLine("uripost", items, lay, i%3 == 1, randCfgSmall(r)) + " eofd=1"
		if i%2 == 1 {
			line += fmt.Sprintf(" rd=%d", []int{4096, 4097, 8192, 65536}[(i/2)%4])
		}
		out = append(out, line)
		if i%2 == 0 {
			frame := append([]byte("PUT /lastbig HTTP/1.1\r\nHost: h\r\nContent-Length: "+strconv.Itoa(n)+"\r\n\r\n"), body...)
			fitems := append(randItems(r, "raw", 1+r.Intn(2)), item{kind: 'f', b: []byte("last"), c: frame})
			out = append(out, caseLine("raw", fitems, randLayout(r, flagsOf(r.Intn(16)), len(fitems)), i%4 == 2, nil)+" eofd=1")
		}
	}
	// 11 many deliveries under concurrent consumers: 4 consumers drain dozens of passes of a short file (what an instance
	// pool does for the whole test); state shared between deliveries or between BuildRequest calls races here
	nconc := 6
	if thorough {
		nconc = 60
	}
	for _, f := range formats {
		for i := 0; i < nconc; i++ {
			items := randItems(r, f, 2+r.Intn(4))
			line := caseLine(f, items, randLayout(r, flagsOf(r.Intn(32)), len(items)), i%3 == 2, randCfgSmall(r))
			if strings.Contains(line, ">!") {
				continue
			}
			line = c07KTok.ReplaceAllString(line, fmt.Sprintf(" k=%d ", 40*countReqs(items)+1))
			out = append(out, line+lim0(i%4 == 1)+" cons=4")
		}
	}
	// 7 long lines: request lines, header lines, size lines and blank/padded lines longer than the buffers the readers
	// use (bufio.Reader 4096, the 64 KiB a default bufio.Scanner stops at, multiples of both): a line is ONE line whatever its
	// length in every format (uripost/raw: ReadString; uri: since /repo 66b1841 a Scanner without the default token limit)
	out = append(out, longStream(r, thorough)...)
	// 9 many entries: files much larger than the readers' buffers (entries and header lines straddle every buffer refill);
	// one pass and a bit, half of them preloaded (everything is decoded before the first request is built)
	nbig, maxEntries := 2, 400
	if thorough {
		nbig, maxEntries = 25, 3000
	}
	for _, f := range formats {
		for i := 0; i < nbig; i++ {
			n := 120 + r.Intn(maxEntries-120)
			items := randItems(r, f, n)
			lay := randLayout(r, flagsOf(r.Intn(32)), len(items))
			line := caseLine(f, items, lay, i%2 == 0, randCfgSmall(r))
			// k = one pass + a few: the observation repeats every request text once, not 2.5 times
			line = c07KTok.ReplaceAllString(line, fmt.Sprintf(" k=%d ", countReqs(items)+3))
			out = append(out, line)
		}
	}
	// 8 exhaustive: EVERY short byte string over the bytes the line formats give a meaning to (differential, model = code)
	out = append(out, enumStream(thorough)...)
	// 5 http/json: entity lists in three layouts
	nj := 400
	if thorough {
		nj = 15000
	}
	for i := 0; i < nj; i++ {
		n := 1 + r.Intn(6)
		var es []entity
		for j := 0; j < n; j++ {
			e := entity{
				host:   []string{"example.com", "h.x:8080", "10.0.0.1", "", "EXAMPLE.org"}[r.Intn(5)],
				method: methodPool[r.Intn(len(methodPool))],
				uri:    uriPool[r.Intn(len(uriPool)-3)], // origin-form only: the entity's host field carries the authority
				tag:    []string{"", "t", "my tag", " x ", "тег", "a\tb", "q\"uote", "new\nline"}[r.Intn(8)],
			}
			switch r.Intn(6) {
			case 0:
			case 1:
				e.body = `{"a": "b", "c": [1, 2]}`
			case 2:
				e.body = "line1\nline2\r\n\x00[\x7f"
			case 3:
				e.body = "тело   €"
			default:
				e.body = strings.ToValidUTF8(string(randBody(r)), "?")
			}
			seen := map[string]bool{}
			for r.Intn(2) == 0 {
				k := hkeyPool[r.Intn(len(hkeyPool))]
				ck := http.CanonicalHeaderKey(k)
				if seen[ck] {
					continue
				}
				seen[ck] = true
				e.hk = append(e.hk, k)
				e.hv = append(e.hv, hvalPool[r.Intn(len(hvalPool))])
			}
			es = append(es, e)
		}
		mode := []string{"line", "pretty", "array"}[r.Intn(3)]
		out = append(out, fmt.Sprintf("fmt=json k=%d pre=%d mode=%s sep=%d omit=%d ord=%d fnl=%d ents=%s",
			limitFor(n), map[bool]int{true: 1, false: 0}[r.Intn(6) == 0], mode, r.Intn(len(jsonSeps)), r.Intn(2), r.Intn(3), r.Intn(2), encEnts(es))+fmt.Sprintf(" jx=%d", r.Intn(16))+encCfg(randCfg(r)))
	}
	return out
}

// ---------------------------------------------------------------- long lines

const alnum = "abcdefghijklmnopqrstuvwxyz0123456789ABCDEFGHIJKLMNOPQRSTUVWXYZ"

// fill: n bytes drawn from alpha (position-dependent content: a truncated, shifted or re-split copy differs)
func fill(r *rand.Rand, n int, alpha string) []byte {
	if n < 0 {
		n = 0
	}
	b := make([]byte, n)
	for i := range b {
		b[i] = alpha[r.Intn(len(alpha))]
	}
	return b
}

// lineLen: length of the line of entry idx in the rendered file (without its newline)
func lineLen(format string, items []item, lay layout, idx int) int {
	l := lay.per[idx]
	return len(l.pre) + len(content(format, items[idx], l)) + len(l.post)
}

var longKinds = map[string][]string{
	"uri":     {"uri", "tag", "hval", "hkey", "pad", "blank"},
	"uripost": {"uri", "tag", "hval", "hkey", "pad", "blank"},
	"raw":     {"tag", "pad", "blank", "frame"},
}

// longCase: a short entry list in which ONE line has exactly `target` bytes (kind says which part of it is long);
// pos 0/1/2 = that line is the first / a middle / the last line of the file
func longCase(r *rand.Rand, format, kind string, target, pos int) string {
	before := randItems(r, format, 1+r.Intn(2))
	after := randItems(r, format, 1+r.Intn(2))
	switch pos {
	case 0:
		before = nil
	case 2:
		after = nil
	}
	short := func() item {
		switch format {
		case "uri":
			return item{kind: 'r', a: []byte("/after"), b: []byte("t a")}
		case "uripost":
			return item{kind: 'r', a: []byte("/after"), b: []byte("t a"), c: []byte("x\ny")}
		}
		return item{kind: 'f', b: []byte("t a"), c: []byte("GET /after HTTP/1.1\r\nHost: h\r\n\r\n")}
	}
	var long item
	switch format {
	case "uri":
		long = item{kind: 'r', a: []byte("/l"), b: []byte("tg")}
	case "uripost":
		long = item{kind: 'r', a: []byte("/l"), b: []byte("tg"), c: randBody(r)}
	case "raw":
		long = item{kind: 'f', b: []byte("tg"), c: randFrame(r)}
	}
	var tail []item // what follows the long line so that it has something to apply to
	mk := func(n int) {
		switch kind {
		case "uri":
			long.a = append([]byte("/s?q="), fill(r, n, alnum+"&=")...)
		case "tag":
			long.b = append(fill(r, n, alnum+"   []:"), 'x')
		case "hval":
			long = item{kind: 'h', a: []byte("X-Long"), b: append(append([]byte("v"), fill(r, n, alnum+" ;,=:[]")...), 'x')}
		case "hkey":
			long = item{kind: 'h', a: append([]byte("X-"), fill(r, n, alnum+"--")...), b: []byte("v")}
		case "frame":
			body := fill(r, 10, alnum)
			long.c = []byte("POST /f?q=" + string(fill(r, n/2, alnum)) + " HTTP/1.1\r\nHost: h\r\nX-L: " + string(fill(r, n-n/2, alnum+" ")) + "x\r\nContent-Length: 10\r\n\r\n" + string(body))
		}
	}
	mk(0)
	padWhere := r.Intn(3)
	if kind == "pad" && padWhere == 2 && format != "raw" {
		long = item{kind: 'h', a: []byte("X-Pad"), b: []byte("p v")} // the long padding sits inside `[key:   value]`
	}
	if long.kind == 'h' && pos != 2 {
		tail = []item{short()}
	}
	var items []item
	items = append(items, before...)
	idx := len(items)
	items = append(items, long)
	items = append(items, tail...)
	items = append(items, after...)
	lay := randLayout(r, flagsOf(r.Intn(32)), len(items))
	if pos == 2 && r.Intn(2) == 0 {
		lay.fnl = false
	}
	padAlpha := "   \t"
	switch kind {
	case "pad":
		l := &lay.per[idx]
		over := lineLen(format, items, lay, idx)
		n := target - over
		switch {
		case padWhere == 0:
			l.pre = append(l.pre, fill(r, n, padAlpha)...)
		case padWhere == 1 || items[idx].kind != 'h':
			l.post = append(fill(r, n, padAlpha), l.post...)
		default:
			f := []*[]byte{&l.i1, &l.i2, &l.i3, &l.i4}[r.Intn(4)]
			*f = append(*f, fill(r, n, padAlpha)...)
		}
	case "blank":
		b := fill(r, target, padAlpha)
		if pos == 0 {
			lay.lead = append([][]byte{b}, lay.lead...)
		} else {
			at := idx
			if pos == 1 && idx > 0 {
				at = idx - 1
			}
			lay.per[at].blanks = append(lay.per[at].blanks, b)
			if at == len(items)-1 {
				lay.fnl = true
			}
		}
	case "frame":
		mk(target)
		items[idx] = long
	default:
		over := lineLen(format, items, lay, idx)
		mk(target - over)
		items[idx] = long
		if d := target - lineLen(format, items, lay, idx); d != 0 { // the size prefix of nothing here depends on the filler
			mk(target - over + d)
			items[idx] = long
		}
	}
	return caseLine(format, items, lay, r.Intn(4) == 0, randCfgSmall(r))
}

// randCfgSmall: a `headers` option for one case in eight
func randCfgSmall(r *rand.Rand) []string {
	if r.Intn(2) == 0 {
		return nil
	}
	return randCfg(r)
}

var longBoundary = []int{4094, 4095, 4096, 4097, 4098, 8191, 8192, 8193, 16384, 16385, 32768, 32769, 65534, 65535, 65536, 65537, 131072, 131073}
var longBulk = []int{4200, 4500, 5000, 6000, 9000, 12289, 20000, 40000, 66000, 70001, 100000, 140000}

func longStream(r *rand.Rand, thorough bool) []string {
	var out []string
	for _, f := range []string{"uri", "uripost", "raw"} {
		for _, kind := range longKinds[f] {
			var targets []int
			if thorough {
				targets = append(append(targets, longBoundary...), longBulk...)
				for i := 0; i < 12; i++ {
					targets = append(targets, 4097+r.Intn(70000))
				}
			} else {
				// always one line between the two buffer sizes and one beyond the Scanner limit, plus two boundary values
				targets = []int{4097 + r.Intn(3000), 65536 + r.Intn(8000), longBoundary[r.Intn(len(longBoundary))], longBoundary[r.Intn(len(longBoundary))]}
				if kind == "frame" {
					targets = targets[:2]
				}
			}
			for i, t := range targets {
				pos := r.Intn(3)
				if thorough && i < len(longBoundary) {
					pos = i % 3
				}
				out = append(out, longCase(r, f, kind, t, pos))
			}
		}
	}
	// http/json: one object per line / pretty / array with a very long uri, body, tag, header value
	njl := 6
	if thorough {
		njl = 60
	}
	for i := 0; i < njl; i++ {
		n := []int{4097 + r.Intn(3000), 65536 + r.Intn(8000), 70001, 4096, 65536, 140000}[i%6]
		e := entity{host: "example.com", method: "POST", uri: "/j", tag: "t", body: "b"}
		switch (i / 6) % 4 {
		case 0:
			e.uri = "/s?q=" + string(fill(r, n, alnum))
		case 1:
			e.body = string(fill(r, n, alnum+"  \n\"{}[]"))
		case 2:
			e.tag = string(fill(r, n, alnum+" "))
		case 3:
			e.hk, e.hv = []string{"X-Long"}, []string{string(fill(r, n, alnum+" ;,="))}
		}
		if !thorough {
			switch i {
			case 1:
				e.body = string(fill(r, n, alnum+"  \n\"{}[]"))
			case 2:
				e.hk, e.hv = []string{"X-Long"}, []string{string(fill(r, n, alnum+" ;,="))}
			case 3:
				e.tag = string(fill(r, n, alnum+" "))
			}
		}
		es := []entity{{host: "h.x", method: "GET", uri: "/a", tag: "first"}, e, {host: "h.x", method: "", uri: "/b?c=d", tag: "last", body: "z"}}
		mode := []string{"line", "pretty", "array"}[r.Intn(3)]
		out = append(out, fmt.Sprintf("fmt=json k=%d pre=%d mode=%s sep=%d omit=%d ord=%d fnl=%d ents=%s",
			7, r.Intn(2), mode, r.Intn(len(jsonSeps)), r.Intn(2), r.Intn(3), r.Intn(2), encEnts(es))+fmt.Sprintf(" jx=%d", r.Intn(16)))
	}
	return out
}

// ---------------------------------------------------------------- exhaustive small files

// allStrings: every string over alpha with length <= n, shortest first
func allStrings(alpha string, n int) []string {
	out := []string{""}
	level := []string{""}
	for l := 1; l <= n; l++ {
		var next []string
		for _, s := range level {
			for i := 0; i < len(alpha); i++ {
				next = append(next, s+alpha[i:i+1])
			}
		}
		out = append(out, next...)
		level = next
	}
	return out
}

const enumFrame = "GET / HTTP/1.0\n\n" // 16 bytes

// allSeqs: every sequence of at most n elements of pool, joined with "\n", shortest first
func allSeqs(pool []string, n int) []string {
	out := []string{}
	level := []string{""}
	for l := 1; l <= n; l++ {
		var next []string
		for _, s := range level {
			for _, e := range pool {
				if l == 1 {
					next = append(next, e)
				} else {
					next = append(next, s+"\n"+e)
				}
			}
		}
		out = append(out, next...)
		level = next
	}
	return out
}

var enumLines = map[string][]string{
	"uri":     {"", " ", "/a", "/a t", " /b  t u\r", "[a:b]", "[A: c ]", "[a]", "[:b]", "[", "[Host:h]", "/a\r"},
	"uripost": {"", "0 /a", "1 /a t", "2 /b", "x", "[a:b]", "[", "3 /c t u ", "-1 /a", "ab", "1 /a\r"},
	"raw":     {"", "16 t", "16", "GET / HTTP/1.0", "0", "x", " 17 t u", "-1", "15 t\r"},
}

// enumStream: (a) every byte string up to a length over the bytes that mean something to the line formats,
// (b) every sequence of up to n lines from a pool of line shapes (entries, headers, blanks, broken ones; bodies and
// frames arise from the following lines), with and without the final newline. Differential: model = code.
func enumStream(thorough bool) []string {
	nb, nl := 3, 2
	if thorough {
		nb, nl = 4, 4
	}
	var out []string
	add := func(f, file string, i int) {
		s := fmt.Sprintf("fmt=%s k=4 pre=%d file=%s", f, i%2, hx([]byte(file)))
		if f == "raw" {
			s += " tbl=" + frameTable(candidateFrames([]byte(file)))
		}
		out = append(out, s)
	}
	nbURI := nb
	if thorough {
		nbURI = nb + 1
	}
	for i, s := range allStrings("/a \n\r[]:\t", nbURI) {
		add("uri", s, i)
	}
	for _, pfx := range []string{"", "1 /a t\n", "[a:b]\n"} {
		for i, s := range allStrings("013 \n/a[:]", nb-1) {
			add("uripost", pfx+s, i)
		}
	}
	for _, pfx := range []string{"", "16 t\n" + enumFrame} {
		for i, s := range allStrings("016 \nt-\r", nb-1) {
			add("raw", pfx+s, i)
			if pfx != "" {
				add("raw", s+pfx, i+1)
			}
		}
	}
	for _, f := range []string{"uri", "uripost", "raw"} {
		n := nl
		if thorough {
			n = nl + 1
		}
		for i, s := range allSeqs(enumLines[f], n) {
			add(f, s, i)
			add(f, s+"\n", i/2)
		}
	}
	return out
}

// ---------------------------------------------------------------- process isolation
//
// Some faults of the code under test cannot be recovered inside the process: the Go runtime ends the WHOLE program on
// `fatal error: concurrent map read and map write` / `concurrent map iteration and map write` (a header map shared
// between the decoder goroutine and the consumer), on stack exhaustion, out of memory, a deadlock of all goroutines or
// os.Exit. A driver that dies writes no cases.tsv and the check could only say "harness failed". Therefore every case
// runs in a worker child process (this same binary started with `-c07worker`, one case at a time, line protocol on
// stdin/stdout); a child that dies is an OBSERVATION of the case it was running,
//
//	FATAL <first line of the runtime's message>
//
// (the Lean driver judges it `fail:crash`), and a fresh child takes the next case.

const c07WorkerFlag = "-c07worker"
const c07ObsMark = "\x01OBS "

// c07Worker: the child side. Reads one input per line, answers one marked line per input.
func c07Worker() {
	in := bufio.NewReaderSize(os.Stdin, 1<<20)
	out := bufio.NewWriter(os.Stdout)
	for {
		line, err := in.ReadString('\n')
		if len(line) > 0 && line[len(line)-1] == '\n' {
			obs := c07RunRecover(line[:len(line)-1])
			_, _ = out.WriteString(c07ObsMark + drv.Clean(obs) + "\n")
			if out.Flush() != nil {
				return
			}
		}
		if err != nil {
			return
		}
	}
}

func c07RunRecover(input string) (obs string) {
	defer func() {
		if r := recover(); r != nil {
			obs = "PANIC " + drv.Clean(fmt.Sprint(r))
		}
	}()
	return c07Run(input)
}

// headBuffer keeps the first max bytes written to it (the runtime's message comes first, the goroutine dump after it)
type c07HeadBuffer struct {
	mu  sync.Mutex
	buf []byte
	max int
}

func (h *c07HeadBuffer) Write(p []byte) (int, error) {
	h.mu.Lock()
	if room := h.max - len(h.buf); room > 0 {
		if len(p) < room {
			room = len(p)
		}
		h.buf = append(h.buf, p[:room]...)
	}
	h.mu.Unlock()
	return len(p), nil
}

func (h *c07HeadBuffer) String() string {
	h.mu.Lock()
	defer h.mu.Unlock()
	return string(h.buf)
}

type c07Child struct {
	cmd    *exec.Cmd
	stdin  io.WriteCloser
	stdout *bufio.Reader
	stderr *c07HeadBuffer
}

func c07StartChild() (*c07Child, error) {
	exe, err := os.Executable()
	if err != nil {
		return nil, err
	}
	// replay (`-in <file>`: a handful of cases): `./check --replay` runs only this driver, not the one built with -race, so
	// the children of a replay are started from the race-detector build next to it when there is one
	// (.build/drive-C07<tag> -> .build/drive-C07-race<tag>); a failure that was a DATA RACE then reproduces
	if !c07Race && c07IsReplay() {
		dir, base := filepath.Split(exe)
		if sib := filepath.Join(dir, strings.Replace(base, "drive-C07", "drive-C07-race", 1)); sib != exe {
			if st, err := os.Stat(sib); err == nil && !st.IsDir() {
				exe = sib
			}
		}
	}
	cmd := exec.Command(exe, c07WorkerFlag)
	// GORACE only matters for the driver built with -race (props/C07.json "race": true): the first data race ends the child,
	// so that the race is attributed to the case that was running
	cmd.Env = append(os.Environ(), "GOTRACEBACK=single", "GORACE=halt_on_error=1 exitcode=66")
	stdin, err := cmd.StdinPipe()
	if err != nil {
		return nil, err
	}
	stdout, err := cmd.StdoutPipe()
	if err != nil {
		return nil, err
	}
	c := &c07Child{cmd: cmd, stdin: stdin, stdout: bufio.NewReaderSize(stdout, 1<<20), stderr: &c07HeadBuffer{max: 1 << 16}}
	cmd.Stderr = c.stderr
	if err := cmd.Start(); err != nil {
		return nil, err
	}
	return c, nil
}

func (c *c07Child) kill() {
	_ = c.stdin.Close()
	if c.cmd.Process != nil {
		_ = c.cmd.Process.Kill()
	}
	_ = c.cmd.Wait()
}

var c07KTok = regexp.MustCompile(` k=[0-9]+ `)

var c07Addr = regexp.MustCompile(`0x[0-9a-fA-F]+|\b[0-9]{3,}\b`)

// c07FatalLine: the runtime's own one-line description of why the process ended, without addresses and numbers
func c07FatalLine(stderr string, waitErr error) string {
	if i := strings.Index(stderr, "WARNING: DATA RACE"); i >= 0 {
		// the race detector's report: name the first two functions of the code under test that appear in it
		var where []string
		for _, l := range strings.Split(stderr[i:], "\n") {
			l = strings.TrimSpace(l)
			if strings.HasPrefix(l, "github.com/yandex/pandora/") && len(where) < 2 {
				if j := strings.LastIndexByte(l, '('); j > 0 {
					l = l[:j]
				}
				where = append(where, strings.TrimPrefix(l, "github.com/yandex/pandora/"))
			}
		}
		return "DATA RACE " + strings.Join(where, " / ")
	}
	for _, l := range strings.Split(stderr, "\n") {
		l = strings.TrimSpace(l)
		if strings.HasPrefix(l, "fatal error:") || strings.HasPrefix(l, "panic:") || strings.HasPrefix(l, "runtime:") || strings.HasPrefix(l, "SIG") {
			return drv.Trunc(c07Addr.ReplaceAllString(l, "N"), 160)
		}
	}
	if waitErr != nil {
		return "worker ended: " + c07Addr.ReplaceAllString(waitErr.Error(), "N")
	}
	return "worker ended without an answer"
}

func c07IsReplay() bool {
	for _, a := range os.Args[1:] {
		if a == "-in" || a == "--in" || strings.HasPrefix(a, "-in=") || strings.HasPrefix(a, "--in=") {
			return true
		}
	}
	return false
}

var c07Idle = make(chan *c07Child, 64)

const c07CaseTimeout = 25 * time.Second

// c07RunCase: one case = one run in a worker child. A replay of a case with concurrent consumers is scheduler-dependent:
// it is repeated (up to 40 times) until the process-ending fault shows again, otherwise the last observation stands.
func c07RunCase(input string) string {
	obs := c07RunIsolated(input)
	if c07IsReplay() && strings.Contains(input, " cons=") {
		for i := 0; i < 40 && !strings.HasPrefix(obs, "FATAL"); i++ {
			obs = c07RunIsolated(input)
		}
	}
	return obs
}

// c07RunIsolated: run one case in a worker child; the child is reused for the next case when it survived.
func c07RunIsolated(input string) string {
	var c *c07Child
	select {
	case c = <-c07Idle:
	default:
		var err error
		if c, err = c07StartChild(); err != nil {
			// no child processes available: run in this process (a fatal fault then ends the driver as before)
			return c07RunRecover(input)
		}
	}
	type answer struct {
		obs string
		err error
	}
	done := make(chan answer, 1)
	go func() {
		if _, err := io.WriteString(c.stdin, drv.Clean(input)+"\n"); err != nil {
			done <- answer{err: err}
			return
		}
		for {
			line, err := c.stdout.ReadString('\n')
			if strings.HasPrefix(line, c07ObsMark) && strings.HasSuffix(line, "\n") {
				done <- answer{obs: line[len(c07ObsMark) : len(line)-1]}
				return
			}
			if err != nil {
				done <- answer{err: err}
				return
			}
		}
	}()
	select {
	case a := <-done:
		if a.err == nil {
			select {
			case c07Idle <- c:
			default:
				c.kill()
			}
			return a.obs
		}
		_ = c.stdin.Close()
		waitErr := c.cmd.Wait()
		return "FATAL " + c07FatalLine(c.stderr.String(), waitErr)
	case <-time.After(c07CaseTimeout):
		c.kill()
		return "HANG"
	}
}

func c07StopChildren() {
	for {
		select {
		case c := <-c07Idle:
			c.kill()
		default:
			return
		}
	}
}

func main() {
	if len(os.Args) > 1 && os.Args[1] == c07WorkerFlag {
		c07Worker()
		return
	}
	defer c07StopChildren()
	drv.Main(&drv.Prop{
		ID:      "C07",
		Gen:     c07Gen,
		Run:     c07RunCase,
		Class:   c07Class,
		Workers: 8,
		Timeout: 30 * time.Second,
		Rule: "entry lists (header lines, requests with URIs incl. queries, binary/empty bodies, tags with spaces) rendered into uri/uripost/raw with " +
			"layout flags {blank lines, leading blanks, padding (a quarter of the padded layouts mix in Unicode white space: NEL, NBSP, U+1680, U+2000-200A, U+2028/9, U+202F, U+205F, U+3000), CRLF, final newline} (thorough: all 32 x sizes 1-6), limits of 2.5 or 4.5 passes or no limit at all, streaming and preload, " +
			"with and without a `headers` option; lines of 4 KiB to 140 KiB (target, tag, header key/value, padding, blank line; at and around 4096, 8192, ..., 65536, 131072) in every line format; " +
			"files of hundreds to thousands of entries; http/json entity lists in line/pretty/array layouts with leading/trailing white space, unknown fields and very long values; " +
			"a malformed stream (fixed witnesses, Unicode white space at line edges, byte mutations) and the exhaustive enumeration of all short byte strings / short line sequences; " +
			"limits on / next to pass boundaries and many passes, absolute-form targets, bodies of 4-64 KiB, a third of the files through short reads, one well-formed case in six drained by 2-4 concurrent consumers " +
			"(multiset of deliveries), one in four with 2-16 deliveries in flight before they are read; one file in five whose last Read returns its data together with io.EOF, bodies / frames of 4-64 KiB as the last bytes of such a file; " +
			"raw frames with header lines in several spellings, blanks around values, Connection / Cookie / mixed-case Host (what a frame says is read by the Lean side, the library table only covers exotic frames); uri / uripost / raw lines and bodies above 1 MiB; " +
			"a quarter of the cases builds the provider through the plugin registry from a config map (type uri/uripost/raw/http/json, or type http + decoder), a third of the plain uri cases hands the lines over in the `uris` option, runs of more than 65536 deliveries over three entries; " +
			"every case runs in a child process (a fault that ends the process is the observation FATAL of that case); " +
			"the real NewProvider+Run+Acquire is drained; non-trivial = at least one request or a decoder error",
	})
}
