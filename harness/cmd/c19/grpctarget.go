package main

// The hostile gRPC target of the C19 driver: the repo's examples/grpc/server service with reflection (the guns need
// it to warm up), behind an interceptor that is scripted by the call's metadata, and with a server codec that can put
// ARBITRARY bytes on the wire as the response message:
//
//	x-code: N        answer with status code N (any uint32)
//	x-hang: 1        never answer (the gun's timeout ends the call)
//	x-garbage: hex   status OK, the response message is these raw bytes (not a protobuf message: the client cannot decode it)
//	x-big: N         status OK, a well-formed response of about N bytes (beyond the client's 4 MiB receive limit)
//	x-list: N        (method List) status OK, a ListResponse with N items
//	x-details: N     status N with a `grpc-status-details-bin` trailer that is not a protobuf Status
//	stopAfter k      the whole server goes away while it handles its k-th call

import (
	"context"
	"encoding/hex"
	"io"
	"log/slog"
	"strconv"
	"strings"
	"sync"
	"sync/atomic"
	"time"

	protov1 "github.com/golang/protobuf/proto"
	"github.com/yandex/pandora/examples/grpc/server"
	"google.golang.org/grpc"
	"google.golang.org/grpc/codes"
	"google.golang.org/grpc/metadata"
	"google.golang.org/grpc/reflection"
	"google.golang.org/grpc/status"
	protov2 "google.golang.org/protobuf/proto"
)

type rawBytes struct{ b []byte }

type hostileCodec struct{}

func (hostileCodec) Marshal(v any) ([]byte, error) {
	if r, ok := v.(*rawBytes); ok {
		return r.b, nil
	}
	return protov2.Marshal(protov1.MessageV2(v))
}
func (hostileCodec) Unmarshal(data []byte, v any) error {
	return protov2.Unmarshal(data, protov1.MessageV2(v))
}
func (hostileCodec) Name() string { return "proto" }

// The shared scripted gRPC servers. The gRPC guns have no Close(): every instance of every run leaves its connection
// open, client and server end in this process. A server is therefore RETIRED after grpcUsesPerServer runs and stopped
// (which closes all those connections) as soon as the last run using it has ended; otherwise a thorough tier runs
// the driver out of descriptors.
const (
	grpcServers       = 8
	grpcUsesPerServer = 60
)

type grpcShared struct {
	addr   string
	stop   func()
	uses   int
	active int
}

var (
	sharedGrpcMu   sync.Mutex
	sharedGrpcPool []*grpcShared
	sharedGrpcTurn int
)

// acquireGrpc hands out one of a few scripted gRPC servers (every gun instance opens its own connection: one server
// port would run out of client ports); release must be called when the run is over.
func acquireGrpc() (addr string, release func()) {
	sharedGrpcMu.Lock()
	defer sharedGrpcMu.Unlock()
	if len(sharedGrpcPool) < grpcServers {
		a, stop := newHostileGrpc(0)
		sharedGrpcPool = append(sharedGrpcPool, &grpcShared{addr: a, stop: stop})
	}
	sharedGrpcTurn++
	i := sharedGrpcTurn % len(sharedGrpcPool)
	g := sharedGrpcPool[i]
	g.uses++
	g.active++
	if g.uses >= grpcUsesPerServer {
		// retire: later runs get a fresh server in this slot
		a, stop := newHostileGrpc(0)
		sharedGrpcPool[i] = &grpcShared{addr: a, stop: stop}
	}
	return g.addr, func() {
		sharedGrpcMu.Lock()
		g.active--
		retired := g.uses >= grpcUsesPerServer && g.active == 0
		sharedGrpcMu.Unlock()
		if retired {
			go g.stop()
		}
	}
}

func newHostileGrpc(stopAfter int) (addr string, stop func()) {
	var calls atomic.Int64
	var gs *grpc.Server
	scripted := func(ctx context.Context, method string) (bool, any, error) {
		if !strings.HasPrefix(method, "/target.") {
			return false, nil, nil
		}
		if n := calls.Add(1); stopAfter > 0 && int(n) == stopAfter {
			go gs.Stop()
			<-ctx.Done()
			return true, nil, status.Error(codes.Unavailable, "going away")
		}
		md, _ := metadata.FromIncomingContext(ctx)
		if v := md.Get("x-hang"); len(v) > 0 {
			select {
			case <-ctx.Done():
			case <-time.After(20 * time.Second):
			}
			return true, nil, status.Error(codes.DeadlineExceeded, "hang")
		}
		if v := md.Get("x-garbage"); len(v) > 0 {
			b, _ := hex.DecodeString(v[0])
			return true, &rawBytes{b: b}, nil
		}
		if v := md.Get("x-list"); len(v) > 0 && strings.HasSuffix(method, "/List") {
			n, _ := strconv.Atoi(v[0])
			r := &server.ListResponse{}
			for k := 0; k < n; k++ {
				r.Result = append(r.Result, &server.ListItem{ItemId: int64(k + 1)})
			}
			return true, r, nil
		}
		if v := md.Get("x-big"); len(v) > 0 {
			n, _ := strconv.Atoi(v[0])
			return true, &server.HelloResponse{Hello: strings.Repeat("x", n)}, nil
		}
		if v := md.Get("x-details"); len(v) > 0 {
			n, _ := strconv.ParseUint(v[0], 10, 32)
			_ = grpc.SetTrailer(ctx, metadata.Pairs("grpc-status-details-bin", "\x01\x02 not a status \xff"))
			return true, nil, status.Error(codes.Code(n), "scripted with broken details")
		}
		if v := md.Get("x-code"); len(v) > 0 {
			n, err := strconv.ParseUint(v[0], 10, 32)
			if err == nil && n != 0 {
				return true, nil, status.Error(codes.Code(n), "scripted")
			}
		}
		return false, nil, nil
	}
	gs = grpc.NewServer(grpc.ForceServerCodec(hostileCodec{}),
		grpc.UnaryInterceptor(func(ctx context.Context, req any, info *grpc.UnaryServerInfo, h grpc.UnaryHandler) (any, error) {
			if done, resp, err := scripted(ctx, info.FullMethod); done {
				return resp, err
			}
			return h(ctx, req)
		}))
	srv := server.NewServer(slog.New(slog.NewTextHandler(io.Discard, nil)), 1)
	server.RegisterTargetServiceServer(gs, srv)
	reflection.Register(gs)
	l := listenRetry()
	go func() { _ = gs.Serve(l) }()
	return l.Addr().String(), gs.Stop
}

// grpcKindMeta is the metadata that scripts a call kind, and the gRPC status code the gun must see.
//
//	ok | code:N | hang | garbage | foreign | empty | big | details:N
func grpcKindMeta(kind, arg string) (md map[string]string, code int) {
	switch kind {
	case "ok":
		return nil, 0
	case "code":
		n, _ := strconv.Atoi(arg)
		return map[string]string{"x-code": arg}, n
	case "hang":
		return map[string]string{"x-hang": "1"}, 4
	case "garbage":
		// field 1, length 5, one byte of payload: a truncated message -> Internal
		n, _ := strconv.Atoi(arg)
		return map[string]string{"x-garbage": []string{"0a0561", "ffffffffffffffffffffff01", "0a", "0b"}[n%4]}, 13
	case "foreign":
		// field 15 varint + field 14 bytes: unknown fields of a well-formed message -> OK
		return map[string]string{"x-garbage": "7801720361626300"[:14]}, 0
	case "empty":
		return map[string]string{"x-garbage": ""}, 0
	case "big":
		return map[string]string{"x-big": strconv.Itoa(5 << 20)}, 8
	case "details":
		n, _ := strconv.Atoi(arg)
		return map[string]string{"x-details": arg}, n
	}
	panic("bad grpc kind " + kind)
}
