package main

// Round 3: RESPONSE-DERIVED VARIABLES. What a postprocessor stored from an earlier response (a JSON list of any
// length, the values of an xpath node set, a header value) is read again by the NEXT steps' preprocessors
// (`request.<step>.postprocessor.<var>[next|rand|last|N]`, lib/mp GetMapValue / extractFromSlice / calcIndex), handed to
// the template functions (`randString(request.…)`, `randInt(request.…)`) and rendered by the templaters. All of that runs
// inside Shoot, on data the peer chose.
//
//   - c19ParseScript: the script language of harness/shot plus body classes with lists of ANY length
//     bjl<n>  {"result":"ok","items":[0,…,n-1],"names":["e0",…],"objs":[{"id":0},…],"n":"<n>","a":{"b":"c"}}
//     bhl<n>  an HTML page with n <li class="it">e<k></li> elements
//     bjt<hex> {"v": <the text as a JSON string>, "l": [<the text>], "n": "<its length>"}
//   - step tokens (engine runs):  P~<src>~<i+hex index text|->[~<sub>]  preprocessor mapping x = request.<src>.postprocessor.v[<index>][.<sub>]
//     F~<fn>~<src>   preprocessor mapping x = <fn>(request.<src>.postprocessor.v)  (fn: rs randString(v) | rs2 randString(3, v) |
//     ri randInt(v) | ri2 randInt(v, 10) | ri3 randInt(-5, v))
//     T~<src>~<n>    the URI renders {{index .request.<src>.postprocessor.v <n>}}
//     TH             the step uses the html templater
//     UH~<src> / UB~<src>  a request header / the request body (POST) renders {{.request.<src>.postprocessor.v}}
//   - k=idx: direct differential of mp.GetMapValue on variable trees described level by level (runIdx)

import (
	"bytes"
	"encoding/json"
	"fmt"
	"math/rand"
	"strconv"
	"strings"

	"verifharness/shot"

	"github.com/yandex/pandora/lib/mp"
)

func jsonListBody(n int) []byte {
	var items, names, objs []string
	for k := 0; k < n; k++ {
		items = append(items, strconv.Itoa(k))
		names = append(names, fmt.Sprintf("%q", fmt.Sprintf("e%d", k)))
		objs = append(objs, fmt.Sprintf(`{"id":%d}`, k))
	}
	return []byte(fmt.Sprintf(`{"result":"ok","items":[%s],"names":[%s],"objs":[%s],"n":"%d","a":{"b":"c"}}`,
		strings.Join(items, ","), strings.Join(names, ","), strings.Join(objs, ","), n))
}

func htmlListBody(n int) []byte {
	var b bytes.Buffer
	b.WriteString(`<html><head><title>T</title></head><body><ul>`)
	for k := 0; k < n; k++ {
		fmt.Fprintf(&b, `<li class="it">e%d</li>`, k)
	}
	b.WriteString(`</ul><div class="data">v1</div><a href="/x">one</a></body></html>`)
	return b.Bytes()
}

// c19ParseScript parses a script of the C19 driver: the fields harness/shot knows plus the list body classes.
func c19ParseScript(s string) (shot.Script, error) {
	var rest []string
	var body []byte
	hasBody := false
	for _, f := range strings.Split(s, ".") {
		switch {
		case strings.HasPrefix(f, "bjt"):
			body = jsonStringBody(unhx(f[3:]))
			hasBody = true
		case strings.HasPrefix(f, "bjl") || strings.HasPrefix(f, "bhl"):
			n, err := strconv.Atoi(f[3:])
			if err != nil || n < 0 || n > 100000 {
				return shot.Script{}, fmt.Errorf("bad list body %q", f)
			}
			if f[1] == 'j' {
				body = jsonListBody(n)
			} else {
				body = htmlListBody(n)
			}
			hasBody = true
		default:
			rest = append(rest, f)
		}
	}
	sc, err := shot.ParseScript(strings.Join(rest, "."))
	if err != nil {
		return sc, err
	}
	if hasBody {
		sc.Body = body
	}
	return sc, nil
}

// ---------------------------------------------------------------- scenario files with templated headers and bodies

// c19Step is shot.ScnStep plus what the templaters render besides the URI.
type c19Step struct {
	shot.ScnStep
	Method  string
	Headers [][2]string // extra request headers (templates)
	Body    string      // request body (template); "" = none
}

func c19ScenarioHCL(scn string, steps []c19Step) string {
	var b strings.Builder
	var names []string
	for _, s := range steps {
		method := s.Method
		if method == "" {
			method = "GET"
		}
		fmt.Fprintf(&b, "request %s {\n  method = %s\n  uri = %s\n  headers = {\n    X-Script = %s\n", shot.HCLString(s.Name), shot.HCLString(method), shot.HCLString(s.URI), shot.HCLString(s.Script))
		for _, h := range s.Headers {
			fmt.Fprintf(&b, "    %s = %s\n", h[0], shot.HCLString(h[1]))
		}
		b.WriteString("  }\n")
		if s.Body != "" {
			fmt.Fprintf(&b, "  body = %s\n", shot.HCLString(s.Body))
		}
		for _, p := range s.PP {
			b.WriteString("  " + p + "\n")
		}
		b.WriteString("}\n")
		names = append(names, shot.HCLString(s.Name))
	}
	fmt.Fprintf(&b, "scenario %s {\n  requests = [%s]\n}\n", shot.HCLString(scn), strings.Join(names, ", "))
	return b.String()
}

// jsonStringBody: {"v": <text as a JSON string>, "l": [<text>], "n": "<len>"} — a JSON string may hold what a header cannot
// (CR / LF, NUL, any UTF-8).
func jsonStringBody(text string) []byte {
	q, _ := json.Marshal(text)
	return []byte(fmt.Sprintf(`{"v":%s,"l":[%s],"n":"%d"}`, q, q, len(text)))
}

// ---------------------------------------------------------------- preprocessor / template tokens of a scenario step

var tplFuncSpelling = map[string]string{
	"rs":  "randString(%s)",
	"rs2": "randString(3, %s)",
	"ri":  "randInt(%s)",
	"ri2": "randInt(%s, 10)",
	"ri3": "randInt(-5, %s)",
}

// preToken renders a P~ / F~ token of step `name`: the HCL preprocessor block and what the URI appends.
func preToken(tok, name string) (block, uri string) {
	f := strings.Split(tok, "~")
	var mapping string
	switch f[0] {
	case "P": // P~<src>~<hex index|->[~sub]
		mapping = "request." + f[1] + ".postprocessor.v"
		if f[2] != "-" {
			mapping += "[" + unhx(f[2][1:]) + "]"
		}
		if len(f) > 3 {
			mapping += "." + f[3]
		}
	case "F": // F~<fn>~<src>
		sp, ok := tplFuncSpelling[f[1]]
		if !ok {
			panic("bad template function " + tok)
		}
		mapping = fmt.Sprintf(sp, "request."+f[2]+".postprocessor.v")
	default:
		panic("bad pre token " + tok)
	}
	block = fmt.Sprintf("preprocessor {\n    mapping = {\n      x = %s\n    }\n  }", shot.HCLString(mapping))
	return block, "?x={{.request." + name + ".preprocessor.x}}"
}

// ---------------------------------------------------------------- k=idx: mp.GetMapValue on described variable trees

// idxIter: Next is scripted (the k-th use of a path by the shared iterator of a run), Rand is the real one.
type idxIter struct {
	*mp.NextIterator
	next int
}

func (i idxIter) Next(string) int { return i.next }

type idxLevel struct {
	name  string
	index string // "" = no index
	has   bool
	holds string
}

func parseIdxLevels(s string) []idxLevel {
	var out []idxLevel
	for _, l := range strings.Split(s, ";") {
		f := strings.Split(l, "|")
		if len(f) != 3 {
			panic("bad level " + l)
		}
		lv := idxLevel{name: f[0], holds: f[2]}
		if f[1] != "-" {
			lv.has, lv.index = true, unhx(f[1][1:])
		}
		out = append(out, lv)
	}
	return out
}

// buildIdx builds the map the levels i.. are looked up in. `mark` >= 0: the map is element `mark` of a list.
func buildIdx(lv []idxLevel, i int, mark int) map[string]any {
	m := map[string]any{}
	if mark >= 0 {
		m["#"] = strconv.Itoa(mark)
	}
	if i >= len(lv) {
		return m
	}
	l := lv[i]
	h := l.holds
	switch {
	case h == "missing":
	case h == "sc":
		m[l.name] = "S"
	case h == "num":
		m[l.name] = 1.5
	case h == "nil":
		m[l.name] = nil
	case h == "map":
		m[l.name] = buildIdx(lv, i+1, -1)
	case h == "nilmap":
		m[l.name] = map[string]any(nil)
	case strings.HasPrefix(h, "L"):
		n, err := strconv.Atoi(h[2:])
		if err != nil {
			panic("bad list " + h)
		}
		switch h[1] {
		case 'a': // []any of scalars
			v := make([]any, n)
			for k := range v {
				v[k] = fmt.Sprintf("e%d", k)
			}
			m[l.name] = v
		case 'A': // []any of maps
			v := make([]any, n)
			for k := range v {
				v[k] = buildIdx(lv, i+1, k)
			}
			m[l.name] = v
		case 'M':
			v := make([]map[string]any, n)
			for k := range v {
				v[k] = buildIdx(lv, i+1, k)
			}
			m[l.name] = v
		case 'm': // []map[string]string: the next level (if any) is a string or missing
			v := make([]map[string]string, n)
			for k := range v {
				v[k] = map[string]string{"#": strconv.Itoa(k)}
				if i+1 < len(lv) && lv[i+1].holds == "sc" {
					v[k][lv[i+1].name] = "S"
				}
			}
			m[l.name] = v
		case 's':
			v := make([]string, n)
			for k := range v {
				v[k] = fmt.Sprintf("e%d", k)
			}
			m[l.name] = v
		case 'n': // what var/xpath stores for an expression without matches: a nil []string
			m[l.name] = []string(nil)
		case 'i':
			v := make([]int, n)
			for k := range v {
				v[k] = k
			}
			m[l.name] = v
		case 'j':
			v := make([]int64, n)
			for k := range v {
				v[k] = int64(k)
			}
			m[l.name] = v
		case 'f':
			v := make([]float64, n)
			for k := range v {
				v[k] = float64(k)
			}
			m[l.name] = v
		case 'b': // not one of the slice types extractFromSlice accepts
			m[l.name] = make([]bool, n)
		case 'u':
			m[l.name] = make([]uint8, n)
		default:
			panic("bad list type " + h)
		}
	default:
		panic("bad holds " + h)
	}
	return m
}

// canonIdx prints a looked-up value: which element it is, not its address.
func canonIdx(v any) string {
	switch x := v.(type) {
	case nil:
		return "nil"
	case string:
		return "s:" + x
	case int:
		return "e" + strconv.Itoa(x)
	case int64:
		return "e" + strconv.Itoa(int(x))
	case float64:
		if x == 1.5 {
			return "num"
		}
		return "e" + strconv.Itoa(int(x))
	case map[string]any:
		if mk, ok := x["#"].(string); ok {
			return "m:" + mk
		}
		return "m:-"
	case []any:
		return "l:" + strconv.Itoa(len(x))
	case []string:
		return "l:" + strconv.Itoa(len(x))
	}
	return fmt.Sprintf("?%T", v)
}

func runIdx(m map[string]string) string {
	lv := parseIdxLevels(m["lv"])
	var path []string
	for _, l := range lv {
		seg := l.name
		if l.has {
			seg += "[" + l.index + "]"
		}
		path = append(path, seg)
	}
	vars := buildIdx(lv, 0, -1)
	it := idxIter{mp.NewNextIterator(int64(atoi(m["rs"], 1))), atoi(m["nx"], 0)}
	v, err := mp.GetMapValue(vars, strings.Join(path, "."), it)
	if err != nil {
		return "err"
	}
	out := canonIdx(v)
	// an element picked by [rand]: any element of the list is right
	last := -1
	for i, l := range lv {
		if l.has && strings.HasPrefix(l.holds, "L") {
			last = i
		}
	}
	if last >= 0 && strings.ToLower(strings.TrimSpace(lv[last].index)) == "rand" {
		n, _ := strconv.Atoi(lv[last].holds[2:])
		for _, pfx := range []string{"s:e", "e", "m:"} {
			if strings.HasPrefix(out, pfx) {
				if k, err := strconv.Atoi(out[len(pfx):]); err == nil {
					if k >= 0 && k < n {
						out = pfx + "*"
					}
					break
				}
			}
		}
	}
	return "ok:" + out
}

// ---------------------------------------------------------------- generation

var idxTexts = []string{"next", "rand", "last", "0", "1", "2", "-1", "5", "-7", " NEXT ", "Last", "RAND", "foo", "", "1.5", "9223372036854775807", "-9223372036854775808", "99999999999999999999"}

func randIdxText(r *rand.Rand) string {
	if r.Intn(4) == 0 {
		return strconv.Itoa(r.Intn(41) - 20)
	}
	return idxTexts[r.Intn(len(idxTexts))]
}

// ixField encodes an index text of an input line: "-" = the segment has no index, else "i" + hex of the text.
func ixField(text string) string { return "i" + hx(text) }

func randIdxCase(r *rand.Rand) string {
	depth := 1 + r.Intn(3)
	var lv []string
	prevStrMap := false
	for i := 0; i < depth; i++ {
		last := i == depth-1
		name := []string{"v", "items", "a", "x"}[r.Intn(4)]
		n := []int{0, 0, 1, 2, 3, 7}[r.Intn(6)]
		idx, holds := "-", ""
		switch {
		case prevStrMap:
			// the element of a []map[string]string holds strings only
			holds = []string{"sc", "missing"}[r.Intn(2)]
		case r.Intn(3) != 0:
			idx = ixField(randIdxText(r))
			lists := []string{"La", "LA", "LM", "Lm", "Ls", "Li", "Lj", "Lf", "Ln"}
			if !last && r.Intn(4) != 0 {
				lists = []string{"LA", "LM", "Lm"} // mostly a level the path can continue through
			}
			if r.Intn(12) == 0 {
				lists = []string{"Lb", "Lu"}
			}
			holds = lists[r.Intn(len(lists))] + strconv.Itoa(n)
			if r.Intn(10) == 0 {
				holds = []string{"sc", "nil", "map", "missing", "num", "nilmap"}[r.Intn(6)]
			}
		default:
			holds = []string{"map", "map", "sc", "nil", "missing", "num", "La" + strconv.Itoa(n), "nilmap"}[r.Intn(8)]
			if !last && r.Intn(4) != 0 {
				holds = "map"
			}
		}
		prevStrMap = strings.HasPrefix(holds, "Lm")
		lv = append(lv, name+"|"+idx+"|"+holds)
	}
	return fmt.Sprintf("k=idx nx=%d rs=%d lv=%s", []int{0, 0, 1, 2, 3, 7, 100, 1 << 40}[r.Intn(8)], 1+r.Intn(1000), strings.Join(lv, ";"))
}

// genVars: the cases of this file.
func genVars(r *rand.Rand, thorough bool) []string {
	var out []string
	mul := func(q, t int) int {
		if thorough {
			return t
		}
		return q
	}
	// 1. GetMapValue: every index text x every list type x short lengths, one level ...
	lens := []int{0, 1, 2, 3}
	if thorough {
		lens = []int{0, 1, 2, 3, 4, 7, 16}
	}
	for _, ty := range []string{"La", "LA", "LM", "Lm", "Ls", "Li", "Lj", "Lf", "Ln", "Lb"} {
		for _, n := range lens {
			for _, ix := range idxTexts {
				for _, nx := range []int{0, 1, 5} {
					if nx != 0 && strings.ToLower(strings.TrimSpace(ix)) != "next" {
						continue
					}
					out = append(out, fmt.Sprintf("k=idx nx=%d rs=1 lv=v|%s|%s%d", nx, ixField(ix), ty, n))
				}
			}
		}
	}
	// ... and random paths of up to three levels
	for i := 0; i < mul(1500, 60000); i++ {
		out = append(out, randIdxCase(r))
	}
	// 2. engine runs: a list stored from the response of st0 is indexed by the preprocessor of st1 — every way of storing
	// a list x every length x every index text
	type src struct{ body, pp, sub string }
	srcs := []src{{"jl%d", "J~items", ""}, {"jl%d", "J~names", ""}, {"jl%d", "J~objs", "id"}, {"jl%d", "J~objs", ""}, {"hl%d", "X~lis", ""}}
	engLens := []int{0, 1, 2, 3}
	if thorough {
		engLens = []int{0, 1, 2, 3, 5, 9}
	}
	engIdx := []string{"next", "rand", "last", "0", "1", "-1", "5", " NEXT ", "Last", "foo", "-"}
	for _, s := range srcs {
		for _, n := range engLens {
			for _, ix := range engIdx {
				tok := "P~st0~" + ixField(ix)
				if ix == "-" {
					tok = "P~st0~-"
				}
				if s.sub != "" {
					tok += "~" + s.sub
				}
				sc := fmt.Sprintf("s200.b"+s.body, n)
				inst := 1
				if thorough {
					inst = 1 + r.Intn(3)
				}
				out = append(out, fmt.Sprintf("k=run gun=http/scenario tgt=live inst=%d n=3 steps=st0,%s,r200,%s;st1,s200.bjson,r200,%s;st2,s404,r404,-", inst, sc, s.pp, tok))
			}
		}
	}
	// a string / scalar / missing variable indexed like a list
	for _, ix := range []string{"next", "rand", "last", "0"} {
		out = append(out, fmt.Sprintf("k=run gun=http/scenario tgt=live inst=1 n=2 steps=st0,s200.bjson.hX-Val~616263,r200,H~X-Val;st1,s200.bjson,r200,P~st0~%s;st2,s404,r404,-", ixField(ix)))
		out = append(out, fmt.Sprintf("k=run gun=http/scenario tgt=live inst=1 n=2 steps=st0,s200.bjson,r200,J~result;st1,s200.bjson,r200,P~st0~%s;st2,s404,r404,-", ixField(ix)))
		out = append(out, fmt.Sprintf("k=run gun=http/scenario tgt=live inst=1 n=2 steps=st0,s200.bjson,r200,-;st1,s200.bjson,r200,P~st0~%s;st2,s404,r404,-", ixField(ix)))
		out = append(out, fmt.Sprintf("k=run gun=http/scenario tgt=live inst=1 n=2 steps=st0,s200.bjson,r200,J~items;st1,s200.bjson,r200,P~stX~%s;st2,s404,r404,-", ixField(ix)))
	}
	// 3. the response decides the argument of a template function of the next step's preprocessor
	fnVals := []string{"5", "0", "1", "-3", "abc", "1e3", " 7", "007", "+4", "100000", "99999999999999999", "9223372036854775807", "-9223372036854775808", "9223372036854775808", "70368744177665", "4611686018427387904"}
	for _, fn := range []string{"rs", "rs2", "ri", "ri2", "ri3"} {
		for _, v := range fnVals {
			out = append(out, fmt.Sprintf("k=run gun=http/scenario tgt=live inst=1 n=2 steps=st0,s200.bjson.hX-Val~%s,r200,H~X-Val;st1,s200.bjson,r200,F~%s~st0;st2,s404,r404,-", hx(v), fn))
		}
		// a list, a JSON number, a JSON object, nothing at all as the argument
		for _, pp := range []string{"J~items", "J~n", "J~a", "J~objs", "-"} {
			out = append(out, fmt.Sprintf("k=run gun=http/scenario tgt=live inst=1 n=2 steps=st0,s200.bjl2,r200,%s;st1,s200.bjson,r200,F~%s~st0;st2,s404,r404,-", pp, fn))
		}
	}
	// 4. templates that index a response-derived list (text and html templater)
	for _, n := range []int{0, 1, 3} {
		for _, k := range []int{0, 2, -1} {
			for _, th := range []string{"", "+TH"} {
				out = append(out, fmt.Sprintf("k=run gun=http/scenario tgt=live inst=1 n=2 steps=st0,s200.bjl%d,r200,J~names;st1,s200.bjson,r200,T~st0~%d%s;st2,s404,r404,-", n, k, th))
				out = append(out, fmt.Sprintf("k=run gun=http/scenario tgt=live inst=1 n=2 steps=st0,s200.bhl%d,r200,X~lis;st1,s200.bjson,r200,T~st0~%d%s;st2,s404,r404,-", n, k, th))
			}
		}
	}
	// 4b. a response-derived STRING of any content (a JSON string may hold CR / LF / NUL / quotes / template syntax) rendered
	// into the next request's header, body and URI, stored as a string and as a one-element list
	oddTexts := []string{"abc", "a b\tc", "x\r\nInjected: 1", "\x00\x01", "{{.request}}", "\"}, \"z\": {", "%zz", "é\xff", strings.Repeat("k", 70000), ""}
	for _, txt := range oddTexts {
		for _, use := range []string{"UH~st0", "UB~st0", "U", "UH~st0+UB~st0+TH", "P~st0~" + ixField("last")} {
			for _, pp := range []string{"J~v", "J~l"} {
				out = append(out, fmt.Sprintf("k=run gun=http/scenario tgt=live inst=1 n=2 steps=st0,s200.bjt%s,r200,%s;st1,s200.bjson,r200,%s;st2,s404,r404,-", hx(txt), pp, use))
			}
		}
	}
	// 5. random scenarios: several steps store lists, later steps index what earlier ones stored; several instances share
	// the `next` iterator
	for i := 0; i < mul(120, 5000); i++ {
		k := 2 + r.Intn(mul(3, 5))
		var steps []string
		for j := 0; j < k; j++ {
			n := []int{0, 0, 1, 2, 3, 7}[r.Intn(6)]
			s := srcs[r.Intn(len(srcs))]
			sc := fmt.Sprintf("s%d.b"+s.body, []int{200, 200, 200, 404, 500}[r.Intn(5)], n)
			pps := []string{s.pp}
			if r.Intn(4) == 0 {
				sc = randScript(r)
				pps = []string{randPP(r)}
			}
			if j > 0 && r.Intn(3) != 0 {
				from := r.Intn(j)
				switch r.Intn(8) {
				case 0:
					pps = append(pps, fmt.Sprintf("F~%s~st%d", []string{"rs", "rs2", "ri", "ri2", "ri3"}[r.Intn(5)], from))
				case 1:
					pps = append(pps, fmt.Sprintf("T~st%d~%d", from, r.Intn(4)-1))
				default:
					tok := fmt.Sprintf("P~st%d~%s", from, ixField(engIdx[r.Intn(len(engIdx)-1)]))
					if r.Intn(6) == 0 {
						tok += "~id"
					}
					pps = append(pps, tok)
				}
			}
			if r.Intn(10) == 0 {
				pps = append(pps, "TH")
			}
			steps = append(steps, fmt.Sprintf("st%d,%s,%s,%s", j, sc, truthOf(sc, clientConf{}), strings.Join(pps, "+")))
		}
		opts := ""
		if r.Intn(4) == 0 {
			opts, _ = randOpts(r, true)
			opts = strings.ReplaceAll(strings.ReplaceAll(opts, " redir=1", ""), " gz=1", "")
		}
		out = append(out, fmt.Sprintf("k=run gun=http/scenario tgt=live inst=%d n=%d%s steps=%s", []int{1, 1, 2, 3}[r.Intn(4)], 1+r.Intn(mul(4, 8)), opts, strings.Join(steps, ";")))
	}
	// 6. the gRPC scenario gun: a preprocessor ("prepare") reads a field of an earlier RESPONSE MESSAGE — a repeated field
	// of any length (proto3 JSON omits an empty one), a string, a field of a call that failed
	for _, n := range []int{0, 1, 3} {
		for _, ix := range []string{"next", "rand", "last", "0", "-1", "7", "foo", "-"} {
			f := "-"
			if ix != "-" {
				f = ixField(ix)
			}
			out = append(out, fmt.Sprintf("k=run gun=grpc/scenario tgt=grpc inst=1 n=2 calls=tg0,list,%d,-;tg1,ok,0,Pg~0~result~%s~itemId;tg2,ok,0,-", n, f))
			if thorough {
				out = append(out, fmt.Sprintf("k=run gun=grpc/scenario tgt=grpc inst=2 n=3 calls=tg0,list,%d,-;tg1,ok,0,Pg~0~result~%s;tg2,ok,0,Pg~1~hello~%s", n, f, f))
			}
		}
	}
	for _, ix := range []string{"next", "rand", "last", "0", "-"} {
		f := "-"
		if ix != "-" {
			f = ixField(ix)
		}
		for _, k0 := range []string{"ok,0", "code,5", "foreign,0", "empty,0", "garbage,1", "nomethod,0"} {
			out = append(out, fmt.Sprintf("k=run gun=grpc/scenario tgt=grpc inst=1 n=2 calls=tg0,%s,-;tg1,ok,0,Pg~0~hello~%s;tg2,ok,0,-", k0, f))
		}
	}
	for _, fn := range []string{"rs", "rs2", "ri", "ri2", "ri3"} {
		out = append(out, fmt.Sprintf("k=run gun=grpc/scenario tgt=grpc inst=1 n=2 calls=tg0,ok,0,-;tg1,ok,0,Fg~%s~0~hello;tg2,ok,0,-", fn))
		out = append(out, fmt.Sprintf("k=run gun=grpc/scenario tgt=grpc inst=1 n=2 calls=tg0,list,2,-;tg1,ok,0,Fg~%s~0~result;tg2,ok,0,as200", fn))
	}
	for i := 0; i < mul(30, 1500); i++ {
		k := 2 + r.Intn(3)
		var calls []string
		for j := 0; j < k; j++ {
			kind := []string{"ok,0", "ok,0", fmt.Sprintf("list,%d", r.Intn(4)), fmt.Sprintf("list,%d", r.Intn(4)), fmt.Sprintf("code,%d", 1+r.Intn(16)), "foreign,0", "empty,0"}[r.Intn(7)]
			var toks []string
			if r.Intn(4) == 0 {
				toks = append(toks, fmt.Sprintf("as%d", []int{200, 404}[r.Intn(2)]))
			}
			if j > 0 && r.Intn(3) != 0 {
				f := "-"
				if r.Intn(4) != 0 {
					f = ixField(engIdx[r.Intn(len(engIdx)-1)])
				}
				tok := fmt.Sprintf("Pg~%d~%s~%s", r.Intn(j), []string{"result", "result", "hello"}[r.Intn(3)], f)
				if r.Intn(3) == 0 {
					tok += "~itemId"
				}
				toks = append(toks, tok)
			}
			pp := "-"
			if len(toks) > 0 {
				pp = strings.Join(toks, "+")
			}
			calls = append(calls, fmt.Sprintf("tg%d,%s,%s", j, kind, pp))
		}
		out = append(out, fmt.Sprintf("k=run gun=grpc/scenario tgt=grpc inst=%d n=%d calls=%s", []int{1, 2}[r.Intn(2)], 1+r.Intn(3), strings.Join(calls, ";")))
	}
	return out
}
