package main

// The hostile raw-TCP HTTP/1.1 target of the C19 driver: everything harness/shot's scripted target does (same script
// language, parsed by shot.ParseScript) plus protocol-level misbehaviour that needs full control of the bytes:
//
//	actbadchunk   chunked transfer coding with a chunk size that is not hexadecimal      (head ok, body breaks)
//	actcutchunk   chunked transfer coding, connection closed inside a chunk              (head ok, body breaks)
//	actbadgzip    Content-Encoding: gzip in front of a body that is not gzip             (breaks only when the client decodes)
//	actdupcl      two different Content-Length headers                                   (no response)
//	actnegcl      Content-Length: -5                                                     (no response)
//	acthugecl     Content-Length: 99999999999999999999                                   (no response)
//	actbadte      Transfer-Encoding: bogus                                               (no response)
//	actmany1xx    eight interim 100 responses before the final one (net/http gives up after five)
//	actfew1xx     three interim responses (102, 103, 100) before the final one           (complete response)
//	actnulhdr     a header value containing NUL and 0xFF bytes                            (library decides: unknown)
//	actnoreason   status line without reason phrase, header names in odd case            (complete response)
//	actslow       body dribbled in 7-byte pieces with pauses                              (complete response)
//	actextra      garbage after the announced body                                        (complete response)
//	actbadver     status line `HTTP/9.9`                                                  (library decides: unknown)
//	actshortstatus status line with a two-digit code                                      (no response)
//	actwait<ms>   the response is sent after a pause of <ms> milliseconds                  (complete response)
//
// truthOf gives the ground truth of a script for a given client configuration.

import (
	"bufio"
	"bytes"
	"fmt"
	"io"
	"net"
	"net/textproto"
	"strconv"
	"strings"
	"sync"
	"sync/atomic"
	"time"
)

type hostile struct {
	// connectMode: what a CONNECT request (the connect gun's tunnel set-up) is answered with:
	// "" 200 | c403 a refusal with a body | cgarbage not HTTP | cextra 200 followed by stray bytes | cclose nothing
	connectMode string
	l           net.Listener
	Addr        string
	Hits        atomic.Int64
	closed      chan struct{}
}

// listenRetry: the machine runs many checks at once, each opening thousands of short connections; when no port is
// free at the moment, wait instead of failing.
func listenRetry() net.Listener {
	var err error
	for i := 0; i < 150; i++ {
		var l net.Listener
		if l, err = net.Listen("tcp", "127.0.0.1:0"); err == nil {
			return l
		}
		time.Sleep(200 * time.Millisecond)
	}
	panic(err)
}

var (
	sharedMu      sync.Mutex
	sharedTargets = map[string]*hostile{}
)

// sharedHostile: ONE listener per connect mode for the whole driver process. The target is a pure function of the
// request (the script travels in a header), so all runs can use the same one; a listener per run would leave
// thousands of ports in TIME_WAIT.
func sharedHostile(connectMode string) *hostile {
	sharedMu.Lock()
	defer sharedMu.Unlock()
	// a few listeners per mode, used in turn: more (address, port) pairs for the clients' short connections
	sharedTurn++
	key := fmt.Sprintf("%s#%d", connectMode, sharedTurn%8)
	if t := sharedTargets[key]; t != nil {
		return t
	}
	t := newHostileMode(connectMode)
	sharedTargets[key] = t
	return t
}

var sharedTurn int

func newHostileMode(connectMode string) *hostile {
	return serveHostile(listenRetry(), connectMode)
}

// serveHostile serves the hostile target on a listener the caller opened.
func serveHostile(l net.Listener, connectMode string) *hostile {
	t := &hostile{connectMode: connectMode, l: l, Addr: l.Addr().String(), closed: make(chan struct{})}
	go func() {
		for {
			c, err := l.Accept()
			if err != nil {
				return
			}
			go t.handle(c)
		}
	}()
	return t
}

func (t *hostile) Close() {
	close(t.closed)
	_ = t.l.Close()
}

func rstConn(c net.Conn) {
	if tc, ok := c.(*net.TCPConn); ok {
		_ = tc.SetLinger(0)
	}
	_ = c.Close()
}

type rawRequest struct {
	Method string
	Target string
	Header textproto.MIMEHeader
}

func readRaw(br *bufio.Reader) (*rawRequest, error) {
	tp := textproto.NewReader(br)
	line, err := tp.ReadLine()
	if err != nil {
		return nil, err
	}
	f := strings.SplitN(line, " ", 3)
	if len(f) < 2 {
		return nil, fmt.Errorf("bad request line")
	}
	h, err := tp.ReadMIMEHeader()
	if err != nil {
		return nil, err
	}
	if n, err := strconv.Atoi(h.Get("Content-Length")); err == nil && n > 0 {
		if _, err := io.CopyN(io.Discard, br, int64(n)); err != nil {
			return nil, err
		}
	}
	return &rawRequest{Method: f[0], Target: f[1], Header: h}, nil
}

func (t *hostile) handle(c net.Conn) {
	defer c.Close()
	br := bufio.NewReader(c)
	for {
		_ = c.SetReadDeadline(time.Now().Add(30 * time.Second))
		req, err := readRaw(br)
		if err != nil {
			return
		}
		if req.Method == "CONNECT" {
			switch t.connectMode {
			case "c403":
				_, _ = io.WriteString(c, "HTTP/1.1 403 Forbidden\r\nContent-Length: 9\r\nX-Why: \xff\x00\r\n\r\nno tunnel")
				return
			case "cgarbage":
				_, _ = io.WriteString(c, "SSH-2.0-OpenSSH_9.9\r\n")
				return
			case "cextra":
				_, _ = io.WriteString(c, "HTTP/1.1 200 Connection established\r\n\r\nstray bytes before any request")
				continue
			case "cclose":
				return
			}
			_, _ = io.WriteString(c, "HTTP/1.1 200 Connection established\r\n\r\n")
			continue
		}
		t.Hits.Add(1)
		sc, err := c19ParseScript(req.Header.Get("X-Script"))
		if err != nil {
			_, _ = io.WriteString(c, "HTTP/1.1 500 Bad Script\r\nContent-Length: 0\r\nConnection: close\r\n\r\n")
			return
		}
		// wait<ms>: the answer (whatever the rest of the script says) comes after a pause
		if strings.HasPrefix(sc.Act, "wait") {
			ms, _ := strconv.Atoi(sc.Act[4:])
			select {
			case <-t.closed:
				return
			case <-time.After(time.Duration(ms) * time.Millisecond):
			}
			sc.Act = ""
		}
		switch sc.Act {
		case "close":
			return
		case "reset":
			rstConn(c)
			return
		case "hang":
			select {
			case <-t.closed:
			case <-time.After(20 * time.Second):
			}
			return
		case "garbage":
			_, _ = io.WriteString(c, "\x00\x01\x02 this is not http at all\r\n\r\n")
			return
		case "badhdr":
			_, _ = io.WriteString(c, "HTTP/1.1 200 OK\r\nthis header line has no colon\r\n\r\n")
			return
		case "shortstatus":
			_, _ = io.WriteString(c, "HTTP/1.1 20 OK\r\nContent-Length: 0\r\n\r\n")
			return
		}
		var b bytes.Buffer
		if sc.Interim != 0 {
			fmt.Fprintf(&b, "HTTP/1.1 %d Interim\r\n\r\n", sc.Interim)
		}
		switch sc.Act {
		case "many1xx":
			for i := 0; i < 8; i++ {
				b.WriteString("HTTP/1.1 100 Continue\r\n\r\n")
			}
		case "few1xx":
			b.WriteString("HTTP/1.1 102 Processing\r\n\r\nHTTP/1.1 103 Early Hints\r\nLink: </x>; rel=preload\r\n\r\nHTTP/1.1 100 Continue\r\n\r\n")
		}
		switch sc.Act {
		case "noreason":
			fmt.Fprintf(&b, "HTTP/1.1 %03d\r\n", sc.Status)
		case "badver":
			fmt.Fprintf(&b, "HTTP/9.9 %03d Scripted\r\n", sc.Status)
		default:
			fmt.Fprintf(&b, "HTTP/1.1 %03d Scripted\r\n", sc.Status)
		}
		for _, h := range sc.Headers {
			if sc.Act == "noreason" {
				fmt.Fprintf(&b, "%s:%s\r\n", strings.ToUpper(h[0]), h[1])
			} else {
				fmt.Fprintf(&b, "%s: %s\r\n", h[0], h[1])
			}
		}
		noBody := sc.Status/100 == 1 || sc.Status == 204 || sc.Status == 304 || req.Method == "HEAD"
		decl := len(sc.Body)
		if sc.DeclLen >= 0 {
			decl = sc.DeclLen
		}
		body := sc.Body
		switch sc.Act {
		case "badchunk":
			b.WriteString("Transfer-Encoding: chunked\r\nConnection: close\r\n\r\nZZZ\r\n")
			b.Write(body)
			_, _ = c.Write(b.Bytes())
			return
		case "cutchunk":
			fmt.Fprintf(&b, "Transfer-Encoding: chunked\r\nConnection: close\r\n\r\n%x\r\n", len(body)+10)
			b.Write(body)
			_, _ = c.Write(b.Bytes())
			return
		case "dupcl":
			fmt.Fprintf(&b, "Content-Length: %d\r\nContent-Length: %d\r\nConnection: close\r\n\r\n", decl, decl+3)
			b.Write(body)
			_, _ = c.Write(b.Bytes())
			return
		case "negcl":
			b.WriteString("Content-Length: -5\r\nConnection: close\r\n\r\n")
			b.Write(body)
			_, _ = c.Write(b.Bytes())
			return
		case "hugecl":
			b.WriteString("Content-Length: 99999999999999999999\r\nConnection: close\r\n\r\n")
			b.Write(body)
			_, _ = c.Write(b.Bytes())
			return
		case "badte":
			b.WriteString("Transfer-Encoding: bogus\r\nConnection: close\r\n\r\n")
			b.Write(body)
			_, _ = c.Write(b.Bytes())
			return
		case "badgzip":
			b.WriteString("Content-Encoding: gzip\r\n")
		case "nulhdr":
			b.WriteString("X-Odd: a\x00b\xffc\r\n")
		}
		if sc.Act != "nolen" && !noBody {
			fmt.Fprintf(&b, "Content-Length: %d\r\n", decl)
		}
		b.WriteString("Connection: close\r\n\r\n")
		if !noBody {
			if sc.Act == "midreset" || sc.Act == "midclose" {
				body = body[:len(body)/2]
			}
			if sc.Act == "slow" {
				_, _ = c.Write(b.Bytes())
				for i := 0; i < len(body); i += 7 {
					j := i + 7
					if j > len(body) {
						j = len(body)
					}
					_, _ = c.Write(body[i:j])
					if i < 70 {
						time.Sleep(2 * time.Millisecond)
					}
				}
				return
			}
			b.Write(body)
			if sc.Act == "extra" {
				b.WriteString("\r\nHTTP/1.1 500 Smuggled\r\n\r\ntrailing garbage")
			}
		}
		_, _ = c.Write(b.Bytes())
		if sc.Act == "midreset" {
			time.Sleep(150 * time.Millisecond)
			rstConn(c)
		}
		return
	}
}

// clientConf is what of the gun's client configuration decides how a script is seen.
type clientConf struct {
	gzip  bool // disable-compression: false (the transport asks for gzip and decodes it)
	redir bool // redirect: true
}

// truthOf is the ground truth of a script for an HTTP/1.1 client (vocabulary of shot.Script.Truth plus `u`):
//
//	r<st>  complete response | rb<st> head, then the body breaks | f no response | u the library decides (not predicted)
func truthOf(script string, cc clientConf) string {
	sc, err := c19ParseScript(script)
	if err != nil {
		panic(err)
	}
	st := sc.Status
	interimFinal := st/100 == 1 && st != 101
	switch sc.Act {
	case "dupcl", "negcl", "hugecl", "badte", "many1xx", "shortstatus":
		return "f"
	case "nulhdr", "badver":
		return "u"
	}
	if interimFinal {
		return "f"
	}
	if cc.redir && st/100 == 3 && st != 304 {
		for _, h := range sc.Headers {
			if strings.EqualFold(h[0], "Location") {
				// the redirected request carries the same script: a loop, a dead end or an unparsable URL
				return "f"
			}
		}
	}
	noBody := st == 204 || st == 304 || st == 101
	switch sc.Act {
	case "badchunk", "cutchunk":
		if noBody {
			return fmt.Sprintf("r%d", st)
		}
		return fmt.Sprintf("rb%d", st)
	case "badgzip":
		if noBody || !cc.gzip {
			return sc.Truth()
		}
		return fmt.Sprintf("rb%d", st)
	case "few1xx", "noreason", "slow", "extra":
		sc.Act = ""
		return sc.Truth()
	}
	return sc.Truth()
}
