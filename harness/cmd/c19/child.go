package main

// Round 4: every ENGINE run (k=run) is executed in a CHILD process (the same binary, C19_CHILD=1): a pool of long-lived
// children, one per worker, each running one case at a time (idea and shape taken from harness/cmd/c16/child.go).
//
// Why: instance.Run recovers a panic raised inside Shoot — but nothing recovers a panic in a goroutine of the
// transport (httptrace callbacks, dial goroutines), of the aggregator, of Bind / newInstance, and the Go runtime aborts
// the whole process on `fatal error: concurrent map writes`. Such a failure is the worst form of "a response crashes
// the run"; inside the driver process it would take all other cases down with it and the check could only report
// `no-failing-input-found`. In a child only that child dies: the case that killed it gets the observation
// `CRASH the generator process died: <first line of the runtime's report>` — a concrete, replayable failing input —
// and the run goes on with a fresh child. Direct calls (k=mod, assert, …) stay in the driver process: the framework
// recovers their panics.

import (
	"bufio"
	"bytes"
	"io"
	"os"
	"os/exec"
	"strings"
	"sync"
	"time"

	"verifharness/drv"
)

const childReplyFD = 3 // the child writes its observations here (stdout stays free for whatever the real code prints)

func childMain() {
	rd := bufio.NewReaderSize(os.Stdin, 1<<20)
	w := bufio.NewWriter(os.NewFile(childReplyFD, "reply"))
	for {
		line, err := rd.ReadString('\n')
		if line != "" {
			obs := runRecovered(strings.TrimRight(line, "\r\n"))
			obs = strings.NewReplacer("\n", " ", "\r", " ", "\t", " ").Replace(obs)
			_, _ = w.WriteString(obs + "\n")
			_ = w.Flush()
		}
		if err != nil {
			return
		}
	}
}

// runRecovered: a panic in the goroutine that runs the case is an observation, like in the framework
func runRecovered(input string) (obs string) {
	defer func() {
		if r := recover(); r != nil {
			obs = "PANIC " + drv.Clean(strings.TrimSpace(strings.SplitN(strings.TrimSpace(sprint(r)), "\n", 2)[0]))
		}
	}()
	m := drv.KV(input)
	if m["k"] == "iter" {
		return runIter(m)
	}
	if m["k"] == "dnsc" {
		return runDnsc(m)
	}
	return runRun(m)
}

func sprint(v any) string {
	switch x := v.(type) {
	case error:
		return x.Error()
	case string:
		return x
	}
	return "panic value"
}

// crashWatch scans what the child writes to stderr for the first line of a runtime crash report
// (`panic: …`, `fatal error: …`) since the last reset; everything else (library log noise) is dropped.
type crashWatch struct {
	mu     sync.Mutex
	part   []byte
	reason string
}

func (c *crashWatch) Write(p []byte) (int, error) {
	c.mu.Lock()
	defer c.mu.Unlock()
	c.part = append(c.part, p...)
	for {
		i := bytes.IndexByte(c.part, '\n')
		if i < 0 {
			break
		}
		line := strings.TrimSpace(string(c.part[:i]))
		c.part = c.part[i+1:]
		if c.reason == "" && (strings.HasPrefix(line, "panic:") || strings.HasPrefix(line, "fatal error:") || strings.HasPrefix(line, "runtime: ")) {
			c.reason = line
		}
	}
	if len(c.part) > 1<<16 {
		c.part = c.part[:0]
	}
	return len(p), nil
}

func (c *crashWatch) reset() { c.mu.Lock(); c.reason = ""; c.part = c.part[:0]; c.mu.Unlock() }

func (c *crashWatch) why() string {
	c.mu.Lock()
	defer c.mu.Unlock()
	if c.reason != "" {
		return c.reason
	}
	return "no crash report on stderr (killed or os.Exit)"
}

type child struct {
	cmd  *exec.Cmd
	in   io.WriteCloser
	out  *bufio.Reader
	errs *crashWatch
}

func spawn() (*child, error) {
	exe, err := os.Executable()
	if err != nil {
		return nil, err
	}
	pr, pw, err := os.Pipe()
	if err != nil {
		return nil, err
	}
	cmd := exec.Command(exe, os.Args[1:]...)
	cmd.Env = append(os.Environ(), "C19_CHILD=1")
	cmd.ExtraFiles = []*os.File{pw}
	cmd.Stdout = io.Discard
	in, err := cmd.StdinPipe()
	if err != nil {
		return nil, err
	}
	cw := &crashWatch{}
	cmd.Stderr = cw
	if err := cmd.Start(); err != nil {
		_ = pr.Close()
		_ = pw.Close()
		return nil, err
	}
	_ = pw.Close()
	return &child{cmd: cmd, in: in, out: bufio.NewReaderSize(pr, 1<<20), errs: cw}, nil
}

func (c *child) kill() {
	_ = c.in.Close()
	_ = c.cmd.Process.Kill()
	_ = c.cmd.Wait()
}

var (
	poolOnce sync.Once
	pool     chan *child
)

func initPool() {
	n := workers()
	pool = make(chan *child, n)
	for i := 0; i < n; i++ {
		pool <- nil // spawned on first use
	}
}

// childLimit: an engine run ends by itself after 60 s (`res=hang`); a child that does not answer within this limit
// is killed
const childLimit = 100 * time.Second

func runViaChild(input string) string {
	if os.Getenv("C19_NOCHILD") == "1" {
		return runRecovered(input)
	}
	poolOnce.Do(initPool)
	c := <-pool
	if c == nil {
		var err error
		if c, err = spawn(); err != nil {
			pool <- nil
			return runRecovered(input) // no child processes on this machine: run the case here
		}
	}
	c.errs.reset()
	type reply struct {
		line string
		err  error
	}
	done := make(chan reply, 1)
	go func() {
		if _, err := io.WriteString(c.in, input+"\n"); err != nil {
			done <- reply{"", err}
			return
		}
		l, err := c.out.ReadString('\n')
		done <- reply{l, err}
	}()
	select {
	case r := <-done:
		if r.err == nil {
			pool <- c
			return strings.TrimRight(r.line, "\r\n")
		}
		_ = c.cmd.Wait()
		time.Sleep(20 * time.Millisecond) // let the stderr copier finish
		why := c.errs.why()
		c.kill()
		pool <- nil
		return "CRASH the generator process died: " + drv.Trunc(drv.Clean(why), 300)
	case <-time.After(childLimit):
		c.kill()
		pool <- nil
		return "HANG"
	}
}
