package main

// Round 4: the code the anchored guns DEPEND on, reached by what the target does.
//
//	host=1      the gun's target is a host NAME (`localhost:<port>`): the gun factories try to pre-resolve it at config
//	            time (PreResolveTargetAddr -> lib/netutil.LookupReachable); a target that is unreachable THEN keeps its name
//	            and every shot dials through lib/netutil's DNS-caching dialer (refused connections / the first successful
//	            dial fill the process-wide cache)
//	late=1      (with host=1, tgt=live) nothing listens at config time; the target comes up before the run starts
//	agg=phout   the pool keeps the REAL phout aggregator (core/aggregator/netsample: samples are pooled, the aggregator
//	            releases them after writing); the samples are read back from the phout file
//	sched=<ops>x<ms>  `rps: [{type: const, ops: <ops>, duration: <ms>ms}]` instead of `once`: the instance's waiter works
//	            against the clock; disc=1 adds `discard_overflow: true` (instance.Run reports an overdue token as a
//	            "discarded" sample instead of shooting); act `wait<ms>` makes the target answer after a pause
//	(no tlsto)  the library DEFAULT of tls-handshake-timeout ends a stalled handshake
//
// and every PAIR of gun settings on every class of response (two interacting options).

import (
	"context"
	"errors"
	"fmt"
	"math/rand"
	"net"
	"regexp"
	"sort"
	"strconv"
	"strings"
	"sync"
	"sync/atomic"
	"time"

	"verifharness/shot"

	"github.com/spf13/afero"
	"github.com/yandex/pandora/lib/mp"
	"github.com/yandex/pandora/lib/netutil"
)

// r4Conn: what a successful dial of the scripted dialer returns (a connected tcp socket as far as the caching dialer can tell)
type r4Conn struct {
	net.Conn
	remote *net.TCPAddr
}

func (c r4Conn) RemoteAddr() net.Addr { return c.remote }
func (c r4Conn) Close() error         { return nil }

// runDnsc (k=dnsc g=<goroutines> hosts=<n> rounds=<r>): the REAL netutil.NewDNSCachingDialer over a fresh
// SimpleDNSCache under real concurrency, the way the instances of an http pool use it when the target is a host name:
// g goroutines dial `h<i>:80` for every host, `rounds` times; the scripted dialer refuses every third attempt of a host
// (by name or by the remembered address) and "resolves" host i to 10.<i/65536>.<i/256%256>.<i%256>. In a child process.
// bad = results that are not the underlying dialer's (model: dnsDials is transparent), dials of an address that is
// neither the name nor its resolution, hosts with a successful dial that the cache does not remember correctly.
func runDnsc(m map[string]string) string {
	g, hosts, rounds := atoi(m["g"], 2), atoi(m["hosts"], 1), atoi(m["rounds"], 1)
	ipOf := func(i int) net.IP { return net.IPv4(10, byte(i>>16), byte(i>>8), byte(i)) }
	attempts := make([]atomic.Int64, hosts)
	okOf := make([]atomic.Int64, hosts)
	var under, bad atomic.Int64
	byIP := map[string]int{}
	for i := 0; i < hosts; i++ {
		byIP[net.JoinHostPort(ipOf(i).String(), "80")] = i
	}
	refused := errors.New("connection refused (scripted)")
	script := netutil.DialerFunc(func(_ context.Context, network, addr string) (net.Conn, error) {
		i := -1
		if h, _, err := net.SplitHostPort(addr); err == nil && strings.HasPrefix(h, "h") {
			i = atoi(h[1:], -1)
		} else if k, ok := byIP[addr]; ok {
			i = k
		}
		if i < 0 || i >= hosts || network != "tcp" {
			bad.Add(1)
			return nil, refused
		}
		if attempts[i].Add(1)%3 == 0 {
			return nil, refused
		}
		okOf[i].Add(1)
		under.Add(1)
		return r4Conn{remote: &net.TCPAddr{IP: ipOf(i), Port: 80}}, nil
	})
	cache := &netutil.SimpleDNSCache{}
	dial := netutil.NewDNSCachingDialer(script, cache)
	var seen atomic.Int64
	start := make(chan struct{})
	var wg sync.WaitGroup
	for w := 0; w < g; w++ {
		wg.Add(1)
		go func(w int) {
			defer wg.Done()
			<-start
			for r := 0; r < rounds; r++ {
				for i := 0; i < hosts; i++ {
					conn, err := dial.DialContext(context.Background(), "tcp", "h"+strconv.Itoa((i+w)%hosts)+":80")
					if (conn == nil) != (err != nil) {
						bad.Add(1)
					}
					if err == nil {
						seen.Add(1)
					} else if err != refused {
						bad.Add(1)
					}
				}
			}
		}(w)
	}
	close(start)
	wg.Wait()
	if seen.Load() != under.Load() {
		bad.Add(1)
	}
	for i := 0; i < hosts; i++ {
		got, ok := cache.Get("h" + strconv.Itoa(i) + ":80")
		if okOf[i].Load() > 0 && (!ok || got != net.JoinHostPort(ipOf(i).String(), "80")) {
			bad.Add(1)
		}
		if okOf[i].Load() == 0 && ok {
			bad.Add(1)
		}
	}
	return fmt.Sprintf("fatal=0 bad=%d", bad.Load())
}

// runIter (k=iter g=<goroutines> seg=<segments> calls=<calls per goroutine and segment>): the REAL shared NextIterator
// under real concurrency, the way the instances of a scenario pool use it ([next] / [rand] in preprocessors): g goroutines
// start together and call Next on the same fresh segments (and Rand in between). Runs in a child process: a
// `fatal error: concurrent map writes` is not a panic. Observation: every segment handed out exactly the values
// 0 … g*calls-1 (`dup` = values handed out twice, `gap` = values never handed out), Rand stayed inside [0, n).
func runIter(m map[string]string) string {
	g, segs, calls := atoi(m["g"], 2), atoi(m["seg"], 1), atoi(m["calls"], 1)
	it := mp.NewNextIterator(int64(atoi(m["rs"], 1)))
	got := make([][][]int, g)
	start := make(chan struct{})
	var wg sync.WaitGroup
	var randBad atomic.Int64
	for w := 0; w < g; w++ {
		got[w] = make([][]int, segs)
		wg.Add(1)
		go func(w int) {
			defer wg.Done()
			<-start
			for s := 0; s < segs; s++ {
				name := "request.st" + strconv.Itoa(s) + ".postprocessor.v"
				for c := 0; c < calls; c++ {
					got[w][s] = append(got[w][s], it.Next(name))
					if n := 1 + (w+s+c)%7; true {
						if r := it.Rand(n); r < 0 || r >= n {
							randBad.Add(1)
						}
					}
				}
			}
		}(w)
	}
	close(start)
	wg.Wait()
	dup, gap := 0, 0
	for s := 0; s < segs; s++ {
		var all []int
		for w := 0; w < g; w++ {
			all = append(all, got[w][s]...)
		}
		sort.Ints(all)
		for i, v := range all {
			if i > 0 && v == all[i-1] {
				dup++
			}
		}
		seen := map[int]bool{}
		for _, v := range all {
			seen[v] = true
		}
		for v := 0; v < g*calls; v++ {
			if !seen[v] {
				gap++
			}
		}
	}
	return fmt.Sprintf("fatal=0 dup=%d gap=%d randbad=%d", dup, gap, randBad.Load())
}

var r4Seq atomic.Int64

// r4Target applies host= / late= to the target address of an http-family gun.
func r4Target(m map[string]string, target string) (string, engineX, func()) {
	var x engineX
	cleanup := func() {}
	if m["late"] == "1" {
		// reserve an address nobody listens on yet; the listener starts after the config is decoded
		l := listenRetry()
		addr := l.Addr().String()
		_ = l.Close()
		var t *hostile
		failed := new(bool)
		x.lateFailed = failed
		x.afterDecode = func() {
			for i := 0; i < 50 && t == nil; i++ {
				if nl, err := net.Listen("tcp", addr); err == nil {
					t = serveHostile(nl, "")
				} else {
					time.Sleep(20 * time.Millisecond)
				}
			}
			*failed = t == nil
		}
		cleanup = func() {
			if t != nil {
				t.Close()
			}
		}
		target = addr
	}
	if m["host"] == "1" {
		if !strings.HasPrefix(target, "127.0.0.1:") {
			panic("host=1 needs a 127.0.0.1 target, got " + target)
		}
		target = "localhost:" + strings.TrimPrefix(target, "127.0.0.1:")
	}
	return target, x, cleanup
}

var r4OnceRe = regexp.MustCompile(`rps: \[\{type: once, times: \d+\}\]`)

// r4Conf applies agg= / sched= / disc= to a rendered one-pool config.
func r4Conf(m map[string]string, conf string, x *engineX) string {
	if m["agg"] == "phout" {
		shot.Init()
		x.phout = fmt.Sprintf("/verif/phout%d.log", r4Seq.Add(1))
		const old = "result: {type: discard}"
		if !strings.Contains(conf, old) {
			panic("r4Conf: no result line")
		}
		conf = strings.Replace(conf, old, fmt.Sprintf(`result: {type: phout, destination: "%s", id: true}`, x.phout), 1)
	}
	if s := m["sched"]; s != "" {
		f := strings.SplitN(s, "x", 2)
		if len(f) != 2 || !r4OnceRe.MatchString(conf) {
			panic("r4Conf: bad sched " + s)
		}
		conf = r4OnceRe.ReplaceAllString(conf, fmt.Sprintf("rps: [{type: const, ops: %d, duration: %dms}]", atoi(f[0], 1), atoi(f[1], 1000)))
	}
	if s := m["schedx"]; s != "" {
		if !r4OnceRe.MatchString(conf) || x.phout != "" {
			panic("r4Conf: bad schedx " + s)
		}
		conf = r4OnceRe.ReplaceAllString(conf, r6Rps(s))
		x.ts = &r6Rec{}
	}
	if m["disc"] == "1" {
		conf = strings.TrimRight(conf, "\n") + "\n    discard_overflow: true\n"
	}
	return conf
}

// readPhout parses the file the phout aggregator wrote: ts \t tags#id \t rtt connect send latency receive interval
// reqbytes respbytes errno proto
func readPhout(name string) []shot.Snap {
	b, err := afero.ReadFile(shot.FS, name)
	_ = shot.FS.Remove(name)
	if err != nil {
		return []shot.Snap{{Tags: "PHOUT-UNREADABLE", Proto: -1, Net: -1}}
	}
	var out []shot.Snap
	for i, line := range strings.Split(strings.TrimRight(string(b), "\n"), "\n") {
		if line == "" {
			continue
		}
		f := strings.Split(line, "\t")
		if len(f) != 12 {
			out = append(out, shot.Snap{Tags: "PHOUT-MALFORMED", Proto: -1, Net: -1, Seq: i})
			continue
		}
		tags, id := f[1], uint64(0)
		if k := strings.LastIndex(tags, "#"); k >= 0 {
			id, _ = strconv.ParseUint(tags[k+1:], 10, 64)
			tags = tags[:k]
		}
		netc, e1 := strconv.Atoi(f[10])
		proto, e2 := strconv.Atoi(f[11])
		if e1 != nil || e2 != nil {
			out = append(out, shot.Snap{Tags: "PHOUT-MALFORMED", Proto: -1, Net: -1, Seq: i})
			continue
		}
		out = append(out, shot.Snap{Tags: tags, ID: id, Proto: proto, Net: netc, Shape: "-", Seq: i})
	}
	return out
}

// genRound4: the cases of the round-4 dimensions. gridScripts / ccOf are the response classes of the settings grid.
func genRound4(r *rand.Rand, thorough bool, gridScripts []string, ccOf func(string) clientConf) []string {
	var out []string
	mul := func(q, t int) int {
		if thorough {
			return t
		}
		return q
	}
	gridReqs := func(o string) string {
		var reqs []string
		for _, sc := range gridScripts {
			reqs = append(reqs, sc+":"+truthOf(sc, ccOf(o)))
		}
		return strings.Join(reqs, ",")
	}
	allPP := "H~X-Val~s1:5+A~0~" + hx("x") + "~-~gt:1+J~result+X~divdata"
	// 1. every PAIR of settings x every class of response, for the three HTTP/1.1 guns
	single := []string{" alog=all", " alog=warning", " alog=error", " trace=1", " dump=1", " dbg=1", " redir=1", " gz=1", " shc=2", " dka=1", " host=1", " agg=phout"}
	for i := 0; i < len(single); i++ {
		for j := i + 1; j < len(single); j++ {
			if strings.HasPrefix(single[i], " alog") && strings.HasPrefix(single[j], " alog") {
				continue
			}
			o := single[i] + single[j]
			for _, gun := range []string{"http", "connect"} {
				out = append(out, fmt.Sprintf("k=run gun=%s tgt=live inst=2 m=1%s reqs=%s", gun, o, gridReqs(o)))
			}
			for k, sc := range gridScripts {
				if !thorough && (i+j+k)%2 == 1 {
					continue // quick: every pair meets every second class (the other half with the next pair)
				}
				out = append(out, fmt.Sprintf("k=run gun=http/scenario tgt=live inst=1 n=1%s steps=st0,%s,%s,%s", o, sc, truthOf(sc, ccOf(o)), allPP))
			}
		}
	}
	// 2. host-name targets: alive, dead (refused connections through the DNS-caching dialer, for every gun of the family),
	// coming up after the config was decoded (the first successful dial fills the cache; later shots use it)
	for _, o := range []string{"", " alog=all dump=1 trace=1 dbg=1", " shc=2", " dka=1"} {
		for _, gun := range []string{"http", "connect"} {
			out = append(out, fmt.Sprintf("k=run gun=%s tgt=dead host=1 inst=3 m=3%s reqs=s200:f,s404.bjson:f", gun, o))
			out = append(out, fmt.Sprintf("k=run gun=%s tgt=live host=1 late=1 inst=3 m=3%s reqs=s200.bjson:r200,actclose:f,s404.bx7:r404,s200.bx40.actmidclose:rb200", gun, o))
			out = append(out, fmt.Sprintf("k=run gun=%s tgt=live host=1 inst=2 m=2%s reqs=%s", gun, o, gridReqs(o)))
		}
		out = append(out, fmt.Sprintf("k=run gun=http/scenario tgt=dead host=1 inst=3 n=4%s steps=st0,s200,f,H~X-Val~s1:5;st1,s200,f,-", o))
		out = append(out, fmt.Sprintf("k=run gun=http/scenario tgt=live host=1 late=1 inst=3 n=6%s steps=st0,s200.bjson.hX-Val~616263,r200,H~X-Val~s1:1+J~result;st1,s404.bhtml,r404,X~divdata;st2,actreset,f,-", o))
		out = append(out, fmt.Sprintf("k=run gun=http2 tgt=dead host=1 inst=2 m=2%s reqs=s200:f", o))
		out = append(out, fmt.Sprintf("k=run gun=http2/scenario tgt=dead host=1 inst=2 n=3%s steps=st0,s200,f,J~result;st1,s200,f,-", o))
		out = append(out, fmt.Sprintf("k=run gun=http2 tgt=tls2 host=1 inst=2 m=2%s reqs=s200.bx5:r200,s503.bjson:r503,actclose:f", o))
		out = append(out, fmt.Sprintf("k=run gun=http2 tgt=tls1 host=1 inst=1 m=1%s reqs=s200.bx5:r200", o))
	}
	for i := 0; i < mul(20, 600); i++ {
		gun := []string{"http", "connect"}[r.Intn(2)]
		opts, cc := randOpts(r, false)
		var reqs []string
		for j := 1 + r.Intn(5); j > 0; j-- {
			s := randScript(r)
			reqs = append(reqs, s+":"+truthOf(s, cc))
		}
		tgt := []string{"tgt=live host=1", "tgt=live host=1 late=1", "tgt=dead host=1"}[r.Intn(3)]
		if strings.Contains(tgt, "dead") {
			for k := range reqs {
				reqs[k] = reqs[k][:strings.LastIndex(reqs[k], ":")] + ":f"
			}
		}
		out = append(out, fmt.Sprintf("k=run gun=%s %s inst=%d m=%d%s reqs=%s", gun, tgt, 1+r.Intn(3), 1+r.Intn(3), opts, strings.Join(reqs, ",")))
	}
	// 3. the real phout aggregator with pooled samples: several instances, several passes, every gun kind, failing steps
	// (a sample touched after it was reported would show up as a doubled, mangled or foreign line)
	for _, inst := range []int{1, 3, mul(4, 8)} {
		out = append(out, fmt.Sprintf("k=run gun=http tgt=live agg=phout inst=%d m=%d reqs=%s", inst, mul(2, 6), gridReqs("")))
		out = append(out, fmt.Sprintf("k=run gun=connect tgt=live agg=phout inst=%d m=2 alog=all dump=1 trace=1 reqs=%s", inst, gridReqs("")))
		out = append(out, fmt.Sprintf("k=run gun=http tgt=dead agg=phout inst=%d m=4 reqs=s200:f,s404:f", inst))
		out = append(out, fmt.Sprintf("k=run gun=http/scenario tgt=live agg=phout inst=%d n=%d steps=st0,s200.bjson.hX-Val~616263,r200,H~X-Val~s1:1+J~result;st1,s200.bhtml,r200,J~result;st2,s404,r404,-", inst, mul(12, 60)))
		out = append(out, fmt.Sprintf("k=run gun=http/scenario tgt=live agg=phout inst=%d n=%d steps=st0,s200.bjson,r200,A~200~-~-~gt:10;st1,s500.bhtml,r500,A~200~-~-~-;st2,s404,r404,-", inst, mul(12, 60)))
		out = append(out, fmt.Sprintf("k=run gun=http/scenario tgt=live agg=phout inst=%d n=%d steps=st0,s200.bjson,r200,X~count;st1,s404,r404,-", inst, mul(8, 40)))
		out = append(out, fmt.Sprintf("k=run gun=http/scenario tgt=live agg=phout inst=%d n=%d steps=st0,s200.bjson,r200,-;st1,actreset,f,-;st2,s404,r404,-", inst, mul(8, 40)))
		out = append(out, fmt.Sprintf("k=run gun=http2 tgt=tls2 agg=phout inst=%d m=3 reqs=s200.bx5:r200,s503.bjson:r503,actclose:f,s200.bx40.actmidclose:rb200", inst))
		out = append(out, fmt.Sprintf("k=run gun=http2/scenario tgt=tls2 agg=phout inst=%d n=6 steps=st0,s200.bjson,r200,J~result;st1,s404.bhtml,r404,J~result;st2,s200,r200,-", inst))
		out = append(out, fmt.Sprintf("k=run gun=grpc tgt=grpc agg=phout inst=%d m=3 reqs=ok:0,code:5,code:99,garbage:1,nomethod:0,badpayload:0,empty:0", inst))
		out = append(out, fmt.Sprintf("k=run gun=grpc/scenario tgt=grpc agg=phout inst=%d n=6 calls=tg0,ok,0,as200;tg1,code,7,as200;tg2,ok,0,-", inst))
		out = append(out, fmt.Sprintf("k=run gun=grpc/scenario tgt=grpc agg=phout inst=%d n=6 calls=tg0,list,2,-;tg1,ok,0,Pg~0~result~%s~itemId;tg2,code,4294967295,-", inst, ixField("next")))
	}
	for i := 0; i < mul(25, 800); i++ {
		k := 1 + r.Intn(3)
		opts, cc := randOpts(r, true)
		var steps []string
		for j := 0; j < k; j++ {
			s := randScript(r)
			var pps []string
			for q := r.Intn(3); q > 0; q-- {
				pps = append(pps, randPP(r))
			}
			pp := "-"
			if len(pps) > 0 {
				pp = strings.Join(pps, "+")
			}
			steps = append(steps, fmt.Sprintf("st%d,%s,%s,%s", j, s, truthOf(s, cc), pp))
		}
		out = append(out, fmt.Sprintf("k=run gun=http/scenario tgt=live agg=phout inst=%d n=%d%s steps=%s", 1+r.Intn(4), 2+r.Intn(6), opts, strings.Join(steps, ";")))
	}
	// 4. library DEFAULTS decide how long the peer can keep a shot busy: a stalled TLS handshake ends after the default
	// tls-handshake-timeout (no tlsto), the next connection serves HTTP/2
	out = append(out, "k=run gun=http2 tgt=tlsplan plan=stall/h2 dka=0 inst=1 m=1 dflt=1 reqs=s200.bx5:r200,s404:r404")
	out = append(out, "k=run gun=http tgt=tlsplan plan=stall/h2 ssl=1 dka=0 inst=1 m=1 dflt=1 reqs=s200.bx5:r200,s404:r404")
	out = append(out, "k=run gun=http2/scenario tgt=tlsplan plan=stall/h2 dka=0 inst=1 n=2 dflt=1 steps=st0,s200.bjson,r200,J~result;st1,s404,r404,-")
	// 5. timed schedules: the waiter of instance.Run works against the clock. Without discard_overflow a slow answer only
	// delays the following shots; with it every token that is overdue by MaxOverdueDuration is reported as a
	// "discarded" sample — one sample per token either way, and the instance takes the next ammo
	out = append(out, "k=run gun=http tgt=live inst=1 m=2 sched=10x1000 reqs=s200.bjson:r200,s404:r404,actclose:f,s500.bx7:r500,s200.bx40.actmidclose:rb200")
	out = append(out, "k=run gun=http tgt=live inst=2 m=4 sched=20x500 disc=1 reqs=s200.bjson:r200,s404:r404,actclose:f,s500.bx7:r500,s200.bx40.actmidclose:rb200")
	out = append(out, "k=run gun=http tgt=live inst=1 m=2 sched=10x1000 disc=1 reqs=s200.bjson.actwait2700:r200,s404:r404,actclose:f,s500.bx7:r500,s200.bx40.actmidclose:rb200")
	// … and WITHOUT discard_overflow a slow answer must not cost any token its shot (every sample carries a status / failure)
	out = append(out, "k=run gun=http tgt=live inst=1 m=2 sched=10x1000 reqs=s200.bjson.actwait2700:r200,s404:r404,actclose:f,s500.bx7:r500,s200.bx40.actmidclose:rb200")
	out = append(out, "k=run gun=http/scenario tgt=live inst=1 n=8 sched=10x800 steps=st0,s200.bjson.actwait2700,r200,J~result;st1,s404.bhtml,r404,-")
	out = append(out, "k=run gun=http tgt=live inst=1 m=2 sched=10x1000 disc=1 agg=phout reqs=s503.bhtml.actwait2700:r503,s404:r404,actreset:f,s500.bx7:r500,s200.bx40.actmidclose:rb200")
	out = append(out, "k=run gun=http/scenario tgt=live inst=1 n=8 sched=10x800 disc=1 steps=st0,s200.bjson.actwait2700,r200,J~result;st1,s404.bhtml,r404,J~result;st2,s200,r200,-")
	out = append(out, "k=run gun=grpc tgt=grpc inst=1 m=2 sched=10x1000 disc=1 reqs=ok:0,code:5,code:99,garbage:1,nomethod:0")
	if thorough {
		for i := 0; i < 12; i++ {
			out = append(out, fmt.Sprintf("k=run gun=http tgt=live inst=%d m=3 sched=12x1000 disc=%d reqs=s200.bjson.actwait%d:r200,s404:r404,actclose:f,s500.bx7:r500",
				1+r.Intn(3), r.Intn(2), []int{300, 2300, 2700, 3200}[r.Intn(4)]))
		}
	}
	// 6. the shared iterator itself under real concurrency (model: iterRun, theorem C19_iterator_interleaving): 2, 3 and
	// many goroutines on fresh segments
	for _, g := range []int{2, 3, 8, mul(16, 48)} {
		out = append(out, fmt.Sprintf("k=iter g=%d seg=%d calls=%d rs=%d", g, mul(1500, 6000), 1+r.Intn(3), 1+r.Intn(1000)))
		out = append(out, fmt.Sprintf("k=iter g=%d seg=%d calls=%d rs=%d", g, 2, mul(400, 4000), 1+r.Intn(1000)))
	}
	// 7. the DNS-caching dialer + SimpleDNSCache under real concurrency (model: dnsDials, C19_dns_cache_transparent):
	// 1, 2, 3 and many goroutines filling the cache for fresh hosts at the same time
	for _, g := range []int{1, 2, 3, mul(16, 48)} {
		out = append(out, fmt.Sprintf("k=dnsc g=%d hosts=%d rounds=%d", g, mul(1500, 6000), 2+r.Intn(3)))
	}
	return out
}
