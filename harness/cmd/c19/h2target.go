package main

// The hostile HTTP/2 target of the C19 driver (`tgt=h2raw`): TLS with ALPN h2 (so the guns' `checkHTTP2` is satisfied)
// and then full control of the FRAMES. Ordinary scripts (status / body / headers) are answered with well-formed
// HEADERS + DATA; `acth2<what>` misbehaves at the framing level for that request:
//
//	valid but unusual (complete response):
//	  h2cont       the header block split over HEADERS + CONTINUATION frames
//	  h2trailers   HEADERS, DATA, trailing HEADERS with END_STREAM
//	  h21xx        three interim (103, 100, 102) header blocks before the final one
//	  h2ping       forty PING frames before the response
//	  h2unknown    frames of unknown types (must be ignored) around the response
//	  h2zero       empty DATA frames between the real ones, padded DATA
//	  h2window     a flood of WINDOW_UPDATE frames, a SETTINGS change in the middle of the response
//	  h2bytes      the body sent one byte per DATA frame (first 200 bytes)
//	head only, then the body breaks (`rb`):
//	  h2rstmid<N>  HEADERS, half the body, RST_STREAM with error code N
//	  h2shortcl    content-length announces more than END_STREAM delivers
//	  h2eofmid     HEADERS, half the body, the TCP connection closed
//	  h2goawaymid  HEADERS, half the body, GOAWAY(INTERNAL_ERROR), connection closed
//	no response (`f`):
//	  h2rst<N>     RST_STREAM with error code N (not 7 = REFUSED_STREAM: the client library retries that for a minute)
//	  h2goaway<N>  GOAWAY naming the stream as processed, error code N, connection closed
//	  h2badhpack   a header block that is not HPACK            h2nostatus   a header block without :status
//	  h2badstatus  `:status: abc`                              h2upper      an upper-case header name
//	  h2datafirst  DATA before any HEADERS                     h2bigframe   a frame beyond the maximum frame size
//	  h2push       PUSH_PROMISE although the client disabled push
//	  h2zerowin    WINDOW_UPDATE with increment 0              h2badset     SETTINGS ENABLE_PUSH = 7
//	  h2http1      an HTTP/1.1 response in plain text instead of frames
//	  h2eof        the connection closed without an answer     h2hugehdr    a 12 MB header block (beyond the client's limit)
//	  h2longcl     more DATA than content-length announces
//
// The target is a pure function of the request (the script travels in the X-Script header).

import (
	"bytes"
	"crypto/tls"
	"fmt"
	"io"
	"net"
	"strconv"
	"strings"
	"sync"
	"time"

	"golang.org/x/net/http2"
	"golang.org/x/net/http2/hpack"
)

// h2rawTarget: one listener per engine run, closed (with every connection it accepted) when the run is over: the
// guns registered by components/phttp/import are wrapped in a type without Close(), so the engine never closes their
// HTTP/2 connections; a shared target would collect two descriptors per run until the driver runs out of them.
type h2rawTarget struct {
	l     net.Listener
	Addr  string
	mu    sync.Mutex
	conns map[net.Conn]struct{}
	done  bool
}

func newH2Raw() *h2rawTarget {
	l := listenRetry()
	t := &h2rawTarget{l: l, Addr: l.Addr().String(), conns: map[net.Conn]struct{}{}}
	cfg := &tls.Config{Certificates: []tls.Certificate{selfSigned()}, NextProtos: []string{"h2"}}
	go func() {
		for {
			c, err := l.Accept()
			if err != nil {
				return
			}
			t.mu.Lock()
			if t.done {
				t.mu.Unlock()
				_ = c.Close()
				return
			}
			t.conns[c] = struct{}{}
			t.mu.Unlock()
			go func() {
				h2rawServe(tls.Server(c, cfg), c)
				t.mu.Lock()
				delete(t.conns, c)
				t.mu.Unlock()
			}()
		}
	}()
	return t
}

func (t *h2rawTarget) Close() {
	_ = t.l.Close()
	t.mu.Lock()
	t.done = true
	for c := range t.conns {
		_ = c.Close()
	}
	t.mu.Unlock()
}

type h2rawConn struct {
	tc  *tls.Conn
	fr  *http2.Framer
	enc *hpack.Encoder
	hb  bytes.Buffer
}

func (h *h2rawConn) block(fields ...[2]string) []byte {
	h.hb.Reset()
	for _, f := range fields {
		_ = h.enc.WriteField(hpack.HeaderField{Name: f[0], Value: f[1]})
	}
	return append([]byte(nil), h.hb.Bytes()...)
}

func h2rawServe(tc *tls.Conn, raw net.Conn) {
	defer tc.Close()
	_ = tc.SetDeadline(time.Now().Add(30 * time.Second))
	if err := tc.Handshake(); err != nil {
		return
	}
	preface := make([]byte, len(http2.ClientPreface))
	if _, err := io.ReadFull(tc, preface); err != nil || string(preface) != http2.ClientPreface {
		return
	}
	h := &h2rawConn{tc: tc, fr: http2.NewFramer(tc, tc)}
	h.enc = hpack.NewEncoder(&h.hb)
	dec := hpack.NewDecoder(4096, nil)
	h.fr.ReadMetaHeaders = dec
	h.fr.MaxHeaderListSize = 1 << 20
	if err := h.fr.WriteSettings(http2.Setting{ID: http2.SettingMaxConcurrentStreams, Val: 100}); err != nil {
		return
	}
	for {
		_ = tc.SetDeadline(time.Now().Add(30 * time.Second))
		f, err := h.fr.ReadFrame()
		if err != nil {
			return
		}
		switch f := f.(type) {
		case *http2.SettingsFrame:
			if !f.IsAck() {
				_ = h.fr.WriteSettingsAck()
			}
		case *http2.PingFrame:
			if !f.IsAck() {
				_ = h.fr.WritePing(true, f.Data)
			}
		case *http2.MetaHeadersFrame:
			script := ""
			for _, hf := range f.Fields {
				if hf.Name == "x-script" {
					script = hf.Value
				}
			}
			if !h.answer(f.StreamID, script, raw) {
				return
			}
		}
	}
}

// answer writes the scripted reaction to the request on stream id; false = the connection is finished.
func (h *h2rawConn) answer(id uint32, script string, raw net.Conn) bool {
	sc, err := c19ParseScript(script)
	if err != nil {
		_ = h.fr.WriteHeaders(http2.HeadersFrameParam{StreamID: id, BlockFragment: h.block([2]string{":status", "500"}), EndHeaders: true, EndStream: true})
		return true
	}
	act := strings.TrimPrefix(sc.Act, "h2")
	if !strings.HasPrefix(sc.Act, "h2") {
		act = ""
	}
	body := sc.Body
	status := strconv.Itoa(sc.Status)
	fields := [][2]string{{":status", status}}
	for _, kv := range sc.Headers {
		fields = append(fields, [2]string{strings.ToLower(kv[0]), kv[1]})
	}
	noBody := sc.Status/100 == 1 || sc.Status == 204 || sc.Status == 304
	if noBody {
		body = nil
	}
	decl := len(body)
	if sc.DeclLen >= 0 {
		decl = sc.DeclLen
	}
	num := func(pfx string) (int, bool) {
		if strings.HasPrefix(act, pfx) {
			if n, err := strconv.Atoi(act[len(pfx):]); err == nil {
				return n, true
			}
		}
		return 0, false
	}
	head := func(endStream bool) {
		fs := fields
		if !noBody {
			fs = append(fs, [2]string{"content-length", strconv.Itoa(decl)})
		}
		_ = h.fr.WriteHeaders(http2.HeadersFrameParam{StreamID: id, BlockFragment: h.block(fs...), EndHeaders: true, EndStream: endStream})
	}
	data := func(b []byte, end bool) {
		for len(b) > 16000 {
			_ = h.fr.WriteData(id, false, b[:16000])
			b = b[16000:]
		}
		_ = h.fr.WriteData(id, end, b)
	}
	whole := func() {
		if noBody || len(body) == 0 {
			head(true)
			return
		}
		head(false)
		data(body, true)
	}
	if n, ok := num("rstmid"); ok {
		head(false)
		data(body[:len(body)/2], false)
		_ = h.fr.WriteRSTStream(id, http2.ErrCode(n))
		return true
	}
	if n, ok := num("rst"); ok {
		_ = h.fr.WriteRSTStream(id, http2.ErrCode(n))
		return true
	}
	if n, ok := num("goaway"); ok && act != "goawaymid" {
		_ = h.fr.WriteGoAway(id, http2.ErrCode(n), []byte("scripted"))
		return false
	}
	switch act {
	case "":
		whole()
	case "cont":
		blk := h.block(append(fields, [2]string{"content-length", strconv.Itoa(decl)}, [2]string{"x-filler", strings.Repeat("c", 300)})...)
		third := len(blk) / 3
		_ = h.fr.WriteHeaders(http2.HeadersFrameParam{StreamID: id, BlockFragment: blk[:third], EndHeaders: false})
		_ = h.fr.WriteContinuation(id, false, blk[third:2*third])
		_ = h.fr.WriteContinuation(id, true, blk[2*third:])
		data(body, true)
	case "trailers":
		head(false)
		data(body, false)
		_ = h.fr.WriteHeaders(http2.HeadersFrameParam{StreamID: id, BlockFragment: h.block([2]string{"x-trailer", "t"}, [2]string{"grpc-status", "13"}), EndHeaders: true, EndStream: true})
	case "1xx":
		for _, st := range []string{"103", "100", "102"} {
			_ = h.fr.WriteHeaders(http2.HeadersFrameParam{StreamID: id, BlockFragment: h.block([2]string{":status", st}, [2]string{"link", "</x>; rel=preload"}), EndHeaders: true})
		}
		whole()
	case "ping":
		for i := 0; i < 40; i++ {
			_ = h.fr.WritePing(false, [8]byte{byte(i)})
		}
		whole()
	case "unknown":
		_ = h.fr.WriteRawFrame(http2.FrameType(0xfa), 0xff, id, []byte("unknown frame type"))
		head(false)
		_ = h.fr.WriteRawFrame(http2.FrameType(0x42), 0, 0, nil)
		data(body, true)
	case "zero":
		head(false)
		_ = h.fr.WriteData(id, false, nil)
		_ = h.fr.WriteDataPadded(id, false, body[:len(body)/2], make([]byte, 37))
		_ = h.fr.WriteData(id, false, nil)
		data(body[len(body)/2:], true)
	case "window":
		for i := 0; i < 50; i++ {
			_ = h.fr.WriteWindowUpdate(0, 1000)
			_ = h.fr.WriteWindowUpdate(id, 1000)
		}
		head(false)
		_ = h.fr.WriteSettings(http2.Setting{ID: http2.SettingInitialWindowSize, Val: 70000}, http2.Setting{ID: http2.SettingMaxFrameSize, Val: 20000})
		data(body, true)
	case "bytes":
		head(false)
		i := 0
		for ; i < len(body) && i < 200; i++ {
			_ = h.fr.WriteData(id, false, body[i:i+1])
		}
		data(body[i:], true)
	case "shortcl":
		decl = len(body) + 10
		head(false)
		data(body, true)
	case "longcl":
		if len(body) < 2 {
			body = []byte("xxxxxxxx")
		}
		decl = len(body) / 2
		head(false)
		data(body, true)
	case "eofmid":
		head(false)
		data(body[:len(body)/2], false)
		return false
	case "goawaymid":
		head(false)
		data(body[:len(body)/2], false)
		_ = h.fr.WriteGoAway(id, http2.ErrCodeInternal, nil)
		return false
	case "badhpack":
		_ = h.fr.WriteHeaders(http2.HeadersFrameParam{StreamID: id, BlockFragment: []byte{0xff, 0xff, 0xff, 0xff, 0xff, 0xff, 0xff, 0x7f}, EndHeaders: true})
		return false
	case "nostatus":
		_ = h.fr.WriteHeaders(http2.HeadersFrameParam{StreamID: id, BlockFragment: h.block([2]string{"content-type", "text/plain"}), EndHeaders: true, EndStream: true})
	case "badstatus":
		_ = h.fr.WriteHeaders(http2.HeadersFrameParam{StreamID: id, BlockFragment: h.block([2]string{":status", "abc"}), EndHeaders: true, EndStream: true})
	case "upper":
		_ = h.fr.WriteHeaders(http2.HeadersFrameParam{StreamID: id, BlockFragment: h.block([2]string{":status", status}, [2]string{"X-Upper", "v"}), EndHeaders: true, EndStream: true})
	case "datafirst":
		_ = h.fr.WriteData(id, false, []byte("data before headers"))
		whole()
	case "bigframe":
		_ = h.fr.WriteRawFrame(http2.FrameData, 0, id, make([]byte, 1<<20))
		return false
	case "push":
		_ = h.fr.WritePushPromise(http2.PushPromiseParam{StreamID: id, PromiseID: 2, BlockFragment: h.block([2]string{":method", "GET"}, [2]string{":path", "/pushed"}, [2]string{":scheme", "https"}, [2]string{":authority", "x"}), EndHeaders: true})
		whole()
	case "zerowin":
		_ = h.fr.WriteRawFrame(http2.FrameWindowUpdate, 0, id, []byte{0, 0, 0, 0})
		whole()
	case "badset":
		_ = h.fr.WriteSettings(http2.Setting{ID: http2.SettingEnablePush, Val: 7})
		whole()
	case "http1":
		_, _ = fmt.Fprintf(h.tc, "HTTP/1.1 %03d Scripted\r\nContent-Length: %d\r\n\r\n%s", sc.Status, len(body), body)
		return false
	case "eof":
		return false
	case "hugehdr":
		big := strings.Repeat("h", 16000)
		var fs [][2]string
		fs = append(fs, fields...)
		for i := 0; i < 750; i++ {
			fs = append(fs, [2]string{"x-huge-" + strconv.Itoa(i), big})
		}
		blk := h.block(fs...)
		_ = h.fr.WriteHeaders(http2.HeadersFrameParam{StreamID: id, BlockFragment: blk[:16000], EndHeaders: false})
		blk = blk[16000:]
		for len(blk) > 16000 {
			if err := h.fr.WriteContinuation(id, false, blk[:16000]); err != nil {
				return false
			}
			blk = blk[16000:]
		}
		_ = h.fr.WriteContinuation(id, true, blk)
		return false
	default:
		whole()
	}
	return true
}

// h2Truth: ground truth of a script for an HTTP/2 client of the h2raw target (vocabulary of truthOf).
func h2Truth(script string) string {
	sc, err := c19ParseScript(script)
	if err != nil {
		panic(err)
	}
	act := strings.TrimPrefix(sc.Act, "h2")
	st := sc.Status
	noBody := st/100 == 1 || st == 204 || st == 304
	r := fmt.Sprintf("r%d", st)
	rb := fmt.Sprintf("rb%d", st)
	if st/100 == 1 {
		return "u" // a "final" 1xx: the library decides
	}
	switch {
	case strings.HasPrefix(act, "rstmid"), act == "eofmid", act == "goawaymid", act == "shortcl":
		if noBody || (len(sc.Body) == 0 && act != "shortcl") {
			return "u"
		}
		return rb
	case strings.HasPrefix(act, "rst"), strings.HasPrefix(act, "goaway"):
		return "f"
	}
	switch act {
	case "", "cont", "trailers", "1xx", "ping", "unknown", "zero", "window", "bytes":
		return r
	case "longcl":
		if noBody {
			return "u"
		}
		return "u" // head delivered, then the surplus DATA is a stream error: `rb` or `f` (the library decides when it notices)
	case "push", "zerowin", "badset", "datafirst":
		return "u" // a connection / stream error raised around an otherwise complete response: the library decides which wins
	}
	return "f"
}
