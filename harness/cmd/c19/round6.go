package main

// Round 6: STATE THAT SURVIVES FROM ONE SCHEDULE TOKEN TO THE NEXT. A slow answer makes the instance late for the
// following token(s); with discard_overflow (the CLI default) such a token is reported as `discarded` instead of being
// shot. What the waiter remembers about a late token must not decide the fate of the tokens AFTER it: the instance
// "goes on with the next ammo".
//
//	k=wait ops=<op>,<op>,…   the REAL coreutil.Waiter over a scripted schedule, one Wait + IsSlowDown per token:
//	    t<ms>   the schedule hands out a token due <ms> milliseconds from the moment of Next() (negative: in the past —
//	            what a slow answer does to the next token)
//	    e       the schedule is finished (Next: false)
//	    z<ms>   the instance is busy for <ms> milliseconds before it asks again (the cached clock reading gets old)
//	    c       the run context is cancelled before the next call
//	    observation `w=<ok><slow>,…` per token; offsets keep away from the 2 s threshold (≤ -2600 or ≥ -1400) and a call
//	    for a due token that took more than 400 ms (machine stall) makes the case INCONCLUSIVE
//	k=run … schedx=<part>+<part>+… disc=1   engine run on a COMPOSITE schedule: o<n> = once n, p<ms> = const 0 ops for
//	    <ms> (a gap), c<ops>x<ms> = const. With inst=1 and a plain gun the samples arrive in token order; the recording
//	    aggregator notes WHEN each arrived (ms since just before Engine.Run): ` seq=<d|s>:<ms>,…`. The Spec demands of
//	    every `discarded` sample that it was reported at least MaxOverdueDuration after its token's instant (the
//	    schedule starts after the reference instant, so the measured lateness is an upper bound of the real one).

import (
	"context"
	"fmt"
	"math/rand"
	"strconv"
	"strings"
	"sync"
	"time"

	"verifharness/shot"

	"github.com/yandex/pandora/core"
	"github.com/yandex/pandora/core/aggregator/netsample"
	"github.com/yandex/pandora/core/coreutil"
)

// r6Sched: the scripted schedule of k=wait. `pending` is the op the next call of Next answers.
type r6Sched struct {
	pending string
	calls   int
}

func (s *r6Sched) Start(time.Time) {}
func (s *r6Sched) Left() int       { return -1 }
func (s *r6Sched) Next() (time.Time, bool) {
	s.calls++
	if strings.HasPrefix(s.pending, "t") {
		return time.Now().Add(time.Duration(atoi(s.pending[1:], 0)) * time.Millisecond), true
	}
	return time.Time{}, false
}

var _ core.Schedule = (*r6Sched)(nil)

func runWait(m map[string]string) string {
	sc := &r6Sched{}
	w := coreutil.NewWaiter(sc)
	ctx, cancel := context.WithCancel(context.Background())
	defer cancel()
	var out []string
	for _, op := range strings.Split(m["ops"], ",") {
		switch {
		case op == "":
		case op == "c":
			cancel()
		case strings.HasPrefix(op, "z"):
			time.Sleep(time.Duration(atoi(op[1:], 0)) * time.Millisecond)
		case op == "e" || strings.HasPrefix(op, "t"):
			sc.pending = op
			off := 0
			if op != "e" {
				off = atoi(op[1:], 0)
			}
			t0 := time.Now()
			ok := w.Wait(ctx)
			d := time.Since(t0)
			slow := w.IsSlowDown(ctx)
			if (off <= 0 && d > 400*time.Millisecond) || (off > 0 && d > time.Duration(off)*time.Millisecond+1500*time.Millisecond) {
				return fmt.Sprintf("INCONCLUSIVE machine too busy: Wait for %s took %d ms", op, d.Milliseconds())
			}
			out = append(out, b01(ok)+b01(slow))
		default:
			return "bad-op " + op
		}
	}
	return "w=" + strings.Join(out, ",")
}

func b01(b bool) string {
	if b {
		return "1"
	}
	return "0"
}

// r6Rec: a recording aggregator that also notes when each sample arrived.
type r6Rec struct {
	shot.Rec
	mu  sync.Mutex
	t0  time.Time
	seq []string
}

func (r *r6Rec) Report(s core.Sample) {
	now := time.Now()
	kind := "s"
	if ns, ok := s.(*netsample.Sample); ok && ns.Tags() == netsample.DiscardedShootTag {
		kind = "d"
	}
	r.mu.Lock()
	r.seq = append(r.seq, kind+":"+strconv.FormatInt(now.Sub(r.t0).Milliseconds(), 10))
	r.mu.Unlock()
	r.Rec.Report(s)
}

func (r *r6Rec) Seq() string {
	r.mu.Lock()
	defer r.mu.Unlock()
	return strings.Join(r.seq, ",")
}

// r6Rps renders the rps list of a schedx spec.
func r6Rps(spec string) string {
	var parts []string
	for _, p := range strings.Split(spec, "+") {
		switch {
		case strings.HasPrefix(p, "o"):
			parts = append(parts, fmt.Sprintf("{type: once, times: %d}", atoi(p[1:], 1)))
		case strings.HasPrefix(p, "p"):
			parts = append(parts, fmt.Sprintf("{type: const, ops: 0, duration: %dms}", atoi(p[1:], 1)))
		case strings.HasPrefix(p, "c"):
			f := strings.SplitN(p[1:], "x", 2)
			if len(f) != 2 {
				panic("r6Rps: bad part " + p)
			}
			parts = append(parts, fmt.Sprintf("{type: const, ops: %d, duration: %dms}", atoi(f[0], 1), atoi(f[1], 1000)))
		default:
			panic("r6Rps: bad part " + p)
		}
	}
	return "rps: [" + strings.Join(parts, ", ") + "]"
}

// genRound6: the cases of the round-6 dimension.
func genRound6(r *rand.Rand, thorough bool) []string {
	var out []string
	add := func(ops ...string) { out = append(out, "k=wait ops="+strings.Join(ops, ",")) }
	late := func() string { return "t-" + strconv.Itoa(2600+r.Intn(4000)) } // overdue
	soon := func() string { return "t-" + strconv.Itoa(r.Intn(1400)) }      // late, not overdue
	future := func() string { return "t" + strconv.Itoa(1+r.Intn(60)) }     // the waiter sleeps
	// every ordered pair and triple of token kinds: what the waiter remembers of one token meets every kind of next token
	kinds := []func() string{late, soon, future}
	for _, a := range kinds {
		for _, b := range kinds {
			add(a(), b())
			for _, c := range kinds {
				add(a(), b(), c())
			}
		}
	}
	add("t-3000", "t40", "t-200", "t30", "t-5000", "t-1", "t0", "t25")
	add("t30", "z40", "t-15", "t-2700", "z35", "t-20", "t10") // the cached reading is old: second clock reading
	add("t-2800", "e", "t20")                                 // a finished schedule resets
	add("t-2800", "c", "t20", "t-3000")                       // a cancelled context: no token is waited for, nothing is slow
	add("t5", "z2300", "t-2200", "t15", "t-100")              // overdue found by the SECOND reading of the clock
	n := 40
	if thorough {
		n = 600
	}
	for i := 0; i < n; i++ {
		var ops []string
		for j := 2 + r.Intn(7); j > 0; j-- {
			switch x := r.Intn(20); {
			case x < 6:
				ops = append(ops, late())
			case x < 11:
				ops = append(ops, soon())
			case x < 16:
				ops = append(ops, future())
			case x < 18:
				ops = append(ops, "z"+strconv.Itoa(1+r.Intn(50)))
			case x < 19:
				ops = append(ops, "e")
			default:
				ops = append(ops, "c")
			}
		}
		add(ops...)
	}
	// engine runs: ONE slow answer makes the next token overdue; the tokens after a gap in the profile are in the future when
	// the instance asks for them and must be shot. One ammo per token (a discarded token consumes its ammo too), the slow
	// request comes first and only once.
	quickReqs := []string{"s404:r404", "s500.bx7:r500", "s200.bjson:r200", "actclose:f", "s200.bx40.actmidclose:rb200", "s204:r204"}
	reqsFor := func(first string, tokens int) string {
		l := []string{first}
		for i := 1; i < tokens; i++ {
			l = append(l, quickReqs[(i-1)%len(quickReqs)])
		}
		return strings.Join(l, ",")
	}
	out = append(out, "k=run gun=http tgt=live inst=1 m=1 schedx=o2+p2800+c3x1000 disc=1 reqs="+reqsFor("s200.bjson.actwait2300:r200", 5))
	out = append(out, "k=run gun=connect tgt=live inst=1 m=1 schedx=o3+p3000+c4x1000 disc=1 reqs="+reqsFor("s503.bhtml.actwait2400:r503", 7))
	if thorough {
		for i := 0; i < 6; i++ {
			o, c := 2+r.Intn(3), 2+r.Intn(4)
			out = append(out, fmt.Sprintf("k=run gun=http tgt=live inst=1 m=1 schedx=o%d+p%d+c%dx1000+p600+c2x1000 disc=1 reqs=%s",
				o, 2700+r.Intn(600), c, reqsFor(fmt.Sprintf("s200.bjson.actwait%d:r200", 2200+r.Intn(300)), o+c+2)))
		}
	}
	return out
}
