package main

// runEngine: harness/shot.RunEngine with one more knob — the engine's logger. With debug = true the engine gets a
// logger that ACCEPTS debug entries (and throws them away), so the guns switch on their DebugLog paths
// (verboseLogging: dumps of request / response, re-reading of bodies), which handle response data too.

import (
	"context"
	"io"
	"regexp"
	"strings"
	"time"

	"verifharness/shot"

	"github.com/yandex/pandora/cli"
	"github.com/yandex/pandora/core/config"
	"github.com/yandex/pandora/core/engine"
	"github.com/yandex/pandora/lib/monitoring"
	"go.uber.org/zap"
	"go.uber.org/zap/zapcore"
	"gopkg.in/yaml.v2"
)

var (
	c19Metrics = engine.Metrics{
		Request:        monitoring.NewCounter("verif19_Requests"),
		Response:       monitoring.NewCounter("verif19_Responses"),
		InstanceStart:  monitoring.NewCounter("verif19_UsersStarted"),
		InstanceFinish: monitoring.NewCounter("verif19_UsersFinished"),
	}
	reDigits = regexp.MustCompile(`[0-9]+`)
)

func clipWords(s string, n int) string {
	s = strings.Join(strings.Fields(s), "_")
	if len(s) > n {
		s = s[:n]
	}
	return s
}

// classifyRun maps Engine.Run's result to ok | panic:<why> | err:<text>.
func classifyRun(err error) string {
	if err == nil {
		return "ok"
	}
	s := err.Error()
	if i := strings.Index(s, "shoot panic: "); i >= 0 {
		r := s[i+len("shoot panic: "):]
		switch {
		case strings.Contains(r, "slice bounds out of range"):
			return "panic:slice-bounds"
		case strings.Contains(r, "interface conversion"):
			return "panic:type-assertion"
		case strings.Contains(r, "Non HTTP/2 connection established"):
			return "panic:not-http2"
		case strings.Contains(r, "index out of range"):
			return "panic:index"
		case strings.Contains(r, "nil pointer"):
			return "panic:nil"
		case strings.Contains(r, "nil map"):
			return "panic:nil-map"
		}
		return "panic:other:" + clipWords(reDigits.ReplaceAllString(r, "N"), 60)
	}
	return "err:" + clipWords(reDigits.ReplaceAllString(s, "N"), 240)
}

// engineX: the knobs of round 4.
//
//	afterDecode  runs between config decoding (the gun factories resolve their target there) and Engine.Run
//	phout        when set: the pool keeps the REAL phout aggregator of its config (`result: {type: phout, destination: phout}`,
//	             samples are pooled and released by the aggregator) and the samples are read back from that file
type engineX struct {
	afterDecode func()
	phout       string
	// lateFailed (set by afterDecode): the listener that was to come up after the config was decoded could not bind its
	// reserved address (another process of the shared machine took the port in between): nothing was observed
	lateFailed *bool
	// ts (round 6): the recording aggregator that also notes when each sample arrived (schedx runs)
	ts *r6Rec
}

func runEngine(yamlConf string, timeout time.Duration, debug bool) shot.Result {
	return runEngineX(yamlConf, timeout, debug, engineX{})
}

func runEngineX(yamlConf string, timeout time.Duration, debug bool, x engineX) shot.Result {
	shot.Init()
	mapCfg := map[string]any{}
	if err := yaml.Unmarshal([]byte(yamlConf), &mapCfg); err != nil {
		return shot.Result{Class: "config:yaml:" + clipWords(err.Error(), 60)}
	}
	conf := cli.DefaultConfig()
	if err := config.DecodeAndValidate(mapCfg, conf); err != nil {
		return shot.Result{Class: "config:" + clipWords(reDigits.ReplaceAllString(err.Error(), "N"), 100)}
	}
	rec := &shot.Rec{}
	if x.ts != nil {
		rec = &x.ts.Rec
	}
	if x.phout == "" {
		for i := range conf.Engine.Pools {
			if x.ts != nil {
				conf.Engine.Pools[i].Aggregator = x.ts
			} else {
				conf.Engine.Pools[i].Aggregator = rec
			}
		}
	}
	if x.afterDecode != nil {
		x.afterDecode()
		if x.lateFailed != nil && *x.lateFailed {
			return shot.Result{Class: "address_already_in_use (the late listener could not bind its reserved address)"}
		}
	}
	log := zap.NewNop()
	if debug {
		log = zap.New(zapcore.NewCore(zapcore.NewJSONEncoder(zap.NewProductionEncoderConfig()), zapcore.AddSync(io.Discard), zap.DebugLevel))
	}
	eng := engine.New(log, c19Metrics, conf.Engine)
	ctx, cancel := context.WithCancel(context.Background())
	defer cancel()
	done := make(chan error, 1)
	if x.ts != nil {
		x.ts.t0 = time.Now() // before the engine (hence the schedule) starts: measured lateness >= real lateness
	}
	go func() { done <- eng.Run(ctx) }()
	var class string
	select {
	case err := <-done:
		class = classifyRun(err)
	case <-time.After(timeout):
		class = "hang"
	}
	cancel()
	w := make(chan struct{})
	go func() { eng.Wait(); close(w) }()
	select {
	case <-w:
	case <-time.After(2 * time.Second):
	}
	if x.phout != "" {
		return shot.Result{Class: class, Samples: readPhout(x.phout)}
	}
	return shot.Result{Class: class, Samples: rec.Snapshot()}
}
