package main

// TLS targets of the C19 driver whose behaviour is scripted PER CONNECTION (the http2 guns decide on what the TLS layer
// reports, before any request is seen, so the script cannot travel in a request header): `plan=<c0>/<c1>/…` says what
// the 1st, 2nd, … accepted connection meets; the last entry repeats.
//
//	h2        TLS 1.3, ALPN h2: requests are answered by the script interpreter (X-Script header) over HTTP/2
//	h2v12     the same over TLS 1.2
//	h1        a TLS server that offers http/1.1 only: an `h2`-only client gets the alert no_application_protocol (120)
//	          from the TLS library itself (the documented fatal condition); an http/1.1 client is served
//	noalpn    a TLS server that does not negotiate ALPN at all and speaks HTTP/1.1 (for the http2 guns: a response over a
//	          connection without h2 — documented fatal)
//	cc13      TLS 1.3, h2, client certificate required: the client completes ITS handshake, then receives the alert
//	          certificate_required (116) on the established connection
//	cc12      TLS 1.2, client certificate required: alert bad_certificate (42) inside the handshake
//	a<L>.<C>  after the ClientHello a raw alert record with level L and description C (any byte values), then close
//	warn      twenty warning-level alerts (ignored by the client up to a limit), then close
//	eof0      close at once        eof   close after the ClientHello       rst   reset after the ClientHello
//	garb      answer the ClientHello with plain-text HTTP                   trunc  half a handshake record, then close
//	big       a record header announcing 65535 bytes                        badsh  a ServerHello of length zero
//	stall     never answer the ClientHello (the client's TLS handshake timeout ends it)

import (
	"crypto/ecdsa"
	"crypto/elliptic"
	"crypto/rand"
	"crypto/tls"
	"crypto/x509"
	"crypto/x509/pkix"
	"errors"
	"io"
	"log"
	"math/big"
	"net"
	"net/http"
	"strconv"
	"strings"
	"sync"
	"sync/atomic"
	"time"
)

var (
	tlsCertOnce sync.Once
	tlsCert     tls.Certificate
)

func selfSigned() tls.Certificate {
	tlsCertOnce.Do(func() {
		key, err := ecdsa.GenerateKey(elliptic.P256(), rand.Reader)
		if err != nil {
			panic(err)
		}
		tpl := &x509.Certificate{
			SerialNumber: big.NewInt(19),
			Subject:      pkix.Name{CommonName: "verif-c19"},
			NotBefore:    time.Now().Add(-time.Hour),
			NotAfter:     time.Now().Add(240 * time.Hour),
			KeyUsage:     x509.KeyUsageDigitalSignature,
			ExtKeyUsage:  []x509.ExtKeyUsage{x509.ExtKeyUsageServerAuth},
			IPAddresses:  []net.IP{net.IPv4(127, 0, 0, 1)},
			DNSNames:     []string{"localhost"},
		}
		der, err := x509.CreateCertificate(rand.Reader, tpl, tpl, &key.PublicKey, key)
		if err != nil {
			panic(err)
		}
		tlsCert = tls.Certificate{Certificate: [][]byte{der}, PrivateKey: key}
	})
	return tlsCert
}

// c19ScriptHandler interprets the status / body / header part of a script through net/http's own server (HTTP/2 and
// HTTP/1.1 over TLS); the same reading as harness/shot's TLS target.
func c19ScriptHandler(w http.ResponseWriter, r *http.Request) {
	_, _ = io.Copy(io.Discard, r.Body)
	sc, err := c19ParseScript(r.Header.Get("X-Script"))
	if err != nil {
		w.WriteHeader(500)
		return
	}
	switch sc.Act {
	case "close", "reset":
		panic(http.ErrAbortHandler)
	case "hang":
		select {
		case <-r.Context().Done():
		case <-time.After(20 * time.Second):
		}
		panic(http.ErrAbortHandler)
	}
	for _, h := range sc.Headers {
		w.Header().Set(h[0], h[1])
	}
	if sc.DeclLen >= 0 {
		w.Header().Set("Content-Length", strconv.Itoa(sc.DeclLen))
	}
	w.WriteHeader(sc.Status)
	body := sc.Body
	if sc.Act == "midreset" || sc.Act == "midclose" {
		_, _ = w.Write(body[:len(body)/2])
		if f, ok := w.(http.Flusher); ok {
			f.Flush()
		}
		panic(http.ErrAbortHandler)
	}
	_, _ = w.Write(body)
}

// chanListener hands connections accepted elsewhere to an http.Server.
type chanListener struct {
	ch     chan net.Conn
	closed chan struct{}
	once   sync.Once
	addr   net.Addr
}

func (l *chanListener) Accept() (net.Conn, error) {
	select {
	case c := <-l.ch:
		return c, nil
	case <-l.closed:
		return nil, errors.New("listener closed")
	}
}
func (l *chanListener) Close() error   { l.once.Do(func() { close(l.closed) }); return nil }
func (l *chanListener) Addr() net.Addr { return l.addr }

// stallGiveUps counts scripted stalls that the target had to end itself after 8 s (the client did not time out)
var stallGiveUps atomic.Int64

type tlsPlanTarget struct {
	l     net.Listener
	Addr  string
	plan  []string
	conns atomic.Int64
	cl    *chanListener
	srv   *http.Server
	done  chan struct{}
}

func tlsConfigFor(kind string) *tls.Config {
	cfg := &tls.Config{Certificates: []tls.Certificate{selfSigned()}, NextProtos: []string{"h2", "http/1.1"}}
	switch kind {
	case "h2":
	case "h2v12":
		cfg.MaxVersion = tls.VersionTLS12
	case "h1":
		cfg.NextProtos = []string{"http/1.1"}
	case "noalpn":
		cfg.NextProtos = nil
	case "cc13":
		cfg.MinVersion = tls.VersionTLS13
		cfg.ClientAuth = tls.RequireAnyClientCert
	case "cc12":
		cfg.MaxVersion = tls.VersionTLS12
		cfg.ClientAuth = tls.RequireAnyClientCert
	default:
		return nil
	}
	return cfg
}

func newTLSPlanTarget(plan []string) *tlsPlanTarget {
	l := listenRetry()
	t := &tlsPlanTarget{l: l, Addr: l.Addr().String(), plan: plan, done: make(chan struct{})}
	t.cl = &chanListener{ch: make(chan net.Conn), closed: make(chan struct{}), addr: l.Addr()}
	t.srv = &http.Server{Handler: http.HandlerFunc(c19ScriptHandler), ErrorLog: log.New(io.Discard, "", 0)}
	go func() { _ = t.srv.Serve(t.cl) }()
	go func() {
		for {
			c, err := l.Accept()
			if err != nil {
				return
			}
			i := int(t.conns.Add(1)) - 1
			if i >= len(plan) {
				i = len(plan) - 1
			}
			kind := plan[i]
			if cfg := tlsConfigFor(kind); cfg != nil {
				select {
				case t.cl.ch <- tls.Server(c, cfg):
				case <-t.done:
					_ = c.Close()
				}
				continue
			}
			go t.raw(c, kind)
		}
	}()
	return t
}

func (t *tlsPlanTarget) Close() {
	close(t.done)
	_ = t.l.Close()
	_ = t.srv.Close()
	_ = t.cl.Close()
}

// readClientHello consumes one TLS record (the ClientHello fits in one).
func readClientHello(c net.Conn) bool {
	var hdr [5]byte
	if _, err := io.ReadFull(c, hdr[:]); err != nil {
		return false
	}
	n := int(hdr[3])<<8 | int(hdr[4])
	_, err := io.CopyN(io.Discard, c, int64(n))
	return err == nil
}

func (t *tlsPlanTarget) raw(c net.Conn, kind string) {
	defer c.Close()
	_ = c.SetDeadline(time.Now().Add(10 * time.Second))
	if kind == "eof0" {
		return
	}
	if !readClientHello(c) {
		return
	}
	switch {
	case kind == "eof":
	case kind == "rst":
		rstConn(c)
	case kind == "garb":
		_, _ = io.WriteString(c, "HTTP/1.1 400 Bad Request\r\nContent-Length: 0\r\n\r\n")
	case kind == "trunc":
		_, _ = c.Write([]byte{0x16, 0x03, 0x03, 0x00, 0x7a, 0x02, 0x00, 0x00})
	case kind == "big":
		_, _ = c.Write(append([]byte{0x16, 0x03, 0x03, 0xff, 0xff}, make([]byte, 64)...))
	case kind == "badsh":
		_, _ = c.Write([]byte{0x16, 0x03, 0x03, 0x00, 0x04, 0x02, 0x00, 0x00, 0x00})
	case kind == "warn":
		for i := 0; i < 20; i++ {
			if _, err := c.Write([]byte{0x15, 0x03, 0x03, 0x00, 0x02, 0x01, 0x5a}); err != nil {
				return
			}
		}
	case kind == "stall":
		// until the client gives up (it closes: Read returns) or the target is closed
		ch := make(chan struct{})
		go func() { _, _ = io.Copy(io.Discard, c); close(ch) }()
		select {
		case <-ch:
		case <-t.done:
		case <-time.After(8 * time.Second):
			stallGiveUps.Add(1) // the CLIENT never gave up: the target ends the stall itself
		}
	case strings.HasPrefix(kind, "a"):
		f := strings.SplitN(kind[1:], ".", 2)
		lv, _ := strconv.Atoi(f[0])
		code := 0
		if len(f) > 1 {
			code, _ = strconv.Atoi(f[1])
		}
		_, _ = c.Write([]byte{0x15, 0x03, 0x03, 0x00, 0x02, byte(lv), byte(code)})
		// let the client read the alert before the FIN
		time.Sleep(5 * time.Millisecond)
	}
}
