package main

// C19: correspondence driver. (1) the REAL engine (core/engine, plugin factories, real providers) runs every gun kind
// against scripted misbehaving targets, with every kind of postprocessor configured; observation = class of
// Engine.Run's result + the samples the aggregator received. (2) direct differential of the response-processing
// functions (var/header modifiers, assert/response http + grpc, var/jsonpath, var/xpath) through their exported
// constructors / Process methods against the Checked model (lean/Pandora/Model/C19.lean).

import (
	"bytes"
	"encoding/hex"
	"fmt"
	"io"
	"math/rand"
	"net/http"
	"os"
	"sort"
	"strconv"
	"strings"
	"sync"
	"time"

	"verifharness/drv"
	"verifharness/shot"

	"github.com/golang/protobuf/proto"
	grpcpp "github.com/yandex/pandora/components/providers/scenario/grpc/postprocessor"
	"github.com/yandex/pandora/components/providers/scenario/http/postprocessor"
	scnimport "github.com/yandex/pandora/components/providers/scenario/import"
	"github.com/yandex/pandora/examples/grpc/server"
)

func hx(s string) string { return hex.EncodeToString([]byte(s)) }
func unhx(s string) string {
	b, err := hex.DecodeString(s)
	if err != nil {
		panic("bad hex " + s)
	}
	return string(b)
}
func atoi(s string, d int) int {
	if s == "" {
		return d
	}
	n, err := strconv.Atoi(s)
	if err != nil {
		panic("bad int " + s)
	}
	return n
}

// ---------------------------------------------------------------- modifier text

// modText renders the structural modifier list (lo | up | s1:a | s2:a:b | rp:hexold:hexnew, '/' separated) as the
// pipe syntax of var/header.
func modText(mods string) string {
	var parts []string
	for _, m := range strings.Split(mods, "/") {
		f := strings.Split(m, ":")
		switch f[0] {
		case "":
		case "lo":
			parts = append(parts, "lower")
		case "up":
			parts = append(parts, "upper")
		case "s1":
			parts = append(parts, "substr("+f[1]+")")
		case "s2":
			parts = append(parts, "substr("+f[1]+", "+f[2]+")")
		case "rp":
			parts = append(parts, "replace("+unhx(f[1])+","+unhx(f[2])+")")
		case "bad":
			parts = append(parts, "nosuchmodifier(1)")
		default:
			panic("bad modifier " + m)
		}
	}
	return strings.Join(parts, "|")
}

func runMod(m map[string]string) string {
	chain := "X-Val"
	if t := modText(m["mods"]); t != "" {
		chain += "|" + t
	}
	p := scnimport.NewVarHeaderPostprocessor(postprocessor.Config{Mapping: map[string]string{"v": chain}})
	resp := &http.Response{Header: http.Header{}}
	resp.Header.Set("X-Val", unhx(m["val"]))
	out, err := p.Process(resp, bytes.NewReader(nil))
	if err != nil {
		return "err"
	}
	v, ok := out["v"]
	if !ok {
		return "unset"
	}
	return "ok:" + hx(v.(string))
}

// ---------------------------------------------------------------- assert/response (http, grpc), jsonpath, xpath

func splitNonEmpty(s, sep string) []string {
	if s == "" {
		return nil
	}
	return strings.Split(s, sep)
}

// opSpelling: the operator names of the input lines and how assert/response spells them
var opSpelling = map[string]string{"eq": "eq", "lt": "lt", "gt": "gt", "eqs": "=", "lts": "<", "gts": ">", "bad": "~", "ge": ">="}

func runAssert(m map[string]string) string {
	a := postprocessor.AssertResponse{StatusCode: atoi(m["cfgst"], 0), Headers: map[string]string{}}
	for _, p := range splitNonEmpty(m["pats"], ",") {
		a.Body = append(a.Body, unhx(p))
	}
	for _, c := range splitNonEmpty(m["chk"], ",") {
		kv := strings.SplitN(c, ":", 2)
		a.Headers[kv[0]] = unhx(kv[1])
	}
	if sz := m["size"]; sz != "" && sz != "-" {
		kv := strings.SplitN(sz, ":", 2)
		a.Size = &postprocessor.AssertSize{Op: opSpelling[kv[0]], Val: atoi(kv[1], 0)}
	}
	// through the registered constructor; an operator its Validate refuses is processed on the value as configured
	// (it reaches the default arm of the switch)
	type processor interface {
		Process(resp *http.Response, body io.Reader) (map[string]any, error)
	}
	var pp processor = a
	if c, err := scnimport.NewAssertResponsePostprocessor(a); err == nil {
		pp = c
	}
	resp := &http.Response{StatusCode: atoi(m["st"], 200), Header: http.Header{}}
	for _, h := range splitNonEmpty(m["hdrs"], ",") {
		kv := strings.SplitN(h, ":", 2)
		resp.Header.Set(kv[0], unhx(kv[1]))
	}
	var body io.Reader // nobody=1: an untyped nil reader
	if m["nobody"] != "1" {
		body = bytes.NewReader([]byte(unhx(m["body"])))
	}
	_, err := pp.Process(resp, body)
	if err != nil {
		return "err"
	}
	return "ok"
}

func runGAssert(m map[string]string) string {
	a := grpcpp.AssertResponse{StatusCode: atoi(m["cfgst"], 0)}
	for _, p := range splitNonEmpty(m["pats"], ",") {
		a.Payload = append(a.Payload, unhx(p))
	}
	var out proto.Message
	if m["out"] != "nil" {
		out = &server.HelloResponse{Hello: unhx(m["out"])}
	}
	_, err := a.Process(out, atoi(m["code"], 200))
	if err != nil {
		return "err"
	}
	return "ok"
}

var xpathExprs = map[string]string{
	"divdata": "//div[@class='data']", "href": "//a/@href", "title": "//title", "deep": "/html/body//div", "none": "//nosuchtag",
	"count": "count(//a)", "string": "string(//title)", "arith": "1+1", "bool": "boolean(//a)",
	"bad": "//[", "bad2": "///",
	"lis": "//li[@class='it']",
}

var jsonPaths = map[string]string{"result": "$.result", "item0": "$.items[0]", "missing": "$.missing", "ab": "$.a.b", "items": "$.items",
	"names": "$.names", "objs": "$.objs", "n": "$.n", "a": "$.a", "v": "$.v", "l": "$.l"}

func bodyOf(class string) []byte {
	if strings.HasPrefix(class, "raw:") {
		return []byte(unhx(class[4:]))
	}
	sc, err := c19ParseScript("b" + class)
	if err != nil {
		panic(err)
	}
	return sc.Body
}

func runXpath(m map[string]string) string {
	p := scnimport.NewVarXpathPostprocessor(postprocessor.Config{Mapping: map[string]string{"v": xpathExprs[m["expr"]]}})
	_, err := p.Process(&http.Response{}, bytes.NewReader(bodyOf(m["body"])))
	if err != nil {
		return "err"
	}
	return "ok"
}

func runJsonpath(m map[string]string) string {
	p := scnimport.NewVarJsonpathPostprocessor(postprocessor.Config{Mapping: map[string]string{"v": jsonPaths[m["path"]]}})
	_, err := p.Process(&http.Response{}, bytes.NewReader(bodyOf(m["body"])))
	if err != nil {
		return "err"
	}
	return "ok"
}

// ---------------------------------------------------------------- engine runs

func ppHCL(tok string) string {
	f := strings.Split(tok, "~")
	switch f[0] {
	case "H": // H~<hdr>~<mods>
		chain := f[1]
		if len(f) > 2 {
			if t := modText(f[2]); t != "" {
				chain += "|" + t
			}
		}
		return fmt.Sprintf("postprocessor \"var/header\" {\n    mapping = {\n      v = %s\n    }\n  }", shot.HCLString(chain))
	case "A": // A~<status>~<hexbodypat|->~<hdr:hexpat|->~<op:val|->
		var b strings.Builder
		b.WriteString("postprocessor \"assert/response\" {\n")
		if f[1] != "0" {
			fmt.Fprintf(&b, "    status_code = %s\n", f[1])
		}
		if f[2] != "-" {
			fmt.Fprintf(&b, "    body = [%s]\n", shot.HCLString(unhx(f[2])))
		}
		if f[3] != "-" {
			kv := strings.SplitN(f[3], ":", 2)
			fmt.Fprintf(&b, "    headers = {\n      %s = %s\n    }\n", shot.HCLString(kv[0]), shot.HCLString(unhx(kv[1])))
		}
		if f[4] != "-" {
			kv := strings.SplitN(f[4], ":", 2)
			op := map[string]string{"eq": "=", "lt": "<", "gt": ">", "eqw": "eq", "ltw": "lt", "gtw": "gt"}[kv[0]]
			fmt.Fprintf(&b, "    size {\n      val = %s\n      op = %s\n    }\n", kv[1], shot.HCLString(op))
		}
		b.WriteString("  }")
		return b.String()
	case "J":
		return fmt.Sprintf("postprocessor \"var/jsonpath\" {\n    mapping = {\n      v = %s\n    }\n  }", shot.HCLString(jsonPaths[f[1]]))
	case "X":
		return fmt.Sprintf("postprocessor \"var/xpath\" {\n    mapping = {\n      v = %s\n    }\n  }", shot.HCLString(xpathExprs[f[1]]))
	}
	panic("bad pp " + tok)
}

var (
	tlsMu   sync.Mutex
	tlsAddr = map[bool]string{}
)

// sharedTLS: one TLS target with and one without HTTP/2 for the whole driver process
func sharedTLS(h2 bool) string {
	tlsMu.Lock()
	defer tlsMu.Unlock()
	if a, ok := tlsAddr[h2]; ok {
		return a
	}
	a, _ := shot.NewTLSTarget(h2)
	tlsAddr[h2] = a
	return a
}

// fmtRun renders the observation of an engine run. A run during which the MACHINE ran out of local ports (many checks
// run at once; errno EADDRNOTAVAIL / EADDRINUSE on the client side) says nothing about the guns: INCONCLUSIVE.
func fmtRun(res shot.Result) string {
	cnt := map[string]int{}
	// (the scripted gRPC server always answers the reflection calls of the warm-up: a warm-up that fails means the
	// machine was too busy to complete it within the gun's one-second dial timeout)
	if strings.Contains(res.Class, "assign_requested_address") || strings.Contains(res.Class, "address_already_in_use") ||
		strings.Contains(res.Class, "gun_warm_up_failed") {
		return "INCONCLUSIVE machine too busy (ports / warm-up): " + res.Class
	}
	timeoutSeen, tmoShape := "", ""
	for _, s := range res.Samples {
		if s.Net == 98 || s.Net == 99 {
			return "INCONCLUSIVE local ports exhausted (errno " + strconv.Itoa(s.Net) + ")"
		}
		if s.Net == 110 {
			timeoutSeen = " TIMEOUT-SEEN"
		}
		if strings.Contains(s.Shape, "timeout") || strings.Contains(s.Shape, "tmo") {
			tmoShape = " TMO-SHAPE"
		}
	}
	for _, s := range res.Samples {
		nc := "0"
		if s.Net != 0 {
			nc = "nz"
		}
		cnt[fmt.Sprintf("%s:%d:%s", hx(s.Tags), s.Proto, nc)]++
	}
	keys := make([]string, 0, len(cnt))
	for k := range cnt {
		keys = append(keys, k)
	}
	sort.Strings(keys)
	var parts []string
	for _, k := range keys {
		parts = append(parts, fmt.Sprintf("%s*%d", k, cnt[k]))
	}
	return fmt.Sprintf("res=%s n=%d s=%s", res.Class, len(res.Samples), strings.Join(parts, ",")) + tmoShape + timeoutSeen
}

// gunOpts renders the optional gun settings an input line can switch on:
//
//	alog=all|warning|error  answlog (written to /dev/null)     trace=1 / dump=1  httptrace
//	redir=1  follow redirects     gz=1  let the transport ask for gzip and decode it     shc=N  shared client pool
//	rht=ms   response-header-timeout
func gunOpts(m map[string]string) string {
	s := ""
	if v := m["alog"]; v != "" {
		s += fmt.Sprintf(`, answlog: {enabled: true, path: "/dev/null", filter: %s}`, v)
	}
	if m["trace"] == "1" || m["dump"] == "1" {
		s += fmt.Sprintf(`, httptrace: {trace: %v, dump: %v}`, m["trace"] == "1", m["dump"] == "1")
	}
	if m["redir"] == "1" {
		s += `, redirect: true`
	}
	if m["gz"] == "1" {
		s += `, disable-compression: false`
	}
	if n := atoi(m["shc"], 0); n > 0 {
		s += fmt.Sprintf(`, shared-client: {enabled: true, client-number: %d}`, n)
	}
	if n := atoi(m["rht"], 0); n > 0 {
		s += fmt.Sprintf(`, response-header-timeout: %dms`, n)
	}
	if m["ssl"] == "1" {
		s += `, ssl: true`
	}
	if m["dka"] == "1" {
		s += `, disable-keep-alives: true`
	}
	if n := atoi(m["tlsto"], 0); n > 0 {
		s += fmt.Sprintf(`, tls-handshake-timeout: %dms`, n)
	}
	return s
}

// planTarget starts the per-connection scripted TLS target of a `tgt=tlsplan` case.
func planTarget(m map[string]string) *tlsPlanTarget {
	return newTLSPlanTarget(strings.Split(m["plan"], "/"))
}

func httpGunYAML(typ, target string, m map[string]string) string {
	return fmt.Sprintf(`{type: "%s", target: "%s", dial: {timeout: 2s}%s}`, typ, target, gunOpts(m))
}

// runRun runs one engine case. Every scripted exchange takes milliseconds, the scripted silences end after the
// configured 0.6 - 1 s timeouts; a run that needs more than slowRun (but finishes) was starved by the machine (CPU,
// local ports: gRPC calls then wait for a connection until their 15 s deadline) and says nothing about the guns.
const slowRun = 8 * time.Second

func runRun(m map[string]string) string {
	t0 := time.Now()
	giveUps0 := stallGiveUps.Load()
	obs := runRun1(m)
	// a timeout (errno 110) where nothing was scripted to be silent: the loaded machine did not get to accept / answer
	// within the dial or header timeout
	if !strings.Contains(m["reqs"]+m["steps"], "acthang") && !strings.Contains(m["plan"], "stall") && strings.Contains(obs, "TIMEOUT-SEEN") {
		return "INCONCLUSIVE machine too busy: a connection timed out although the target was not scripted to be silent"
	}
	obs = strings.TrimSuffix(obs, " TIMEOUT-SEEN")
	// a TLS handshake / dial that timed out although no connection of the plan was scripted to stall
	if strings.HasSuffix(obs, " TMO-SHAPE") {
		if m["tgt"] == "tlsplan" && !strings.Contains(m["plan"], "stall") && !strings.Contains(m["reqs"]+m["steps"], "acthang") {
			return "INCONCLUSIVE machine too busy: a TLS connection timed out although the target was not scripted to stall"
		}
		obs = strings.TrimSuffix(obs, " TMO-SHAPE")
	}
	// dflt=1: nothing but the library DEFAULT of tls-handshake-timeout (1 s) ends the scripted stall; a run that needs
	// more than 5 s was not ended by it (the target itself gives up after 8 s)
	// (decided by the TARGET, not by the clock of a loaded machine: it had to end the stall itself)
	if d := time.Since(t0); m["dflt"] == "1" && stallGiveUps.Load() > giveUps0 && !strings.HasPrefix(obs, "res=panic") {
		return fmt.Sprintf("res=hang n=0 s= (the default tls-handshake-timeout did not end a stalled handshake: the target gave up after 8 s, the run took %d s)", int(d.Seconds()))
	}
	if d := time.Since(t0); d > slowRun && !strings.HasPrefix(obs, "res=hang") && !strings.HasPrefix(obs, "res=panic") {
		return fmt.Sprintf("INCONCLUSIVE machine too busy: the run took %d s", int(d.Seconds()))
	}
	if m["schedx"] != "" && strings.HasPrefix(obs, "res=") {
		obs += " seq=" + m["_seq"]
	}
	return obs
}

func runRun1(m map[string]string) string {
	inst := atoi(m["inst"], 1)
	gun := m["gun"]
	debug := m["dbg"] == "1"
	switch gun {
	case "http", "connect", "http2":
		var reqs []shot.HTTPReq
		for i, r := range strings.Split(m["reqs"], ",") {
			f := strings.SplitN(r, ":", 2)
			reqs = append(reqs, shot.HTTPReq{Tag: fmt.Sprintf("r%d", i), URI: fmt.Sprintf("/p/%d", i), Script: f[0]})
		}
		var target string
		switch m["tgt"] {
		case "dead":
			target = shot.DeadAddr()
		case "tls2", "tls1":
			target = sharedTLS(m["tgt"] == "tls2")
		case "c403", "cgarbage", "cextra", "cclose":
			target = sharedHostile(m["tgt"]).Addr
		case "tlsplan":
			t := planTarget(m)
			defer t.Close()
			target = t.Addr
		case "h2raw":
			t := newH2Raw()
			defer t.Close()
			target = t.Addr
		default:
			target = sharedHostile("").Addr
		}
		passes := atoi(m["m"], 1)
		f := shot.TempFile(".uri", shot.URIAmmo(reqs))
		target, x, cleanup := r4Target(m, target)
		defer cleanup()
		conf := shot.PoolYAML("uri", f, fmt.Sprintf(", passes: %d", passes), httpGunYAML(gun, target, m), passes*len(reqs)+inst, inst)
		conf = r4Conf(m, conf, &x)
		res := runEngineX(conf, 60*time.Second, debug, x)
		if x.ts != nil {
			m["_seq"] = x.ts.Seq() // appended to the observation by runRun
		}
		return fmtRun(res)
	case "http/scenario", "http2/scenario":
		var steps []c19Step
		for i, r := range strings.Split(m["steps"], ";") {
			f := strings.Split(r, ",")
			if len(f) < 4 {
				panic("bad step " + r)
			}
			st := c19Step{ScnStep: shot.ScnStep{Name: f[0], URI: "/scn/" + f[0], Script: f[1]}}
			for _, p := range splitNonEmpty(f[3], "+") {
				switch {
				case p == "-":
				case p == "tpl":
					st.URI += "{{"
				case p == "U" && i > 0:
					// the URI uses the variable `v` a postprocessor of the previous step extracted from ITS response
					st.URI += "?x={{.request." + strings.Split(strings.Split(m["steps"], ";")[i-1], ",")[0] + ".postprocessor.v}}"
				case p == "U":
				case strings.HasPrefix(p, "P~") || strings.HasPrefix(p, "F~"):
					// a preprocessor that reads a variable stored from an earlier RESPONSE; the URI renders its result
					blk, uri := preToken(p, f[0])
					st.PP = append(st.PP, blk)
					st.URI += uri
				case strings.HasPrefix(p, "T~"):
					// the URI indexes a list stored from an earlier response
					g := strings.Split(p, "~")
					st.URI += "?t={{index .request." + g[1] + ".postprocessor.v " + g[2] + "}}"
				case strings.HasPrefix(p, "UH~"):
					st.Headers = append(st.Headers, [2]string{"X-Tok", "{{.request." + p[3:] + ".postprocessor.v}}"})
				case strings.HasPrefix(p, "UB~"):
					st.Method = "POST"
					st.Body = `{"v": "{{.request.` + p[3:] + `.postprocessor.v}}"}`
				case p == "TH":
					st.PP = append(st.PP, "templater {\n    type = \"html\"\n  }")
				default:
					st.PP = append(st.PP, ppHCL(p))
				}
			}
			steps = append(steps, st)
		}
		var target string
		switch m["tgt"] {
		case "dead":
			target = shot.DeadAddr()
		case "tls2", "tls1":
			target = sharedTLS(m["tgt"] == "tls2")
		case "tlsplan":
			t := planTarget(m)
			defer t.Close()
			target = t.Addr
		case "h2raw":
			t := newH2Raw()
			defer t.Close()
			target = t.Addr
		default:
			target = sharedHostile("").Addr
		}
		f := shot.TempFile(".hcl", c19ScenarioHCL("scn", steps))
		target, x, cleanup := r4Target(m, target)
		defer cleanup()
		conf := shot.PoolYAML("http/scenario", f, "", httpGunYAML(gun, target, m), atoi(m["n"], 1), inst)
		return fmtRun(runEngineX(r4Conf(m, conf, &x), 60*time.Second, debug, x))
	case "grpc":
		var reqs []shot.GrpcReq
		for i, r := range strings.Split(m["reqs"], ",") {
			f := strings.SplitN(r, ":", 2)
			q := shot.GrpcReq{Tag: fmt.Sprintf("r%d", i), Call: "target.TargetService.Hello", Payload: map[string]any{"name": "verif"}}
			switch f[0] {
			case "nomethod":
				q.Call = "target.TargetService.NoSuchMethod"
			case "badpayload":
				q.Payload = map[string]any{"no_such_field": 1}
			default:
				q.Metadata, _ = grpcKindMeta(f[0], f[1])
			}
			reqs = append(reqs, q)
		}
		addr := ""
		if k := atoi(m["stopafter"], 0); k > 0 {
			var stop func()
			addr, stop = newHostileGrpc(k)
			defer stop()
		} else {
			var release func()
			addr, release = acquireGrpc()
			defer release()
		}
		passes := atoi(m["m"], 1)
		f := shot.TempFile(".json", shot.GrpcAmmo(reqs))
		gy := fmt.Sprintf(`{type: grpc, target: "%s"`, addr)
		if to := atoi(m["to"], 0); to > 0 {
			gy += fmt.Sprintf(", timeout: %dms", to)
		}
		if v := m["alog"]; v != "" {
			gy += fmt.Sprintf(`, answlog: {enabled: true, path: "/dev/null", filter: %s}`, v)
		}
		if n := atoi(m["shc"], 0); n > 0 {
			gy += fmt.Sprintf(`, shared-client: {enabled: true, client-number: %d}`, n)
		}
		gy += "}"
		conf := shot.PoolYAML("grpc/json", f, fmt.Sprintf(", passes: %d", passes), gy, passes*len(reqs)+inst, inst)
		var x engineX
		return fmtRun(runEngineX(r4Conf(m, conf, &x), 60*time.Second, debug, x))
	case "grpc/scenario":
		var calls []shot.GrpcCall
		for i, r := range strings.Split(m["calls"], ";") {
			f := strings.Split(r, ",")
			if len(f) < 4 {
				panic("bad call " + r)
			}
			c := shot.GrpcCall{Name: fmt.Sprintf("c%d", i), Tag: f[0], Call: "target.TargetService.Hello", Payload: `{"name": "verif"}`}
			switch f[1] {
			case "nomethod":
				c.Call = "target.TargetService.NoSuchMethod"
			case "badpayload":
				c.Payload = `{"no_such_field": 1}`
			case "list":
				// the List method answers with a list of f[2] items (grpctarget.go: x-list)
				c.Call = "target.TargetService.List"
				c.Payload = `{"token": "t", "user_id": 1}`
				c.Metadata = map[string]string{"x-list": f[2]}
			default:
				c.Metadata, _ = grpcKindMeta(f[1], f[2])
			}
			for _, tok := range strings.Split(f[3], "+") {
				switch {
				case tok == "-" || tok == "":
				case tok == "U":
					if i > 0 && f[1] != "badpayload" && f[1] != "list" {
						// the payload uses a field of the PREVIOUS call's response message (absent when that call failed or
						// answered with a foreign message)
						c.Payload = fmt.Sprintf(`{"name": "v{{.request.c%d.postprocessor.hello}}"}`, i-1)
					}
				case strings.HasPrefix(tok, "as"):
					g := strings.SplitN(tok[2:], ":", 2)
					pp := fmt.Sprintf("postprocessor \"assert/response\" {\n    status_code = %s\n", g[0])
					if len(g) > 1 {
						pp += fmt.Sprintf("    payload = [%s]\n", shot.HCLString(unhx(g[1])))
					}
					c.PP = append(c.PP, pp+"  }")
				case strings.HasPrefix(tok, "Pg~"):
					// Pg~<src call>~<field>~<index field>[~sub]: a preprocessor reads a field of an earlier RESPONSE message
					g := strings.Split(tok, "~")
					mapping := "request.c" + g[1] + ".postprocessor." + g[2]
					if g[3] != "-" {
						mapping += "[" + unhx(g[3][1:]) + "]"
					}
					if len(g) > 4 {
						mapping += "." + g[4]
					}
					c.PP = append(c.PP, fmt.Sprintf("preprocessor \"prepare\" {\n    mapping = {\n      x = %s\n    }\n  }", shot.HCLString(mapping)))
					if f[1] != "badpayload" && f[1] != "list" {
						c.Payload = fmt.Sprintf(`{"name": "v{{.request.c%d.preprocessor.x}}"}`, i)
					}
				case strings.HasPrefix(tok, "Fg~"):
					// Fg~<fn>~<src call>~<field>: a template function on a field of an earlier response message
					g := strings.Split(tok, "~")
					c.PP = append(c.PP, fmt.Sprintf("preprocessor \"prepare\" {\n    mapping = {\n      x = %s\n    }\n  }",
						shot.HCLString(fmt.Sprintf(tplFuncSpelling[g[1]], "request.c"+g[2]+".postprocessor."+g[3]))))
				default:
					panic("bad call token " + tok)
				}
			}
			calls = append(calls, c)
		}
		addr, release := acquireGrpc()
		defer release()
		f := shot.TempFile(".hcl", shot.GrpcScenarioHCL("gscn", calls))
		gy := fmt.Sprintf(`{type: grpc/scenario, target: "%s"`, addr)
		if to := atoi(m["to"], 0); to > 0 {
			gy += fmt.Sprintf(", timeout: %dms", to)
		}
		if v := m["alog"]; v != "" {
			gy += fmt.Sprintf(`, answlog: {enabled: true, path: "/dev/null", filter: %s}`, v)
		}
		gy += "}"
		conf := shot.PoolYAML("grpc/scenario", f, "", gy, atoi(m["n"], 1), inst)
		var x engineX
		return fmtRun(runEngineX(r4Conf(m, conf, &x), 60*time.Second, debug, x))
	}
	return "bad-gun"
}

func run(input string) string {
	m := drv.KV(input)
	switch m["k"] {
	case "mod":
		return runMod(m)
	case "assert":
		return runAssert(m)
	case "gassert":
		return runGAssert(m)
	case "xpath":
		return runXpath(m)
	case "jsonpath":
		return runJsonpath(m)
	case "idx":
		return runIdx(m)
	case "iter", "dnsc":
		return runViaChild(input)
	case "wait":
		return runWait(m)
	case "run":
		// in a child process (child.go): a crash of the whole process is an observation of THIS case
		return runViaChild(input)
	}
	return "bad-input"
}

// ---------------------------------------------------------------- generation

func randASCII(r *rand.Rand, n int) string {
	const al = "abcdefXYZ0123456789 =-_/.:;Bearer"
	b := make([]byte, n)
	for i := range b {
		b[i] = al[r.Intn(len(al))]
	}
	return string(b)
}

func randInt(r *rand.Rand) int {
	switch r.Intn(8) {
	case 0:
		return 0
	case 1:
		return -1 - r.Intn(5)
	case 2:
		return -(10 + r.Intn(100))
	case 3:
		return 30 + r.Intn(1000)
	case 4:
		return []int{1 << 31, -(1 << 31), 1<<62 + 12345, -(1 << 62), 9223372036854775807, -9223372036854775808}[r.Intn(6)]
	default:
		return r.Intn(12)
	}
}

func randMods(r *rand.Rand) string {
	n := 1 + r.Intn(3)
	var ms []string
	for i := 0; i < n; i++ {
		switch r.Intn(6) {
		case 0:
			ms = append(ms, "lo")
		case 1:
			ms = append(ms, "up")
		case 2:
			arg := func() string {
				const al = "abXY=-/ea"
				k := r.Intn(3)
				b := make([]byte, k)
				for i := range b {
					b[i] = al[r.Intn(len(al))]
				}
				return string(b)
			}
			ms = append(ms, "rp:"+hx(arg())+":"+hx(arg()))
		case 3:
			ms = append(ms, fmt.Sprintf("s1:%d", randInt(r)))
		default:
			ms = append(ms, fmt.Sprintf("s2:%d:%d", randInt(r), randInt(r)))
		}
	}
	return strings.Join(ms, "/")
}

var bodyClasses = []string{"json", "badjson", "html", "badhtml", "empty", "x7", "x4096"}

func randPP(r *rand.Rand) string {
	switch r.Intn(9) {
	case 0, 1, 2:
		hdr := []string{"X-Val", "X-Short", "X-Missing", "Content-Type"}[r.Intn(4)]
		return "H~" + hdr + "~" + randMods(r)
	case 3:
		// no body pattern: a size block alone makes the assertion read (and measure) the body
		return fmt.Sprintf("A~%d~-~-~%s", []int{0, 200, 404, 500}[r.Intn(4)], []string{"-", "-", "gt:10", "lt:10", "eq:0", "eq:7", "gt:100000"}[r.Intn(7)])
	case 4:
		return "A~0~" + hx([]string{"result", "token", "zzz", "<div"}[r.Intn(4)]) + "~-~" + []string{"-", "gt:10", "lt:10", "eq:0", "gt:100000"}[r.Intn(5)]
	case 5:
		return "A~0~-~" + []string{"Content-Type:" + hx("json"), "X-Val:" + hx("ab"), "X-Missing:" + hx("q")}[r.Intn(3)] + "~" + []string{"-", "eq:0", "gt:1"}[r.Intn(3)]
	case 6:
		return "J~" + []string{"result", "item0", "missing", "ab", "items"}[r.Intn(5)]
	case 7:
		return "X~" + []string{"divdata", "href", "title", "deep", "none", "bad"}[r.Intn(6)]
	default:
		return "X~" + []string{"count", "string", "arith", "bool"}[r.Intn(4)]
	}
}

var safeStatus = []int{200, 200, 200, 201, 301, 400, 404, 418, 500, 503, 599, 299, 600, 999, 0}

func randScript(r *rand.Rand) string {
	switch r.Intn(16) {
	case 0:
		return []string{"actclose", "actreset", "actgarbage", "actbadhdr", "actshortstatus"}[r.Intn(5)]
	case 1:
		return fmt.Sprintf("s%d.b%s.c%d", 200, "x10", 100+r.Intn(1000))
	case 2:
		return "s200.bjson.actmidclose"
	case 3:
		return fmt.Sprintf("s%d", []int{204, 304, 100, 102, 199}[r.Intn(5)])
	case 4, 5:
		// protocol-level misbehaviour around a response that would otherwise be fine
		act := []string{"badchunk", "cutchunk", "dupcl", "negcl", "hugecl", "badte", "many1xx", "few1xx", "nulhdr", "noreason", "slow", "extra", "badver", "badgzip", "nolen"}[r.Intn(15)]
		st := []int{200, 200, 404, 500, 503}[r.Intn(5)]
		return fmt.Sprintf("s%d.b%s.act%s", st, []string{"json", "html", "x7", "x4096", "badjson"}[r.Intn(5)], act)
	case 6:
		// an interim response first
		return fmt.Sprintf("i%d.s%d.b%s", []int{100, 102, 103}[r.Intn(3)], safeStatus[r.Intn(len(safeStatus))], bodyClasses[r.Intn(len(bodyClasses))])
	default:
		st := safeStatus[r.Intn(len(safeStatus))]
		s := fmt.Sprintf("s%d.b%s", st, bodyClasses[r.Intn(len(bodyClasses))])
		if r.Intn(2) == 0 {
			if r.Intn(5) == 0 {
				// bytes outside ASCII (no control characters: they would change the framing of the head)
				b := make([]byte, 1+r.Intn(8))
				for i := range b {
					b[i] = byte(0x80 + r.Intn(0x80))
				}
				s += ".hX-Val~" + hex.EncodeToString(b)
			} else {
				s += ".hX-Val~" + hx(randASCII(r, r.Intn(12)))
			}
		}
		if r.Intn(3) == 0 {
			s += ".hX-Short~" + hx(randASCII(r, r.Intn(3)))
		}
		if r.Intn(3) == 0 {
			s += ".hContent-Type~" + hx([]string{"application/json", "text/html", "x"}[r.Intn(3)])
		}
		return s
	}
}

// randRedirect: a redirecting response; followed only by a client with `redirect: true`
func randRedirect(r *rand.Rand) string {
	loc := []string{"/p/0", "http://%zz/", "http://" + shot.DeadAddr() + "/gone", "//", "/scn/st0?again=1"}[r.Intn(5)]
	return fmt.Sprintf("s%d.bhtml.hLocation~%s", []int{301, 302, 303, 307, 308}[r.Intn(5)], hx(loc))
}

// randOpts: optional gun settings that make more of the guns' code handle the response
func randOpts(r *rand.Rand, scenario bool) (string, clientConf) {
	var cc clientConf
	s := ""
	if r.Intn(3) == 0 {
		s += " alog=" + []string{"all", "warning", "error"}[r.Intn(3)]
	}
	if r.Intn(4) == 0 {
		s += " trace=1"
	}
	if r.Intn(4) == 0 {
		s += " dump=1"
	}
	if r.Intn(4) == 0 {
		s += " dbg=1"
	}
	if r.Intn(4) == 0 {
		s += " redir=1"
		cc.redir = true
	}
	if r.Intn(4) == 0 {
		s += " gz=1"
		cc.gzip = true
	}
	if r.Intn(5) == 0 {
		s += fmt.Sprintf(" shc=%d", 1+r.Intn(3))
	}
	return s, cc
}

func randGrpcKind(r *rand.Rand) string {
	switch r.Intn(12) {
	case 0, 1, 2:
		return "ok:0"
	case 3:
		return "nomethod:0"
	case 4:
		return "badpayload:0"
	case 5:
		return fmt.Sprintf("garbage:%d", r.Intn(4))
	case 6:
		return []string{"foreign:0", "empty:0"}[r.Intn(2)]
	case 7:
		return fmt.Sprintf("details:%d", 1+r.Intn(16))
	case 8:
		return fmt.Sprintf("code:%d", []int{17, 99, 1000, 4294967295}[r.Intn(4)])
	default:
		return fmt.Sprintf("code:%d", 1+r.Intn(16))
	}
}

func gen(r *rand.Rand, tier string) []string {
	thorough := tier == "thorough"
	var out []string
	mul := func(q, t int) int {
		if thorough {
			return t
		}
		return q
	}
	instChoices := []int{1, 1, 2, 3}
	if thorough {
		instChoices = []int{1, 2, 3, 4, 8}
	}
	// 1. direct differential of the modifiers: random chains ...
	for i := 0; i < mul(4000, 200000); i++ {
		out = append(out, fmt.Sprintf("k=mod mods=%s val=%s", randMods(r), hx(randASCII(r, r.Intn(14)))))
	}
	// ... and EXHAUSTIVELY every (start, end) in a window around the value's length, for every short length
	w, maxLen := mul(6, 12), mul(4, 9)
	for l := 0; l <= maxLen; l++ {
		val := hx("abcdefghijkl"[:l])
		if l == 0 {
			val = hx("q") // an empty value never reaches the modifier; keep the shortest non-empty one twice
		}
		for a := -w - l; a <= w+l; a++ {
			out = append(out, fmt.Sprintf("k=mod mods=s1:%d val=%s", a, val))
			for b := -w - l; b <= w+l; b++ {
				out = append(out, fmt.Sprintf("k=mod mods=s2:%d:%d val=%s", a, b, val))
			}
		}
	}
	// the documented example
	out = append(out, "k=mod mods=lo/rp:"+hx("=")+":"+hx("")+"/s1:6 val="+hx("Basic Ym9zY236Ym9zY28="))
	// non-ASCII / binary header values (the model predicts only chains without case mapping)
	for i := 0; i < mul(300, 10000); i++ {
		b := make([]byte, r.Intn(10))
		r.Read(b)
		for j := range b {
			if b[j] == 0 || b[j] == '\n' || b[j] == '\r' {
				b[j] = 0xC3
			}
		}
		out = append(out, fmt.Sprintf("k=mod mods=%s val=%s bin=1", randMods(r), hex.EncodeToString(b)))
	}
	out = append(out, "k=mod mods=bad val="+hx("abc"))
	// 2. assert/response http (every spelling of the size operator, and one Validate would refuse)
	ops := []string{"eq", "lt", "gt", "eqs", "lts", "gts", "bad", "ge"}
	for i := 0; i < mul(800, 30000); i++ {
		body := []string{shot.JSONBody, shot.BadJSONBody, "", "xxxxxxxxxxxx", shot.HTMLBody}[r.Intn(5)]
		var pats []string
		for j := r.Intn(3); j > 0; j-- {
			pats = append(pats, hx([]string{"result", "token", "zzz", "x", ""}[r.Intn(5)]))
		}
		hdrs := "X-Val:" + hx(randASCII(r, r.Intn(6)))
		chk := ""
		if r.Intn(2) == 0 {
			chk = []string{"X-Val", "X-Missing"}[r.Intn(2)] + ":" + hx(randASCII(r, r.Intn(2)))
		}
		size := "-"
		if r.Intn(2) == 0 {
			size = ops[r.Intn(len(ops))] + ":" + strconv.Itoa([]int{0, 1, 12, len(body), len(body) + 1, 100000}[r.Intn(6)])
		}
		// nobody=1: Process is handed a nil reader (the guns never do; the `body != nil` guard of the source)
		nobody := ""
		if r.Intn(16) == 0 {
			nobody = " nobody=1"
		}
		out = append(out, fmt.Sprintf("k=assert st=%d cfgst=%d body=%s pats=%s hdrs=%s chk=%s size=%s%s",
			[]int{200, 404, 500, 0, 999}[r.Intn(5)], []int{0, 200, 404}[r.Intn(3)], hx(body), strings.Join(pats, ","), hdrs, chk, size, nobody))
	}
	// 3. assert/response grpc
	for i := 0; i < mul(400, 15000); i++ {
		outv := "nil"
		if r.Intn(3) != 0 {
			outv = hx([]string{"Hello verif!", "", "token"}[r.Intn(3)])
		}
		var pats []string
		for j := r.Intn(3); j > 0; j-- {
			pats = append(pats, hx([]string{"Hello", "token", "zzz", ""}[r.Intn(4)]))
		}
		out = append(out, fmt.Sprintf("k=gassert code=%d cfgst=%d out=%s pats=%s", []int{200, 404, 500, 0, 503}[r.Intn(5)], []int{0, 200, 404}[r.Intn(3)], outv, strings.Join(pats, ",")))
	}
	// 4. xpath / jsonpath glue on well-formed, malformed and random bodies
	exprKind := map[string]string{"divdata": "nodeSet", "href": "nodeSet", "title": "nodeSet", "deep": "nodeSet", "none": "nodeSet",
		"count": "scalar", "string": "scalar", "arith": "scalar", "bool": "scalar", "bad": "invalid", "bad2": "invalid"}
	exprs := make([]string, 0, len(exprKind))
	for k := range exprKind {
		exprs = append(exprs, k)
	}
	sort.Strings(exprs)
	randBody := func() string {
		switch r.Intn(4) {
		case 0:
			b := make([]byte, r.Intn(64))
			r.Read(b)
			return "raw:" + hex.EncodeToString(b)
		case 1:
			// mutilated well-formed documents: cut, doubled, bytes flipped
			src := []byte([]string{shot.JSONBody, shot.HTMLBody, `[{"a":[[[[{"b":null}]]]]}, 1e999, "\ud800"]`, `<a><b><c><d><e><table><tr><td><select><option><p>`}[r.Intn(4)])
			switch r.Intn(3) {
			case 0:
				src = src[:r.Intn(len(src)+1)]
			case 1:
				src = append(src, src[r.Intn(len(src)):]...)
			default:
				for k := 0; k < 3 && len(src) > 0; k++ {
					src[r.Intn(len(src))] ^= byte(1 << uint(r.Intn(8)))
				}
			}
			return "raw:" + hex.EncodeToString(src)
		}
		return bodyClasses[r.Intn(len(bodyClasses))]
	}
	for i := 0; i < mul(500, 20000); i++ {
		e := exprs[r.Intn(len(exprs))]
		out = append(out, fmt.Sprintf("k=xpath expr=%s kind=%s body=%s", e, exprKind[e], randBody()))
		out = append(out, fmt.Sprintf("k=jsonpath path=%s body=%s", []string{"result", "item0", "missing", "ab", "items"}[r.Intn(5)], randBody()))
	}
	// 5. engine runs: plain http guns x behaviours x gun settings
	for i := 0; i < mul(150, 6000); i++ {
		gun := []string{"http", "connect"}[r.Intn(2)]
		opts, cc := randOpts(r, false)
		var reqs []string
		for j := 1 + r.Intn(6); j > 0; j-- {
			s := randScript(r)
			if cc.redir && r.Intn(2) == 0 || r.Intn(12) == 0 {
				s = randRedirect(r)
			}
			reqs = append(reqs, s+":"+truthOf(s, cc))
		}
		out = append(out, fmt.Sprintf("k=run gun=%s tgt=live inst=%d m=%d%s reqs=%s", gun, instChoices[r.Intn(len(instChoices))], 1+r.Intn(mul(3, 5)), opts, strings.Join(reqs, ",")))
	}
	out = append(out, "k=run gun=http tgt=dead inst=2 m=3 reqs=s200:f,s404:f", "k=run gun=connect tgt=dead inst=1 m=2 reqs=s200:f")
	out = append(out, "k=run gun=http tgt=dead inst=2 m=2 alog=all trace=1 dump=1 dbg=1 reqs=s200:f")
	// the connect gun's tunnel set-up is refused / answered with garbage / followed by stray bytes / dropped
	for _, mode := range []string{"c403", "cgarbage", "cextra", "cclose"} {
		out = append(out, fmt.Sprintf("k=run gun=connect tgt=%s inst=2 m=2 reqs=s200.bjson:f,s404:f", mode))
		out = append(out, fmt.Sprintf("k=run gun=connect tgt=%s inst=1 m=1 alog=all trace=1 dump=1 dbg=1 reqs=s200.bjson:f", mode))
	}
	out = append(out, "k=run gun=http tgt=live inst=2 m=1 rht=1000 reqs=acthang:f,acthang:f")
	// huge bodies and headers
	out = append(out, fmt.Sprintf("k=run gun=http tgt=live inst=2 m=1 reqs=s200.bx%d:r200,s500.bx%d.vX-Big~%d:r500", mul(2<<20, 16<<20), 1<<20, 200000))
	out = append(out, fmt.Sprintf("k=run gun=http tgt=live inst=1 m=1 alog=all dump=1 dbg=1 reqs=s200.bx%d:r200,s200.bx10.vX-Big~%d:r200", 1<<20, 2<<20))
	// http2 gun: HTTP/2 target (fine), a TLS target without HTTP/2 (the documented fatal condition), a dead one,
	// and a plain-TCP one (the TLS handshake fails: an error, not the fatal condition)
	for i := 0; i < mul(4, 200); i++ {
		opts, _ := randOpts(r, false)
		opts = strings.ReplaceAll(strings.ReplaceAll(opts, " redir=1", ""), " gz=1", "")
		var reqs []string
		for j := 1 + r.Intn(5); j > 0; j-- {
			reqs = append(reqs, []string{"s200.bx5:r200", "s503.bjson:r503", "s404:r404", "s200.bx40.actmidclose:rb200", "s999.bhtml:r999", "actclose:f", "s204:r204",
				"s200.bx300000:r200", "s500.bbadjson.hX-Val~6162:r500"}[r.Intn(9)])
		}
		out = append(out, fmt.Sprintf("k=run gun=http2 tgt=tls2 inst=%d m=%d%s reqs=%s", 1+r.Intn(3), 1+r.Intn(2), opts, strings.Join(reqs, ",")))
	}
	out = append(out, "k=run gun=http2 tgt=tls1 inst=1 m=1 reqs=s200.bx5:r200")
	out = append(out, "k=run gun=http2 tgt=tls1 inst=3 m=2 alog=all dbg=1 reqs=s200.bx5:r200,s404:r404")
	out = append(out, "k=run gun=http2 tgt=dead inst=1 m=2 reqs=s200:f")
	out = append(out, "k=run gun=http2 tgt=live inst=2 m=2 reqs=s200:f,s500.bjson:f")
	// 6. engine runs: http scenarios x postprocessors x behaviours x gun settings
	for i := 0; i < mul(600, 24000); i++ {
		k := 1 + r.Intn(mul(3, 6))
		opts, cc := randOpts(r, true)
		var steps []string
		for j := 0; j < k; j++ {
			s := randScript(r)
			if cc.redir && r.Intn(3) == 0 || r.Intn(15) == 0 {
				s = randRedirect(r)
			}
			var pps []string
			for q := r.Intn(mul(3, 6)); q > 0; q-- {
				pps = append(pps, randPP(r))
			}
			if r.Intn(25) == 0 {
				pps = append(pps, "tpl")
			}
			if j > 0 && r.Intn(4) == 0 {
				pps = append(pps, "U")
			}
			pp := "-"
			if len(pps) > 0 {
				pp = strings.Join(pps, "+")
			}
			steps = append(steps, fmt.Sprintf("st%d,%s,%s,%s", j, s, truthOf(s, cc), pp))
		}
		out = append(out, fmt.Sprintf("k=run gun=http/scenario tgt=live inst=%d n=%d%s steps=%s", instChoices[r.Intn(len(instChoices))], 1+r.Intn(mul(4, 9)), opts, strings.Join(steps, ";")))
	}
	out = append(out, "k=run gun=http/scenario tgt=dead inst=2 n=3 steps=st0,s200,f,H~X-Val~s1:5")
	out = append(out, "k=run gun=http/scenario tgt=live inst=1 n=2 rht=1000 steps=st0,acthang,f,-")
	out = append(out, fmt.Sprintf("k=run gun=http/scenario tgt=live inst=1 n=2 steps=st0,s200.bx%d,r200,A~200~%s~-~gt:1000+X~divdata+J~result", mul(1<<20, 8<<20), hx("xxx")))
	// the http2/scenario gun: HTTP/2 target, TLS target without HTTP/2 (documented fatal), dead and plain-TCP targets
	h2scripts := []string{"s200.bx5", "s503.bjson", "s404.bhtml", "s200.bx40.actmidclose", "s999.bhtml", "actclose", "s204", "s200.bjson.hX-Val~616263", "s500.bbadjson.hX-Val~6162"}
	for i := 0; i < mul(8, 400); i++ {
		k := 1 + r.Intn(3)
		var steps []string
		for j := 0; j < k; j++ {
			sc := h2scripts[r.Intn(len(h2scripts))]
			var pps []string
			for q := r.Intn(3); q > 0; q-- {
				pps = append(pps, randPP(r))
			}
			pp := "-"
			if len(pps) > 0 {
				pp = strings.Join(pps, "+")
			}
			steps = append(steps, fmt.Sprintf("st%d,%s,%s,%s", j, sc, truthOf(sc, clientConf{}), pp))
		}
		opts, _ := randOpts(r, true)
		opts = strings.ReplaceAll(strings.ReplaceAll(opts, " redir=1", ""), " gz=1", "")
		out = append(out, fmt.Sprintf("k=run gun=http2/scenario tgt=tls2 inst=%d n=%d%s steps=%s", 1+r.Intn(2), 1+r.Intn(3), opts, strings.Join(steps, ";")))
	}
	out = append(out, "k=run gun=http2/scenario tgt=tls1 inst=1 n=2 steps=st0,s200.bjson,r200,J~result;st1,s200,r200,-")
	out = append(out, "k=run gun=http2/scenario tgt=tls1 inst=1 n=2 steps=st0,s200,r200,tpl;st1,s200,r200,-")
	out = append(out, "k=run gun=http2/scenario tgt=tls1 inst=3 n=3 alog=all steps=st0,s200.bjson,r200,-")
	out = append(out, "k=run gun=http2/scenario tgt=dead inst=1 n=2 steps=st0,s200,f,H~X-Val~s1:5;st1,s200,f,-")
	out = append(out, "k=run gun=http2/scenario tgt=live inst=2 n=2 steps=st0,s200,f,-")
	// TLS targets scripted PER CONNECTION (tlstarget.go): the 1st, 2nd, … handshake of the run meets an alert of any
	// level / description, EOF, reset, garbage, a truncated or oversized record, a stall, a server without h2 … before
	// and after connections that serve HTTP/2; with kept-alive and with one-connection-per-request clients
	h2reqs := []string{"s200.bx5:r200", "s503.bjson:r503", "s404:r404", "s200.bx40.actmidclose:rb200", "s999.bhtml:r999", "actclose:f", "s204:r204",
		"s200.bx30000:r200", "s500.bbadjson.hX-Val~6162:r500"}
	plainreqs := []string{"s200.bx5:r200", "s503.bjson:r503", "s404:r404", "s999.bhtml:r999", "s204:r204", "s500.bbadjson.hX-Val~6162:r500"}
	alertCodes := []int{10, 20, 21, 22, 30, 40, 41, 42, 43, 44, 45, 46, 47, 48, 49, 50, 51, 60, 70, 71, 80, 86, 90, 100, 109, 110, 111, 112, 113, 114, 115, 116, 121, 255}
	randConn := func(allowFatal bool) string {
		switch k := r.Intn(20); {
		case k < 6:
			return "h2"
		case k == 6:
			return "h2v12"
		case k < 11:
			return fmt.Sprintf("a2.%d", alertCodes[r.Intn(len(alertCodes))])
		case k == 11:
			return fmt.Sprintf("a%d.%d", []int{0, 1, 1, 3, 255}[r.Intn(5)], []int{0, 80, 120, 40, r.Intn(256)}[r.Intn(5)])
		case k == 12:
			return fmt.Sprintf("a2.%d", r.Intn(256))
		case k == 13:
			return []string{"cc12", "cc13"}[r.Intn(2)]
		case k == 14 && allowFatal:
			return []string{"a2.120", "h1", "noalpn"}[r.Intn(3)]
		case k == 14:
			return "a2.0"
		default:
			return []string{"warn", "eof0", "eof", "rst", "garb", "trunc", "big", "badsh"}[r.Intn(8)]
		}
	}
	randPlan := func(allowFatal bool) string {
		var p []string
		for j := 1 + r.Intn(4); j > 0; j-- {
			p = append(p, randConn(allowFatal))
		}
		if r.Intn(10) < 7 {
			p = append(p, "h2")
		}
		return strings.Join(p, "/")
	}
	for i := 0; i < mul(70, 2500); i++ {
		plan := randPlan(r.Intn(8) == 0)
		if strings.Contains(plan, "a2.120") && r.Intn(2) == 0 {
			// mostly AFTER other connections: the fatal alert in the middle of a run
			plan = "h2/" + plan
		}
		dka := r.Intn(2)
		inst := []int{1, 1, 1, 2, 3}[r.Intn(5)]
		opts, _ := randOpts(r, false)
		opts = strings.ReplaceAll(strings.ReplaceAll(opts, " redir=1", ""), " gz=1", "")
		if r.Intn(3) != 0 {
			opts = ""
		}
		switch k := r.Intn(10); {
		case k < 6:
			var reqs []string
			for j := 2 + r.Intn(5); j > 0; j-- {
				reqs = append(reqs, h2reqs[r.Intn(len(h2reqs))])
			}
			out = append(out, fmt.Sprintf("k=run gun=http2 tgt=tlsplan plan=%s dka=%d tlsto=5000 inst=%d m=%d%s reqs=%s", plan, dka, inst, 1+r.Intn(2), opts, strings.Join(reqs, ",")))
		case k < 9:
			var steps []string
			for j, n := 0, 1+r.Intn(3); j < n; j++ {
				sc := h2scripts[r.Intn(len(h2scripts))]
				pp := "-"
				if r.Intn(2) == 0 {
					pp = randPP(r)
				}
				steps = append(steps, fmt.Sprintf("st%d,%s,%s,%s", j, sc, truthOf(sc, clientConf{}), pp))
			}
			out = append(out, fmt.Sprintf("k=run gun=http2/scenario tgt=tlsplan plan=%s dka=%d tlsto=5000 inst=%d n=%d%s steps=%s", plan, dka, inst, 1+r.Intn(4), opts, strings.Join(steps, ";")))
		default:
			// the http gun over TLS (`ssl: true`): every TLS server of the plan serves it, nothing is fatal for it
			var reqs []string
			for j := 2 + r.Intn(4); j > 0; j-- {
				reqs = append(reqs, plainreqs[r.Intn(len(plainreqs))])
			}
			out = append(out, fmt.Sprintf("k=run gun=http tgt=tlsplan plan=%s ssl=1 dka=%d tlsto=5000 inst=%d m=%d%s reqs=%s", plan, dka, inst, 1+r.Intn(2), opts, strings.Join(reqs, ",")))
		}
	}
	// every alert description once, as the first handshake of a run and between two good connections
	for _, c := range alertCodes {
		out = append(out, fmt.Sprintf("k=run gun=http2 tgt=tlsplan plan=a2.%d/h2 dka=0 tlsto=5000 inst=1 m=1 reqs=s200.bx5:r200,s404:r404", c))
		if thorough {
			out = append(out, fmt.Sprintf("k=run gun=http2 tgt=tlsplan plan=h2/a2.%d/h2 dka=1 tlsto=5000 inst=1 m=2 reqs=s200.bx5:r200,s404:r404", c))
			out = append(out, fmt.Sprintf("k=run gun=http2/scenario tgt=tlsplan plan=h2/a2.%d/h2 dka=1 tlsto=5000 inst=1 n=2 steps=st0,s200.bjson,r200,J~result;st1,s404,r404,-", c))
		}
	}
	out = append(out, "k=run gun=http2 tgt=tlsplan plan=stall/h2 dka=0 tlsto=700 inst=1 m=1 reqs=s200.bx5:r200,s404:r404")
	out = append(out, "k=run gun=http2/scenario tgt=tlsplan plan=h2/stall/h2 dka=1 tlsto=700 inst=1 n=2 steps=st0,s200.bjson,r200,J~result;st1,s404,r404,-")
	// the hostile HTTP/2 target (h2target.go): every framing-level behaviour x gun settings, for both http2 guns
	h2acts := []string{"", "cont", "trailers", "1xx", "ping", "unknown", "zero", "window", "bytes", "rstmid2", "rstmid8", "rstmid13", "shortcl", "eofmid", "goawaymid",
		"rst2", "rst5", "rst8", "rst11", "rst13", "rst255", "goaway0", "goaway2", "goaway11", "badhpack", "nostatus", "badstatus", "upper", "datafirst", "bigframe",
		"push", "zerowin", "badset", "http1", "eof", "hugehdr", "longcl"}
	h2script := func(act string) string {
		sc := fmt.Sprintf("s%d.b%s", []int{200, 200, 200, 404, 500, 503, 999, 204, 304}[r.Intn(9)], []string{"json", "json", "html", "x7", "x40000", "badjson", "empty"}[r.Intn(7)])
		if r.Intn(3) == 0 {
			sc += ".hX-Val~" + hx(randASCII(r, r.Intn(8)))
		}
		if act != "" {
			sc += ".acth2" + act
		}
		return sc
	}
	h2opts := []string{"", " alog=all", " alog=warning dbg=1", " dump=1 trace=1", " dbg=1", " alog=error dump=1", " dka=1", " alog=all trace=1 dump=1 dbg=1"}
	for pass := 0; pass < mul(1, 12); pass++ {
		for _, o := range h2opts {
			var reqs []string
			for _, a := range h2acts {
				sc := h2script(a)
				reqs = append(reqs, sc+":"+h2Truth(sc))
			}
			out = append(out, fmt.Sprintf("k=run gun=http2 tgt=h2raw tlsto=5000 inst=%d m=1%s reqs=%s", 1+r.Intn(2), o, strings.Join(reqs, ",")))
			if !thorough && o != "" && o != " alog=warning dbg=1" {
				continue
			}
			for _, a := range h2acts {
				sc := h2script(a)
				pp := []string{"-", "H~X-Val~s1:5+A~0~" + hx("x") + "~-~gt:1+J~result+X~divdata", "J~items", "X~count"}[r.Intn(4)]
				step2 := h2script(h2acts[r.Intn(len(h2acts))])
				out = append(out, fmt.Sprintf("k=run gun=http2/scenario tgt=h2raw tlsto=5000 inst=1 n=2%s steps=st0,%s,%s,%s;st1,%s,%s,%s", o, sc, h2Truth(sc), pp, step2, h2Truth(step2), randPP(r)))
			}
		}
	}
	// GRID: every gun setting x every class of response, one request / one step per class, for the three HTTP/1.1 guns;
	// scenario steps carry one postprocessor of every kind
	gridOpts := []string{"", " alog=all", " alog=warning", " alog=error", " trace=1", " dump=1", " dbg=1", " redir=1", " gz=1", " shc=2",
		" alog=all trace=1 dump=1 dbg=1 redir=1 gz=1 shc=2", " alog=warning dbg=1 dump=1"}
	gridScripts := []string{"s200.bempty", "s200.bjson.hX-Val~616263", "s404.bempty", "s404.bhtml", "s500.bempty", "s503.bbadjson", "s0.bempty", "s999.bx4096",
		"s204", "s304", "s100", "i103.s200.bjson", "actclose", "actreset", "actgarbage", "actbadhdr", "s200.bjson.actmidclose", "s200.bx10.c100",
		"s500.bhtml.actbadchunk", "s200.bjson.actcutchunk", "s200.bjson.actbadgzip", "s404.bx7.actdupcl", "s200.bjson.actnegcl", "s200.bx7.actbadte",
		"s200.bjson.actmany1xx", "s200.bjson.actfew1xx", "s200.bjson.actnulhdr", "s500.bhtml.actnoreason", "s200.bx4096.actslow", "s200.bjson.actextra",
		"s200.bjson.actbadver", "actshortstatus", "s200.bx7.actnolen", "s302.bhtml.hLocation~" + hx("/p/0"), "s307.bempty.hLocation~" + hx("http://%zz/"),
		"s301.hLocation~" + hx("http://"+shot.DeadAddr()+"/x"), "s200.bx10.vX-Big~300000", "s418.bempty.hX-Val~61"}
	ccOf := func(o string) clientConf {
		return clientConf{gzip: strings.Contains(o, "gz=1"), redir: strings.Contains(o, "redir=1")}
	}
	for _, o := range gridOpts {
		var reqs []string
		for _, sc := range gridScripts {
			reqs = append(reqs, sc+":"+truthOf(sc, ccOf(o)))
		}
		for _, gun := range []string{"http", "connect"} {
			out = append(out, fmt.Sprintf("k=run gun=%s tgt=live inst=2 m=1%s reqs=%s", gun, o, strings.Join(reqs, ",")))
		}
		gridPP := []string{"-", "H~X-Val~s1:5", "A~200~-~-~-", "A~0~" + hx("result") + "~-~gt:10", "J~result", "X~divdata", "X~count", "H~X-Val~up/s2:-9:1+J~missing"}
		if !thorough {
			gridPP = []string{"-", "H~X-Val~s1:5+A~0~" + hx("x") + "~-~gt:1+J~result+X~divdata"}
		}
		for _, pp := range gridPP {
			for _, sc := range gridScripts {
				out = append(out, fmt.Sprintf("k=run gun=http/scenario tgt=live inst=1 n=1%s steps=st0,%s,%s,%s", o, sc, truthOf(sc, ccOf(o)), pp))
			}
		}
	}
	// response-derived variables flow into the next request: header / json / xpath values of every shape
	for _, src := range []string{"H~X-Val", "H~X-Val~s1:3", "J~result", "J~items", "J~ab", "X~divdata", "X~title", "X~none", "X~href"} {
		for _, hv := range []string{"abc", "a b\tc", "%zz", "\x7f{{", "../../x", strings.Repeat("k", 9000)} {
			for _, bc := range []string{"json", "html", "empty"} {
				s := "s200.b" + bc + ".hX-Val~" + hx(hv)
				out = append(out, fmt.Sprintf("k=run gun=http/scenario tgt=live inst=1 n=2 steps=st0,%s,r200,%s;st1,s200.bjson,r200,U;st2,s404,r404,U", s, src))
			}
		}
	}
	// 7. engine runs: gRPC guns
	for i := 0; i < mul(30, 2000); i++ {
		var reqs []string
		for j := 1 + r.Intn(6); j > 0; j-- {
			reqs = append(reqs, randGrpcKind(r))
		}
		opts := ""
		if r.Intn(3) == 0 {
			opts += " alog=" + []string{"all", "warning", "error"}[r.Intn(3)]
		}
		if r.Intn(4) == 0 {
			opts += " dbg=1"
		}
		if r.Intn(5) == 0 {
			opts += fmt.Sprintf(" shc=%d", 1+r.Intn(2))
		}
		out = append(out, fmt.Sprintf("k=run gun=grpc tgt=grpc inst=%d m=%d%s reqs=%s", []int{1, 2, 4}[r.Intn(3)], 1+r.Intn(3), opts, strings.Join(reqs, ",")))
	}
	out = append(out, "k=run gun=grpc tgt=grpc inst=1 m=1 to=600 reqs=hang:0,ok:0")
	out = append(out, "k=run gun=grpc tgt=grpc inst=2 m=4 stopafter=3 reqs=ok:0,ok:0")
	out = append(out, "k=run gun=grpc tgt=grpc inst=2 m=1 alog=all dbg=1 reqs=big:0,ok:0,garbage:1")
	for i := 0; i < mul(50, 3000); i++ {
		k := 1 + r.Intn(3)
		var calls []string
		for j := 0; j < k; j++ {
			kc := strings.SplitN(randGrpcKind(r), ":", 2)
			pp := "-"
			switch r.Intn(4) {
			case 0:
				pp = fmt.Sprintf("as%d", []int{200, 404, 500}[r.Intn(3)])
			case 1:
				pp = fmt.Sprintf("as%d:%s", []int{200, 0}[r.Intn(2)], hx([]string{"Hello", "zzz"}[r.Intn(2)]))
			}
			if j > 0 && r.Intn(3) == 0 {
				if pp == "-" {
					pp = "U"
				} else {
					pp += "+U"
				}
			}
			calls = append(calls, fmt.Sprintf("tg%d,%s,%s,%s", j, kc[0], kc[1], pp))
		}
		opts := ""
		if r.Intn(3) == 0 {
			opts += " alog=" + []string{"all", "warning", "error"}[r.Intn(3)]
		}
		if r.Intn(4) == 0 {
			opts += " dbg=1"
		}
		out = append(out, fmt.Sprintf("k=run gun=grpc/scenario tgt=grpc inst=%d n=%d%s calls=%s", []int{1, 2}[r.Intn(2)], 1+r.Intn(3), opts, strings.Join(calls, ";")))
	}
	out = append(out, "k=run gun=grpc/scenario tgt=grpc inst=1 n=2 to=600 calls=t0,hang,0,as200;t1,ok,0,-")
	// 8. response-derived variables read by preprocessors, template functions and templates (vars.go)
	out = append(out, genVars(r, thorough)...)
	// 9. round 4 (round4.go): the code the guns DEPEND on — host-name targets (DNS-caching dialer), the real phout
	// aggregator with pooled samples, every PAIR of gun settings, library defaults, timed schedules with discard_overflow
	out = append(out, genRound4(r, thorough, gridScripts, ccOf)...)
	// 10. round 6 (round6.go): what the waiter remembers of a late token must not decide the fate of the tokens after it
	out = append(out, genRound6(r, thorough)...)
	return out
}

func class(input, obs string) string {
	m := drv.KV(input)
	c := m["k"]
	if m["k"] == "iter" {
		return "iter:shared-iterator-concurrent:g" + m["g"]
	}
	if m["k"] == "dnsc" {
		return "dnsc:dns-caching-dialer-concurrent:g" + m["g"]
	}
	if m["k"] == "wait" {
		// which kinds of token follow an OVERDUE one
		c += ":waiter"
		prev := ""
		seen := map[string]bool{}
		for _, op := range strings.Split(m["ops"], ",") {
			kind := ""
			switch {
			case strings.HasPrefix(op, "t-") && atoi(op[1:], 0) <= -2000:
				kind = "overdue"
			case strings.HasPrefix(op, "t-") || op == "t0":
				kind = "late"
			case strings.HasPrefix(op, "t"):
				kind = "future"
			case op == "e" || op == "c":
				kind = op
			default:
				continue
			}
			if prev == "overdue" && !seen[kind] {
				seen[kind] = true
				c += ":overdue-then-" + kind
			}
			prev = kind
		}
		return c
	}
	if m["k"] == "run" && m["schedx"] != "" {
		return "run:" + m["gun"] + ":composite-schedule:slow-answer-then-gap"
	}
	if m["k"] == "run" {
		c += ":" + m["gun"] + ":" + m["tgt"]
		if strings.Contains(input, "~s1:") || strings.Contains(input, "~s2:") || strings.Contains(input, "/s1:") || strings.Contains(input, "/s2:") {
			c += ":substr"
		}
	}
	if m["k"] == "run" {
		for _, o := range []string{"alog", "trace", "dump", "dbg", "redir", "gz", "shc"} {
			if m[o] != "" {
				c += ":opts"
				break
			}
		}
		if strings.Contains(input, ",U") || strings.Contains(input, "+U") {
			c += ":chained"
		}
		switch {
		case strings.Contains(input, "P~") || strings.Contains(input, "Pg~"):
			c += ":preprocessor-reads-response"
			if strings.Contains(input, "bjl0") || strings.Contains(input, "bhl0") || strings.Contains(input, "list,0") {
				c += ":empty-list"
			}
		case strings.Contains(input, "F~") || strings.Contains(input, "Fg~"):
			c += ":template-func-on-response"
		case strings.Contains(input, "T~"):
			c += ":template-indexes-response"
		}
		if m["tgt"] == "h2raw" {
			c += ":h2-frames"
		}
		if m["tgt"] == "tlsplan" {
			switch p := m["plan"]; {
			case strings.Contains(p, "a2.120") || strings.Contains(p, "h1") || strings.Contains(p, "noalpn"):
				c += ":fatal-conn"
			case strings.Contains(p, "a") || strings.Contains(p, "cc"):
				c += ":tls-alert"
			case p != "h2" && p != "h2v12":
				c += ":broken-handshake"
			}
			if m["dka"] == "1" {
				c += ":dka"
			}
		}
	}
	if m["k"] == "idx" {
		lv := strings.Split(m["lv"], ";")
		c += fmt.Sprintf(":depth%d", len(lv))
		if f := strings.Split(lv[len(lv)-1], "|"); len(f) == 3 && strings.HasPrefix(f[2], "L") && strings.HasSuffix(f[2], "0") && len(f[2]) == 3 {
			c += ":empty-list"
		}
		c += ":" + strings.SplitN(obs, ":", 2)[0]
	}
	if strings.Contains(obs, "res=panic") || strings.HasPrefix(obs, "PANIC") {
		c += ":PANIC"
	}
	return c
}

// workers: the machine has 16 cores; the thorough tier uses most of them, quick stays modest (other checks run too)
func workers() int {
	for i, a := range os.Args {
		if (a == "-tier" || a == "--tier") && i+1 < len(os.Args) && os.Args[i+1] == "thorough" {
			return 8
		}
		if a == "-tier=thorough" || a == "--tier=thorough" {
			return 8
		}
	}
	return 6
}

func main() {
	if os.Getenv("C19_CHILD") == "1" {
		childMain()
		return
	}
	drv.Main(&drv.Prop{
		ID:      "C19",
		Gen:     gen,
		Run:     run,
		Class:   class,
		Workers: workers(),
		Timeout: 120 * time.Second,
		Rule: "the real engine with every gun kind (http, connect, http2, http/scenario, grpc, grpc/scenario) against scripted misbehaving targets " +
			"(any status incl. 000/999, empty/multi-MB/truncated bodies, malformed heads, bad chunking / Content-Length / Transfer-Encoding / gzip, 1xx storms, " +
			"redirect loops, invalid JSON/HTML, short header values, early close, reset, refusal, silence; gRPC: any status code, undecodable / foreign / oversized " +
			"messages, broken status details, server going away) with random lists of all postprocessor kinds, response-derived variables used by the next step, " +
			"and random gun settings (answlog, httptrace, debug logging, redirects, gzip, shared clients, keep-alives off); TLS targets scripted per CONNECTION " +
			"for the http2 / http2/scenario / https guns (a raw alert record of any level and description, EOF, reset, garbage, truncated / oversized records, a stall, " +
			"servers without h2 or without ALPN, client-certificate demands, before and after connections that serve HTTP/2); a raw HTTP/2 target with full control " +
			"of the FRAMES (CONTINUATION, trailers, interim blocks, PING / WINDOW_UPDATE floods, unknown frames, RST_STREAM / GOAWAY with any code, broken HPACK, " +
			"missing or malformed :status, oversized frames and header blocks, PUSH_PROMISE, content-length mismatches, plain-text HTTP/1.1 on an h2 connection); plus direct differential of the modifier / assertion / " +
			"extractor functions on random values and arguments and EXHAUSTIVELY on every substr(start[, end]) in a window around every short value length; " +
			"RESPONSE-DERIVED VARIABLES read inside Shoot: lists of every length 0..n stored by var/jsonpath / var/xpath (and repeated fields of gRPC response messages) " +
			"indexed by the next steps' preprocessors with every index text ([next], [rand], [last], [N], [-N], garbage) for one and several instances, response-chosen " +
			"strings handed to randString / randInt (int64 extremes, lengths beyond make()), rendered into URIs, headers and bodies by the text and html templaters; " +
			"mp.GetMapValue differentially on variable trees of every slice type, length and up to three levels; " +
			"non-trivial = at least one response processed",
	})
}
