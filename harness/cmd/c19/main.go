package main

import (
	"encoding/hex"
	"fmt"
	"time"

	"verifharness/shot"
)

func main() {
	t := shot.NewTarget()
	defer t.Close()
	hcl := fmt.Sprintf(`
request "r1" {
  method = "GET"
  uri    = "/a/b"
  headers = {
    X-Script = "s200.bjson.hX-Val~%s"
  }
  postprocessor "var/header" {
    mapping = {
      v = "X-Val|substr(5)"
    }
  }
}
request "r2" {
  method = "GET"
  uri    = "/c"
  headers = {
    X-Script = "s404.bhtml"
  }
  postprocessor "var/xpath" {
    mapping = {
      v = "//a"
    }
  }
}
scenario "scn" {
  requests = ["r1", "r2"]
}
`, hex.EncodeToString([]byte("abc")))
	f := shot.TempFile(".hcl", hcl)
	conf := fmt.Sprintf(`
pools:
  - id: p
    ammo: {type: http/scenario, file: %s}
    result: {type: discard}
    gun: {type: http/scenario, target: "%s"}
    rps: [{type: once, times: 3}]
    startup: [{type: once, times: 1}]
`, f, t.Addr)
	r := shot.RunEngine(conf, 10*time.Second)
	fmt.Printf("%+v\n", r)
}
