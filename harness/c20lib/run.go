package c20lib

import (
	"context"
	"fmt"
	"sort"
	"strconv"
	"strings"
	"time"

	grpcammo "github.com/yandex/pandora/components/providers/grpc"
	"github.com/yandex/pandora/components/providers/grpc/grpcjson"
	"github.com/yandex/pandora/core"
	"github.com/yandex/pandora/core/engine"
	"github.com/yandex/pandora/core/warmup"
	"go.uber.org/zap"
)

const svcPrefix = "/target.TargetService/"

// ShortMethod prints "/target.TargetService/Hello" as "Hello" and anything else encoded.
func ShortMethod(m string) string {
	if strings.HasPrefix(m, svcPrefix) {
		return m[len(svcPrefix):]
	}
	return Enc(m)
}

// dlCandidates are the timeouts (ms) the generators configure (0 = the guns' 15 s default), plus 2 s (never
// configured: what is left of a 3 s budget after a 1.7 s sleep, should a deadline span several calls).
var dlCandidates = []int64{2000, 3000, 5000, 8000, 15000, 40000, 65000, 90000, 115000}

// DLBucket classifies the time left at arrival. The time left can only be smaller than the timeout the call was
// made with, so the bucket is the smallest candidate not below it, provided the call did not take implausibly
// long to arrive (10 s for the long timeouts, 1.6 s for the short ones 3 / 5 / 8 s: anything slower is reported as "dl?…",
// which the Lean driver counts as inconclusive, never as a failure).
func DLBucket(ms int64) string {
	if ms < 0 {
		return "dlnone"
	}
	for _, c := range dlCandidates {
		if ms > c+50 {
			continue
		}
		tol := int64(10000)
		if c < 15000 {
			tol = 1600
		}
		if c-ms > tol {
			break
		}
		if c%1000 == 0 {
			return "dl" + strconv.FormatInt(c/1000, 10)
		}
		return "dl" + strconv.FormatInt(c, 10) + "ms"
	}
	return "dl?" + strconv.FormatInt(ms/1000, 10)
}

// DistinctPeers counts the connections that carried the given calls.
func DistinctPeers(cs []Call) int {
	seen := map[string]bool{}
	for _, c := range cs {
		seen[c.Peer] = true
	}
	return len(seen)
}

func CallText(c Call) string {
	return ShortMethod(c.Method) + "|" + c.Msg + "|" + c.MD + "|" + DLBucket(c.DLms)
}

func SampleText(s Sample) string { return Enc(s.Tags) + "/" + strconv.Itoa(s.Code) }

func SortedCalls(cs []Call) string {
	out := make([]string, len(cs))
	for i, c := range cs {
		out[i] = CallText(c)
	}
	sort.Strings(out)
	return strings.Join(out, "+")
}

func SortedSamples(ss []Sample) string {
	out := make([]string, len(ss))
	for i, s := range ss {
		out[i] = SampleText(s)
	}
	sort.Strings(out)
	return strings.Join(out, "+")
}

// RunEngine runs the decoded pool through the real engine with the recording aggregator and returns the
// engine error text ("" = nil).
func RunEngine(yamlText string, aggr *Aggr, timeout time.Duration) string {
	return RunEngineWith(yamlText, aggr, timeout, nil)
}

// RunEngineWith: prep (if any) sees the decoded provider before the engine starts it.
func RunEngineWith(yamlText string, aggr *Aggr, timeout time.Duration, prep func(core.Provider)) string {
	conf, err := DecodePool(yamlText)
	if err != nil {
		return "config:" + Enc(err.Error())
	}
	if prep != nil {
		prep(conf.Engine.Pools[0].Provider)
	}
	conf.Engine.Pools[0].Aggregator = aggr
	eng := engine.New(zap.NewNop(), NewMetrics(), conf.Engine)
	ctx, cancel := context.WithTimeout(context.Background(), timeout)
	defer cancel()
	err = eng.Run(ctx)
	waitDone := make(chan struct{})
	go func() { eng.Wait(); close(waitDone) }()
	select {
	case <-waitDone:
	case <-time.After(5 * time.Second):
		return "wait-hang"
	}
	if err != nil {
		return classifyErr(err)
	}
	return ""
}

func classifyErr(err error) string {
	s := err.Error()
	switch {
	case strings.Contains(s, "context deadline exceeded"):
		return "timeout"
	case strings.Contains(s, "failed to decode ammo"), strings.Contains(s, "scan() err"), strings.Contains(s, "no ammo in file"):
		return "provider-" + classifyProviderText(s)
	case strings.Contains(s, "shoot panic"):
		return "shoot-panic:" + Enc(Trunc(s, 120))
	default:
		return "err:" + Enc(Trunc(s, 120))
	}
}

func Trunc(s string, n int) string {
	if len(s) > n {
		return s[:n]
	}
	return s
}

// Manual is a hand-driven pool: the real provider (running), N real guns made by the registered factory,
// warmed up and bound the way instancePool does it, shot one at a time in a given instance order.
type Manual struct {
	Provider core.Provider
	Guns     []core.Gun
	WarmGun  core.Gun
	Aggr     *Aggr
	cancel   context.CancelFunc
	provErr  chan error
}

func NewManual(yamlText string, n int) (*Manual, error) { return NewManualWith(yamlText, n, nil) }

// NewManualWith: prep (if any) sees the decoded provider before its Run is started.
func NewManualWith(yamlText string, n int, prep func(core.Provider)) (*Manual, error) {
	conf, err := DecodePool(yamlText)
	if err != nil {
		return nil, fmt.Errorf("config: %w", err)
	}
	pool := conf.Engine.Pools[0]
	if prep != nil {
		prep(pool.Provider)
	}
	m := &Manual{Provider: pool.Provider, Aggr: &Aggr{}, provErr: make(chan error, 1)}
	ctx, cancel := context.WithCancel(context.Background())
	m.cancel = cancel
	log := zap.NewNop()
	// instancePool.warmUpGun
	g0, err := pool.NewGun()
	if err != nil {
		cancel()
		return nil, fmt.Errorf("newgun: %w", err)
	}
	m.WarmGun = g0
	var shared any
	if w, ok := g0.(warmup.WarmedUp); ok {
		shared, err = w.WarmUp(&warmup.Options{Log: log, Ctx: ctx})
		if err != nil {
			cancel()
			return nil, fmt.Errorf("warmup: %w", err)
		}
	}
	go func() { m.provErr <- m.Provider.Run(ctx, core.ProviderDeps{Log: log, PoolID: "p"}) }()
	for i := 0; i < n; i++ {
		g, err := pool.NewGun()
		if err != nil {
			cancel()
			return nil, fmt.Errorf("newgun: %w", err)
		}
		err = g.Bind(m.Aggr, core.GunDeps{Ctx: ctx, Log: log, PoolID: "p", InstanceID: i, Shared: shared})
		if err != nil {
			cancel()
			return nil, fmt.Errorf("bind: %w", err)
		}
		m.Guns = append(m.Guns, g)
	}
	return m, nil
}

// Acquire with a guard against a provider that never delivers.
func (m *Manual) Acquire(d time.Duration) (core.Ammo, bool, bool) {
	type res struct {
		a  core.Ammo
		ok bool
	}
	ch := make(chan res, 1)
	go func() {
		a, ok := m.Provider.Acquire()
		ch <- res{a, ok}
	}()
	select {
	case r := <-ch:
		return r.a, r.ok, false
	case <-time.After(d):
		return nil, false, true
	}
}

// ProviderEnd waits for the provider's Run to return and classifies its result: ok (nil), decode (a line could not be
// decoded), scan (the file could not be read to its end: a line longer than the scanner's buffer), noammo, other:<text>;
// running = it has not returned.
func (m *Manual) ProviderEnd(d time.Duration) string {
	select {
	case err := <-m.provErr:
		m.provErr <- err
		return ClassifyProviderErr(err)
	case <-time.After(d):
		return "running"
	}
}

func ClassifyProviderErr(err error) string {
	if err == nil {
		return "ok"
	}
	return classifyProviderText(err.Error())
}

func classifyProviderText(s string) string {
	switch {
	case strings.Contains(s, "failed to decode ammo"):
		return "decode"
	case strings.Contains(s, "scan() err"), strings.Contains(s, "token too long"):
		return "scan"
	case strings.Contains(s, "no ammo in file"):
		return "noammo"
	}
	return "other:" + Enc(Trunc(s, 100))
}

func (m *Manual) Close() {
	m.cancel()
	for _, g := range m.Guns {
		if c, ok := g.(interface{ Close() error }); ok {
			_ = c.Close()
		}
	}
}

// DirtyPool returns a prep function that puts k used ammo objects into the grpc/json provider's sync.Pool before the
// provider runs: objects that carry a rich earlier entry (tag, call, metadata, every payload field), every other one
// flagged invalid — what the pool of a long run holds once instances have released their ammo. Whatever Get hands out,
// a line must be delivered as the line says (Model/C20Pool.lean dirtyObj, theorem C20_pool_oracle).
func DirtyPool(k int) func(core.Provider) {
	return func(p core.Provider) {
		jp, ok := p.(*grpcjson.Provider)
		if !ok {
			return
		}
		for i := 0; i < k; i++ {
			a := &grpcammo.Ammo{
				Tag:      "dirty" + strconv.Itoa(i),
				Call:     "target.TargetService.Order",
				Metadata: map[string]string{"x-stale": "stale" + strconv.Itoa(i), "authorization": "Bearer stale"},
				Payload:  map[string]interface{}{"token": "stale", "user_id": 77, "item_id": 7001},
			}
			if i%2 == 1 {
				a.Invalidate()
			}
			jp.Pool.Put(a)
		}
	}
}
