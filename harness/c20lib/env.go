// Package c20lib is the in-process gRPC environment shared by the C20 and C11 drivers: the repo's example
// service (examples/grpc/server) with server reflection, wrapped by a recording interceptor, the plugin
// registration (once per process, on one in-memory filesystem) and helpers that decode a pandora config the
// way cli does and hand out the REAL provider / gun factory / engine.
package c20lib

import (
	"context"
	"fmt"
	"io"
	"log/slog"
	"net"
	"sort"
	"strconv"
	"strings"
	"sync"
	"sync/atomic"
	"time"

	"github.com/spf13/afero"
	"github.com/yandex/pandora/cli"
	grpcimport "github.com/yandex/pandora/components/grpc/import"
	phttpimport "github.com/yandex/pandora/components/phttp/import"
	"github.com/yandex/pandora/core"
	"github.com/yandex/pandora/core/aggregator/netsample"
	"github.com/yandex/pandora/core/config"
	"github.com/yandex/pandora/core/engine"
	coreimport "github.com/yandex/pandora/core/import"
	"github.com/yandex/pandora/examples/grpc/server"
	"github.com/yandex/pandora/lib/monitoring"
	"google.golang.org/grpc"
	"google.golang.org/grpc/codes"
	"google.golang.org/grpc/metadata"
	"google.golang.org/grpc/peer"
	"google.golang.org/grpc/reflection"
	"google.golang.org/grpc/status"
	"google.golang.org/protobuf/proto"
	"google.golang.org/protobuf/reflect/protoreflect"
	"gopkg.in/yaml.v2"
)

// ---------------------------------------------------------------- text encoding shared with the Lean driver

// Enc makes a string a single token: ' ' -> '~', anything outside [A-Za-z0-9_.-{}] -> %XX. "" -> "".
func Enc(s string) string {
	var b strings.Builder
	for i := 0; i < len(s); i++ {
		c := s[i]
		switch {
		case c == ' ':
			b.WriteByte('~')
		case c >= 'a' && c <= 'z', c >= 'A' && c <= 'Z', c >= '0' && c <= '9', c == '_', c == '.', c == '-', c == '{', c == '}':
			b.WriteByte(c)
		default:
			fmt.Fprintf(&b, "%%%02X", c)
		}
	}
	return b.String()
}

// LongText is the length above which EncV abbreviates a value.
const LongText = 300

// EncV encodes a message or metadata VALUE: like Enc, but a value longer than LongText bytes is printed as
// LONG<length>.<sum of its bytes mod 65521>.<Enc of its first 8 bytes>.
func EncV(s string) string {
	if len(s) <= LongText {
		return Enc(s)
	}
	sum := 0
	for i := 0; i < len(s); i++ {
		sum = (sum + int(s[i])) % 65521
	}
	return "LONG" + strconv.Itoa(len(s)) + "." + strconv.Itoa(sum) + "." + Enc(s[:8])
}

// Dec is the inverse of Enc. A text of the form *<n>*<c> (a raw '*' is never produced by Enc) stands for n copies of the
// character c: long values without long inputs.
func Dec(s string) string {
	if strings.HasPrefix(s, "*") {
		if num, rest, ok := strings.Cut(s[1:], "*"); ok && len(rest) == 1 {
			if n, err := strconv.Atoi(num); err == nil && n >= 0 && n <= 1<<22 {
				return strings.Repeat(rest, n)
			}
		}
	}
	var b strings.Builder
	for i := 0; i < len(s); i++ {
		c := s[i]
		switch {
		case c == '~':
			b.WriteByte(' ')
		case c == '%' && i+2 < len(s):
			v, err := strconv.ParseUint(s[i+1:i+3], 16, 8)
			if err == nil {
				b.WriteByte(byte(v))
				i += 2
			} else {
				b.WriteByte(c)
			}
		default:
			b.WriteByte(c)
		}
	}
	return b.String()
}

// ---------------------------------------------------------------- recording server

// Call is one unary call as the server received it.
type Call struct {
	Method string // "/target.TargetService/Hello"
	Msg    string // canonical: field:value,... in field-number order, default values omitted
	MD     string // canonical: key:value,... sorted, transport keys removed
	DLms   int64  // time left until the deadline when the call arrived, ms; -1 = no deadline
	Peer   string // remote address of the connection the call arrived on
}

func (c Call) String() string {
	return c.Method + "|" + c.Msg + "|" + c.MD
}

type Server struct {
	Addr   string
	GS     *grpc.Server
	Srv    *server.GRPCServer
	Tokens map[string]int64 // token -> user id

	mu    sync.Mutex
	hmu   sync.Mutex
	calls []Call
	seq   atomic.Int64

	reflStreams atomic.Int64
}

var transportKeys = map[string]bool{":authority": true, "content-type": true, "user-agent": true, "grpc-accept-encoding": true,
	"grpc-timeout": true, "te": true, "accept-encoding": true}

// maskTokens prints every token of the example service (64 random characters each) occurring in a text as TOK<user>.
func (s *Server) maskTokens(v string) string {
	if len(v) < 16 {
		return v
	}
	for tok, uid := range s.Tokens {
		if tok != "" && strings.Contains(v, tok) {
			v = strings.ReplaceAll(v, tok, "TOK"+strconv.FormatInt(uid, 10))
		}
	}
	return v
}

func (s *Server) canonMsg(m proto.Message) string {
	if m == nil {
		return ""
	}
	var parts []string
	r := m.ProtoReflect()
	fds := r.Descriptor().Fields()
	for i := 0; i < fds.Len(); i++ {
		fd := fds.Get(i)
		if !r.Has(fd) {
			continue
		}
		v := r.Get(fd)
		var txt string
		switch fd.Kind() {
		case protoreflect.StringKind:
			txt = "s." + EncV(s.maskTokens(v.String()))
		case protoreflect.Int64Kind, protoreflect.Int32Kind, protoreflect.Sint64Kind, protoreflect.Sint32Kind:
			txt = "n." + strconv.FormatInt(v.Int(), 10)
		case protoreflect.Uint64Kind, protoreflect.Uint32Kind:
			txt = "n." + strconv.FormatUint(v.Uint(), 10)
		case protoreflect.BoolKind:
			txt = "b." + strconv.FormatBool(v.Bool())
		default:
			txt = "x." + Enc(v.String())
		}
		parts = append(parts, string(fd.Name())+":"+txt)
	}
	if unk := r.GetUnknown(); len(unk) > 0 {
		parts = append(parts, "UNKNOWN:"+strconv.Itoa(len(unk)))
	}
	return strings.Join(parts, ",")
}

func (s *Server) canonMD(md metadata.MD) string {
	var keys []string
	for k := range md {
		if !transportKeys[k] {
			keys = append(keys, k)
		}
	}
	sort.Strings(keys)
	var parts []string
	for _, k := range keys {
		vals := md[k]
		for i, v := range vals {
			vals[i] = s.maskTokens(v)
		}
		enc := make([]string, len(vals))
		for i, v := range vals {
			enc[i] = EncV(v)
		}
		parts = append(parts, Enc(k)+":"+strings.Join(enc, "&"))
	}
	return strings.Join(parts, ",")
}

func (s *Server) intercept(ctx context.Context, req any, info *grpc.UnaryServerInfo, handler grpc.UnaryHandler) (any, error) {
	c := Call{Method: info.FullMethod, DLms: -1}
	if pm, ok := req.(proto.Message); ok {
		c.Msg = s.canonMsg(pm)
	}
	if md, ok := metadata.FromIncomingContext(ctx); ok {
		c.MD = s.canonMD(md.Copy())
	}
	if dl, ok := ctx.Deadline(); ok {
		c.DLms = time.Until(dl).Milliseconds()
	}
	if pr, ok := peer.FromContext(ctx); ok && pr.Addr != nil {
		c.Peer = pr.Addr.String()
	}
	s.mu.Lock()
	s.calls = append(s.calls, c)
	s.mu.Unlock()
	// fault injection: a call carrying the metadata key x-fault with a gRPC status code number as its value is
	// recorded and then refused with that status (the handler is not run)
	if fc, ok := faultCode(ctx); ok {
		return nil, status.Error(fc, "injected fault")
	}
	// The example service hands its live statistics maps to the Stats/Reset responses, which grpc marshals after
	// the handler returned while other handlers update them (a race inside the TARGET, answered with code 500).
	// Handlers are serialised and such responses copied so that the target's replies are deterministic.
	s.hmu.Lock()
	defer s.hmu.Unlock()
	resp, err := handler(ctx, req)
	if pm, ok := resp.(proto.Message); ok && err == nil && (strings.HasSuffix(info.FullMethod, "/Stats") || strings.HasSuffix(info.FullMethod, "/Reset")) {
		resp = proto.Clone(pm)
	}
	return resp, err
}

// FaultKey is the metadata key whose value (a decimal gRPC status code number, 1 and up) makes the recording server refuse
// the call with that status after recording it.
const FaultKey = "x-fault"

func faultCode(ctx context.Context) (codes.Code, bool) {
	md, ok := metadata.FromIncomingContext(ctx)
	if !ok {
		return 0, false
	}
	vs := md.Get(FaultKey)
	if len(vs) != 1 {
		return 0, false
	}
	n, err := strconv.ParseUint(vs[0], 10, 8)
	if err != nil || n == 0 || strconv.FormatUint(n, 10) != vs[0] {
		return 0, false
	}
	return codes.Code(n), true
}

// Calls returns the calls recorded so far (arrival order).
func (s *Server) Calls() []Call {
	s.mu.Lock()
	defer s.mu.Unlock()
	return append([]Call(nil), s.calls...)
}

func (s *Server) Stop() { s.GS.Stop() }

// ServerOpts selects what an in-process server offers.
type ServerOpts struct {
	// NoReflection: the server implements the example service but does NOT serve the reflection API (a target whose
	// descriptors are published elsewhere: the gun's reflect_port option).
	NoReflection bool
	// ReflectMD: metadata the reflection API demands of its caller (the gun's reflect_metadata option); a reflection
	// stream without every one of these pairs is refused with PermissionDenied.
	ReflectMD map[string]string
	// Ghost: the server (and hence its reflection API) lists one more service, aaa.Ghost, whose descriptor nobody can
	// resolve (a service registered without its file descriptor): the reflection client gets "not found" for it. The
	// name sorts before every other service.
	Ghost bool
	// Host: the address the server listens on, without port ("" = 127.0.0.1; "[::1]" = the IPv6 loopback).
	Host string
}

type ghostService interface{}

// StartServer starts the example service with reflection on 127.0.0.1:0.
func StartServer() (*Server, error) { return StartServerWith(ServerOpts{}) }

func (s *Server) streamIntercept(need map[string]string) grpc.StreamServerInterceptor {
	return func(srv any, ss grpc.ServerStream, info *grpc.StreamServerInfo, handler grpc.StreamHandler) error {
		if strings.Contains(info.FullMethod, "ServerReflection") {
			s.reflStreams.Add(1)
			if len(need) > 0 {
				md, _ := metadata.FromIncomingContext(ss.Context())
				for k, v := range need {
					got := md.Get(k)
					if len(got) != 1 || got[0] != v {
						return status.Error(codes.PermissionDenied, "reflection metadata missing")
					}
				}
			}
		}
		return handler(srv, ss)
	}
}

// ReflStreams: how many reflection streams were opened on this server.
func (s *Server) ReflStreams() int64 { return s.reflStreams.Load() }

// StartServerWith starts the example service on 127.0.0.1:0 behind the recording interceptor.
func StartServerWith(o ServerOpts) (*Server, error) {
	s := &Server{Tokens: map[string]int64{}}
	s.GS = grpc.NewServer(grpc.UnaryInterceptor(s.intercept), grpc.StreamInterceptor(s.streamIntercept(o.ReflectMD)))
	s.Srv = server.NewServer(slog.New(slog.NewTextHandler(io.Discard, nil)), 1)
	server.RegisterTargetServiceServer(s.GS, s.Srv)
	if o.Ghost {
		s.GS.RegisterService(&grpc.ServiceDesc{ServiceName: "aaa.Ghost", HandlerType: (*ghostService)(nil), Metadata: "ghost.proto"}, struct{}{})
	}
	if !o.NoReflection {
		reflection.Register(s.GS)
	}
	// learn the random tokens through the service's own Auth method (before the interceptor is live traffic-wise:
	// direct method calls do not pass the interceptor)
	for uid := int64(1); uid <= 10; uid++ {
		l := strconv.FormatInt(uid, 10)
		resp, err := s.Srv.Auth(context.Background(), &server.AuthRequest{Login: l, Pass: l})
		if err != nil {
			return nil, err
		}
		s.Tokens[resp.Token] = uid
	}
	// a busy machine can run out of ephemeral ports for a moment: retry before giving up (the caller reports
	// "ENV …", which the Lean driver counts as inconclusive)
	var l net.Listener
	var err error
	host := o.Host
	if host == "" {
		host = "127.0.0.1"
	}
	for try := 0; try < 20; try++ {
		l, err = net.Listen("tcp", host+":0")
		if err == nil {
			break
		}
		time.Sleep(time.Duration(50*(try+1)) * time.Millisecond)
	}
	if err != nil {
		return nil, err
	}
	s.Addr = l.Addr().String()
	go func() { _ = s.GS.Serve(l) }()
	return s, nil
}

// ---------------------------------------------------------------- plugins, config, engine

var (
	importOnce sync.Once
	// FS is the single in-memory filesystem every registered plugin factory of this process reads from.
	FS = afero.NewMemMapFs()
)

func ImportAll() {
	importOnce.Do(func() {
		coreimport.Import(FS)
		phttpimport.Import(FS)
		grpcimport.Import(FS)
	})
}

var fileSeq atomic.Int64

// WriteFile stores content under a fresh name with the given suffix and returns the name.
func WriteFile(suffix string, content string) string {
	name := fmt.Sprintf("/c20/f%d%s", fileSeq.Add(1), suffix)
	_ = afero.WriteFile(FS, name, []byte(content), 0o644)
	return name
}

// DecodePool decodes a one-pool pandora config (YAML text) exactly as cli does (cli.DefaultConfig +
// config.DecodeAndValidate -> registered plugin factories) and returns the pool config.
func DecodePool(yamlText string) (conf *cli.CliConfig, err error) {
	ImportAll()
	// pandora decodes its configuration once per process; core/config initialises its hook table lazily and
	// unguarded, so concurrent decoding by the driver's workers would be a data race of the HARNESS's making.
	decodeMu.Lock()
	defer decodeMu.Unlock()
	defer func() {
		if r := recover(); r != nil {
			err = fmt.Errorf("config panic: %v", r)
		}
	}()
	mapCfg := map[string]any{}
	if err = yaml.Unmarshal([]byte(yamlText), &mapCfg); err != nil {
		return nil, err
	}
	conf = cli.DefaultConfig()
	if err = config.DecodeAndValidate(mapCfg, conf); err != nil {
		return nil, err
	}
	if len(conf.Engine.Pools) != 1 {
		return nil, fmt.Errorf("want 1 pool, got %d", len(conf.Engine.Pools))
	}
	return conf, nil
}

var decodeMu sync.Mutex

var metricSeq atomic.Int64

func NewMetrics() engine.Metrics {
	p := fmt.Sprintf("verif%d", metricSeq.Add(1))
	return engine.Metrics{
		Request:        monitoring.NewCounter(p + "_Requests"),
		Response:       monitoring.NewCounter(p + "_Responses"),
		InstanceStart:  monitoring.NewCounter(p + "_UsersStarted"),
		InstanceFinish: monitoring.NewCounter(p + "_UsersFinished"),
	}
}

// Sample is what a gun reported.
type Sample struct {
	Tags string
	Code int
}

// Aggr records the samples reported by guns.
type Aggr struct {
	mu      sync.Mutex
	samples []Sample
}

func (a *Aggr) Run(ctx context.Context, _ core.AggregatorDeps) error {
	<-ctx.Done()
	return nil
}

func (a *Aggr) Report(s core.Sample) {
	smp := Sample{Tags: "?", Code: -1}
	if ns, ok := s.(*netsample.Sample); ok {
		smp = Sample{Tags: ns.Tags(), Code: ns.ProtoCode()}
	}
	a.mu.Lock()
	a.samples = append(a.samples, smp)
	a.mu.Unlock()
}

func (a *Aggr) Samples() []Sample {
	a.mu.Lock()
	defer a.mu.Unlock()
	return append([]Sample(nil), a.samples...)
}
