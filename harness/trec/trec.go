// Package trec: small helpers shared by the real-time drivers C04 and C12 (goroutine identity, relative
// microsecond clock, engine metrics).
package trec

import (
	"runtime"
	"strconv"
	"strings"
	"time"

	"github.com/yandex/pandora/core/engine"
	"github.com/yandex/pandora/lib/monitoring"
)

// Goid returns the id of the calling goroutine (parsed from runtime.Stack; used only to attribute recorded
// events to the instance goroutine that produced them).
func Goid() int64 {
	var buf [64]byte
	n := runtime.Stack(buf[:], false)
	s := strings.TrimPrefix(string(buf[:n]), "goroutine ")
	if i := strings.IndexByte(s, ' '); i > 0 {
		s = s[:i]
	}
	id, _ := strconv.ParseInt(s, 10, 64)
	return id
}

// Clock measures instants in NANOSECONDS relative to T0 on the monotonic clock.
type Clock struct{ T0 time.Time }

func NewClock() *Clock { return &Clock{T0: time.Now()} }

// Now is the current instant, ns since T0.
func (c *Clock) Now() int64 { return int64(time.Since(c.T0)) }

// Of converts a time.Time carrying a monotonic reading (e.g. a schedule token derived from time.Now()) to ns since T0.
func (c *Clock) Of(t time.Time) int64 { return int64(t.Sub(c.T0)) }

func Metrics() engine.Metrics {
	return engine.Metrics{
		Request:        &monitoring.Counter{},
		Response:       &monitoring.Counter{},
		InstanceStart:  &monitoring.Counter{},
		InstanceFinish: &monitoring.Counter{},
	}
}
