// Package c18aux holds a plugin interface whose NAME equals the one of harness/cmd/c18 (`Iface`), in another package:
// a registry must key on the identity of the reflect.Type, not on its name or method set.
package c18aux

type Iface interface{ Serial() int }
