// Package c11lib: reflection(+unsafe) walker that computes the pointer-identity graph of everything reachable from a
// set of roots, the allocation units shared between two root sets, and a content snapshot of units for diffing.
//
// Allocation units: the target of a pointer, a map, the backing array of a slice, a channel. A unit is labelled by
// the places that refer to it, "<pkg>.<Type>.<field>(<kind>)" (the lexicographically smallest such place is THE
// label, so labels do not depend on map iteration or discovery order).
//
// The walker descends into: every pointer/interface/map/slice/array; struct types declared in
// github.com/yandex/pandora/... and a small list of standard types whose state matters here (math/rand, sync/atomic
// values, net/http.Request, net/url, bytes/strings readers). Any other struct type is an opaque leaf: identity is
// recorded, content is neither walked nor snapshotted (zap loggers, grpc connections, descriptors, contexts,
// sync.Mutex/Pool …).
//
// A sync.Map (the templaters' caches, or any cache a component keeps) is entered through its own Range method: the
// keys and values stored in it are reachable from every instance that reaches the map (the map itself synchronises its
// content and is no unit; a change of its content is not a change of the unit that contains it).
//
// A func value is a pointer to a closure object (code pointer + captured variables). A func value whose closure
// object lives on the heap has captured variables, i.e. state: it is an allocation unit of kind Func, labelled
// "<place>(closure:<pkg>:<enclosing function>.func<N>)" (canonical name: receiver and inlining prefixes dropped, so
// that it can be joined with the closure facts regenerated from the source, gen area `locks`). The layout of a closure
// object is not available at run time: its captured variables are not walked; which of them the function writes is a
// static fact (Gen.Locks.closures). Top-level functions and literals that capture nothing are static data: no unit.
package c11lib

import (
	"bufio"
	"fmt"
	"hash/fnv"
	"os"
	"reflect"
	"regexp"
	"runtime"
	"sort"
	"strconv"
	"strings"
	"sync"
	"time"
	"unsafe"
)

type unitKey struct {
	ptr  uintptr
	kind reflect.Kind // Ptr, Map, Slice, Chan
	typ  reflect.Type // distinguishes a struct from its first field
}

type Unit struct {
	key    unitKey
	val    reflect.Value // the pointer / map / slice / chan value
	labels map[string]bool
}

func (u *Unit) Label() string {
	ls := make([]string, 0, len(u.labels))
	for l := range u.labels {
		ls = append(ls, l)
	}
	sort.Strings(ls)
	return ls[0]
}

type Graph struct {
	Units map[unitKey]*Unit
}

func shortType(t reflect.Type) string {
	s := t.String()
	s = strings.ReplaceAll(s, "github.com/yandex/pandora/", "")
	return s
}

var descendPkgs = map[string]bool{"math/rand": true, "sync/atomic": true, "net/url": true}
var descendTypes = map[string]bool{"http.Request": true, "bytes.Reader": true, "bytes.Buffer": true, "strings.Reader": true,
	"io.nopCloser": true, "io.nopCloserWriterTo": true, "http.noBody": true}

func descendStruct(t reflect.Type) bool {
	p := t.PkgPath()
	if strings.HasPrefix(p, "github.com/yandex/pandora") {
		return true
	}
	if strings.HasPrefix(p, "verifharness") {
		return false
	}
	if descendPkgs[p] {
		return true
	}
	return descendTypes[t.String()]
}

// launder makes a value obtained through an unexported field usable (clears the read-only flag).
func launder(v reflect.Value) reflect.Value {
	if v.CanAddr() {
		return reflect.NewAt(v.Type(), unsafe.Pointer(v.UnsafeAddr())).Elem()
	}
	return v
}

func addressable(v reflect.Value) reflect.Value {
	if v.CanAddr() {
		return v
	}
	nv := reflect.New(v.Type()).Elem()
	nv.Set(v)
	return nv
}

// Walk computes the graph reachable from the roots.
func Walk(roots ...any) *Graph {
	g := &Graph{Units: map[unitKey]*Unit{}}
	for _, r := range roots {
		if r == nil {
			continue
		}
		v := reflect.ValueOf(r)
		g.walk(v, "root("+shortType(v.Type())+")", 0)
	}
	return g
}

const maxDepth = 64

func (g *Graph) visitUnit(v reflect.Value, kind reflect.Kind, typ reflect.Type, label string) bool {
	ptr := v.Pointer()
	if ptr == 0 {
		return false
	}
	k := unitKey{ptr, kind, typ}
	u, ok := g.Units[k]
	if !ok {
		u = &Unit{key: k, val: v, labels: map[string]bool{}}
		g.Units[k] = u
	}
	u.labels[label] = true
	return !ok
}

func (g *Graph) walk(v reflect.Value, label string, depth int) {
	if depth > maxDepth || !v.IsValid() {
		return
	}
	switch v.Kind() {
	case reflect.Ptr:
		if v.IsNil() {
			return
		}
		et := v.Type().Elem()
		lab := label
		if !g.visitUnit(v, reflect.Ptr, et, lab+"(*"+shortType(et)+")") {
			return
		}
		if isSyncMap(et) {
			g.walkSyncMap(v.Elem(), lab, depth+1)
			return
		}
		if et.Kind() == reflect.Struct && !descendStruct(et) {
			return
		}
		g.walk(v.Elem(), "*"+shortType(et), depth+1)
	case reflect.Interface:
		if v.IsNil() {
			return
		}
		g.walk(addressableIfStruct(v.Elem()), label, depth+1)
	case reflect.Map:
		if v.IsNil() {
			return
		}
		if !g.visitUnit(v, reflect.Map, v.Type(), label+"(map)") {
			return
		}
		if !hasRefs(v.Type().Elem()) && !hasRefs(v.Type().Key()) {
			return
		}
		it := v.MapRange()
		for it.Next() {
			g.walk(addressableIfStruct(it.Key()), label+"{key}", depth+1)
			g.walk(addressableIfStruct(it.Value()), label+"{}", depth+1)
		}
	case reflect.Slice:
		if v.IsNil() || v.Cap() == 0 {
			return
		}
		if !g.visitUnit(v, reflect.Slice, v.Type().Elem(), label+"(slice)") {
			// same backing array seen before; elements may still differ in range, but ranges of one array alias
			return
		}
		if !hasRefs(v.Type().Elem()) {
			return
		}
		for i := 0; i < v.Len(); i++ {
			g.walk(v.Index(i), label+"[]", depth+1)
		}
	case reflect.Array:
		if !hasRefs(v.Type().Elem()) {
			return
		}
		for i := 0; i < v.Len(); i++ {
			g.walk(v.Index(i), label+"[]", depth+1)
		}
	case reflect.Chan:
		if v.IsNil() {
			return
		}
		g.visitUnit(v, reflect.Chan, v.Type(), label+"(chan)")
	case reflect.Func:
		if v.IsNil() {
			return
		}
		g.visitClosure(v, label)
	case reflect.Struct:
		t := v.Type()
		if isSyncMap(t) {
			g.walkSyncMap(addressable(v), label, depth)
			return
		}
		if !descendStruct(t) {
			return
		}
		v = addressable(v)
		for i := 0; i < t.NumField(); i++ {
			f := t.Field(i)
			if !hasRefs(f.Type) {
				continue
			}
			g.walk(launder(v.Field(i)), shortType(t)+"."+f.Name, depth+1)
		}
	}
}

// ---------------------------------------------------------------- sync.Map, closures

var syncMapType = reflect.TypeOf(sync.Map{})

func isSyncMap(t reflect.Type) bool { return t == syncMapType }

// syncMapOf: the *sync.Map behind an addressable value of type sync.Map (also one reached through unexported fields).
func syncMapOf(v reflect.Value) *sync.Map {
	if !v.CanAddr() {
		return nil
	}
	return (*sync.Map)(unsafe.Pointer(v.UnsafeAddr()))
}

func (g *Graph) walkSyncMap(v reflect.Value, label string, depth int) {
	m := syncMapOf(v)
	if m == nil {
		return
	}
	m.Range(func(k, val any) bool {
		if k != nil {
			g.walk(addressableIfStruct(reflect.ValueOf(k)), label+"{synckey}", depth+1)
		}
		if val != nil {
			g.walk(addressableIfStruct(reflect.ValueOf(val)), label+"{sync}", depth+1)
		}
		return true
	})
}

// closureObject: the address of the closure object a func value points to.
func closureObject(v reflect.Value) uintptr {
	v = addressable(v)
	return *(*uintptr)(unsafe.Pointer(v.UnsafeAddr()))
}

type addrRange struct{ lo, hi uintptr }

var (
	staticOnce   sync.Once
	staticRanges []addrRange
)

// isStatic: does the address lie in a mapping of the executable file (text, rodata, data, bss)? Closure objects of
// top-level functions, of method expressions and of literals that capture nothing are static symbols; a closure that
// captured variables is allocated (heap, or the stack of a live frame).
func isStatic(p uintptr) bool {
	staticOnce.Do(func() {
		exe, err := os.Executable()
		if err != nil {
			return
		}
		f, err := os.Open("/proc/self/maps")
		if err != nil {
			return
		}
		defer f.Close()
		sc := bufio.NewScanner(f)
		var last addrRange
		lastExe := false
		for sc.Scan() {
			fs := strings.Fields(sc.Text())
			if len(fs) < 5 {
				continue
			}
			ab := strings.SplitN(fs[0], "-", 2)
			lo, e1 := strconv.ParseUint(ab[0], 16, 64)
			hi, e2 := strconv.ParseUint(ab[1], 16, 64)
			if e1 != nil || e2 != nil {
				continue
			}
			r := addrRange{uintptr(lo), uintptr(hi)}
			isExe := len(fs) >= 6 && fs[5] == exe
			// the bss of the executable is an anonymous mapping that directly follows its data mapping
			if !isExe && len(fs) == 5 && lastExe && last.hi == r.lo {
				isExe = true
			}
			if isExe {
				staticRanges = append(staticRanges, r)
			}
			last, lastExe = r, isExe
		}
	})
	for _, r := range staticRanges {
		if p >= r.lo && p < r.hi {
			return true
		}
	}
	return false
}

var closureSuffix = regexp.MustCompile(`([A-Za-z_][A-Za-z0-9_]*)\.(func[0-9]+(?:\.[0-9]+)*)$`)

// ClosureName: canonical name of the function behind a code pointer: "<import path below pandora>:<enclosing
// function>.func<N>[.<M>]" for function literals (receiver types and the prefixes added by inlining dropped),
// "<import path>:<rest>" for anything else (method values "T.M-fm", top-level functions).
func ClosureName(pc uintptr) string {
	f := runtime.FuncForPC(pc)
	if f == nil {
		return "?"
	}
	name := f.Name()
	pkg, rest := name, ""
	if i := strings.LastIndex(name, "/"); i >= 0 {
		if j := strings.Index(name[i:], "."); j >= 0 {
			pkg, rest = name[:i+j], name[i+j+1:]
		}
	} else if j := strings.Index(name, "."); j >= 0 {
		pkg, rest = name[:j], name[j+1:]
	}
	pkg = strings.TrimPrefix(pkg, "github.com/yandex/pandora/")
	if m := closureSuffix.FindStringSubmatch(rest); m != nil {
		return pkg + ":" + m[1] + "." + m[2]
	}
	return pkg + ":" + rest
}

func (g *Graph) visitClosure(v reflect.Value, label string) {
	obj := closureObject(v)
	if obj == 0 || isStatic(obj) {
		return
	}
	k := unitKey{obj, reflect.Func, v.Type()}
	u, ok := g.Units[k]
	if !ok {
		u = &Unit{key: k, val: v, labels: map[string]bool{}}
		g.Units[k] = u
	}
	u.labels[label+"(closure:"+ClosureName(v.Pointer())+")"] = true
}

// IsClosure: is the unit a closure object?
func (u *Unit) IsClosure() bool { return u.key.kind == reflect.Func }

func addressableIfStruct(v reflect.Value) reflect.Value {
	if v.IsValid() && v.Kind() == reflect.Struct {
		return addressable(v)
	}
	return v
}

var hasRefsCache sync.Map // reflect.Type -> bool

// hasRefs: can a value of this type refer to another allocation unit?
func hasRefs(t reflect.Type) bool {
	switch t.Kind() {
	case reflect.Ptr, reflect.Map, reflect.Slice, reflect.Interface, reflect.Chan, reflect.Func, reflect.UnsafePointer:
		return true
	case reflect.Array:
		return hasRefs(t.Elem())
	case reflect.Struct:
		if r, ok := hasRefsCache.Load(t); ok {
			return r.(bool)
		}
		r := false
		for i := 0; i < t.NumField(); i++ {
			if hasRefs(t.Field(i).Type) {
				r = true
				break
			}
		}
		hasRefsCache.Store(t, r)
		return r
	}
	return false
}

// Shared returns the units present in both graphs.
func Shared(a, b *Graph) []*Unit {
	var out []*Unit
	for k, u := range a.Units {
		if ub, ok := b.Units[k]; ok {
			m := &Unit{key: k, val: u.val, labels: map[string]bool{}}
			for l := range u.labels {
				m.labels[l] = true
			}
			for l := range ub.labels {
				m.labels[l] = true
			}
			out = append(out, m)
		}
	}
	sort.Slice(out, func(i, j int) bool { return out[i].Label() < out[j].Label() })
	return out
}

// Units returns every unit of the graph, sorted by label.
func Units(g *Graph) []*Unit {
	out := make([]*Unit, 0, len(g.Units))
	for _, u := range g.Units {
		out = append(out, u)
	}
	sort.Slice(out, func(i, j int) bool {
		if li, lj := out[i].Label(), out[j].Label(); li != lj {
			return li < lj
		}
		return out[i].key.ptr < out[j].key.ptr
	})
	return out
}

// NotIn returns the units of us that are not (by identity) among base.
func NotIn(us, base []*Unit) []*Unit {
	have := map[unitKey]bool{}
	for _, u := range base {
		have[u.key] = true
	}
	var out []*Unit
	for _, u := range us {
		if !have[u.key] {
			out = append(out, u)
		}
	}
	return out
}

// Labels returns the sorted distinct labels of the units, root labels dropped.
func Labels(us []*Unit) []string {
	seen := map[string]bool{}
	var out []string
	for _, u := range us {
		l := u.Label()
		if !seen[l] {
			seen[l] = true
			out = append(out, l)
		}
	}
	sort.Strings(out)
	return out
}

// ---------------------------------------------------------------- snapshots

// Snapshot hashes the immediate content of a unit: scalars and strings by value, references by identity. Opaque
// struct types contribute nothing.
func Snapshot(u *Unit) (h uint64, ok bool) {
	defer func() {
		if r := recover(); r != nil {
			h, ok = 0, false
		}
	}()
	hs := fnv.New64a()
	v := u.val
	switch u.key.kind {
	case reflect.Ptr:
		if v.Type().Elem().Kind() == reflect.Struct && !descendStruct(v.Type().Elem()) {
			return 0, false
		}
		shallow(hs, v.Elem(), 0)
	case reflect.Map:
		var rows []string
		it := v.MapRange()
		for it.Next() {
			kh := fnv.New64a()
			shallow(kh, addressableIfStruct(it.Key()), 0)
			shallow(kh, addressableIfStruct(it.Value()), 0)
			rows = append(rows, fmt.Sprintf("%x", kh.Sum64()))
		}
		sort.Strings(rows)
		fmt.Fprint(hs, len(rows), rows)
	case reflect.Slice:
		// whole backing array up to cap, as far as visible
		full := v.Slice(0, v.Cap())
		for i := 0; i < full.Len(); i++ {
			shallow(hs, full.Index(i), 0)
		}
	default:
		return 0, false
	}
	return hs.Sum64(), true
}

type hasher interface{ Write([]byte) (int, error) }

var timeType = reflect.TypeOf(time.Time{})

func shallow(hs hasher, v reflect.Value, depth int) {
	if !v.IsValid() || depth > 8 {
		return
	}
	switch v.Kind() {
	case reflect.Bool:
		fmt.Fprint(hs, v.Bool())
	case reflect.Int, reflect.Int8, reflect.Int16, reflect.Int32, reflect.Int64:
		fmt.Fprint(hs, v.Int())
	case reflect.Uint, reflect.Uint8, reflect.Uint16, reflect.Uint32, reflect.Uint64, reflect.Uintptr:
		fmt.Fprint(hs, v.Uint())
	case reflect.Float32, reflect.Float64:
		fmt.Fprint(hs, v.Float())
	case reflect.String:
		// content AND identity of the bytes: a slot rewritten with an equal string that was built anew (a time stamp formatted
		// again within the same second, a header rendered again to the same text) is a write all the same
		str := v.String()
		fmt.Fprint(hs, len(str), str, "@", uintptr(unsafe.Pointer(unsafe.StringData(str))))
	case reflect.Ptr, reflect.Map, reflect.Chan, reflect.UnsafePointer:
		fmt.Fprint(hs, "@", v.Pointer())
	case reflect.Func:
		if v.IsNil() {
			fmt.Fprint(hs, "fn-nil")
		} else {
			fmt.Fprint(hs, "fn@", closureObject(v))
		}
	case reflect.Slice:
		fmt.Fprint(hs, "@", v.Pointer(), v.Len())
	case reflect.Interface:
		if v.IsNil() {
			fmt.Fprint(hs, "nil")
			return
		}
		fmt.Fprint(hs, v.Elem().Type().String())
		shallow(hs, addressableIfStruct(v.Elem()), depth+1)
	case reflect.Array:
		for i := 0; i < v.Len(); i++ {
			shallow(hs, v.Index(i), depth+1)
		}
	case reflect.Struct:
		t := v.Type()
		if isSyncMap(t) {
			// a sync.Map synchronises its own content: storing into it is not a write to the unit that contains it; what
			// is stored in it is walked (walkSyncMap) and snapshotted as units of its own
			return
		}
		if t == timeType {
			// round 4: a wall-clock reading is plain data (two integers and a location): a time stamp kept in a shared unit and
			// overwritten by every shot is a write like any other
			tv := addressable(v)
			fmt.Fprint(hs, "t", launder(tv.Field(0)).Uint(), launder(tv.Field(1)).Int())
			return
		}
		if !descendStruct(t) {
			return
		}
		v = addressable(v)
		for i := 0; i < t.NumField(); i++ {
			shallow(hs, launder(v.Field(i)), depth+1)
		}
	}
}

// PointerOf: identity of a pointer-like value (0 for anything else).
func PointerOf(x any) uintptr {
	v := reflect.ValueOf(x)
	switch v.Kind() {
	case reflect.Ptr, reflect.Map, reflect.Chan, reflect.UnsafePointer:
		return v.Pointer()
	}
	return 0
}

// HashPointee hashes the content of the struct behind a pointer (scalars, strings, arrays by value; references by
// identity; fields of struct types the walker does not descend into — time.Time … — contribute nothing).
func HashPointee(x any) (h uint64, ok bool) {
	defer func() {
		if r := recover(); r != nil {
			h, ok = 0, false
		}
	}()
	v := reflect.ValueOf(x)
	if v.Kind() != reflect.Ptr || v.IsNil() {
		return 0, false
	}
	hs := fnv.New64a()
	shallow(hs, v.Elem(), 0)
	return hs.Sum64(), true
}
