package c11lib

// In-process environment of the C11 driver (a trimmed copy of what harness/c20lib provides, kept here so that the two
// drivers evolve independently): the repo's example gRPC service with server reflection behind a counting
// interceptor, plugin registration (once per process, on one in-memory filesystem), decoding of a pandora config the
// way cli does it, the REAL provider / gun factory / engine, and a hand-driven pool.

import (
	"context"
	"fmt"
	"io"
	"log/slog"
	"net"
	"sort"
	"strings"
	"sync"
	"sync/atomic"
	"time"

	"github.com/spf13/afero"
	"github.com/yandex/pandora/cli"
	grpcimport "github.com/yandex/pandora/components/grpc/import"
	phttpimport "github.com/yandex/pandora/components/phttp/import"
	"github.com/yandex/pandora/core"
	"github.com/yandex/pandora/core/config"
	"github.com/yandex/pandora/core/engine"
	coreimport "github.com/yandex/pandora/core/import"
	"github.com/yandex/pandora/core/warmup"
	"github.com/yandex/pandora/examples/grpc/server"
	"github.com/yandex/pandora/lib/monitoring"
	"go.uber.org/zap"
	"google.golang.org/grpc"
	"google.golang.org/grpc/codes"
	"google.golang.org/grpc/metadata"
	"google.golang.org/grpc/reflection"
	"google.golang.org/grpc/status"
	"gopkg.in/yaml.v2"
)

// Enc makes a string a single token: ' ' -> '~', anything outside [A-Za-z0-9_.-{}] -> %XX.
func Enc(s string) string {
	var b strings.Builder
	for i := 0; i < len(s); i++ {
		c := s[i]
		switch {
		case c == ' ':
			b.WriteByte('~')
		case c >= 'a' && c <= 'z', c >= 'A' && c <= 'Z', c >= '0' && c <= '9', c == '_', c == '.', c == '-', c == '{', c == '}':
			b.WriteByte(c)
		default:
			fmt.Fprintf(&b, "%%%02X", c)
		}
	}
	return b.String()
}

func Trunc(s string, n int) string {
	if len(s) > n {
		return s[:n]
	}
	return s
}

// ---------------------------------------------------------------- gRPC target

// Server is the example service (examples/grpc/server) on 127.0.0.1:0, counting the unary calls it receives.
type Server struct {
	Addr  string
	GS    *grpc.Server
	Srv   *server.GRPCServer
	hmu   sync.Mutex
	calls atomic.Int64
	// Refuse: every unary call is answered with codes.Unavailable without reaching the service (what a gun sees when
	// the target is gone; the listener stays open, so the port cannot be taken over by another case's target)
	Refuse atomic.Bool

	// Script (mode=isolate): the successive Hello calls WITHOUT an x-echo metadata entry are answered with these greetings
	// ("" = an empty greeting); Hello calls with x-echo are recorded (what the instance made of its earlier answer)
	smu    sync.Mutex
	Script []string
	next   int
	echoes []string
}

// Echoes returns what the x-echo calls carried so far.
func (s *Server) Echoes() []string {
	s.smu.Lock()
	defer s.smu.Unlock()
	return append([]string(nil), s.echoes...)
}

func (s *Server) intercept(ctx context.Context, req any, info *grpc.UnaryServerInfo, handler grpc.UnaryHandler) (any, error) {
	if s.Refuse.Load() {
		return nil, status.Error(codes.Unavailable, "target refuses")
	}
	s.calls.Add(1)
	if hr, ok := req.(*server.HelloRequest); ok && s.Script != nil {
		md, _ := metadata.FromIncomingContext(ctx)
		s.smu.Lock()
		defer s.smu.Unlock()
		if e := md.Get("x-echo"); len(e) > 0 {
			s.echoes = append(s.echoes, "echo:"+Enc(strings.Join(e, "&"))+",g:"+Enc(strings.Join(md.Get("x-g"), "&"))+",name:"+Enc(hr.GetName()))
			return &server.HelloResponse{Hello: "ok"}, nil
		}
		if s.next < len(s.Script) {
			v := s.Script[s.next]
			s.next++
			return &server.HelloResponse{Hello: v}, nil
		}
	}
	// The example service updates its statistics maps without synchronisation; handlers are serialised so that the
	// race detector reports concern the load generator, never the target.
	s.hmu.Lock()
	defer s.hmu.Unlock()
	return handler(ctx, req)
}

func (s *Server) Calls() int64 { return s.calls.Load() }

func (s *Server) Stop() { s.GS.Stop() }

func StartServer() (*Server, error) {
	s := &Server{}
	s.GS = grpc.NewServer(grpc.UnaryInterceptor(s.intercept))
	s.Srv = server.NewServer(slog.New(slog.NewTextHandler(io.Discard, nil)), 1)
	server.RegisterTargetServiceServer(s.GS, s.Srv)
	reflection.Register(s.GS)
	l, err := net.Listen("tcp", "127.0.0.1:0")
	if err != nil {
		return nil, err
	}
	s.Addr = l.Addr().String()
	go func() { _ = s.GS.Serve(l) }()
	return s, nil
}

// ---------------------------------------------------------------- plugins, config, engine

var (
	importOnce sync.Once
	// FS is the single in-memory filesystem every registered plugin factory of this process reads from.
	FS = afero.NewMemMapFs()
)

func ImportAll() {
	importOnce.Do(func() {
		coreimport.Import(FS)
		phttpimport.Import(FS)
		grpcimport.Import(FS)
	})
}

var fileSeq atomic.Int64

// WriteFile stores content under a fresh name with the given suffix and returns the name.
func WriteFile(suffix string, content string) string {
	name := fmt.Sprintf("/c11/f%d%s", fileSeq.Add(1), suffix)
	_ = afero.WriteFile(FS, name, []byte(content), 0o644)
	return name
}

// DecodePool decodes a one-pool pandora config (YAML text) exactly as cli does (cli.DefaultConfig +
// config.DecodeAndValidate -> registered plugin factories).
func DecodePool(yamlText string) (conf *cli.CliConfig, err error) {
	ImportAll()
	defer func() {
		if r := recover(); r != nil {
			err = fmt.Errorf("config panic: %v", r)
		}
	}()
	mapCfg := map[string]any{}
	if err = yaml.Unmarshal([]byte(yamlText), &mapCfg); err != nil {
		return nil, err
	}
	conf = cli.DefaultConfig()
	if err = config.DecodeAndValidate(mapCfg, conf); err != nil {
		return nil, err
	}
	if len(conf.Engine.Pools) != 1 {
		return nil, fmt.Errorf("want 1 pool, got %d", len(conf.Engine.Pools))
	}
	return conf, nil
}

var metricSeq atomic.Int64

func NewMetrics() engine.Metrics {
	p := fmt.Sprintf("verifc11_%d", metricSeq.Add(1))
	return engine.Metrics{
		Request:        monitoring.NewCounter(p + "_Requests"),
		Response:       monitoring.NewCounter(p + "_Responses"),
		InstanceStart:  monitoring.NewCounter(p + "_UsersStarted"),
		InstanceFinish: monitoring.NewCounter(p + "_UsersFinished"),
	}
}

// Aggr counts the samples reported by guns (it never returns them to the sample pool).
type Aggr struct {
	n atomic.Int64
}

func (a *Aggr) Run(ctx context.Context, _ core.AggregatorDeps) error {
	<-ctx.Done()
	return nil
}

func (a *Aggr) Report(s core.Sample) { a.n.Add(1) }

func (a *Aggr) Count() int64 { return a.n.Load() }

// RecAggr records every reported sample: its identity and a hash of its content at the moment of Report. It keeps
// every sample (none goes back to the sample pool, so the pool can never hand out the same object again): two records
// with one identity mean ONE sample was reported twice, and a content hash that differs later means the sample was
// written after it had been handed over.
type RecAggr struct {
	mu   sync.Mutex
	recs []sampleRec
}

type sampleRec struct {
	s core.Sample
	p uintptr
	h uint64
}

func (a *RecAggr) Run(ctx context.Context, _ core.AggregatorDeps) error {
	<-ctx.Done()
	return nil
}

func (a *RecAggr) Report(s core.Sample) {
	h, _ := HashPointee(s)
	a.mu.Lock()
	a.recs = append(a.recs, sampleRec{s: s, p: PointerOf(s), h: h})
	a.mu.Unlock()
}

// Words: for every distinct sample object (in the order of its first report) what the gun did with it, as a word over
// T (taken from the pool), W (written), G (given to the aggregator): "TWG" is the normal life of a sample on the gun's
// side; a "W" after a "G" is a write to a sample the aggregator owns, a second "G" a second hand-over. Returned as a
// sorted multiset "word:count,…" and the total number of reports.
func (a *RecAggr) Words() (reports int, words string) {
	a.mu.Lock()
	defer a.mu.Unlock()
	var order []uintptr
	by := map[uintptr][]sampleRec{}
	for _, r := range a.recs {
		reports++
		if _, ok := by[r.p]; !ok {
			order = append(order, r.p)
		}
		by[r.p] = append(by[r.p], r)
	}
	count := map[string]int{}
	for _, p := range order {
		rs := by[p]
		w := "TW"
		for k, r := range rs {
			w += "G"
			var later uint64
			var ok bool
			if k+1 < len(rs) {
				later, ok = rs[k+1].h, true
			} else {
				later, ok = HashPointee(r.s)
			}
			if ok && later != r.h {
				w += "W"
			}
		}
		count[w]++
	}
	var keys []string
	for k := range count {
		keys = append(keys, k)
	}
	sort.Strings(keys)
	for i, k := range keys {
		if i > 0 {
			words += ","
		}
		words += fmt.Sprintf("%s:%d", k, count[k])
	}
	if words == "" {
		words = "-"
	}
	return
}

// RunEngine runs the decoded pool through the real engine with the given aggregator (nil = the configured one) and
// returns the engine error text ("" = nil).
func RunEngine(yamlText string, aggr core.Aggregator, timeout time.Duration) string {
	conf, err := DecodePool(yamlText)
	if err != nil {
		return "config:" + Enc(Trunc(err.Error(), 120))
	}
	if aggr != nil {
		conf.Engine.Pools[0].Aggregator = aggr
	}
	eng := engine.New(zap.NewNop(), NewMetrics(), conf.Engine)
	ctx, cancel := context.WithTimeout(context.Background(), timeout)
	defer cancel()
	err = eng.Run(ctx)
	waitDone := make(chan struct{})
	go func() { eng.Wait(); close(waitDone) }()
	select {
	case <-waitDone:
	case <-time.After(5 * time.Second):
		return "wait-hang"
	}
	if err != nil {
		s := err.Error()
		if strings.Contains(s, "context deadline exceeded") {
			return "timeout"
		}
		return "err:" + Enc(Trunc(s, 120))
	}
	return ""
}

// Manual is a hand-driven pool: the real provider (running), N real guns made by the registered factory, warmed up
// and bound the way instancePool does it.
type Manual struct {
	Provider core.Provider
	Guns     []core.Gun
	WarmGun  core.Gun
	Aggr     core.Aggregator
	cancel   context.CancelFunc
	provErr  chan error
}

func NewManual(yamlText string, n int) (*Manual, error) { return NewManualAggr(yamlText, n, &Aggr{}) }

func NewManualAggr(yamlText string, n int, aggr core.Aggregator) (*Manual, error) {
	conf, err := DecodePool(yamlText)
	if err != nil {
		return nil, fmt.Errorf("config: %w", err)
	}
	pool := conf.Engine.Pools[0]
	m := &Manual{Provider: pool.Provider, Aggr: aggr, provErr: make(chan error, 1)}
	ctx, cancel := context.WithCancel(context.Background())
	m.cancel = cancel
	log := zap.NewNop()
	// instancePool.warmUpGun
	g0, err := pool.NewGun()
	if err != nil {
		cancel()
		return nil, fmt.Errorf("newgun: %w", err)
	}
	m.WarmGun = g0
	var shared any
	if w, ok := g0.(warmup.WarmedUp); ok {
		shared, err = w.WarmUp(&warmup.Options{Log: log, Ctx: ctx})
		if err != nil {
			cancel()
			return nil, fmt.Errorf("warmup: %w", err)
		}
	}
	go func() { m.provErr <- m.Provider.Run(ctx, core.ProviderDeps{Log: log, PoolID: "p"}) }()
	for i := 0; i < n; i++ {
		g, err := pool.NewGun()
		if err != nil {
			cancel()
			return nil, fmt.Errorf("newgun: %w", err)
		}
		err = g.Bind(m.Aggr, core.GunDeps{Ctx: ctx, Log: log, PoolID: "p", InstanceID: i, Shared: shared})
		if err != nil {
			cancel()
			return nil, fmt.Errorf("bind: %w", err)
		}
		m.Guns = append(m.Guns, g)
	}
	return m, nil
}

// Acquire with a guard against a provider that never delivers: (ammo, ok, hang).
func (m *Manual) Acquire(d time.Duration) (core.Ammo, bool, bool) {
	type res struct {
		a  core.Ammo
		ok bool
	}
	ch := make(chan res, 1)
	go func() {
		a, ok := m.Provider.Acquire()
		ch <- res{a, ok}
	}()
	select {
	case r := <-ch:
		return r.a, r.ok, false
	case <-time.After(d):
		return nil, false, true
	}
}

func (m *Manual) Close() {
	m.cancel()
	for _, g := range m.Guns {
		if c, ok := g.(interface{ Close() error }); ok {
			_ = c.Close()
		}
	}
}
