// Package c14cell runs ONE cell of the C14 matrix against the REAL pandora http ammo provider and returns what the
// consumer and the caller of Provider.Run observe.  (Started as a copy of the http part of harness/provcell; C14 needs
// more file layouts, the inline `uris:` source, construction through the plugin registry, untagged entries.)
//
// A cell = (format, preload, limit, passes, file of n tagged entries, chosencases, layout, source, construction route,
// cancel cap).  Files live in ONE in-memory afero filesystem (the registered plugin factories are bound to it) under
// a name that is unique to the execution; every Read/Seek on the cell's file is counted (diagnosis "spinning" vs
// "blocked" of a run that never returns) and the file has a kill switch, so that a runaway provider never outlives
// its cell.
package c14cell

import (
	"context"
	"encoding/json"
	"errors"
	"fmt"
	"io"
	"net/http"
	"os"
	"sort"
	"strconv"
	"strings"
	"sync"
	"sync/atomic"
	"time"

	"github.com/spf13/afero"
	httpprov "github.com/yandex/pandora/components/providers/http"
	httpconf "github.com/yandex/pandora/components/providers/http/config"
	"github.com/yandex/pandora/components/providers/http/decoders"
	"github.com/yandex/pandora/core"
	"github.com/yandex/pandora/core/aggregator/netsample"
	"github.com/yandex/pandora/core/config"
	"github.com/yandex/pandora/lib/errutil"
	coreimport "github.com/yandex/pandora/core/import"
	"go.uber.org/zap"
)

const (
	KURI      = "uri"
	KURIPost  = "uripost"
	KRaw      = "raw"
	KJSONLine = "jsonl"   // http/json, a stream of objects
	KJSONArr  = "jsonarr" // http/json, one array
)

var Kinds = []string{KURI, KURIPost, KRaw, KJSONLine, KJSONArr}

// Layouts per format (what surrounds the entries; never changes which entries the file has):
//
//	uri      0 one entry per line   1 blank lines (top, after the first entry)   2 CRLF line ends, no newline after the last line   3 blank line first, indented lines, `[ Key :  v ]` spelling of header lines
//	uripost  0 as written by docs   1 blank line first + newline after empty bodies   2 last entry without its final newline   3 blank line first, `[ Key :  v ]` spelling of header lines
//	raw      0 back to back         1 blank line after each entry   2 blank line first, two blank lines between, CRLF after the size line
//	jsonl    0 one object per line  1 a blank line after the first  2 pretty-printed multi-line objects                 3 all objects on ONE line separated by a space
//	jsonarr  0 compact              1 one element per line          2 pretty-printed (indent) with white space before `[`
//
// With Src = "uris" (uri only) the lines of the layout are the elements of the `uris:` list.
//
// Headers are a dimension of their own (round 2), visible to the model: Cell.FH = headers the SOURCE declares at a
// position, Cell.CH = the provider's `headers:` option.  What "at position pos" means depends on the format:
//
//	uri, uripost   a `[Key: val]` line before the line of entry pos (pos = number of entries: after the last entry); it
//	               applies to every LATER entry of the same pass (the decoder's header accumulator)
//	jsonl, jsonarr a member of the "headers" object of entry pos (applies to that entry only)
//	raw            a `Key: val` line of the request of entry pos (applies to that entry only)
//
// No layout adds a header of its own.
const MaxLayout = 3

func Layouts(kind string) int {
	switch kind {
	case KURI, KURIPost, KJSONLine:
		return 4
	}
	return 3
}

type Cell struct {
	Kind    string
	Preload bool
	Limit   uint64 // any uint64: the provider's bounds are uint
	Passes  uint64
	Tags    []string // one per entry ("" = the entry has no tag); entry i has identity i
	Chosen  []string // nil = no chosencases
	Cap     int      // cancel the context when this many ammo have been acquired (0 = never)
	Layout  int
	Uris    bool // uri only: the entries are given inline (`uris:`), not in a file
	YAML    bool // construct through the plugin registry from a YAML-shaped config map instead of NewProvider
	Generic bool // (with YAML) plugin type `http` with the key `decoder: <kind>` instead of the per-format plugin type
	// round 4: the consumer behaves like TWO instances sharing the provider: it looks at (and gun-touches) delivery k only
	// after delivery k+1 has been acquired — an ammo is still in use while the next one is built and handed out.
	Hold bool
	// round 4: the provider is configured with MW middlewares (NewProvider route: the harness' probe middleware, which
	// fails when UpdateRequest is called before InitMiddleware; registry route: the stock `header/date` middleware with
	// headerName X-Mw-Date).  Every delivered request must carry exactly MW values of X-Mw-Date (checked here, reported
	// through ReqBad; the header is taken out before the header text is made, so the model does not see it).
	MW   int
	Pre  bool    // the context is already cancelled when Run is called
	FH   []HdrAt // headers declared by the source, in order
	CH   []Hdr   // the `headers:` option, in order
	Tick time.Duration
	// round 3
	CloseFail bool        // closing the ammo file fails (file sources only)
	Pad       int         // every entry's URI carries a query of this many bytes (invisible to the provider's logic: file size only)
	Both      bool        // BOTH a file and inline `uris:` are configured (NewProvider must reject that)
	Big       map[int]int // entry i is Big[i] bytes big: uripost / http/json: its body; raw: its whole request
	// round 6
	EmptyCases bool // chosencases is GIVEN but empty (`chosencases: []` / ChosenCases: []string{}): no filter, like an absent key (Chosen must be empty)
	ReadCancel int  // K > 0: the context is cancelled INSIDE the K-th Read of the ammo file after Run has started (the decoder is in the middle of Scan)
}

type Hdr struct{ Key, Val string }

type HdrAt struct {
	Pos      int
	Key, Val string
}

type Obs struct {
	Construct string // "" or constructor error
	Seq       []int  // entry identities in acquisition order, up to Cap
	SeqTags   []string
	SeqHdr    []string // per acquired ammo: Host and headers of the request it carries, canonical (see HeaderString)
	ReqBad    string   // first acquired ammo whose method / body is not the one of its entry ("" = none)
	Cut       bool     // cap reached, context cancelled by the harness
	Run       string   // nil|canceled|limit|passes|noammo|other:<..>|noreturn
	End       string   // closed (the consumer saw ok=false) | blocked | spinning
	Panic     string   // the consumer goroutine panicked (in Acquire / Release)
	Closed    int      // number of Close calls on the ammo file when the run was over (-1: no file — inline uris, constructor failed)
}

// ---------------------------------------------------------------- the filesystem of the plugins

type cellIO struct {
	ops       atomic.Int64
	killed    atomic.Bool
	closes    atomic.Int64
	closeFail bool
	// round 6: cancel the run's context inside the readCancel-th Read after Run has started (armed)
	armed      atomic.Bool
	reads      atomic.Int64
	readCancel int64
	cancel     atomic.Value // func()
}

var errKilled = errors.New("verif: ammo file killed by watchdog")

// errCloseFault is what Close of the ammo file returns in a cell with CloseFail.
var errCloseFault = errors.New("verif: closing the ammo file failed")

type countFs struct {
	afero.Fs
	cells sync.Map // path -> *cellIO
}

func (c *countFs) wrap(name string, f afero.File) afero.File {
	if v, ok := c.cells.Load(name); ok {
		return &countFile{File: f, io: v.(*cellIO)}
	}
	return f
}

func (c *countFs) Open(name string) (afero.File, error) {
	f, err := c.Fs.Open(name)
	if err != nil {
		return nil, err
	}
	return c.wrap(name, f), nil
}

func (c *countFs) OpenFile(name string, flag int, perm os.FileMode) (afero.File, error) {
	f, err := c.Fs.OpenFile(name, flag, perm)
	if err != nil {
		return nil, err
	}
	return c.wrap(name, f), nil
}

type countFile struct {
	afero.File
	io *cellIO
}

func (f *countFile) Read(p []byte) (int, error) {
	f.io.ops.Add(1)
	if f.io.killed.Load() {
		return 0, errKilled
	}
	if f.io.readCancel > 0 && f.io.armed.Load() && f.io.reads.Add(1) == f.io.readCancel {
		if fn, ok := f.io.cancel.Load().(func()); ok {
			fn()
		}
	}
	return f.File.Read(p)
}

func (f *countFile) Seek(off int64, whence int) (int64, error) {
	f.io.ops.Add(1)
	if f.io.killed.Load() {
		return 0, errKilled
	}
	return f.File.Seek(off, whence)
}

// Close: counted; fails in a cell with CloseFail (the file is closed all the same).
func (f *countFile) Close() error {
	f.io.closes.Add(1)
	err := f.File.Close()
	if f.io.closeFail {
		return errCloseFault
	}
	return err
}

var (
	mem        = afero.NewMemMapFs()
	FS         = &countFs{Fs: mem}
	importOnce sync.Once
	fileSeq    atomic.Int64
)

// ---------------------------------------------------------------- ammo files

func entryPath(i int) string { return "/e" + strconv.Itoa(i) }

const fill = "0123456789abcdefghijklmnopqrstuvwxyz"

func filler(n int) string {
	if n <= 0 {
		return ""
	}
	return strings.Repeat(fill, n/len(fill)+1)[:n]
}

// entryURI: the URI of entry i as the source spells it: its path, plus (Pad) a query of Pad bytes.  The identity of a
// delivered ammo is read off the PATH of its request, so the query is invisible to the observation.
func entryURI(c Cell, i int) string {
	if c.Pad > 0 {
		return entryPath(i) + "?p=" + filler(c.Pad)
	}
	return entryPath(i)
}

// bigBody: the body of the big entry: `big-<i>:` and filler, exactly size bytes
func bigBody(i, size int) string {
	p := fmt.Sprintf("big-%d:", i)
	if size <= len(p) {
		return p[:size]
	}
	return p + filler(size-len(p))
}

func identOfPath(p string) int {
	if strings.HasPrefix(p, "/e") {
		if i, err := strconv.Atoi(p[2:]); err == nil {
			return i
		}
	}
	return -1
}

func withTag(s, tag string) string {
	if tag == "" {
		return s
	}
	return s + " " + tag
}

type jsonEntry struct {
	Host    string            `json:"host"`
	Method  string            `json:"method"`
	URI     string            `json:"uri"`
	Tag     *string           `json:"tag,omitempty"`
	Headers map[string]string `json:"headers,omitempty"`
	Body    string            `json:"body,omitempty"`
}

func jsonOf(c Cell, i int, tag string) jsonEntry {
	e := jsonEntry{Host: JSONHost, Method: "GET", URI: entryURI(c, i)}
	if tag != "" || i%2 == 1 { // an untagged entry: `"tag":""` or no tag member at all
		t := tag
		e.Tag = &t
	}
	for _, h := range c.FH {
		if h.Pos == i {
			if e.Headers == nil {
				e.Headers = map[string]string{}
			}
			e.Headers[h.Key] = h.Val
		}
	}
	e.Body = BodyOf(c, i)
	return e
}

// JSONHost is the host of every http/json and raw entry.
const JSONHost = "h.example"

// BodyOf is the request body of entry i ("" = none), MethodOf its method.
func BodyOf(c Cell, i int) string {
	if size := c.Big[i]; size > 0 && c.Kind != KRaw && c.Kind != KURI {
		return bigBody(i, size)
	}
	switch c.Kind {
	case KURIPost:
		if i%2 == 0 {
			return fmt.Sprintf("body-%d", i)
		}
	case KJSONLine, KJSONArr:
		if i%4 == 2 {
			return fmt.Sprintf("jb-%d", i)
		}
	}
	return ""
}

func MethodOf(kind string) string {
	if kind == KURIPost {
		return "POST"
	}
	return "GET"
}

func hdrLine(c Cell, h HdrAt) string {
	if c.Layout == 3 {
		return fmt.Sprintf("[ %s :  %s ]", h.Key, h.Val)
	}
	return fmt.Sprintf("[%s: %s]", h.Key, h.Val)
}

// hdrLinesAt: the header lines declared before entry pos (uri / uripost)
func hdrLinesAt(c Cell, pos int) []string {
	var ls []string
	for _, h := range c.FH {
		if h.Pos == pos {
			ls = append(ls, hdrLine(c, h))
		}
	}
	return ls
}

// URILines are the lines of a uri ammo source (file lines, or the elements of `uris:`).
func URILines(c Cell) []string {
	var ls []string
	switch c.Layout {
	case 1, 3:
		ls = append(ls, "")
	}
	for i, t := range c.Tags {
		ls = append(ls, hdrLinesAt(c, i)...)
		l := withTag(entryURI(c, i), t)
		switch c.Layout {
		case 1:
			ls = append(ls, l)
			if i == 0 {
				ls = append(ls, "", "")
			}
		case 3:
			ls = append(ls, "  "+l)
		default:
			ls = append(ls, l)
		}
	}
	ls = append(ls, hdrLinesAt(c, len(c.Tags))...)
	return ls
}

// FileFor renders the ammo file of a cell (suffix of the name, content).
func FileFor(c Cell) (string, string) {
	var b strings.Builder
	switch c.Kind {
	case KURI:
		ls := URILines(c)
		if c.Layout == 2 {
			return ".uri", strings.Join(ls, "\r\n")
		}
		for _, l := range ls {
			b.WriteString(l + "\n")
		}
		return ".uri", b.String()
	case KURIPost:
		if c.Layout == 1 || c.Layout == 3 {
			b.WriteString("\n")
		}
		for i, t := range c.Tags {
			for _, l := range hdrLinesAt(c, i) {
				b.WriteString(l + "\n")
			}
			body := BodyOf(c, i)
			fmt.Fprintf(&b, "%s\n%s", withTag(fmt.Sprintf("%d %s", len(body), entryURI(c, i)), t), body)
			if body != "" || c.Layout == 1 || c.Layout == 3 {
				b.WriteString("\n")
			}
		}
		for _, l := range hdrLinesAt(c, len(c.Tags)) {
			b.WriteString(l + "\n")
		}
		s := b.String()
		if c.Layout == 2 {
			s = strings.TrimSuffix(s, "\n")
		}
		return ".uripost", s
	case KRaw:
		if c.Layout == 2 {
			b.WriteString("\n")
		}
		for i, t := range c.Tags {
			mk := func(uri string) string {
				req := fmt.Sprintf("GET %s HTTP/1.1\r\nHost: %s\r\n", uri, JSONHost)
				for _, h := range c.FH {
					if h.Pos == i {
						req += h.Key + ": " + h.Val + "\r\n"
					}
				}
				return req + "\r\n"
			}
			req := mk(entryURI(c, i))
			if size := c.Big[i]; size > 0 {
				// the whole request is exactly `size` bytes (the size the decoder reads with readSized); the filler
				// starts with the entry's number, so that two big requests differ from their first bytes on
				if short := mk(entryPath(i) + "?p=" + strconv.Itoa(i) + "-"); len(short) <= size {
					req = mk(entryPath(i) + "?p=" + strconv.Itoa(i) + "-" + filler(size-len(short)))
				}
			}
			eol := "\n"
			if c.Layout == 2 {
				eol = "\r\n"
			}
			b.WriteString(withTag(strconv.Itoa(len(req)), t) + eol + req)
			switch c.Layout {
			case 1:
				b.WriteString("\n")
			case 2:
				b.WriteString("\n\n")
			}
		}
		return ".raw", b.String()
	case KJSONLine:
		for i, t := range c.Tags {
			e := jsonOf(c, i, t)
			switch c.Layout {
			case 2:
				j, _ := json.MarshalIndent(e, "", "  ")
				b.Write(j)
				b.WriteString("\n")
			case 3:
				j, _ := json.Marshal(e)
				b.Write(j)
				b.WriteString(" ")
			default:
				j, _ := json.Marshal(e)
				b.Write(j)
				b.WriteString("\n")
				if c.Layout == 1 && i == 0 {
					b.WriteString("\n")
				}
			}
		}
		return ".jsonl", b.String()
	case KJSONArr:
		es := make([]jsonEntry, len(c.Tags))
		for i, t := range c.Tags {
			es[i] = jsonOf(c, i, t)
		}
		switch c.Layout {
		case 2:
			j, _ := json.MarshalIndent(es, "", "\t")
			return ".json", "\n  " + string(j) + "\n"
		case 1:
			b.WriteString("[")
			for i, e := range es {
				if i > 0 {
					b.WriteString(",")
				}
				j, _ := json.Marshal(e)
				b.WriteString("\n  ")
				b.Write(j)
			}
			b.WriteString("]\n")
			return ".json", b.String()
		}
		j, _ := json.Marshal(es)
		return ".json", string(j)
	}
	return "", ""
}

// ---------------------------------------------------------------- construction

func decoderOf(kind string) httpconf.DecoderType {
	switch kind {
	case KURI:
		return httpconf.DecoderURI
	case KURIPost:
		return httpconf.DecoderURIPost
	case KRaw:
		return httpconf.DecoderRaw
	}
	return httpconf.DecoderJSONLine
}

func pluginType(kind string) string {
	switch kind {
	case KURI, KURIPost, KRaw:
		return kind
	}
	return "http/json"
}

// cfgHeaderLines: the `headers:` option, `[Key: val]` per element
func cfgHeaderLines(c Cell) []string {
	var ls []string
	for _, h := range c.CH {
		ls = append(ls, fmt.Sprintf("[%s: %s]", h.Key, h.Val))
	}
	return ls
}

// MwHeader is the header the middlewares of a cell with MW > 0 add a value to.
const MwHeader = "X-Mw-Date"

// probeMW: a middleware of the harness.  Like the stock ones it adds a value to a header of the request; unlike
// header/date it insists on having been initialised by Provider.Run before the first request.
type probeMW struct{ inits atomic.Int64 }

func (m *probeMW) InitMiddleware(ctx context.Context, log *zap.Logger) error {
	m.inits.Add(1)
	return nil
}

func (m *probeMW) UpdateRequest(req *http.Request) error {
	if m.inits.Load() != 1 {
		return fmt.Errorf("verif: middleware initialised %d times when the first request came", m.inits.Load())
	}
	req.Header.Add(MwHeader, "probe")
	return nil
}

type ammoHolder struct {
	Ammo core.Provider `config:"ammo"`
}

func construct(c Cell, path string) (p core.Provider, err error) {
	defer func() {
		if r := recover(); r != nil {
			err = fmt.Errorf("constructor panic: %v", r)
		}
	}()
	if !c.YAML {
		conf := httpconf.Config{
			Decoder:     decoderOf(c.Kind),
			Limit:       uint(c.Limit),
			Passes:      uint(c.Passes),
			Preload:     c.Preload,
			ChosenCases: c.Chosen,
			Headers:     cfgHeaderLines(c),
		}
		if c.EmptyCases && len(c.Chosen) == 0 {
			conf.ChosenCases = []string{}
		}
		if c.Uris || c.Both {
			conf.Uris = URILines(c)
		}
		if !c.Uris {
			conf.File = path
		}
		for i := 0; i < c.MW; i++ {
			conf.Middlewares = append(conf.Middlewares, &probeMW{})
		}
		return httpprov.NewProvider(FS, conf)
	}
	// the way a pandora config file reaches the provider: map -> core/config.Decode -> registered plugin factory
	importOnce.Do(func() {
		coreimport.Import(FS) // also adds the plugin decoding hooks of core/config
		httpprov.Import(FS)
	})
	m := map[string]any{"type": pluginType(c.Kind)}
	if c.Generic {
		m = map[string]any{"type": "http", "decoder": string(decoderOf(c.Kind))}
	}
	if c.Uris || c.Both {
		us := []any{}
		for _, l := range URILines(c) {
			us = append(us, l)
		}
		m["uris"] = us
	}
	if !c.Uris {
		m["file"] = path
	}
	if c.Limit != 0 {
		m["limit"] = c.Limit
	}
	if c.Passes != 0 {
		m["passes"] = c.Passes
	}
	if c.Preload {
		m["preload"] = true
	}
	if len(c.CH) > 0 {
		hs := []any{}
		for _, l := range cfgHeaderLines(c) {
			hs = append(hs, l)
		}
		m["headers"] = hs
	}
	if c.MW > 0 {
		ms := []any{}
		for i := 0; i < c.MW; i++ {
			ms = append(ms, map[string]any{"type": "header/date", "headerName": MwHeader})
		}
		m["middlewares"] = ms
	}
	if c.Chosen != nil {
		cs := []any{}
		for _, s := range c.Chosen {
			cs = append(cs, s)
		}
		m["chosencases"] = cs
	} else if c.EmptyCases {
		m["chosencases"] = []any{}
	}
	var h ammoHolder
	if err := config.Decode(map[string]any{"ammo": m}, &h); err != nil {
		return nil, err
	}
	if h.Ammo == nil {
		return nil, errors.New("no provider decoded")
	}
	return h.Ammo, nil
}

type httpGunAmmo interface {
	Request() (*http.Request, *netsample.Sample)
}

// HeaderString: `<Host>^K=v1+v2&K2=v` — the Host the request is sent with and its headers, keys sorted.
func HeaderString(req *http.Request) string {
	keys := make([]string, 0, len(req.Header))
	for k := range req.Header {
		keys = append(keys, k)
	}
	sort.Strings(keys)
	clean := func(s string) string {
		return strings.Map(func(r rune) rune {
			switch r {
			case ' ', '\t', '\n', '\r', '|', '/', '&', '+', '^', '=', ':':
				return '_'
			}
			return r
		}, s)
	}
	var b strings.Builder
	b.WriteString(clean(req.Host))
	b.WriteString("^")
	for i, k := range keys {
		if i > 0 {
			b.WriteString("&")
		}
		b.WriteString(clean(k))
		b.WriteString("=")
		for j, v := range req.Header[k] {
			if j > 0 {
				b.WriteString("+")
			}
			b.WriteString(clean(v))
		}
	}
	return b.String()
}

type identity struct {
	id       int
	tag, hdr string
	bad      string // method / body not the one of the entry
}

func identify(c Cell, a core.Ammo) identity {
	kind := c.Kind
	v, ok := a.(httpGunAmmo)
	if !ok {
		return identity{id: -2, tag: fmt.Sprintf("%T", a)}
	}
	req, sample := v.Request()
	tag := sample.Tags()
	if req == nil || req.URL == nil {
		return identity{id: -1, tag: tag}
	}
	nmw := len(req.Header[MwHeader])
	if c.MW > 0 {
		req.Header.Del(MwHeader) // invisible to the model; counted below
	}
	r := identity{id: identOfPath(req.URL.Path), tag: tag, hdr: HeaderString(req)}
	body := ""
	if req.Body != nil {
		b, _ := io.ReadAll(req.Body)
		body = string(b)
	}
	if req.Method != MethodOf(kind) {
		r.bad = fmt.Sprintf("e%d:method_%s", r.id, req.Method)
	} else if nmw != c.MW {
		r.bad = fmt.Sprintf("e%d:middlewares_%d_of_%d", r.id, nmw, c.MW)
	} else if r.id >= 0 && body != BodyOf(c, r.id) {
		show := body
		if len(show) > 24 {
			show = fmt.Sprintf("%s…(%d_bytes)", show[:24], len(body))
		}
		r.bad = fmt.Sprintf("e%d:body_%q", r.id, show)
	}
	gunTouch(req)
	return r
}

// gunTouch does to a delivered request what its users do (components/guns/http base.go: scheme, target host, Host when
// empty; a middleware / the http client: Set and Add on the header map; the body has been read by identify).  Every
// Acquire must hand out a request of its own: if any of this showed up in a LATER delivery of the same entry (a preloaded
// ammo is delivered once per pass) the Host / header text of that delivery would differ from the entry's.
func gunTouch(req *http.Request) {
	req.URL.Scheme = "https"
	req.URL.Host = "target.example:443"
	if req.Host == "" {
		req.Host = "target.example"
	}
	req.Header.Set("User-Agent", "verif-gun")
	req.Header.Add("X-Gun", "1")
	for k := range req.Header {
		if k != "X-Gun" && k != "User-Agent" {
			req.Header.Add(k, "gun") // append to the values the ammo declared
			break
		}
	}
}

// classifyErr: what errors.Is finds in the error.  Round 3: the error of closing the ammo file (a cell with CloseFail)
// is `closeerr`; found together with one of the provider's own classes: `<class>+closeerr`.
func classifyErr(err error) string {
	if err != nil && errors.Is(err, errCloseFault) {
		switch own := classifyOwn(err); {
		case strings.HasPrefix(own, "other"):
			return "closeerr"
		default:
			return own + "+closeerr"
		}
	}
	return classifyOwn(err)
}

// classifyRun (round 6): how the run ENDS is what core/engine makes of the error: a cancellation that errors.Is finds
// but errutil.IsCtxError (pkg/errors.Cause) does not recognise as the context's own error is reported by the engine
// as a failed provider, not as a stopped run: token `canceledw`.
func classifyRun(ctx context.Context, err error) string {
	s := classifyErr(err)
	if strings.HasPrefix(s, "canceled") && !errutil.IsCtxError(ctx, err) {
		return "canceledw" + strings.TrimPrefix(s, "canceled")
	}
	return s
}

func classifyOwn(err error) string {
	switch {
	case err == nil:
		return "nil"
	case errors.Is(err, context.Canceled):
		return "canceled"
	case errors.Is(err, decoders.ErrAmmoLimit):
		return "limit"
	case errors.Is(err, decoders.ErrPassLimit):
		return "passes"
	case errors.Is(err, decoders.ErrNoAmmo):
		return "noammo"
	case errors.Is(err, errKilled):
		return "killed"
	case strings.Contains(err.Error(), "Multiple errors faced"):
		// Run's own error and the error of Close made into one error in which errors.Is finds neither
		return "other"
	}
	s := strings.Map(func(r rune) rune {
		if r == ' ' || r == '\t' || r == '\n' || r == '=' {
			return '_'
		}
		return r
	}, err.Error())
	if len(s) > 60 {
		s = s[:60]
	}
	return "other:" + s
}

// ---------------------------------------------------------------- one cell

// Run executes the cell; a cell that looks stuck is executed a second time and reported as stuck only if both
// executions were (the second observation is returned).
func Run(c Cell) Obs {
	o := runOnce(c)
	if o.Construct == "" && (o.End != "closed" || o.Run == "noreturn") {
		o = runOnce(c)
	}
	return o
}

func runOnce(c Cell) Obs {
	var obs Obs
	obs.Closed = -1
	cio := &cellIO{closeFail: c.CloseFail, readCancel: int64(c.ReadCancel)}
	suffix, content := FileFor(c)
	path := ""
	if !c.Uris {
		path = fmt.Sprintf("/c14/f%d%s", fileSeq.Add(1), suffix)
		if err := afero.WriteFile(mem, path, []byte(content), 0o644); err != nil {
			obs.Construct = "harness:" + err.Error()
			return obs
		}
		FS.cells.Store(path, cio)
		defer func() {
			FS.cells.Delete(path)
			_ = mem.Remove(path)
		}()
	}
	p, err := construct(c, path)
	if err != nil {
		obs.Construct = classifyErr(err)
		return obs
	}
	tick := c.Tick
	if tick == 0 {
		tick = 250 * time.Millisecond
	}
	ctx, cancel := context.WithCancel(context.Background())
	defer cancel()
	if c.Pre {
		cancel()
	}
	cio.cancel.Store(func() { cancel() })
	cio.armed.Store(true)

	var events atomic.Int64 // deliveries + consumer exit + run return
	var mu sync.Mutex

	runDone := make(chan error, 1)
	go func() {
		var err error
		defer func() {
			if r := recover(); r != nil {
				err = fmt.Errorf("panic in Provider.Run: %v", r)
			}
			events.Add(1)
			runDone <- err
		}()
		err = p.Run(ctx, core.ProviderDeps{Log: zap.NewNop(), PoolID: "c14"})
	}()

	var ended atomic.Bool
	consDone := make(chan struct{}, 1)
	const drainMax = 50000
	go func() {
		defer func() {
			if r := recover(); r != nil { // a consumer that dies in Acquire: the cell is reported as not closed
				mu.Lock()
				obs.Panic = fmt.Sprint(r)
				mu.Unlock()
				cancel()
			}
			consDone <- struct{}{}
		}()
		k, drained := 0, 0
		type heldAmmo struct {
			a   core.Ammo
			rec bool
		}
		// process: look at a delivery (and do to its request what a gun does), then release it
		process := func(h heldAmmo) {
			if h.rec {
				it := identify(c, h.a)
				mu.Lock()
				obs.Seq = append(obs.Seq, it.id)
				obs.SeqTags = append(obs.SeqTags, it.tag)
				obs.SeqHdr = append(obs.SeqHdr, it.hdr)
				if it.bad != "" && obs.ReqBad == "" {
					obs.ReqBad = it.bad
				}
				mu.Unlock()
			}
			p.Release(h.a)
		}
		var held *heldAmmo
		for {
			a, ok := p.Acquire()
			if !ok {
				if held != nil {
					process(*held)
					held = nil
				}
				ended.Store(true)
				events.Add(1)
				return
			}
			k++
			rec := c.Cap == 0 || k <= c.Cap
			if !rec {
				drained++
				if drained > drainMax {
					return // never ends: reported as not closed
				}
			}
			if c.Hold {
				prev := held
				held = &heldAmmo{a: a, rec: rec}
				if prev != nil {
					process(*prev)
				}
			} else {
				process(heldAmmo{a: a, rec: rec})
			}
			if rec {
				events.Add(1)
				if c.Cap != 0 && k == c.Cap {
					mu.Lock()
					obs.Cut = true
					mu.Unlock()
					cancel()
				}
			}
		}
	}()

	var runErr error
	runReturned, consReturned := false, false
	lastEvents, lastOps := events.Load(), cio.ops.Load()
	still := 0
	spinning := false
	t := time.NewTicker(tick)
	defer t.Stop()
	stuck := false
	for !(runReturned && consReturned) && !stuck {
		select {
		case runErr = <-runDone:
			runReturned = true
		case <-consDone:
			consReturned = true
		case <-t.C:
			ev, ops := events.Load(), cio.ops.Load()
			if ev == lastEvents {
				still++
				spinning = ops != lastOps
			} else {
				still = 0
			}
			lastEvents, lastOps = ev, ops
			if still >= 2 {
				stuck = true
			}
		}
	}
	if runReturned {
		obs.Run = classifyRun(ctx, runErr)
	} else {
		obs.Run = "noreturn"
	}
	mu.Lock()
	panicked := obs.Panic != ""
	mu.Unlock()
	if panicked {
		obs.Run = "other:consumer_panic"
	}
	if ended.Load() {
		obs.End = "closed"
	} else if spinning {
		obs.End = "spinning"
	} else {
		obs.End = "blocked"
	}
	if stuck {
		cancel()
		if !runReturned {
			select {
			case <-runDone:
				runReturned = true
			case <-time.After(tick):
			}
		}
		cio.killed.Store(true)
		if !runReturned {
			select {
			case <-runDone:
			case <-time.After(4 * tick):
			}
		}
	}
	mu.Lock()
	defer mu.Unlock()
	if !c.Uris {
		obs.Closed = int(cio.closes.Load())
	}
	obs.Seq = append([]int(nil), obs.Seq...)
	obs.SeqTags = append([]string(nil), obs.SeqTags...)
	obs.SeqHdr = append([]string(nil), obs.SeqHdr...)
	return obs
}

// Prelude runs, in this process, a small provider of the same format and mode with ANOTHER configuration (other tags,
// other chosencases, other `headers` option, two passes, so that the decoder wraps) to its end and forgets it.  The
// driver does this before every cell side: a provider must not depend on what an earlier provider of the same process
// left behind (package-level caches, pools, once-initialised tables); pandora runs several pools in one process.
func Prelude(kind string, preload bool) {
	defer func() { _ = recover() }()
	_ = runOnce(Cell{Kind: kind, Preload: preload, Passes: 2, Tags: []string{"a", "zz", "b", ""}, Chosen: []string{"zz", "b"},
		CH: []Hdr{{Key: "X-Prelude", Val: "p"}}, FH: []HdrAt{{Pos: 1, Key: "X-A", Val: "prelude"}}})
}
