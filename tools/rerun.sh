#!/bin/bash
# rerun.sh <root> <ID> <n> ... triples: re-evaluate confirmed seeds against the current check, keeping the confirmed suite verdict
while [ $# -ge 3 ]; do root=$1; id=$2; n=$3; shift 3
  d=$root/$id/out/$n; cp $d/verdict.json $d/verdict.prev.json 2>/dev/null
  /verif/tools/seedauto.sh $root $id $n skip
  python3 - <<PY
import json
p='$d/verdict.json'
try:
    v=json.load(open(p)); old=json.load(open('$d/verdict.prev.json'))
    if str(old.get('suite_with_rc'))=='0': v['suite_with_rc']='0'
    json.dump(v,open(p,'w'))
except Exception as e: print("keep-suite failed", e)
PY
done
