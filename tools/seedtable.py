#!/usr/bin/env python3
"""Rewrite the table of DESIGN.md section 11.2 from seeded/*/meta.json (between the SEEDTABLE markers)."""
import json, os, glob, re
ROOT = os.path.dirname(os.path.dirname(os.path.abspath(__file__)))
rows = []
for m in sorted(glob.glob(os.path.join(ROOT, "seeded", "*", "meta.json"))):
    d = json.load(open(m))
    sid = d.get("seed_id", os.path.basename(os.path.dirname(m)))
    files = ", ".join(os.path.basename(f) for f in d.get("files", [])[:3])
    summ = " ".join(str(d.get("summary", "")).split())[:230].replace("|", "/")
    needs = " ".join(str(d.get("needs_to_manifest", "")).split())[:200].replace("|", "/")
    hist = d.get("check_history", [])
    first = hist[0]["caught_by"] if hist else d.get("caught_by")
    last = hist[-1] if hist else {"caught_by": d.get("caught_by"), "violation_line": ""}
    key = ""
    mm = re.search(r"replays/C\d+-([A-Za-z0-9_.-]+?)-[0-9a-f]{10}\.json( no-failing-input-found)?", last.get("violation_line", ""))
    if mm:
        key = mm.group(1) + (" (no-failing-input-found)" if mm.group(2) else "")
    verdict = last["caught_by"] + (": " + key if key else "")
    if first != last["caught_by"]:
        verdict += " (first run: %s; check strengthened)" % first
    rows.append("| %s | %s | %s | %s | %s |" % (sid, files, summ, needs, verdict))
table = "| seed | files | change | needs to manifest | caught by (tier: failure key) |\n|---|---|---|---|---|\n" + "\n".join(rows) + "\n"
p = os.path.join(ROOT, "DESIGN.md")
s = open(p).read()
if "<!-- SEEDTABLE -->" not in s:
    s = s.replace("`meta.json` recording the check's verdict.\n", "`meta.json` recording the check's verdict.\n\n<!-- SEEDTABLE -->\n<!-- /SEEDTABLE -->\n")
s = re.sub(r"<!-- SEEDTABLE -->.*?<!-- /SEEDTABLE -->", "<!-- SEEDTABLE -->\n" + table + "<!-- /SEEDTABLE -->", s, flags=re.S)
open(p, "w").write(s)
print(len(rows), "rows")
