#!/usr/bin/env python3
"""Merge the CLAIM-TEXT / CLAIM-NOTE / CLAIM-TECHNIQUE blocks at the top of notes/Cxx.md into tools/claims.json.
usage: tools/mergeclaims.py C07 C14 ...   (only the named properties are (re)claimed)"""
import json, os, re, sys
ROOT = os.path.dirname(os.path.dirname(os.path.abspath(__file__)))
p = os.path.join(ROOT, "tools", "claims.json")
claims = json.load(open(p))
for pid in sys.argv[1:]:
    src = open(os.path.join(ROOT, "notes", pid + ".md")).read()
    def grab(key):
        m = re.search(r"^\s*" + key + r":\s*(.*?)(?=^\s*CLAIM-[A-Z]+:|^\s*$|^#)", src, flags=re.S | re.M)
        if not m:
            raise SystemExit("%s: no %s block" % (pid, key))
        return " ".join(m.group(1).split())
    claims[pid] = {"text": grab("CLAIM-TEXT"), "note": grab("CLAIM-NOTE"), "technique": grab("CLAIM-TECHNIQUE")}
    print(pid, "text %d chars, note %d chars, technique: %s" % (len(claims[pid]["text"]), len(claims[pid]["note"]), claims[pid]["technique"][:80]))
json.dump(claims, open(p, "w"), indent=1)
