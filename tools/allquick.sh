#!/bin/bash
# tools/allquick.sh [tier] [jobs] [ids...] : run the registered checks on /repo as it is, N at a time; one summary line per property.
# Must be run after EVERY commit to /repo (a repair for one property can break another property's regenerated bridge).
export GOFLAGS=-mod=mod GOPROXY=off GOSUMDB=off GOTOOLCHAIN=local
tier=${1:-quick}; jobs=${2:-4}; shift 2 2>/dev/null
ids=${@:-C01 C02 C03 C04 C05 C06 C07 C08 C09 C10 C11 C12 C13 C14 C15 C16 C17 C18 C19 C20}
out=/verif/.build/allquick; rm -rf $out; mkdir -p $out
cd /verif
printf '%s\n' $ids | xargs -P $jobs -I{} sh -c "./check {} --tier $tier > $out/{}.out 2> $out/{}.err; echo \"{} rc=\$? \$(grep -c VIOLATION $out/{}.out) violation-lines \$(grep -c KNOWN-FINDING $out/{}.out) known\" >> $out/summary.txt"
sort $out/summary.txt
grep -h VIOLATION $out/*.out | cut -c1-200
