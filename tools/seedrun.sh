#!/bin/bash
# run.sh <ID>... : evaluate all three seeds of each property
for id in "$@"; do for n in 1 2 3; do [ -f /var/tmp/seed4/$id/out/$n/patch.diff ] && /verif/tools/seedauto.sh /var/tmp/seed4 $id $n; done; done
