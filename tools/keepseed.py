#!/usr/bin/env python3
"""Keep confirmed seeded changes: copy /var/tmp/seed/<P>/out/<n> into /verif/seeded/<P>-<n>/ (patch.diff, demonstration,
meta.json extended with what the coordinator ran and our check's verdict). Only candidates whose verdict.json shows:
demo passes without / fails with the change, build ok, existing suite passes with the change."""
import json, os, shutil, subprocess, sys, glob
ROOT = os.path.dirname(os.path.dirname(os.path.abspath(__file__)))
kept, rejected = [], []
for v in sorted(glob.glob("/var/tmp/seed*/C*/out/*/verdict.json")):
    d = os.path.dirname(v)
    pid = d.split("/")[4]; n = d.split("/")[6]
    rnd = d.split("/")[3].replace("seed", "")          # "" for the first round, "2" for /var/tmp/seed2 ...
    sid = "%s-%s" % (pid, n) if not rnd else "%s-r%s-%s" % (pid, rnd, n)
    try:
        ver = json.load(open(v))
    except Exception as e:
        rejected.append((pid, n, "verdict unreadable")); continue
    ok = ver["demo_without_rc"] == 0 and ver["build_rc"] == 0 and ver["demo_with_rc"] != 0 and str(ver["suite_with_rc"]) == "0"
    if not ok:
        rejected.append((pid, n, "not confirmed: %s" % ver)); continue
    dst = os.path.join(ROOT, "seeded", sid)
    os.makedirs(dst, exist_ok=True)
    for f in os.listdir(d):
        if f.endswith("_test.go") or f == "patch.diff" or f.endswith("main.go"):
            shutil.copy(os.path.join(d, f), os.path.join(dst, f + (".txt" if f.endswith(".go") else "")))
    meta = json.load(open(os.path.join(d, "meta.json"))) if os.path.exists(os.path.join(d, "meta.json")) else {}
    caught = "quick" if ver["check_quick_rc"] == 1 and ver["violation_line"] else ("thorough" if str(ver["check_thorough_rc"]) == "1" else "MISSED")
    old = {}
    if os.path.exists(os.path.join(dst, "meta.json")):
        old = json.load(open(os.path.join(dst, "meta.json")))
    hist = old.get("check_history", [])
    entry = {"caught_by": caught, "violation_line": ver["violation_line"], "verif_commit": subprocess.run(["git", "-C", ROOT, "rev-parse", "--short", "HEAD"], capture_output=True, text=True).stdout.strip()}
    if not hist or hist[-1] != entry:
        hist.append(entry)
    meta.update({"property": pid, "seed_id": sid,
                 "origin": "independent sub-agent given only the property text and a scratch worktree (nothing from /verif)",
                 "confirmed_by_coordinator": {"how": "tools/seedtest.sh in a scratch worktree of /repo HEAD: demonstration passes without the change, fails with it; go build ./... ok; existing suite (go test -vet=off -count=1 ./..., own network namespace) passes with the change; then VERIF_REPO=<scratch> ./check %s quick (thorough if quick exits 0)" % pid,
                                              "verdict": ver},
                 "check_history": hist, "caught_by": caught})
    json.dump(meta, open(os.path.join(dst, "meta.json"), "w"), indent=1)
    if os.path.exists(os.path.join(d, "replay.json")):
        shutil.copy(os.path.join(d, "replay.json"), os.path.join(dst, "replay_reported_by_check.json"))
    kept.append((sid, caught))
for k in kept: print("kept", *k)
for r in rejected: print("REJECTED", *r)
