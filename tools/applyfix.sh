#!/bin/bash
# tools/applyfix.sh <fixes/Cxx-slug.diff> "<fix: message>" : try a proposed repair in a scratch worktree (build + the whole
# existing suite, unedited, in its own network namespace), and only then apply and commit it in /repo.
set -u
export GOFLAGS=-mod=mod GOPROXY=off GOSUMDB=off GOTOOLCHAIN=local
diff=$(readlink -f "$1"); msg=$2
case "$msg" in fix:*) ;; *) echo "message must start with fix:"; exit 2;; esac
wt=/var/tmp/wt-applyfix-$$
git -C /repo worktree add --detach "$wt" HEAD -q || exit 2
trap 'git -C /repo worktree remove --force "$wt" >/dev/null 2>&1' EXIT
cd "$wt" && git apply "$diff" || { echo "patch does not apply"; exit 2; }
git diff --stat | cat
if git diff --name-only | grep -q '_test.go$'; then echo "patch edits tests: refused"; exit 2; fi
go build ./... || { echo "build failed"; exit 1; }
log=/var/tmp/applyfix-$$.log
unshare -n sh -c 'ip link set lo up && go test -vet=off -count=1 -timeout 20m ./...' > $log 2>&1; rc=$?
for try in 1 2 3; do
  [ $rc -eq 0 ] && break
  failed=$(grep '^FAIL[[:space:]]' $log | awk '{print $2}' | sort -u | tr '\n' ' ')
  [ -z "$failed" ] && break
  echo "retrying alone: $failed"; sleep $((RANDOM % 10))
  unshare -n sh -c "ip link set lo up && go test -vet=off -count=1 -timeout 20m $failed" > $log 2>&1; rc=$?
done
grep -v '^ok\|no test files' $log | head -20
[ $rc -eq 0 ] || { echo "SUITE FAILED with the patch: not applied"; exit 1; }
cd /repo && git apply "$diff" && git add -A && git commit -q -m "$msg" && git log --oneline | head -1
rm -f $log
