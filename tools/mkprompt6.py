#!/usr/bin/env python3
"""tools/mkprompt5.py <deadline HH:MM> <ID>... : write /var/tmp/r6/<ID>.txt, the round-6 extender prompt with the
seeds of that property that are not yet caught in the quick tier with a concrete failing input."""
import json, glob, os, sys
V = os.path.dirname(os.path.dirname(os.path.abspath(__file__)))
deadline = sys.argv[1]
t = open(os.path.join(V, "tools/prompts/round6.txt")).read()
os.makedirs("/var/tmp/r6", exist_ok=True)
for pid in sys.argv[2:]:
    seeds = []
    for d in sorted(glob.glob(os.path.join(V, "seeded", pid + "-*", "meta.json"))):
        m = json.load(open(d)); sid = os.path.basename(os.path.dirname(d))
        c = m.get("caught_by"); vl = (m.get("check_history") or [{}])[-1].get("violation_line", "")
        if c != "quick" or "no-failing" in vl:
            why = "MISSED" if c == "MISSED" else ("caught only in the thorough tier" if c == "thorough" else "caught only as no-failing-input-found")
            seeds.append("- /verif/seeded/%s  (%s)" % (sid, why))
    p = t.replace("@ID@", pid).replace("@id@", pid.lower()).replace("@SEEDS@", "\n".join(seeds) or "- (none open at the moment; the coordinator may send new ones by message)")
    p = p.replace("until about @HOURS@ hours have passed", "until about %s local time (run `date`)" % deadline)
    open("/var/tmp/r6/%s.txt" % pid, "w").write(p)
    print(pid, len(seeds), "open seeds")
