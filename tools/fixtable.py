#!/usr/bin/env python3
"""Rewrite DESIGN.md section 11.1 (repairs) and 11.3 (open findings) from known_findings.json."""
import json, os, re
ROOT = os.path.dirname(os.path.dirname(os.path.abspath(__file__)))
d = json.load(open(os.path.join(ROOT, "known_findings.json")))["findings"]
fixed = [e for e in d if e.get("status") == "fixed"]
openf = [e for e in d if e.get("status") == "open"]
bycommit = {}
for e in fixed:
    bycommit.setdefault(e["commit"], []).append(e)
rows = []
for c, es in bycommit.items():
    props = ", ".join(sorted({e["property"] for e in es}))
    what = re.sub(r"^fixed: property=C\d+ [0-9a-f]+ ", "", es[0]["what_fails"]).replace("|", "/")
    rows.append("| %s | %s | %s |" % (c, props, " ".join(what.split())[:300]))
t1 = "| commit | property | defect repaired |\n|---|---|---|\n" + "\n".join(rows) + "\n"
rows = []
for e in openf:
    rows.append("| %s | `%s` | %s | `%s` |" % (e["property"], e["key"], " ".join(e["what_fails"].split()).replace("|", "/")[:600], e.get("witness", "")[:200].replace("|", "/")))
t3 = ("| property | failure key | what fails (recorded, not repaired) | witness |\n|---|---|---|---|\n" + "\n".join(rows) + "\n") if rows else "none\n"
p = os.path.join(ROOT, "DESIGN.md"); s = open(p).read()
for tag, t in (("FIXTABLE", t1), ("OPENTABLE", t3)):
    s = re.sub(r"<!-- %s -->.*?<!-- /%s -->" % (tag, tag), "<!-- %s -->\n%s<!-- /%s -->" % (tag, t, tag), s, flags=re.S)
open(p, "w").write(s)
print(len(bycommit), "fix commits,", len(openf), "open findings")
