#!/bin/bash
# tools/seedauto.sh <seedroot> <ID> <n> [skip] : derive the demonstration's package dir / -run pattern / flags from the header of demo_test.go
root=$1; id=$2; n=$3; skip=${4:-}
d=$root/$id/out/$n
line=$(grep -m1 -E "go test .*-run" $d/demo_test.go)
pat=$(echo "$line" | sed -E "s/.*-run[ =]+'?([^' ]+)'?.*/\1/")
dir=$(echo "$line" | grep -oE "\./[A-Za-z0-9_/]+/?" | tail -1 | sed 's#^\./##; s#/$##')
fl=""; pre=""
echo "$line" | grep -q -- "-race" && { fl="$fl -race"; pre="CGO_ENABLED=1 "; }
echo "$line" | grep -q -- "-tags verif" && fl="$fl -tags verif"
[ -z "$pat" -o -z "$dir" ] && { echo "cannot parse demo header: $line"; exit 2; }
echo "##### $id/$n dir=$dir pat=$pat flags=$fl $(date +%T)"
/verif/tools/seedtest.sh $id $d demo_test.go $dir "${pre}go test $fl -vet=off -count=1 -run '$pat' ./$dir/" $skip 2>&1 | tail -7
