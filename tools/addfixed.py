#!/usr/bin/env python3
"""tools/addfixed.py <Cxx> <key> <commit> <what failed> <witness> : record a repaired genuine defect in known_findings.json
(status fixed; suppresses nothing, its witness must be in corpus/Cxx.txt)."""
import json, sys
p='/verif/known_findings.json'; k=json.load(open(p))
pid,key,commit,what,wit=sys.argv[1:6]
k['findings'].append({"property":pid,"key":key,"status":"fixed","commit":commit,
  "what_fails":"fixed: property=%s %s %s"%(pid,commit,what),"witness":wit})
json.dump(k,open(p,'w'),indent=1,ensure_ascii=False); print("recorded",pid,commit)
