#!/usr/bin/env python3
"""tools/seedsetup.py <round-dir> <ID>... : prepare /var/tmp/seedN/<ID>/{wt,property.json,prompt.txt,out} for an
independent seeding agent (it gets the property text, its own worktree and one-line summaries of earlier seeds so that it
does something different; nothing from /verif's machinery)."""
import json, os, subprocess, sys, glob
root = sys.argv[1]; ids = sys.argv[2:]
V = os.path.dirname(os.path.dirname(os.path.abspath(__file__)))
props = {json.loads(l)["id"]: json.loads(l) for l in open(os.path.join(V, "properties.jsonl")) if l.strip()}
tmpl = open(os.path.join(V, "tools/prompts/seed-round6.txt")).read()
for pid in ids:
    d = os.path.join(root, pid); os.makedirs(os.path.join(d, "out"), exist_ok=True)
    json.dump(props[pid], open(os.path.join(d, "property.json"), "w"), indent=1)
    subprocess.run(["git", "-C", "/repo", "worktree", "add", "--detach", os.path.join(d, "wt"), "HEAD", "-q"], check=False)
    earlier = []
    for m in sorted(glob.glob(os.path.join(V, "seeded", pid + "-*", "meta.json"))):
        s = json.load(open(m)).get("summary", "")
        earlier.append("- " + " ".join(s.split())[:260])
    p = tmpl.replace("@ROOT@", root).replace("@ID@", pid).replace("@EARLIER@", "\n".join(earlier) or "- (none)")
    open(os.path.join(d, "prompt.txt"), "w").write(p)
    print(pid, "ready:", d)
