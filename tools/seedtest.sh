#!/bin/bash
# Confirm a seeded change and run our check against it, in a scratch worktree (never in /repo).
#   tools/seedtest.sh <propid> <candidate-dir> <demo-file> <demo-pkg-dir-relative-to-repo-root> '<demo command run at repo root>' [skip-suite]
# candidate-dir holds patch.diff and the demo file. Writes <candidate-dir>/verdict.json.
set -u
export GOFLAGS=-mod=mod GOPROXY=off GOSUMDB=off GOTOOLCHAIN=local
pid=$1; cand=$2; demo=$3; demodir=$4; democmd=$5; skipsuite=${6:-}
wt=/var/tmp/wt-seedtest-$pid-$$
git -C /repo worktree add --detach "$wt" HEAD -q || exit 2
h=$(echo -n "$wt" | sha1sum | cut -c1-40)
trap 'git -C /repo worktree remove --force "$wt" >/dev/null 2>&1; rm -rf /verif/.build/harness-${h:0:8} /verif/.build/lean-${h:0:8} /verif/.build/drive-*${h:0:6} /verif/.build/go${h:0:6}.lock' EXIT
mkdir -p "$wt/$demodir"; cp "$cand/$demo" "$wt/$demodir/"
cd "$wt"
echo "== demo WITHOUT the change (must pass)"; bash -c "$democmd" > "$cand/demo_without.log" 2>&1; rc_without=$?; tail -3 "$cand/demo_without.log"
git apply "$cand/patch.diff" || { echo "patch does not apply"; exit 2; }
git add -- $(git apply --numstat "$cand/patch.diff" | awk '{print $3}')   # files the patch creates must survive the git clean below
echo "== build"; go build ./... ; rc_build=$?
echo "== demo WITH the change (must fail)"; bash -c "$democmd" > "$cand/demo_with.log" 2>&1; rc_with=$?; tail -5 "$cand/demo_with.log"
git clean -fdq   # drop the demonstration files (untracked); the patch itself stays applied
rc_suite=skipped
if [ -z "$skipsuite" ]; then
  echo "== existing test suite with the change (must pass)"
  # own network namespace: tests/acceptance, tests/*_scenario listen on fixed ports that other jobs on this machine use too
  unshare -n sh -c 'ip link set lo up && go test -vet=off -count=1 -timeout 15m ./...' > "$cand/suite_with.log" 2>&1; rc_suite=$?
  # packages that listen on fixed ports (tests/*_scenario, acceptance) collide with other runs on this machine: retry them alone
  for try in 1 2 3; do
    [ $rc_suite -eq 0 ] && break
    failed=$(grep '^FAIL[[:space:]]' "$cand/suite_with.log" | awk '{print $2}' | sort -u | tr '\n' ' ')
    [ -z "$failed" ] && break
    sleep $((RANDOM % 20))
    unshare -n sh -c "ip link set lo up && go test -vet=off -count=1 -timeout 15m $failed" > "$cand/suite_with.log" 2>&1; rc_suite=$?
  done
  grep -v '^ok\|no test files' "$cand/suite_with.log" | head -10
fi
cd /verif
echo "== ./check $pid quick"
VERIF_REPO="$wt" ./check "$pid" --tier quick > "$cand/check_quick.out" 2> "$cand/check_quick.err"; rc_q=$?
grep -E 'VIOLATION|KNOWN' "$cand/check_quick.out" | cut -c1-200; tail -1 "$cand/check_quick.err"
rc_t=not-run
if [ $rc_q -eq 0 ]; then
  echo "== ./check $pid thorough"
  VERIF_REPO="$wt" ./check "$pid" --tier thorough > "$cand/check_thorough.out" 2> "$cand/check_thorough.err"; rc_t=$?
  grep -E 'VIOLATION|KNOWN' "$cand/check_thorough.out" | cut -c1-200; tail -1 "$cand/check_thorough.err"
fi
# keep the replay the check wrote
rp=$(grep -ho 'replay=[^ ]*' "$cand"/check_*.out | head -1 | cut -d= -f2)
[ -n "$rp" ] && [ -f "/verif/$rp" ] && cp "/verif/$rp" "$cand/replay.json"
cat > "$cand/verdict.json" <<EOF
{"property": "$pid", "demo_without_rc": $rc_without, "build_rc": $rc_build, "demo_with_rc": $rc_with, "suite_with_rc": "$rc_suite",
 "check_quick_rc": $rc_q, "check_thorough_rc": "$rc_t", "violation_line": "$(grep -h VIOLATION "$cand"/check_*.out | head -1 | cut -c1-160)"}
EOF
cat "$cand/verdict.json"
