#!/bin/bash
# tools/recheckseed.sh <seed-id>... : re-run ./check (quick, then thorough if quick is silent) against kept seeded changes
# (seeded/<id>/patch.diff applied in a scratch worktree of /repo HEAD) and append the verdict to meta.json check_history.
export GOFLAGS=-mod=mod GOPROXY=off GOSUMDB=off GOTOOLCHAIN=local
for sid in "$@"; do
  d=/verif/seeded/$sid; pid=${sid%%-*}
  wt=/var/tmp/wt-recheck-$sid-$$
  git -C /repo worktree add --detach "$wt" HEAD -q || continue
  h=$(echo -n "$wt" | sha1sum | cut -c1-40)
  if ! git -C "$wt" apply "$d/patch.diff" 2>/dev/null; then
    echo "$sid patch-does-not-apply"; caught="patch-does-not-apply-on-HEAD"; vl=""
  else
    git -C "$wt" add -A >/dev/null 2>&1
    (cd "$wt" && go build ./... ) || echo "$sid build failed"
    cd /verif
    VERIF_REPO="$wt" ./check "$pid" --tier quick > /var/tmp/recheck-$sid.out 2> /var/tmp/recheck-$sid.err; rc=$?
    vl=$(grep -h VIOLATION /var/tmp/recheck-$sid.out | grep -v no-failing-input-found | head -1 | cut -c1-160)
    [ -z "$vl" ] && vl=$(grep -h VIOLATION /var/tmp/recheck-$sid.out | head -1 | cut -c1-160)
    if [ $rc -eq 1 ] && [ -n "$vl" ]; then caught=quick; else
      VERIF_REPO="$wt" ./check "$pid" --tier thorough > /var/tmp/recheck-$sid.out 2> /var/tmp/recheck-$sid.err; rc=$?
      vl=$(grep -h VIOLATION /var/tmp/recheck-$sid.out | head -1 | cut -c1-160)
      if [ $rc -eq 1 ] && [ -n "$vl" ]; then caught=thorough; else caught=MISSED; fi
    fi
    rm -f /var/tmp/recheck-$sid.out /var/tmp/recheck-$sid.err
  fi
  git -C /repo worktree remove --force "$wt" >/dev/null 2>&1
  rm -rf /verif/.build/harness-${h:0:8} /verif/.build/lean-${h:0:8} /verif/.build/drive-*${h:0:6} /verif/.build/go${h:0:6}.lock
  python3 - "$d/meta.json" "$caught" "$vl" <<'PY'
import json, sys, subprocess
p, caught, vl = sys.argv[1:4]
m = json.load(open(p))
if caught.startswith("patch-does-not"):
    m.setdefault("check_history", []).append({"caught_by": m.get("caught_by"), "note": caught, "verif_commit": subprocess.run(["git","-C","/verif","rev-parse","--short","HEAD"],capture_output=True,text=True).stdout.strip()})
else:
    m.setdefault("check_history", []).append({"caught_by": caught, "violation_line": vl, "verif_commit": subprocess.run(["git","-C","/verif","rev-parse","--short","HEAD"],capture_output=True,text=True).stdout.strip()})
    m["caught_by"] = caught
json.dump(m, open(p, "w"), indent=1)
print(p.split("/")[-2], caught, vl[:110])
PY
done
