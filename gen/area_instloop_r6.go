package main

// Area "instloop", fifth part (round 6): small facts about the glue around the loop that the accounting rests on and that
// were tied by the correspondence harness only:
//
//	core/engine/engine.go             startInstances: what every field of instanceDeps / instanceSharedDeps is wired to
//	                                  (`depsWiring`, receiver = `$`, parameters by position; sorted, so the order of the
//	                                  fields in the literal and a literal built in two steps do not matter);
//	                                  newPool: the pool's metrics / config / onWaitDone; Engine.Run: the arguments of newPool
//	core/engine/instance.go           the out-of-ammo return of the iteration and awaitRun's test are about the SAME
//	                                  package-level error value, compared by identity (`outOfAmmoSentinel`)
//	lib/monitoring/counter.go         (*Counter).Add / Get: their operations on the shared counter (one atomic each), the
//	                                  delta passed on unchanged
//	core/aggregator/netsample/sample.go  DiscardedShootSample: the tag of the sample it returns IS DiscardedShootTag
//	core/provider/dummy.go            Dummy.Acquire: what it returns (the untyped nil is a valid ammo: `ok` is true)
//
// Every top-level identifier here starts with `instloopR6`.

import (
	"fmt"
	"go/ast"
	"go/token"
	"go/types"
	"sort"
	"strings"

	"golang.org/x/tools/go/packages"
)

// instloopR6Expr renders an expression with the receiver replaced by `$` and parameters by `param#k`.
func instloopR6Expr(x *instloopW, fd *ast.FuncDecl, e ast.Expr, locals map[types.Object]*ast.CompositeLit) string {
	info := x.pkg.TypesInfo
	var recvObj types.Object
	if fd.Recv != nil && len(fd.Recv.List) == 1 && len(fd.Recv.List[0].Names) == 1 {
		recvObj = info.Defs[fd.Recv.List[0].Names[0]]
	}
	params := map[types.Object]int{}
	k := 0
	for _, f := range fd.Type.Params.List {
		for _, n := range f.Names {
			params[info.Defs[n]] = k
			k++
		}
	}
	var render func(e ast.Expr) string
	render = func(e ast.Expr) string {
		switch v := e.(type) {
		case *ast.Ident:
			obj := info.Uses[v]
			if obj != nil && obj == recvObj {
				return "$"
			}
			if k, ok := params[obj]; ok {
				return fmt.Sprintf("param#%d", k)
			}
			return v.Name
		case *ast.SelectorExpr:
			return render(v.X) + "." + v.Sel.Name
		case *ast.UnaryExpr:
			return v.Op.String() + render(v.X)
		case *ast.BinaryExpr:
			return render(v.X) + " " + v.Op.String() + " " + render(v.Y)
		case *ast.ParenExpr:
			return "(" + render(v.X) + ")"
		}
		return x.src(e)
	}
	return render(e)
}

// instloopR6Wiring: the fields of every composite literal of one of the named struct types inside fd, flattened: a field
// whose value is a local variable defined by such a literal is replaced by that literal's fields.
func instloopR6Wiring(x *instloopW, fd *ast.FuncDecl, typeNames map[string]bool) []string {
	info := x.pkg.TypesInfo
	isOurs := func(cl *ast.CompositeLit) bool {
		tv, ok := info.Types[cl]
		if !ok {
			return false
		}
		ty := tv.Type
		if p, ok := ty.(*types.Pointer); ok {
			ty = p.Elem()
		}
		nt, ok := ty.(*types.Named)
		return ok && typeNames[nt.Obj().Name()]
	}
	// locals defined by `v := T{…}` / `var v = T{…}` / `v := &T{…}`
	locals := map[types.Object]*ast.CompositeLit{}
	lit := func(e ast.Expr) *ast.CompositeLit {
		if u, ok := e.(*ast.UnaryExpr); ok && u.Op == token.AND {
			e = u.X
		}
		cl, ok := e.(*ast.CompositeLit)
		if ok && isOurs(cl) {
			return cl
		}
		return nil
	}
	ast.Inspect(fd.Body, func(n ast.Node) bool {
		if as, ok := n.(*ast.AssignStmt); ok && as.Tok == token.DEFINE && len(as.Lhs) == len(as.Rhs) {
			for k, l := range as.Lhs {
				if id, ok := l.(*ast.Ident); ok {
					if cl := lit(as.Rhs[k]); cl != nil {
						locals[info.Defs[id]] = cl
					}
				}
			}
		}
		return true
	})
	var out []string
	used := map[*ast.CompositeLit]bool{}
	var flatten func(cl *ast.CompositeLit)
	flatten = func(cl *ast.CompositeLit) {
		used[cl] = true
		for _, el := range cl.Elts {
			kv, ok := el.(*ast.KeyValueExpr)
			if !ok {
				out = append(out, "?positional="+x.src(el))
				continue
			}
			if inner := lit(kv.Value); inner != nil {
				flatten(inner)
				continue
			}
			if id, ok := kv.Value.(*ast.Ident); ok {
				if inner, ok := locals[info.Uses[id]]; ok {
					flatten(inner)
					continue
				}
			}
			out = append(out, x.src(kv.Key)+"="+instloopR6Expr(x, fd, kv.Value, locals))
		}
	}
	// the outermost literals: those that are not the value of a field / a local of another one
	var all []*ast.CompositeLit
	ast.Inspect(fd.Body, func(n ast.Node) bool {
		if cl, ok := n.(*ast.CompositeLit); ok && isOurs(cl) {
			all = append(all, cl)
		}
		return true
	})
	// flatten from the ones that are not nested in / referenced by others: do the referenced ones last, skip if used
	nested := map[*ast.CompositeLit]bool{}
	for _, cl := range all {
		for _, el := range cl.Elts {
			if kv, ok := el.(*ast.KeyValueExpr); ok {
				if inner := lit(kv.Value); inner != nil {
					nested[inner] = true
				}
				if id, ok := kv.Value.(*ast.Ident); ok {
					if inner, ok := locals[info.Uses[id]]; ok {
						nested[inner] = true
					}
				}
			}
		}
	}
	for _, cl := range all {
		if !nested[cl] && !used[cl] {
			flatten(cl)
		}
	}
	sort.Strings(out)
	return out
}

// instloopR6PairList: `k=v` entries as a Lean `List (String × String)`.
func instloopR6PairList(ss []string) string {
	q := make([]string, len(ss))
	for i, s := range ss {
		kv := strings.SplitN(s, "=", 2)
		if len(kv) < 2 {
			kv = append(kv, "")
		}
		q[i] = "(" + instloopStr(kv[0]) + ", " + instloopStr(kv[1]) + ")"
	}
	return "[" + strings.Join(q, ", ") + "]"
}

func instloopR6StrList(ss []string) string {
	q := make([]string, len(ss))
	for i, s := range ss {
		q[i] = instloopStr(s)
	}
	return "[" + strings.Join(q, ", ") + "]"
}

func instloopR6(t *tr, en *packages.Package) string {
	var b strings.Builder
	ex := &instloopW{t: t, pkg: en}

	// ---- startInstances: the wiring of the instances' dependencies
	if fd := instloopFindMethod(en, "instancePool", "startInstances"); fd != nil {
		w := instloopR6Wiring(ex, fd, map[string]bool{"instanceDeps": true, "instanceSharedDeps": true})
		b.WriteString("/-- regenerated from `core/engine/engine.go` `(*instancePool).startInstances`: what every field of the `instanceDeps` /\n`instanceSharedDeps` handed to the instances is wired to (`$` = the pool, `param#k` = the k-th parameter; literals built in\nseveral steps flattened; sorted) -/\n")
		b.WriteString("def depsWiring : List (String × String) := " + instloopR6PairList(w) + "\n\n")
	} else {
		t.errs = append(t.errs, "method (*instancePool).startInstances not found (r6)")
	}
	// ---- newPool / Engine.Run: the pool's metrics are the engine's
	if fd := findFunc(en, "newPool"); fd != nil {
		w := instloopR6Wiring(ex, fd, map[string]bool{"instancePool": true})
		var keep []string
		for _, s := range w {
			if !strings.HasPrefix(s, "log=") {
				keep = append(keep, s)
			}
		}
		b.WriteString("/-- regenerated from `core/engine/engine.go` `newPool`: the fields of the pool it returns (logger aside; `param#k` = its k-th\nparameter; sorted) -/\n")
		b.WriteString("def poolWiring : List (String × String) := " + instloopR6PairList(keep) + "\n\n")
	} else {
		t.errs = append(t.errs, "func newPool not found (r6)")
	}
	if fd := instloopFindMethod(en, "Engine", "Run"); fd != nil {
		var calls []string
		ast.Inspect(fd.Body, func(n ast.Node) bool {
			if c, ok := n.(*ast.CallExpr); ok && ex.src(c.Fun) == "newPool" {
				var as []string
				for _, a := range c.Args {
					as = append(as, instloopR6Expr(ex, fd, a, nil))
				}
				calls = append(calls, "newPool("+strings.Join(as, ", ")+")")
			}
			return true
		})
		b.WriteString("/-- regenerated from `(*Engine).Run`: its calls of `newPool` (`$` = the engine) -/\n")
		b.WriteString("def engineNewPoolCalls : List String := " + instloopR6StrList(calls) + "\n\n")
	}

	// ---- the out-of-ammo sentinel: returned by the iteration, tested by awaitRun, one package-level variable
	sentinel := func(fd *ast.FuncDecl) []string {
		var out []string
		if fd == nil {
			return []string{"?function"}
		}
		ast.Inspect(fd.Body, func(n ast.Node) bool {
			switch v := n.(type) {
			case *ast.ReturnStmt:
				for _, r := range v.Results {
					ast.Inspect(r, func(m ast.Node) bool {
						if id, ok := m.(*ast.Ident); ok {
							if obj, ok := en.TypesInfo.Uses[id].(*types.Var); ok && obj.Parent() == en.Types.Scope() && id.Name == "outOfAmmoErr" {
								out = append(out, "return "+ex.src(r))
							}
						}
						return true
					})
				}
			case *ast.BinaryExpr:
				for _, side := range []ast.Expr{v.X, v.Y} {
					if id, ok := side.(*ast.Ident); ok {
						if obj, ok := en.TypesInfo.Uses[id].(*types.Var); ok && obj.Parent() == en.Types.Scope() && id.Name == "outOfAmmoErr" {
							other := v.X
							if side == v.X {
								other = v.Y
							}
							s := "<run result>.Err"
							if se, ok := other.(*ast.SelectorExpr); !ok || se.Sel.Name != "Err" {
								s = ex.src(other)
							}
							out = append(out, s+" "+v.Op.String()+" outOfAmmoErr")
						}
					}
				}
			case *ast.CallExpr:
				// errors.Is(x, outOfAmmoErr) and the like
				for _, a := range v.Args {
					if id, ok := a.(*ast.Ident); ok && id.Name == "outOfAmmoErr" {
						if _, isVar := en.TypesInfo.Uses[id].(*types.Var); isVar {
							out = append(out, "call "+ex.src(v.Fun))
						}
					}
				}
			}
			return true
		})
		sort.Strings(out)
		return out
	}
	// the iteration may live in Run's function literal or in a helper method of the instance: look at every method of `instance`
	var rets []string
	for _, f := range en.Syntax {
		for _, d := range f.Decls {
			if fd, ok := d.(*ast.FuncDecl); ok && fd.Recv != nil && fd.Body != nil {
				ty := fd.Recv.List[0].Type
				if st, ok := ty.(*ast.StarExpr); ok {
					ty = st.X
				}
				if id, ok := ty.(*ast.Ident); ok && id.Name == "instance" {
					rets = append(rets, sentinel(fd)...)
				}
			}
		}
	}
	sort.Strings(rets)
	b.WriteString("/-- regenerated from `core/engine/instance.go`: every use of the package-level error `outOfAmmoErr` in the methods of\n`instance` (a `return` that mentions it, with the returned expression) -/\n")
	b.WriteString("def outOfAmmoReturns : List String := " + instloopR6StrList(rets) + "\n\n")
	b.WriteString("/-- regenerated from `(*runAwaitHandle).awaitRun`: every use of `outOfAmmoErr` there (a comparison with its other operand) -/\n")
	b.WriteString("def outOfAmmoTests : List String := " + instloopR6StrList(sentinel(instloopFindMethod(en, "runAwaitHandle", "awaitRun"))) + "\n\n")

	// ---- lib/monitoring, netsample, provider.Dummy
	more := instloopLoad("github.com/yandex/pandora/lib/monitoring", "github.com/yandex/pandora/core/aggregator/netsample", "github.com/yandex/pandora/core/provider")
	mon := more["github.com/yandex/pandora/lib/monitoring"]
	mx := &instloopW{t: t, pkg: mon}
	for _, m := range []string{"Add", "Get"} {
		fd := instloopFindMethod(mon, "Counter", m)
		if fd == nil {
			t.errs = append(t.errs, "method (*Counter)."+m+" not found (r6)")
			continue
		}
		b.WriteString("/-- regenerated from `lib/monitoring/counter.go` `(*Counter)." + m + "`: its operations on the counter's shared state, in source order -/\n")
		b.WriteString("def counter" + m + "Accesses : List String := " + instloopR6StrList(instloopAccesses(mon, fd)) + "\n\n")
		if m == "Add" {
			// the argument of the one atomic call is the method's parameter, unchanged
			passed := false
			ast.Inspect(fd.Body, func(n ast.Node) bool {
				if c, ok := n.(*ast.CallExpr); ok {
					if se, ok := c.Fun.(*ast.SelectorExpr); ok && se.Sel.Name == "Add" && len(c.Args) == 1 {
						passed = instloopR6Expr(mx, fd, c.Args[0], nil) == "param#0"
					}
				}
				return true
			})
			b.WriteString("/-- … and the delta it passes to that operation is its own argument, unchanged -/\n")
			b.WriteString(fmt.Sprintf("def counterAddPassesDelta : Bool := %v\n\n", passed))
		}
	}
	ns := more["github.com/yandex/pandora/core/aggregator/netsample"]
	nx := &instloopW{t: t, pkg: ns}
	if fd := findFunc(ns, "DiscardedShootSample"); fd != nil {
		tagExpr, tagVal := "?", "?"
		ast.Inspect(fd.Body, func(n ast.Node) bool {
			if kv, ok := n.(*ast.KeyValueExpr); ok && nx.src(kv.Key) == "tags" {
				tagExpr = nx.src(kv.Value)
				if tv, ok := ns.TypesInfo.Types[kv.Value]; ok && tv.Value != nil {
					tagVal = tv.Value.ExactString()
				}
			}
			return true
		})
		constVal := "?const"
		if obj, ok := ns.Types.Scope().Lookup("DiscardedShootTag").(*types.Const); ok {
			constVal = obj.Val().ExactString()
		}
		b.WriteString("/-- regenerated from `core/aggregator/netsample/sample.go` `DiscardedShootSample`: the constant value of the `tags` field of the\nsample it builds, and the value of the constant `DiscardedShootTag` (how a discarded request is told from a shot) -/\n")
		b.WriteString("def discardedSampleTag : String × String := (" + instloopStr(tagVal) + ", " + instloopStr(constVal) + ")\n\n")
		_ = tagExpr
	} else {
		t.errs = append(t.errs, "func DiscardedShootSample not found (r6)")
	}
	pr := more["github.com/yandex/pandora/core/provider"]
	px := &instloopW{t: t, pkg: pr}
	if fd := instloopFindMethod(pr, "Dummy", "Acquire"); fd != nil {
		var rets []string
		ast.Inspect(fd.Body, func(n ast.Node) bool {
			if r, ok := n.(*ast.ReturnStmt); ok {
				var rs []string
				for _, e := range r.Results {
					rs = append(rs, px.src(e))
				}
				rets = append(rets, strings.Join(rs, ", "))
			}
			return true
		})
		b.WriteString("/-- regenerated from `core/provider/dummy.go` `Dummy.Acquire`: what it returns (ammo, ok) — the built-in provider for guns that\nneed no ammo hands out the untyped nil as a VALID item -/\n")
		b.WriteString("def dummyAcquireReturns : List String := " + instloopR6StrList(rets) + "\n\n")
	}
	return b.String()
}
