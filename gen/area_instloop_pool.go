package main

// Area "instloop" (property C03), fourth part: "the pool ends normally".
//
//	(*instancePool).Run            -> poolRun : List Pandora.Model.C03Pool.PInstr (logging dropped), poolRunCtxCase (what the
//	                                  `<-ctx.Done()` case returns), poolRunOnAwait (what the `err, ok := <-awaitErr` case returns,
//	                                  as a function of ok)
//	(*instancePool).awaitRunAsync  -> poolAwaitGoBody / poolAwaitGoDeferred : List GInstr: what the goroutine it launches does
//	                                  in its body and in its deferred function
//	(*instancePool).newAwaitRunHandle -> poolAwaitErrBuf: the buffer of the channel `awaitErr` (0 = unbuffered)
//	(*runAwaitHandle).onErrAwaited -> poolOnErrSelect: the communications of its select; sorted
//	(*Registry).NewFactory (core/plugin/registry.go) -> registryGetConf: the body of every function literal assigned to the
//	                                  variable handed to constructor.NewFactory as "get the config" (locals numbered in order
//	                                  of appearance, so renaming does not matter)
//
// Locals are identified by the text of their defining occurrence in the function at hand (never by a fixed name).

import (
	"go/ast"
	"go/token"
	"go/types"
	"sort"
	"strings"

	"golang.org/x/tools/go/packages"
)

type instloopPoolX struct {
	*instloopW
}

func (x *instloopPoolX) isLog(s ast.Stmt) bool {
	es, ok := s.(*ast.ExprStmt)
	if !ok {
		return false
	}
	c, ok := es.X.(*ast.CallExpr)
	return ok && strings.Contains(x.src(c.Fun), ".log.")
}

func (x *instloopPoolX) noLogs(l []ast.Stmt) []ast.Stmt {
	var o []ast.Stmt
	for _, s := range l {
		if !x.isLog(s) {
			o = append(o, s)
		}
	}
	return o
}

// isWaitDone: `p.onWaitDone()` or `if p.onWaitDone != nil { p.onWaitDone() }`
func (x *instloopPoolX) isWaitDone(s ast.Stmt) bool {
	switch v := s.(type) {
	case *ast.ExprStmt:
		c, ok := v.X.(*ast.CallExpr)
		return ok && len(c.Args) == 0 && strings.HasSuffix(x.src(c.Fun), ".onWaitDone")
	case *ast.IfStmt:
		if v.Init != nil || v.Else != nil {
			return false
		}
		c := x.src(v.Cond)
		l := x.noLogs(v.Body.List)
		return strings.HasSuffix(c, ".onWaitDone != nil") && len(l) == 1 && x.isWaitDone(l[0])
	}
	return false
}

// errReturn: the block `{ [onWaitDone]; return <errName> }` -> (calls onWaitDone, ok)
func (x *instloopPoolX) errReturn(b *ast.BlockStmt, errName string) (bool, bool) {
	l := x.noLogs(b.List)
	wd := false
	if len(l) == 2 && x.isWaitDone(l[0]) {
		wd = true
		l = l[1:]
	}
	if len(l) != 1 {
		return false, false
	}
	r, ok := l[0].(*ast.ReturnStmt)
	if !ok || len(r.Results) != 1 || x.src(r.Results[0]) != errName {
		return false, false
	}
	return wd, true
}

func instloopPoolBool(b bool) string {
	if b {
		return "true"
	}
	return "false"
}

func instloopPool(t *tr, en, pl *packages.Package) string {
	var b strings.Builder
	instrs := []string{}
	ctxCase, onAwait := "(UNSUPPORTED)", "(UNSUPPORTED)"
	if fd := instloopFindMethod(en, "instancePool", "Run"); fd != nil && len(fd.Recv.List[0].Names) == 1 && len(fd.Type.Params.List) == 1 &&
		len(fd.Type.Params.List[0].Names) == 1 {
		x := &instloopPoolX{&instloopW{t: t, pkg: en, recv: fd.Recv.List[0].Names[0].Name}}
		ctxName := fd.Type.Params.List[0].Names[0].Name
		cancelName, rhName, awaitName := "", "", ""
		other := func(s ast.Stmt) { instrs = append(instrs, ".other "+instloopStr(x.src(s))) }
		l := x.noLogs(fd.Body.List)
		for k := 0; k < len(l); k++ {
			switch v := l[k].(type) {
			case *ast.AssignStmt:
				if len(v.Lhs) == 2 && len(v.Rhs) == 1 {
					rhs := x.src(v.Rhs[0])
					if rhs == "context.WithCancel("+ctxName+")" && x.src(v.Lhs[0]) == ctxName {
						cancelName = x.src(v.Lhs[1])
						instrs = append(instrs, ".deriveCtx")
						continue
					}
					if rhs == x.recv+".runAsync("+ctxName+")" && k+1 < len(l) {
						errName := x.src(v.Lhs[1])
						if is, ok := l[k+1].(*ast.IfStmt); ok && is.Init == nil && is.Else == nil && x.src(is.Cond) == errName+" != nil" {
							if wd, ok := x.errReturn(is.Body, errName); ok {
								rhName = x.src(v.Lhs[0])
								instrs = append(instrs, ".runAsyncOrReturn "+instloopPoolBool(wd))
								k++
								continue
							}
						}
					}
				}
				if len(v.Lhs) == 1 && len(v.Rhs) == 1 && rhName != "" && x.src(v.Rhs[0]) == x.recv+".awaitRunAsync("+rhName+")" {
					awaitName = x.src(v.Lhs[0])
					instrs = append(instrs, ".awaitAsync")
					continue
				}
				other(v)
			case *ast.DeferStmt:
				if cancelName != "" && len(v.Call.Args) == 0 {
					if x.src(v.Call.Fun) == cancelName {
						instrs = append(instrs, ".deferCancel")
						continue
					}
					if fl, ok := v.Call.Fun.(*ast.FuncLit); ok {
						in := x.noLogs(fl.Body.List)
						if len(in) == 1 && x.src(in[0]) == cancelName+"()" {
							instrs = append(instrs, ".deferCancel")
							continue
						}
					}
				}
				other(v)
			case *ast.IfStmt:
				if as, ok := v.Init.(*ast.AssignStmt); ok && v.Else == nil && len(as.Lhs) == 1 && len(as.Rhs) == 1 &&
					x.src(as.Rhs[0]) == x.recv+".warmUpGun("+ctxName+")" && x.src(v.Cond) == x.src(as.Lhs[0])+" != nil" {
					if wd, ok := x.errReturn(v.Body, x.src(as.Lhs[0])); ok {
						instrs = append(instrs, ".warmUpOrReturn "+instloopPoolBool(wd))
						continue
					}
				}
				other(v)
			case *ast.SelectStmt:
				okSel := awaitName != "" && len(v.Body.List) == 2
				nCtx, nAw := 0, 0
				if okSel {
					for _, c := range v.Body.List {
						cc := c.(*ast.CommClause)
						switch cm := cc.Comm.(type) {
						case *ast.ExprStmt:
							if x.src(cm.X) == "<-"+ctxName+".Done()" {
								nCtx++
								ctxCase = x.retBlock(x.noLogs(cc.Body), "", "", ctxName)
							}
						case *ast.AssignStmt:
							if len(cm.Lhs) == 2 && len(cm.Rhs) == 1 && x.src(cm.Rhs[0]) == "<-"+awaitName {
								nAw++
								onAwait = x.retBlock(x.noLogs(cc.Body), x.src(cm.Lhs[0]), x.src(cm.Lhs[1]), ctxName)
							}
						}
					}
				}
				if okSel && nCtx == 1 && nAw == 1 {
					instrs = append(instrs, ".selectCtxOrAwait")
					continue
				}
				other(v)
			default:
				other(l[k])
			}
		}
	} else {
		t.errs = append(t.errs, "method (*instancePool).Run(ctx) not found")
	}
	b.WriteString("/-- regenerated from `core/engine/engine.go` `(*instancePool).Run` (logging dropped) -/\n")
	b.WriteString("def poolRun : List Pandora.Model.C03Pool.PInstr := " + instloopList(instrs, "  ") + "\n\n")
	b.WriteString("/-- regenerated from `(*instancePool).Run`: what the `<-ctx.Done()` case of its select returns -/\n")
	b.WriteString("def poolRunCtxCase : Pandora.Model.C03Pool.PRet := " + ctxCase + "\n\n")
	b.WriteString("/-- regenerated from `(*instancePool).Run`: what the `err, ok := <-awaitErr` case of its select returns -/\n")
	b.WriteString("def poolRunOnAwait (ok : Bool) : Pandora.Model.C03Pool.PRet := " + onAwait + "\n\n")

	// ---- awaitRunAsync: the goroutine
	body, deferred := []string{}, []string{}
	if fd := instloopFindMethod(en, "instancePool", "awaitRunAsync"); fd != nil && len(fd.Recv.List[0].Names) == 1 {
		x := &instloopPoolX{&instloopW{t: t, pkg: en, recv: fd.Recv.List[0].Names[0].Name}}
		var lit *ast.FuncLit
		n := 0
		for _, s := range fd.Body.List {
			if g, ok := s.(*ast.GoStmt); ok {
				n++
				if fl, ok := g.Call.Fun.(*ast.FuncLit); ok {
					lit = fl
				}
			}
		}
		g := func(s ast.Stmt) string {
			if x.isWaitDone(s) {
				return ".waitDone"
			}
			if es, ok := s.(*ast.ExprStmt); ok {
				if c, ok := es.X.(*ast.CallExpr); ok {
					f := x.src(c.Fun)
					if len(c.Args) == 0 && strings.HasSuffix(f, ".awaitRun") {
						return ".awaitRun"
					}
					if f == "close" && len(c.Args) == 1 && strings.HasSuffix(x.src(c.Args[0]), ".awaitErr") {
						return ".closeAwaitErr"
					}
				}
			}
			return ".other " + instloopStr(x.src(s))
		}
		if lit != nil && n == 1 {
			for _, s := range x.noLogs(lit.Body.List) {
				if d, ok := s.(*ast.DeferStmt); ok {
					if fl, ok := d.Call.Fun.(*ast.FuncLit); ok && len(d.Call.Args) == 0 {
						var ds []string
						for _, q := range x.noLogs(fl.Body.List) {
							ds = append(ds, g(q))
						}
						deferred = append(ds, deferred...) // deferred functions run in reverse order
						continue
					}
					deferred = append([]string{g(&ast.ExprStmt{X: d.Call})}, deferred...)
					continue
				}
				body = append(body, g(s))
			}
		} else {
			x.fail(fd, "awaitRunAsync shape: exactly one `go func() {…}()` expected")
		}
	} else {
		t.errs = append(t.errs, "method (*instancePool).awaitRunAsync not found")
	}
	b.WriteString("/-- regenerated from `(*instancePool).awaitRunAsync`: the body of the goroutine it launches (defers and logging aside) -/\n")
	b.WriteString("def poolAwaitGoBody : List Pandora.Model.C03Pool.GInstr := " + instloopList(body, "  ") + "\n\n")
	b.WriteString("/-- regenerated from `awaitRunAsync`: what that goroutine's deferred functions do, in execution order -/\n")
	b.WriteString("def poolAwaitGoDeferred : List Pandora.Model.C03Pool.GInstr := " + instloopList(deferred, "  ") + "\n\n")

	// ---- newAwaitRunHandle: make(chan error[, n]) of the local stored in the field awaitErr
	buf := "999"
	if fd := instloopFindMethod(en, "instancePool", "newAwaitRunHandle"); fd != nil {
		x := &instloopPoolX{&instloopW{t: t, pkg: en}}
		var makes []string
		ast.Inspect(fd.Body, func(n ast.Node) bool {
			if c, ok := n.(*ast.CallExpr); ok && x.src(c.Fun) == "make" && len(c.Args) >= 1 && x.src(c.Args[0]) == "chan error" {
				if len(c.Args) == 1 {
					makes = append(makes, "0")
				} else {
					makes = append(makes, x.src(c.Args[1]))
				}
			}
			return true
		})
		if len(makes) == 1 {
			buf = makes[0]
			for _, r := range buf {
				if r < '0' || r > '9' {
					buf = "999"
				}
			}
		}
	} else {
		t.errs = append(t.errs, "method (*instancePool).newAwaitRunHandle not found")
	}
	b.WriteString("/-- regenerated from `(*instancePool).newAwaitRunHandle`: the buffer of the channel `awaitErr` (999 = not a literal) -/\n")
	b.WriteString("def poolAwaitErrBuf : Nat := " + buf + "\n\n")

	// ---- onErrAwaited: the communications of its select
	var comms []string
	if fd := instloopFindMethod(en, "runAwaitHandle", "onErrAwaited"); fd != nil && len(fd.Recv.List[0].Names) == 1 {
		x := &instloopPoolX{&instloopW{t: t, pkg: en, recv: fd.Recv.List[0].Names[0].Name}}
		nsel := 0
		for _, s := range x.noLogs(fd.Body.List) {
			sel, ok := s.(*ast.SelectStmt)
			if !ok {
				comms = append(comms, "stmt "+x.src(s))
				continue
			}
			nsel++
			for _, c := range sel.Body.List {
				cc := c.(*ast.CommClause)
				switch cm := cc.Comm.(type) {
				case nil:
					comms = append(comms, "default")
				case *ast.SendStmt:
					comms = append(comms, "send "+strings.Replace(x.src(cm.Chan), x.recv+".", "$.", 1))
				case *ast.ExprStmt:
					comms = append(comms, "recv "+strings.Replace(strings.TrimPrefix(x.src(cm.X), "<-"), x.recv+".", "$.", 1))
				default:
					comms = append(comms, "recv "+x.src(cc.Comm))
				}
			}
		}
		sort.Strings(comms)
	} else {
		t.errs = append(t.errs, "method (*runAwaitHandle).onErrAwaited not found")
	}
	var cq []string
	for _, c := range comms {
		cq = append(cq, instloopStr(c))
	}
	b.WriteString("/-- regenerated from `(*runAwaitHandle).onErrAwaited`: the communications of its select (a blocking send to `Run`, given\nup only when the pool's context is done); sorted -/\n")
	b.WriteString("def poolOnErrSelect : List String := [" + strings.Join(cq, ", ") + "]\n\n")

	// ---- (*Registry).NewFactory: the function literals assigned to the "get the config" variable
	var lits []string
	if fd := instloopFindMethod(pl, "Registry", "NewFactory"); fd != nil {
		x := &instloopPoolX{&instloopW{t: t, pkg: pl}}
		// the variable: the second argument of the call `<…>.constructor.NewFactory(_, V)` in a return statement
		var target types.Object
		ast.Inspect(fd.Body, func(n ast.Node) bool {
			if r, ok := n.(*ast.ReturnStmt); ok && len(r.Results) == 1 {
				if c, ok := r.Results[0].(*ast.CallExpr); ok && strings.HasSuffix(x.src(c.Fun), ".constructor.NewFactory") && len(c.Args) == 2 {
					if id, ok := c.Args[1].(*ast.Ident); ok {
						target = pl.TypesInfo.Uses[id]
					}
				}
			}
			return true
		})
		if target == nil {
			x.fail(fd, "Registry.NewFactory shape: `return <entry>.constructor.NewFactory(factoryType, <variable>)` expected")
		}
		ast.Inspect(fd.Body, func(n ast.Node) bool {
			as, ok := n.(*ast.AssignStmt)
			if !ok || target == nil {
				return true
			}
			for k, lh := range as.Lhs {
				id, ok := lh.(*ast.Ident)
				if !ok || k >= len(as.Rhs) {
					continue
				}
				o := pl.TypesInfo.Uses[id]
				if o == nil {
					o = pl.TypesInfo.Defs[id]
				}
				if o != target {
					continue
				}
				fl, ok := as.Rhs[k].(*ast.FuncLit)
				if !ok {
					lits = append(lits, "["+instloopStr("= "+x.src(as.Rhs[k]))+"]")
					continue
				}
				// number the locals of NewFactory (and of the literal) in order of appearance
				names := map[types.Object]string{}
				var touched []*ast.Ident
				var olds []string
				ast.Inspect(fl.Body, func(m ast.Node) bool {
					id, ok := m.(*ast.Ident)
					if !ok {
						return true
					}
					o := pl.TypesInfo.Uses[id]
					if o == nil {
						o = pl.TypesInfo.Defs[id]
					}
					v, isVar := o.(*types.Var)
					if !isVar || v.IsField() || v.Pos() < fd.Pos() || v.Pos() > fd.End() {
						return true
					}
					if names[o] == "" {
						names[o] = "v" + string(rune('0'+len(names)%10)) + strings.Repeat("_", len(names)/10)
					}
					touched = append(touched, id)
					olds = append(olds, id.Name)
					id.Name = names[o]
					return true
				})
				var ss []string
				for _, s := range fl.Body.List {
					ss = append(ss, instloopStr(x.src(s)))
				}
				for k, id := range touched {
					id.Name = olds[k]
				}
				lits = append(lits, "["+strings.Join(ss, ", ")+"]")
			}
			return true
		})
	} else {
		t.errs = append(t.errs, "method (*Registry).NewFactory not found")
	}
	b.WriteString("/-- regenerated from `core/plugin/registry.go` `(*Registry).NewFactory`: the body of every function literal assigned to the\nvariable it hands to the constructor's `NewFactory` as \"get the config\" (that function is what `getMaybeConf()` calls at every\nfactory call: `factoryPerCall`); locals numbered in order of appearance -/\n")
	b.WriteString("def registryGetConf : List (List String) := [" + strings.Join(lits, ", ") + "]\n\n")
	return b.String()
}

// retBlock: a block of `if ok|!ok { … }` and `return X` as a Lean expression of type PRet over the variable `ok`.
func (x *instloopPoolX) retBlock(l []ast.Stmt, errName, okName, ctxName string) string {
	if len(l) == 0 {
		return "(UNSUPPORTED)"
	}
	switch v := l[0].(type) {
	case *ast.ReturnStmt:
		if len(v.Results) != 1 {
			return x.fail(v, "return with one value expected")
		}
		switch r := x.src(v.Results[0]); {
		case r == "nil":
			return "Pandora.Model.C03Pool.PRet.nil"
		case errName != "" && r == errName:
			return "Pandora.Model.C03Pool.PRet.awaitErr"
		case r == ctxName+".Err()":
			return "Pandora.Model.C03Pool.PRet.ctxErr"
		default:
			return x.fail(v, "returned value %s", r)
		}
	case *ast.IfStmt:
		if v.Init != nil || okName == "" {
			return x.fail(v, "if with init")
		}
		cond := ""
		switch c := v.Cond.(type) {
		case *ast.Ident:
			if c.Name == okName {
				cond = "ok"
			}
		case *ast.UnaryExpr:
			if id, isID := c.X.(*ast.Ident); isID && c.Op == token.NOT && id.Name == okName {
				cond = "(!ok)"
			}
		}
		if cond == "" {
			return x.fail(v, "condition %s", x.src(v.Cond))
		}
		rest := l[1:]
		var els []ast.Stmt
		switch e := v.Else.(type) {
		case nil:
			els = rest
		case *ast.BlockStmt:
			els = append(append([]ast.Stmt{}, x.noLogs(e.List)...), rest...)
		default:
			return x.fail(v, "else if")
		}
		then := append(append([]ast.Stmt{}, x.noLogs(v.Body.List)...), rest...)
		return "(if " + cond + " then " + x.retBlock(then, errName, okName, ctxName) + " else " + x.retBlock(els, errName, okName, ctxName) + ")"
	}
	return x.fail(l[0], "statement in a select case")
}
