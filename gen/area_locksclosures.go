package main

// Area "locks", second part (property C11): facts about function literals, hand-over sites and the arithmetic of the
// var/header `substr` modifier, re-extracted from the CURRENT source of every non-test package below components/, core/
// and lib/.
//
// 1. closures : List C11Closure — one row per function literal inside a function declaration:
//      key     "<import path below pandora>:<function>.func<N>[.<M>…]" (the compiler's numbering: literals of a function
//              in source order, nested ones numbered inside their parent; receivers dropped) — the same canonical name the
//              C11 driver derives from the code pointer of a func value it finds in the object graph of a real pool;
//      writes  the captured variables (variables of an enclosing function) the literal assigns outside any mutex section
//              of its own: a closure object with such a variable is mutable state;
//      holds   the keys of literals with `writes` that one of its captured variables may hold (a wrapper closure);
//      stored  the places where the closure value — or a value that holds it: a wrapper closure, a composite literal, the
//              result of a function that returns it — may be put where other goroutines find it: a struct field, a map
//              or slice element, a sync.Map / sync.Pool / atomic.Value, a channel, a package-level variable.
//    The flow analysis is a fixpoint over all scanned packages: function results (by index) and local variables carry
//    the set of stateful literals they may hold; calls through interfaces and func values are not followed.
//
// 2. handoverSites : List (String × String × String) — (function, variable, word): for every function that hands a
//    local variable or parameter on (channel send, `X.Put(v)`, `X.Release(v)`, `X.Report(v)`, `releaseSample(v)`, or a
//    call `f(…, v, …)` of a function of the scanned packages that hands that parameter on — a fixpoint over all
//    functions), what the function does with the variable in source order along one path: U = any use, G = the
//    hand-over (a deferred hand-over comes last; a block that returns does not continue into what follows it; a
//    hand-over inside a loop whose variable lives across iterations is followed by the loop body once more).
//
// 3. substrBody — the body of the closure returned by `(*VarHeaderPostprocessor).substr` as a function
//    (start, end, len) ↦ (start', end') on integers, statement by statement, and `substrSlices` — the slice expression it
//    returns.

import (
	"fmt"
	"go/ast"
	"go/token"
	"go/types"
	"sort"
	"strings"

	"golang.org/x/tools/go/packages"
)

const locksPandora = "github.com/yandex/pandora/"

// locksScanPatterns: the packages whose function literals and hand-over sites are extracted.
var locksScanPatterns = []string{locksPandora + "components/...", locksPandora + "core/...", locksPandora + "lib/..."}

func locksScanned(p *packages.Package) bool {
	if !strings.HasPrefix(p.PkgPath, locksPandora) {
		return false
	}
	rest := strings.TrimPrefix(p.PkgPath, locksPandora)
	// generated mocks and test helpers are not part of a running pool
	if strings.HasSuffix(rest, "/mocks") || strings.HasSuffix(rest, "testutil") || strings.HasSuffix(rest, "coretest") || strings.Contains(rest, "ginkgo") {
		return false
	}
	return strings.HasPrefix(rest, "components/") || strings.HasPrefix(rest, "core/") || strings.HasPrefix(rest, "lib/")
}

func locksIsTestFile(p *packages.Package, f *ast.File) bool {
	return strings.HasSuffix(p.Fset.Position(f.Pos()).Filename, "_test.go")
}

// ---------------------------------------------------------------- closures

type locksLit struct {
	key     string
	p       *packages.Package
	fd      *ast.FuncDecl
	lit     *ast.FuncLit
	caps    []*types.Var // captured variables, in order of declaration
	writes  map[string]bool
	holds   map[string]bool
	stored  map[string]bool
	capSet  map[*types.Var]bool
	ownKeys map[string]bool // stateful literals a value of this literal may hold, including itself
}

type locksFlow struct {
	lits    []*locksLit
	byNode  map[*ast.FuncLit]*locksLit
	varT    map[*types.Var]map[string]bool    // local variables / parameters
	resT    map[*types.Func][]map[string]bool // function results by index
	changed bool
}

func locksUnion(dst map[string]bool, src map[string]bool) (map[string]bool, bool) {
	ch := false
	for k := range src {
		if dst == nil {
			dst = map[string]bool{}
		}
		if !dst[k] {
			dst[k] = true
			ch = true
		}
	}
	return dst, ch
}

func locksSorted(m map[string]bool) []string {
	out := make([]string, 0, len(m))
	for k := range m {
		out = append(out, k)
	}
	sort.Strings(out)
	return out
}

// locksNumberLits assigns the compiler's names to the literals of one function declaration.
func (fl *locksFlow) locksNumberLits(p *packages.Package, fd *ast.FuncDecl) {
	short := strings.TrimPrefix(p.PkgPath, locksPandora)
	var rec func(n ast.Node, prefix string)
	rec = func(n ast.Node, prefix string) {
		idx := 0
		ast.Inspect(n, func(m ast.Node) bool {
			l, ok := m.(*ast.FuncLit)
			if !ok || m == n {
				return true
			}
			idx++
			var name string
			if prefix == "" {
				name = fmt.Sprintf("func%d", idx)
			} else {
				name = fmt.Sprintf("%s.%d", prefix, idx)
			}
			li := &locksLit{key: short + ":" + fd.Name.Name + "." + name, p: p, fd: fd, lit: l, writes: map[string]bool{},
				holds: map[string]bool{}, stored: map[string]bool{}, capSet: map[*types.Var]bool{}}
			fl.lits = append(fl.lits, li)
			fl.byNode[l] = li
			rec(l, name)
			return false
		})
	}
	rec(fd.Body, "")
}

// locksCaptured: the variables of enclosing functions a literal refers to.
func locksCaptured(li *locksLit) {
	info := li.p.TypesInfo
	pkgScope := li.p.Types.Scope()
	seen := map[*types.Var]bool{}
	ast.Inspect(li.lit.Body, func(n ast.Node) bool {
		id, ok := n.(*ast.Ident)
		if !ok {
			return true
		}
		v, ok := info.Uses[id].(*types.Var)
		if !ok || v.IsField() || v.Parent() == pkgScope || v.Parent() == types.Universe {
			return true
		}
		if v.Pos() >= li.lit.Pos() && v.Pos() < li.lit.End() {
			return true // its own parameter or local
		}
		if v.Pos() < li.fd.Pos() || v.Pos() >= li.fd.End() {
			return true
		}
		if !seen[v] {
			seen[v] = true
			li.caps = append(li.caps, v)
			li.capSet[v] = true
		}
		return true
	})
	sort.Slice(li.caps, func(i, j int) bool { return li.caps[i].Pos() < li.caps[j].Pos() })
}

// locksLitWrites: the captured variables a literal assigns while holding no mutex of its own. The lock tracker of the
// first part of this area is reused with the captured variables as the tracked objects.
func locksLitWrites(t *tr, li *locksLit) {
	if len(li.caps) == 0 {
		return
	}
	s := &lockScan{t: t, p: li.p, tgt: lockTarget{pkg: "closure"}, fields: map[string]*types.Var{}, vars: map[types.Object]string{},
		writes: map[ast.Expr]bool{}}
	for _, v := range li.caps {
		s.vars[v] = v.Name()
	}
	s.fn = li.key
	s.scanBody(li.lit.Body)
	for _, r := range s.rows {
		if r.write && r.unguarded {
			li.writes[strings.TrimPrefix(r.obj, "closure.")] = true
		}
	}
}

func (fl *locksFlow) locksCalleeOf(p *packages.Package, call *ast.CallExpr) *types.Func {
	var id *ast.Ident
	switch f := call.Fun.(type) {
	case *ast.Ident:
		id = f
	case *ast.SelectorExpr:
		id = f.Sel
	default:
		return nil
	}
	fn, _ := p.TypesInfo.Uses[id].(*types.Func)
	return fn
}

// locksTaint: the stateful literals the value of an expression may hold.
func (fl *locksFlow) locksTaint(p *packages.Package, e ast.Expr) map[string]bool {
	switch x := e.(type) {
	case *ast.ParenExpr:
		return fl.locksTaint(p, x.X)
	case *ast.FuncLit:
		if li := fl.byNode[x]; li != nil {
			return li.ownKeys
		}
	case *ast.Ident:
		if v, ok := p.TypesInfo.Uses[x].(*types.Var); ok {
			return fl.varT[v]
		}
	case *ast.UnaryExpr:
		if x.Op == token.AND {
			return fl.locksTaint(p, x.X)
		}
	case *ast.StarExpr:
		return fl.locksTaint(p, x.X)
	case *ast.CompositeLit:
		var out map[string]bool
		for _, el := range x.Elts {
			if kv, ok := el.(*ast.KeyValueExpr); ok {
				el = kv.Value
			}
			out, _ = locksUnion(out, fl.locksTaint(p, el))
		}
		return out
	case *ast.CallExpr:
		if id, ok := x.Fun.(*ast.Ident); ok && id.Name == "append" {
			if _, isBuiltin := p.TypesInfo.Uses[id].(*types.Builtin); isBuiltin {
				var out map[string]bool
				for _, a := range x.Args {
					out, _ = locksUnion(out, fl.locksTaint(p, a))
				}
				return out
			}
		}
		if fn := fl.locksCalleeOf(p, x); fn != nil {
			if rs := fl.resT[fn]; len(rs) > 0 {
				return rs[0]
			}
		}
		// a conversion T(x)
		if len(x.Args) == 1 {
			if tv, ok := p.TypesInfo.Types[x.Fun]; ok && tv.IsType() {
				return fl.locksTaint(p, x.Args[0])
			}
		}
	case *ast.SelectorExpr:
		// a field of a local struct value that was filled with a closure
		return fl.locksTaint(p, x.X)
	case *ast.TypeAssertExpr:
		return fl.locksTaint(p, x.X)
	}
	return nil
}

func (fl *locksFlow) locksSetVar(v *types.Var, t map[string]bool) {
	if v == nil || len(t) == 0 {
		return
	}
	var ch bool
	fl.varT[v], ch = locksUnion(fl.varT[v], t)
	if ch {
		fl.changed = true
	}
}

func locksRootIdent(e ast.Expr) *ast.Ident {
	for {
		switch x := e.(type) {
		case *ast.Ident:
			return x
		case *ast.SelectorExpr:
			e = x.X
		case *ast.IndexExpr:
			e = x.X
		case *ast.StarExpr:
			e = x.X
		case *ast.ParenExpr:
			e = x.X
		default:
			return nil
		}
	}
}

// locksSharedPlace: is the assignment target a place other goroutines can reach — a field / element reached through a
// pointer, map, slice, receiver or package-level variable (anything but a plain local variable or a field of a local
// struct VALUE)?
func locksSharedPlace(p *packages.Package, lhs ast.Expr) bool {
	switch lhs.(type) {
	case *ast.Ident:
		v, ok := p.TypesInfo.Uses[lhs.(*ast.Ident)].(*types.Var)
		return ok && v.Parent() == p.Types.Scope()
	}
	root := locksRootIdent(lhs)
	if root == nil {
		return true
	}
	v, ok := p.TypesInfo.Uses[root].(*types.Var)
	if !ok {
		return true
	}
	if v.Parent() == p.Types.Scope() {
		return true
	}
	// a field of a local struct value (not a pointer, map or slice): still local
	if sel, ok := lhs.(*ast.SelectorExpr); ok {
		if id, ok := sel.X.(*ast.Ident); ok && id == root {
			if _, isStruct := v.Type().Underlying().(*types.Struct); isStruct {
				return false
			}
		}
	}
	return true
}

var locksStoreMethods = map[string]bool{"Store": true, "LoadOrStore": true, "Swap": true, "CompareAndSwap": true, "Put": true}

func (fl *locksFlow) locksMarkStored(keys map[string]bool, site string) {
	for k := range keys {
		for _, li := range fl.lits {
			if li.key == k && !li.stored[site] {
				li.stored[site] = true
				fl.changed = true
			}
		}
	}
}

// locksFlowFunc: one pass over a function declaration (its literals included).
func (fl *locksFlow) locksFlowFunc(p *packages.Package, fd *ast.FuncDecl) {
	info := p.TypesInfo
	fnObj, _ := info.Defs[fd.Name].(*types.Func)
	short := strings.TrimPrefix(p.PkgPath, locksPandora)
	site := func(n ast.Node, what string) string {
		return short + "." + fd.Name.Name + ": " + what
	}
	// results of the function declaration itself (literals' returns are not results of fd)
	var sig *types.Signature
	if fnObj != nil {
		sig = fnObj.Type().(*types.Signature)
		if fl.resT[fnObj] == nil {
			fl.resT[fnObj] = make([]map[string]bool, sig.Results().Len())
		}
	}
	var walk func(n ast.Node, inLit bool)
	walk = func(n ast.Node, inLit bool) {
		ast.Inspect(n, func(m ast.Node) bool {
			switch x := m.(type) {
			case *ast.FuncLit:
				if m != n {
					walk(x, true)
					return false
				}
			case *ast.AssignStmt:
				if len(x.Rhs) == 1 && len(x.Lhs) > 1 {
					// v1, v2 := f(...)
					if call, ok := x.Rhs[0].(*ast.CallExpr); ok {
						if fn := fl.locksCalleeOf(p, call); fn != nil {
							rs := fl.resT[fn]
							for i, l := range x.Lhs {
								if i < len(rs) && len(rs[i]) > 0 {
									fl.locksAssign(p, l, rs[i], site(x, types.ExprString(l)+" = "+types.ExprString(call.Fun)+"(…)"))
								}
							}
						}
					}
					return true
				}
				for i, l := range x.Lhs {
					if i < len(x.Rhs) {
						if t := fl.locksTaint(p, x.Rhs[i]); len(t) > 0 {
							fl.locksAssign(p, l, t, site(x, types.ExprString(l)+" = "+locksShortExpr(x.Rhs[i])))
						}
					}
				}
			case *ast.ValueSpec:
				for i, name := range x.Names {
					if i < len(x.Values) {
						if v, ok := info.Defs[name].(*types.Var); ok {
							fl.locksSetVar(v, fl.locksTaint(p, x.Values[i]))
						}
					}
				}
			case *ast.ReturnStmt:
				if inLit || fnObj == nil {
					return true
				}
				rs := fl.resT[fnObj]
				if len(x.Results) == 1 && len(rs) > 1 {
					if call, ok := x.Results[0].(*ast.CallExpr); ok {
						if fn := fl.locksCalleeOf(p, call); fn != nil {
							for i, t := range fl.resT[fn] {
								if i < len(rs) {
									var ch bool
									rs[i], ch = locksUnion(rs[i], t)
									fl.changed = fl.changed || ch
								}
							}
						}
					}
					return true
				}
				if len(x.Results) == 0 && sig != nil {
					for i := 0; i < sig.Results().Len(); i++ {
						var ch bool
						rs[i], ch = locksUnion(rs[i], fl.varT[sig.Results().At(i)])
						fl.changed = fl.changed || ch
					}
					return true
				}
				for i, r := range x.Results {
					if i < len(rs) {
						var ch bool
						rs[i], ch = locksUnion(rs[i], fl.locksTaint(p, r))
						fl.changed = fl.changed || ch
					}
				}
			case *ast.SendStmt:
				if t := fl.locksTaint(p, x.Value); len(t) > 0 {
					fl.locksMarkStored(t, site(x, types.ExprString(x.Chan)+" <- "+locksShortExpr(x.Value)))
				}
			case *ast.CallExpr:
				// X.Store(k, v) / X.Put(v) … on a sync or atomic type; append(dst, v) is judged where its result is assigned
				if sel, ok := x.Fun.(*ast.SelectorExpr); ok && locksStoreMethods[sel.Sel.Name] {
					if tv, ok := info.Types[sel.X]; ok {
						ts := derefType(tv.Type).String()
						if strings.HasPrefix(ts, "sync.") || strings.HasPrefix(ts, "sync/atomic.") || strings.Contains(ts, "atomic.") {
							for _, a := range x.Args {
								if t := fl.locksTaint(p, a); len(t) > 0 {
									fl.locksMarkStored(t, site(x, types.ExprString(sel.X)+"."+sel.Sel.Name+"(…"+locksShortExpr(a)+"…)"))
								}
							}
						}
					}
				}
				// arguments flow into the parameters of a scanned callee
				if fn := fl.locksCalleeOf(p, x); fn != nil {
					if csig, ok := fn.Type().(*types.Signature); ok && fl.resT[fn] != nil {
						for i, a := range x.Args {
							if i < csig.Params().Len() {
								fl.locksSetVar(csig.Params().At(i), fl.locksTaint(p, a))
							}
						}
					}
				}
			}
			return true
		})
	}
	walk(fd.Body, false)
}

func locksShortExpr(e ast.Expr) string {
	s := types.ExprString(e)
	if i := strings.IndexAny(s, "\n{"); i >= 0 {
		s = s[:i] + "…"
	}
	if len(s) > 60 {
		s = s[:60] + "…"
	}
	return s
}

// locksAssign: `lhs = <value holding keys>`: a shared place is a storage site; a local variable becomes a holder.
func (fl *locksFlow) locksAssign(p *packages.Package, lhs ast.Expr, keys map[string]bool, site string) {
	if id, ok := lhs.(*ast.Ident); ok {
		if id.Name == "_" {
			return
		}
		v, _ := p.TypesInfo.Defs[id].(*types.Var)
		if v == nil {
			v, _ = p.TypesInfo.Uses[id].(*types.Var)
		}
		if v != nil && v.Parent() != p.Types.Scope() {
			fl.locksSetVar(v, keys)
			return
		}
	}
	if locksSharedPlace(p, lhs) {
		fl.locksMarkStored(keys, site)
		return
	}
	// a field of a local struct value: the struct variable holds it
	if root := locksRootIdent(lhs); root != nil {
		if v, ok := p.TypesInfo.Uses[root].(*types.Var); ok {
			fl.locksSetVar(v, keys)
		}
	}
}

func locksClosureFacts(t *tr, pkgs []*packages.Package) string {
	fl := &locksFlow{byNode: map[*ast.FuncLit]*locksLit{}, varT: map[*types.Var]map[string]bool{}, resT: map[*types.Func][]map[string]bool{}}
	type declRef struct {
		p  *packages.Package
		fd *ast.FuncDecl
	}
	var decls []declRef
	for _, p := range pkgs {
		for _, f := range p.Syntax {
			if locksIsTestFile(p, f) {
				continue
			}
			for _, d := range f.Decls {
				if fd, ok := d.(*ast.FuncDecl); ok && fd.Body != nil {
					decls = append(decls, declRef{p, fd})
					fl.locksNumberLits(p, fd)
					if fn, ok := p.TypesInfo.Defs[fd.Name].(*types.Func); ok {
						fl.resT[fn] = make([]map[string]bool, fn.Type().(*types.Signature).Results().Len())
					}
				}
			}
		}
	}
	for _, li := range fl.lits {
		locksCaptured(li)
		locksLitWrites(t, li)
		if len(li.writes) > 0 {
			li.ownKeys = map[string]bool{li.key: true}
		}
	}
	for round := 0; round < 50; round++ {
		fl.changed = false
		// a literal that captures a holder holds what the holder holds
		for _, li := range fl.lits {
			for _, v := range li.caps {
				for k := range fl.varT[v] {
					if k != li.key && !li.holds[k] {
						li.holds[k] = true
						fl.changed = true
					}
				}
			}
			if len(li.holds) > 0 {
				var ch, ch2 bool
				li.ownKeys, ch = locksUnion(li.ownKeys, map[string]bool{li.key: true})
				li.ownKeys, ch2 = locksUnion(li.ownKeys, li.holds)
				fl.changed = fl.changed || ch || ch2
			}
		}
		for _, d := range decls {
			fl.locksFlowFunc(d.p, d.fd)
		}
		if !fl.changed {
			break
		}
		if round == 49 {
			t.errs = append(t.errs, "closure flow analysis did not reach a fixpoint")
		}
	}
	sort.Slice(fl.lits, func(i, j int) bool { return fl.lits[i].key < fl.lits[j].key })
	byKey := map[string][]*locksLit{}
	for _, li := range fl.lits {
		byKey[li.key] = append(byKey[li.key], li)
	}
	var lines []string
	var keys []string
	for k := range byKey {
		keys = append(keys, k)
	}
	sort.Strings(keys)
	for _, k := range keys {
		w, h, st := map[string]bool{}, map[string]bool{}, map[string]bool{}
		for _, li := range byKey[k] { // methods of different types with one name: facts are merged
			w, _ = locksUnion(w, li.writes)
			h, _ = locksUnion(h, li.holds)
			st, _ = locksUnion(st, li.stored)
		}
		lines = append(lines, fmt.Sprintf("  ⟨%q, %s, %s, %s⟩", k, locksStrList(locksSorted(w)), locksStrList(locksSorted(h)), locksStrList(locksSorted(st))))
	}
	var b strings.Builder
	b.WriteString("\n/-- regenerated: every function literal of the scanned packages (key, captured variables it assigns outside a mutex\n")
	b.WriteString("section, stateful literals its captured variables may hold, places where its value may be stored) -/\n")
	b.WriteString("def closures : List C11Closure := [\n" + strings.Join(lines, ",\n") + "\n]\n")
	return b.String()
}

func locksStrList(xs []string) string {
	qs := make([]string, len(xs))
	for i, x := range xs {
		qs[i] = fmt.Sprintf("%q", x)
	}
	return "[" + strings.Join(qs, ", ") + "]"
}

// ---------------------------------------------------------------- hand-over sites

var locksGiveCalls = map[string]bool{"Put": true, "Release": true, "Report": true, "releaseSample": true}

// locksHandState: one path through a function body so far: the word (consecutive uses are one letter) and the number of
// deferred hand-overs met
type locksHandState struct {
	word   string
	defers int
}

type locksHand struct {
	p    *packages.Package
	v    *types.Var
	done map[string]bool // the words of the paths that ended (those with a hand-over)
}

func (h *locksHand) uses(n ast.Node) bool {
	found := false
	if n == nil {
		return false
	}
	ast.Inspect(n, func(m ast.Node) bool {
		if id, ok := m.(*ast.Ident); ok && h.p.TypesInfo.Uses[id] == h.v {
			found = true
		}
		return !found
	})
	return found
}

// locksPlainIdent: v, (v) or *v
func locksPlainIdent(e ast.Expr) *ast.Ident {
	switch x := e.(type) {
	case *ast.Ident:
		return x
	case *ast.ParenExpr:
		return locksPlainIdent(x.X)
	case *ast.StarExpr:
		return locksPlainIdent(x.X)
	}
	return nil
}

func locksGiveArg(n ast.Node) ast.Expr {
	switch x := n.(type) {
	case *ast.CallExpr:
		name := ""
		switch fn := x.Fun.(type) {
		case *ast.Ident:
			name = fn.Name
		case *ast.SelectorExpr:
			name = fn.Sel.Name
		}
		if locksGiveCalls[name] && len(x.Args) == 1 {
			return x.Args[0]
		}
	case *ast.SendStmt:
		return x.Value
	}
	return nil
}

func (h *locksHand) gives(n ast.Node) bool {
	for _, arg := range locksGiveArgs(h.p, n) {
		if id := locksPlainIdent(arg); id != nil && h.p.TypesInfo.Uses[id] == h.v {
			return true
		}
	}
	return false
}

// locksGivers: functions of the scanned packages that hand one of their parameters on (on some path, directly or through
// another such function): function -> parameter indices. Filled by the fixpoint of locksHandoverSites; a call
// `f(…, v, …)` of such a function with v in such a position is a hand-over of v by the caller.
var locksGivers = map[*types.Func]map[int]bool{}

// locksGiveArgs: the expressions a node hands on: the argument of a direct hand-over, or the arguments a callee hands on
func locksGiveArgs(p *packages.Package, n ast.Node) []ast.Expr {
	if arg := locksGiveArg(n); arg != nil {
		return []ast.Expr{arg}
	}
	call, ok := n.(*ast.CallExpr)
	if !ok {
		return nil
	}
	var id *ast.Ident
	switch fn := call.Fun.(type) {
	case *ast.Ident:
		id = fn
	case *ast.SelectorExpr:
		id = fn.Sel
	}
	if id == nil {
		return nil
	}
	callee, ok := p.TypesInfo.Uses[id].(*types.Func)
	if !ok {
		return nil
	}
	var out []ast.Expr
	for i := range locksGivers[callee] {
		if i < len(call.Args) {
			out = append(out, call.Args[i])
		}
	}
	return out
}

func locksAddU(w string) string {
	if strings.HasSuffix(w, "U") {
		return w
	}
	return w + "U"
}

func (h *locksHand) use(states []locksHandState, n ast.Node) []locksHandState {
	if !h.uses(n) {
		return states
	}
	out := make([]locksHandState, len(states))
	for i, st := range states {
		out[i] = locksHandState{locksAddU(st.word), st.defers}
	}
	return locksHandDedup(out)
}

func locksHandDedup(states []locksHandState) []locksHandState {
	seen := map[locksHandState]bool{}
	var out []locksHandState
	for _, st := range states {
		if !seen[st] {
			seen[st] = true
			out = append(out, st)
		}
	}
	sort.Slice(out, func(i, j int) bool {
		if out[i].word != out[j].word {
			return out[i].word < out[j].word
		}
		return out[i].defers < out[j].defers
	})
	if len(out) > 64 {
		out = out[:64] // functions of this code base stay far below; a cap keeps the analysis bounded
	}
	return out
}

// end: the paths end here (return, panic, end of the body): deferred hand-overs run now
func (h *locksHand) end(states []locksHandState) {
	for _, st := range states {
		w := st.word + strings.Repeat("G", st.defers)
		if strings.Contains(w, "G") {
			h.done[w] = true
		}
	}
}

// stmts: every path through the list; returns the states of the paths that fall out of its end.
func (h *locksHand) stmts(list []ast.Stmt, states []locksHandState) []locksHandState {
	for _, st := range list {
		if len(states) == 0 {
			return nil
		}
		states = h.stmt(st, states)
	}
	return states
}

func (h *locksHand) give(states []locksHandState) []locksHandState {
	out := make([]locksHandState, len(states))
	for i, st := range states {
		out[i] = locksHandState{st.word + "G", st.defers}
	}
	return out
}

func (h *locksHand) stmt(st ast.Stmt, states []locksHandState) []locksHandState {
	switch x := st.(type) {
	case *ast.ExprStmt:
		if h.gives(x.X) {
			return h.give(states)
		}
		states = h.use(states, x)
		if isPanicCall(x.X) {
			h.end(states)
			return nil
		}
		return states
	case *ast.SendStmt:
		if h.gives(x) {
			return h.give(states)
		}
		return h.use(states, x)
	case *ast.DeferStmt:
		if h.gives(x.Call) {
			out := make([]locksHandState, len(states))
			for i, s := range states {
				out[i] = locksHandState{s.word, s.defers + 1}
			}
			return out
		}
		return h.use(states, x)
	case *ast.ReturnStmt:
		h.end(h.use(states, x))
		return nil
	case *ast.BlockStmt:
		return h.stmts(x.List, states)
	case *ast.LabeledStmt:
		return h.stmt(x.Stmt, states)
	case *ast.IfStmt:
		if x.Init != nil {
			states = h.stmt(x.Init, states)
		}
		states = h.use(states, x.Cond)
		out := h.stmts(x.Body.List, states)
		if x.Else != nil {
			out = append(out, h.stmt(x.Else, states)...)
		} else {
			out = append(out, states...)
		}
		return locksHandDedup(out)
	case *ast.ForStmt, *ast.RangeStmt:
		var body *ast.BlockStmt
		if f, ok := x.(*ast.ForStmt); ok {
			if f.Init != nil {
				states = h.stmt(f.Init, states)
			}
			states = h.use(states, f.Cond)
			body = f.Body
		} else {
			r := x.(*ast.RangeStmt)
			states = h.use(states, r.X)
			body = r.Body
		}
		// zero iterations, one, and — when the variable lives across iterations — two
		out := append([]locksHandState(nil), states...)
		once := h.stmts(body.List, states)
		out = append(out, once...)
		if !(h.v.Pos() >= st.Pos() && h.v.Pos() < st.End()) {
			out = append(out, h.stmts(body.List, once)...)
		}
		return locksHandDedup(out)
	case *ast.SwitchStmt, *ast.TypeSwitchStmt, *ast.SelectStmt:
		var clauses []ast.Stmt
		hasDefault := false
		switch y := x.(type) {
		case *ast.SwitchStmt:
			if y.Init != nil {
				states = h.stmt(y.Init, states)
			}
			states = h.use(states, y.Tag)
			clauses = y.Body.List
		case *ast.TypeSwitchStmt:
			states = h.use(states, y.Assign)
			clauses = y.Body.List
		case *ast.SelectStmt:
			clauses = y.Body.List
			hasDefault = true // a select always takes one of its clauses
		}
		var out []locksHandState
		for _, c := range clauses {
			switch cc := c.(type) {
			case *ast.CaseClause:
				if cc.List == nil {
					hasDefault = true
				}
				out = append(out, h.stmts(cc.Body, states)...)
			case *ast.CommClause:
				s2 := states
				if cc.Comm != nil {
					s2 = h.stmt(cc.Comm, s2)
				}
				out = append(out, h.stmts(cc.Body, s2)...)
			}
		}
		if !hasDefault {
			out = append(out, states...)
		}
		return locksHandDedup(out)
	case *ast.BranchStmt:
		// break / continue / goto: the path goes on after the enclosing statement; approximated by falling through
		return states
	default:
		return h.use(states, st)
	}
}

// locksHandoverType: samples and ammo — the objects that change hands
func locksHandoverType(t types.Type) bool {
	t = derefType(t)
	switch x := t.(type) {
	case *types.Named:
		n := x.Obj().Name()
		return strings.Contains(n, "Sample") || strings.Contains(n, "Ammo") || strings.Contains(n, "Scenario")
	case *types.Alias:
		return locksHandoverType(types.Unalias(x))
	case *types.TypeParam:
		return true
	case *types.Interface:
		return true // interface{} (what a sync.Pool holds); `error` is a named type and excluded above
	}
	return false
}

// locksHandoverSites: every (function or function literal, variable) with a direct hand-over.
func locksHandoverSites(t *tr, pkgs []*packages.Package) string {
	var rows []string
	locksGivers = map[*types.Func]map[int]bool{}
	// fixpoint: a function that hands a parameter on makes its callers hand their argument on
	for round := 0; round < 6; round++ {
		var grew bool
		rows, grew = locksHandoverPass(pkgs)
		if !grew {
			break
		}
	}
	sort.Strings(rows)
	rows = locksDedup(rows)
	var b strings.Builder
	b.WriteString("\n/-- regenerated: (function, variable, word) for every function that hands a sample or an ammo on — U use, G\n")
	b.WriteString("hand-over (channel send, Put, Release, Report, releaseSample, or a call of a function that hands that parameter on) —\n")
	b.WriteString("one word per path through the function (a loop runs zero, one or two times; deferred hand-overs come last) -/\n")
	b.WriteString("def handoverSites : List (String × String × String) := [\n" + strings.Join(rows, ",\n") + "\n]\n")
	return b.String()
}

// locksHandoverPass: one pass over all functions with the current set of givers; reports whether the set grew.
func locksHandoverPass(pkgs []*packages.Package) (rows []string, grew bool) {
	for _, p := range pkgs {
		short := strings.TrimPrefix(p.PkgPath, locksPandora)
		for _, f := range p.Syntax {
			if locksIsTestFile(p, f) {
				continue
			}
			for _, d := range f.Decls {
				fd, ok := d.(*ast.FuncDecl)
				if !ok || fd.Body == nil {
					continue
				}
				// bodies: the declaration and each of its literals, each on its own (a literal inside a body counts as one use
				// of whatever it mentions)
				type bodyRef struct {
					name string
					body *ast.BlockStmt
				}
				bodies := []bodyRef{{fd.Name.Name, fd.Body}}
				ast.Inspect(fd.Body, func(m ast.Node) bool {
					if l, ok := m.(*ast.FuncLit); ok {
						bodies = append(bodies, bodyRef{fd.Name.Name + ".func", l.Body})
					}
					return true
				})
				for _, b := range bodies {
					// candidate variables: those handed on directly somewhere in this body (not inside a nested literal)
					cands := map[*types.Var]bool{}
					ast.Inspect(b.body, func(m ast.Node) bool {
						if l, ok := m.(*ast.FuncLit); ok && l.Body != b.body {
							return false
						}
						for _, arg := range locksGiveArgs(p, m) {
							if id := locksPlainIdent(arg); id != nil {
								if v, ok := p.TypesInfo.Uses[id].(*types.Var); ok && !v.IsField() && v.Parent() != p.Types.Scope() && locksHandoverType(v.Type()) {
									cands[v] = true
								}
							}
						}
						return true
					})
					var vs []*types.Var
					for v := range cands {
						vs = append(vs, v)
					}
					sort.Slice(vs, func(i, j int) bool { return vs[i].Pos() < vs[j].Pos() })
					for _, v := range vs {
						h := &locksHand{p: p, v: v, done: map[string]bool{}}
						h.end(h.stmts(b.body.List, []locksHandState{{}}))
						for _, w := range locksSorted(h.done) {
							rows = append(rows, fmt.Sprintf("  (%q, %q, %q)", short+"."+b.name, v.Name(), w))
						}
						// the declaration itself hands a parameter on: its callers do
						if b.body == fd.Body && len(h.done) > 0 {
							if fn, ok := p.TypesInfo.Defs[fd.Name].(*types.Func); ok {
								i := 0
								for _, f := range fd.Type.Params.List {
									for _, nm := range f.Names {
										if p.TypesInfo.Defs[nm] == v && !locksGivers[fn][i] {
											if locksGivers[fn] == nil {
												locksGivers[fn] = map[int]bool{}
											}
											locksGivers[fn][i] = true
											grew = true
										}
										i++
									}
									if len(f.Names) == 0 {
										i++
									}
								}
							}
						}
					}
				}
			}
		}
	}
	return rows, grew
}

func locksDedup(xs []string) []string {
	var out []string
	for i, x := range xs {
		if i == 0 || x != xs[i-1] {
			out = append(out, x)
		}
	}
	return out
}

// ---------------------------------------------------------------- the substr modifier

const locksPostprocPkg = locksPandora + "components/providers/scenario/http/postprocessor"

var locksLeanKeywords = map[string]bool{"end": true, "from": true, "to": true, "at": true, "open": true, "in": true, "fun": true, "do": true, "then": true, "else": true, "if": true, "let": true, "have": true, "show": true, "by": true, "with": true, "match": true}

func locksLeanName(n string) string {
	if locksLeanKeywords[n] {
		return n + "_"
	}
	return n
}

// locksSubstr translates the closure returned by substr: its captured integer variables are the state, `l := len(in)`
// the length; the body must be a sequence of `if cond { assignments }` / assignments over them, ended by
// `return in[a:b]`.
func locksSubstr(t *tr, p *packages.Package) string {
	if p == nil {
		t.errs = append(t.errs, "package "+locksPostprocPkg+" not loaded")
		return ""
	}
	var fd *ast.FuncDecl
	for _, f := range p.Syntax {
		for _, d := range f.Decls {
			if x, ok := d.(*ast.FuncDecl); ok && x.Name.Name == "substr" && x.Recv != nil && x.Body != nil {
				fd = x
			}
		}
	}
	if fd == nil {
		t.errs = append(t.errs, "method substr not found in "+locksPostprocPkg)
		return ""
	}
	var lit *ast.FuncLit
	for _, st := range fd.Body.List {
		if r, ok := st.(*ast.ReturnStmt); ok && len(r.Results) >= 1 {
			if l, ok := r.Results[0].(*ast.FuncLit); ok {
				lit = l
			}
		}
	}
	if lit == nil || len(lit.Type.Params.List) != 1 || len(lit.Type.Params.List[0].Names) != 1 {
		t.errs = append(t.errs, "substr does not return a one-parameter function literal")
		return ""
	}
	in := lit.Type.Params.List[0].Names[0].Name
	// state: the integer variables of substr the literal refers to, in order of declaration
	li := &locksLit{p: p, fd: fd, lit: lit, capSet: map[*types.Var]bool{}}
	locksCaptured(li)
	var state []string
	for _, v := range li.caps {
		if b, isBasic := v.Type().Underlying().(*types.Basic); isBasic && b.Info()&types.IsInteger != 0 {
			state = append(state, v.Name())
		} else {
			t.errs = append(t.errs, "substr closure captures non-integer variable "+v.Name())
		}
	}
	if len(state) != 2 {
		t.errs = append(t.errs, fmt.Sprintf("substr closure: expected two captured integers (start, end), found %v", state))
		return ""
	}
	// SSA emission: every assignment (conditional or not) introduces a new version of the variable it assigns
	lenVar := ""
	var lines []string
	slice := ""
	version := map[string]int{}
	retLow, retHigh := "0", "0"
	cur := map[string]string{} // Go name -> current Lean name
	for _, sv := range state {
		cur[sv] = locksLeanName(sv)
	}
	// expr translates with the given environment (Go name -> Lean expression)
	var expr func(e ast.Expr, env map[string]string) string
	expr = func(e ast.Expr, env map[string]string) string {
		switch x := e.(type) {
		case *ast.ParenExpr:
			return expr(x.X, env)
		case *ast.Ident:
			if v, has := env[x.Name]; has {
				return v
			}
		case *ast.BasicLit:
			if x.Kind == token.INT {
				return x.Value
			}
		case *ast.UnaryExpr:
			if x.Op == token.SUB {
				return "(-" + expr(x.X, env) + ")"
			}
		case *ast.BinaryExpr:
			switch x.Op {
			case token.ADD, token.SUB, token.MUL:
				return "(" + expr(x.X, env) + " " + x.Op.String() + " " + expr(x.Y, env) + ")"
			}
		}
		t.errs = append(t.errs, fmt.Sprintf("%s: unsupported: integer expression %s in substr closure", p.Fset.Position(e.Pos()), types.ExprString(e)))
		return "0"
	}
	var cond func(e ast.Expr, env map[string]string) string
	cond = func(e ast.Expr, env map[string]string) string {
		if b, isBin := e.(*ast.BinaryExpr); isBin {
			switch b.Op {
			case token.LSS, token.GTR:
				return expr(b.X, env) + " " + b.Op.String() + " " + expr(b.Y, env)
			case token.LEQ:
				return expr(b.X, env) + " ≤ " + expr(b.Y, env)
			case token.GEQ:
				return expr(b.X, env) + " ≥ " + expr(b.Y, env)
			case token.EQL:
				return expr(b.X, env) + " = " + expr(b.Y, env)
			case token.NEQ:
				return expr(b.X, env) + " ≠ " + expr(b.Y, env)
			case token.LAND:
				return "(" + cond(b.X, env) + ") ∧ (" + cond(b.Y, env) + ")"
			case token.LOR:
				return "(" + cond(b.X, env) + ") ∨ (" + cond(b.Y, env) + ")"
			}
		}
		if pe, isParen := e.(*ast.ParenExpr); isParen {
			return cond(pe.X, env)
		}
		t.errs = append(t.errs, fmt.Sprintf("%s: unsupported: condition %s in substr closure", p.Fset.Position(e.Pos()), types.ExprString(e)))
		return "True"
	}
	// assign applies one (possibly simultaneous) assignment to an environment of expressions
	assign := func(a *ast.AssignStmt, env map[string]string) map[string]string {
		out := map[string]string{}
		for k, v := range env {
			out[k] = v
		}
		if (a.Tok != token.ASSIGN && a.Tok != token.DEFINE) || len(a.Lhs) != len(a.Rhs) {
			t.errs = append(t.errs, fmt.Sprintf("%s: unsupported: assignment in substr closure", p.Fset.Position(a.Pos())))
			return out
		}
		for i, l := range a.Lhs {
			id, isId := l.(*ast.Ident)
			isState := false
			if isId {
				_, isState = cur[id.Name]
			}
			if isId && a.Tok == token.DEFINE {
				isState = true // a new local integer
			}
			if !isState {
				t.errs = append(t.errs, fmt.Sprintf("%s: unsupported: assignment to %s in substr closure", p.Fset.Position(a.Pos()), types.ExprString(l)))
				continue
			}
			out[id.Name] = expr(a.Rhs[i], env) // every right-hand side sees the values before the assignment
		}
		return out
	}
	envNow := func() map[string]string {
		env := map[string]string{}
		for k, v := range cur {
			env[k] = v
		}
		if lenVar != "" {
			env[lenVar] = locksLeanName(lenVar)
		}
		return env
	}
	commit := func(condText string, after map[string]string) {
		before := envNow()
		var names []string
		for k := range after {
			if k != lenVar {
				names = append(names, k)
			}
		}
		sort.Strings(names)
		for _, sv := range names {
			if after[sv] == before[sv] {
				continue
			}
			if _, known := before[sv]; !known && condText != "" {
				t.errs = append(t.errs, "substr closure: variable "+sv+" is defined inside a conditional")
				continue
			}
			version[sv]++
			name := fmt.Sprintf("%s%d", strings.TrimSuffix(locksLeanName(sv), "_"), version[sv])
			if condText == "" {
				if _, known := before[sv]; !known && version[sv] == 1 {
					name = locksLeanName(sv) + "0"
				}
				lines = append(lines, fmt.Sprintf("  let %s : Int := %s", name, after[sv]))
			} else {
				lines = append(lines, fmt.Sprintf("  let %s : Int := if %s then %s else %s", name, condText, after[sv], before[sv]))
			}
			cur[sv] = name
		}
	}
	for _, st := range lit.Body.List {
		switch x := st.(type) {
		case *ast.AssignStmt:
			if x.Tok == token.DEFINE && len(x.Lhs) == 1 && len(x.Rhs) == 1 {
				if call, isCall := x.Rhs[0].(*ast.CallExpr); isCall {
					if id, isId := call.Fun.(*ast.Ident); isId && id.Name == "len" && len(call.Args) == 1 && types.ExprString(call.Args[0]) == in {
						lenVar = x.Lhs[0].(*ast.Ident).Name
						continue
					}
				}
			}
			commit("", assign(x, envNow()))
		case *ast.IfStmt:
			if x.Init != nil || x.Else != nil {
				t.errs = append(t.errs, fmt.Sprintf("%s: unsupported: if with init/else in substr closure", p.Fset.Position(x.Pos())))
				continue
			}
			env := envNow()
			c := cond(x.Cond, env)
			for _, bs := range x.Body.List {
				a, isAssign := bs.(*ast.AssignStmt)
				if !isAssign {
					t.errs = append(t.errs, fmt.Sprintf("%s: unsupported: statement in if body of substr closure", p.Fset.Position(bs.Pos())))
					continue
				}
				env = assign(a, env)
			}
			commit(c, env)
		case *ast.ReturnStmt:
			if len(x.Results) == 1 {
				if se, isSlice := x.Results[0].(*ast.SliceExpr); isSlice && types.ExprString(se.X) == in && se.Low != nil && se.High != nil && !se.Slice3 {
					slice = types.ExprString(se.Low) + ":" + types.ExprString(se.High)
					env := envNow()
					retLow, retHigh = expr(se.Low, env), expr(se.High, env)
					continue
				}
			}
			t.errs = append(t.errs, fmt.Sprintf("%s: unsupported: substr closure returns %s", p.Fset.Position(x.Pos()), locksShortExpr(x.Results[0])))
		default:
			t.errs = append(t.errs, fmt.Sprintf("%s: unsupported: statement in substr closure", p.Fset.Position(st.Pos())))
		}
	}
	tuple := "(" + retLow + ", " + retHigh + ")"
	// which captured variables the body assigns: the versions it introduced
	var assigned []string
	for _, sv := range state {
		if version[sv] > 0 {
			assigned = append(assigned, sv)
		}
	}
	if lenVar == "" {
		t.errs = append(t.errs, "substr closure: no `l := len(in)`")
		lenVar = "l"
	}
	var b strings.Builder
	b.WriteString("\n/-- regenerated from the closure returned by `(*VarHeaderPostprocessor).substr`: the bounds of the slice one call\n")
	b.WriteString("returns, computed from the two captured integers (in order of declaration) and the length of its argument -/\n")
	b.WriteString("def substrBody (" + locksLeanName(state[0]) + " " + locksLeanName(state[1]) + " " + locksLeanName(lenVar) + " : Int) : Int × Int :=\n")
	b.WriteString(strings.Join(lines, "\n") + "\n  " + tuple + "\n")
	b.WriteString("\n/-- the captured integers in order of declaration, those of them the body assigns (it leaves the slice bounds in them),\n")
	b.WriteString("and the slice expression the closure returns -/\n")
	b.WriteString(fmt.Sprintf("def substrState : List String := %s\n", locksStrList(state)))
	b.WriteString(fmt.Sprintf("def substrAssigns : List String := %s\n", locksStrList(assigned)))
	b.WriteString(fmt.Sprintf("def substrSlices : String := %q\n", slice))
	return b.String()
}

// ---------------------------------------------------------------- package-level variables

// locksPkgVars: every package-level variable of the scanned packages with the functions (other than `init`) that write
// it — assign it, one of its fields or elements, take its address, or call a method on it when it is a math/rand.Rand —
// and how each write is protected (the held-set tracker of the first part: mutex / once, or the variable's own type:
// atomic, sync.Map, sync.Pool, channel). The reflection walker of the driver cannot reach package-level state; this is
// its static counterpart.
func locksPkgVars(t *tr, pkgs []*packages.Package) string {
	var rows []string
	for _, p := range pkgs {
		short := strings.TrimPrefix(p.PkgPath, locksPandora)
		scope := p.Types.Scope()
		vars := map[types.Object]string{}
		for _, name := range scope.Names() {
			if v, ok := scope.Lookup(name).(*types.Var); ok {
				pos := p.Fset.Position(v.Pos())
				if strings.HasSuffix(pos.Filename, "_test.go") {
					continue
				}
				vars[v] = name
			}
		}
		if len(vars) == 0 {
			continue
		}
		writers := map[string]map[string]bool{} // var -> "func(guard)"
		for _, f := range p.Syntax {
			if locksIsTestFile(p, f) {
				continue
			}
			for _, d := range f.Decls {
				fd, ok := d.(*ast.FuncDecl)
				if !ok || fd.Body == nil || fd.Name.Name == "init" {
					continue
				}
				s := &lockScan{t: t, p: p, tgt: lockTarget{pkg: short}, fields: map[string]*types.Var{}, vars: vars, writes: map[ast.Expr]bool{}}
				s.fn = fd.Name.Name
				// address-of and method calls with pointer receivers on struct variables count as writes
				ast.Inspect(fd.Body, func(m ast.Node) bool {
					if u, ok := m.(*ast.UnaryExpr); ok && u.Op == token.AND {
						s.writes[baseOf(u.X)] = true
					}
					return true
				})
				s.scanBody(fd.Body)
				for _, r := range s.rows {
					if !r.write {
						continue
					}
					g := r.guard
					if r.unguarded {
						g = ".none"
					}
					name := strings.TrimPrefix(r.obj, short+".")
					if writers[name] == nil {
						writers[name] = map[string]bool{}
					}
					writers[name][fmt.Sprintf("(%q, %q)", fd.Name.Name, g)] = true
				}
			}
		}
		for v, name := range vars {
			ty := types.TypeString(v.Type(), func(q *types.Package) string { return q.Name() })
			rows = append(rows, fmt.Sprintf("  (%q, %q, [%s])", short+"."+name, ty, strings.Join(locksSorted(writers[name]), ", ")))
		}
	}
	sort.Strings(rows)
	var b strings.Builder
	b.WriteString("\n/-- regenerated: every package-level variable of the scanned packages (name, type, the functions other than `init`\n")
	b.WriteString("that write it, each with the protection of the write as a `C11Guard` term in text) -/\n")
	b.WriteString("def pkgVars : List (String × String × List (String × String)) := [\n" + strings.Join(rows, ",\n") + "\n]\n")
	return b.String()
}
