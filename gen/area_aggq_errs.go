package main

// Area "aggq", part 3 (C06 round 3): how the encoder aggregator's Run composes its final error.
//
//   - `lib/errutil.Join` as a case table: a `switch { case c: return r … }` or a chain of `if c { return r }`
//     statements followed by a final return, over the two parameters; conditions and results are canonicalised
//     (`a`, `b` for the first and second parameter) so that neither the parameter names nor the switch-vs-if
//     spelling matter:   [("a=nil","b"), ("b=nil","a"), ("default","append(a,b)")]
//   - the deferred functions of `dataSinkAggregator.Run`, in order of registration: for each the list of things
//     joined into the named result with `err = errutil.Join(err, X)`, X named by the method that produced it
//     (full name from the type checker; an `errors.WithMessage(X, …)` decoration is looked through).
//     Anything else that assigns the named result inside a deferred function is listed as "assign:<text>" so that
//     a guard like `if err == nil { err = … }` does not go unnoticed.
//
// Lean side: Model/C06ErrJoin.lean (evalJoin over the table), Bridge/C06ErrJoin.lean.

import (
	"fmt"
	"go/ast"
	"go/token"
	"go/types"
	"strings"

	"golang.org/x/tools/go/packages"
)

func aggqErrParamName(info *types.Info, params []*types.Var, e ast.Expr) string {
	id, ok := e.(*ast.Ident)
	if !ok {
		return ""
	}
	obj := info.Uses[id]
	for i, p := range params {
		if obj == p {
			return string(rune('a' + i))
		}
	}
	return ""
}

// aggqErrCond: `x == nil` over a parameter → "a=nil"; anything else → "?<text>"
func aggqErrCond(t *tr, info *types.Info, params []*types.Var, e ast.Expr) string {
	if p, ok := e.(*ast.ParenExpr); ok {
		return aggqErrCond(t, info, params, p.X)
	}
	if b, ok := e.(*ast.BinaryExpr); ok && b.Op == token.EQL {
		l, r := b.X, b.Y
		if id, isID := l.(*ast.Ident); isID && id.Name == "nil" {
			l, r = r, l
		}
		if id, isID := r.(*ast.Ident); isID && id.Name == "nil" {
			if n := aggqErrParamName(info, params, l); n != "" {
				return n + "=nil"
			}
		}
	}
	return "?" + phoutSrc(t, e)
}

func aggqErrRet(t *tr, info *types.Info, params []*types.Var, rs []ast.Expr) string {
	if len(rs) != 1 {
		return "?" + fmt.Sprint(len(rs)) + " results"
	}
	e := rs[0]
	if n := aggqErrParamName(info, params, e); n != "" {
		return n
	}
	if id, ok := e.(*ast.Ident); ok && id.Name == "nil" {
		return "nil"
	}
	if c, ok := e.(*ast.CallExpr); ok && len(c.Args) >= 1 {
		if sel, isSel := c.Fun.(*ast.SelectorExpr); isSel && sel.Sel.Name == "Append" {
			if f, isFunc := info.Uses[sel.Sel].(*types.Func); isFunc && f.Pkg() != nil && strings.HasSuffix(f.Pkg().Path(), "go-multierror") {
				var as []string
				for _, a := range c.Args {
					n := aggqErrParamName(info, params, a)
					if n == "" {
						n = "?" + phoutSrc(t, a)
					}
					as = append(as, n)
				}
				return "append(" + strings.Join(as, ",") + ")"
			}
		}
	}
	return "?" + phoutSrc(t, e)
}

// aggqErrJoinTable: the case table of errutil.Join
func aggqErrJoinTable(t *tr, p *packages.Package) [][2]string {
	fd := aggqFindMethod(p, "", "Join")
	if fd == nil || fd.Body == nil {
		t.errs = append(t.errs, "lib/errutil: func Join not found")
		return nil
	}
	obj, _ := p.TypesInfo.Defs[fd.Name].(*types.Func)
	if obj == nil {
		t.errs = append(t.errs, "lib/errutil: Join has no type")
		return nil
	}
	sig := obj.Type().(*types.Signature)
	var params []*types.Var
	for i := 0; i < sig.Params().Len(); i++ {
		params = append(params, sig.Params().At(i))
	}
	if len(params) != 2 {
		t.errs = append(t.errs, "lib/errutil: Join does not take two parameters")
		return nil
	}
	info := p.TypesInfo
	var out [][2]string
	var walk func(list []ast.Stmt) bool // false: a shape that is not understood
	walk = func(list []ast.Stmt) bool {
		for _, st := range list {
			switch x := st.(type) {
			case *ast.SwitchStmt:
				if x.Tag != nil || x.Init != nil {
					return false
				}
				for _, c := range x.Body.List {
					cc := c.(*ast.CaseClause)
					if len(cc.Body) != 1 {
						return false
					}
					r, ok := cc.Body[0].(*ast.ReturnStmt)
					if !ok {
						return false
					}
					cond := "default"
					if cc.List != nil {
						var cs []string
						for _, e := range cc.List {
							cs = append(cs, aggqErrCond(t, info, params, e))
						}
						cond = strings.Join(cs, "|")
					}
					out = append(out, [2]string{cond, aggqErrRet(t, info, params, r.Results)})
				}
				// a `default` that is not the last clause is still tried last by Go
				for i, e := range out {
					if e[0] == "default" && i != len(out)-1 {
						out = append(append(out[:i:i], out[i+1:]...), e)
						break
					}
				}
			case *ast.IfStmt:
				if x.Init != nil || x.Else != nil || len(x.Body.List) != 1 {
					return false
				}
				r, ok := x.Body.List[0].(*ast.ReturnStmt)
				if !ok {
					return false
				}
				out = append(out, [2]string{aggqErrCond(t, info, params, x.Cond), aggqErrRet(t, info, params, r.Results)})
			case *ast.ReturnStmt:
				out = append(out, [2]string{"default", aggqErrRet(t, info, params, x.Results)})
				return true
			default:
				return false
			}
		}
		return true
	}
	if !walk(fd.Body.List) {
		t.errs = append(t.errs, "lib/errutil: Join is not a table of `case cond: return value`")
		return nil
	}
	return out
}

// aggqErrOrigin: the method whose result the expression is ("" when it is not a call result that can be traced)
func aggqErrOrigin(info *types.Info, scope *ast.FuncLit, e ast.Expr) string {
	switch x := e.(type) {
	case *ast.ParenExpr:
		return aggqErrOrigin(info, scope, x.X)
	case *ast.CallExpr:
		if sel, ok := x.Fun.(*ast.SelectorExpr); ok {
			if f, isFunc := info.Uses[sel.Sel].(*types.Func); isFunc {
				full := f.FullName()
				if strings.HasPrefix(full, "github.com/pkg/errors.WithMessage") || strings.HasPrefix(full, "github.com/pkg/errors.Wrap") {
					if len(x.Args) >= 1 {
						return aggqErrOrigin(info, scope, x.Args[0])
					}
				}
				return full
			}
		}
		return ""
	case *ast.Ident:
		obj := info.Uses[x]
		if obj == nil {
			return ""
		}
		// its (single) definition inside the deferred function
		found := ""
		n := 0
		ast.Inspect(scope, func(c ast.Node) bool {
			as, ok := c.(*ast.AssignStmt)
			if !ok {
				return true
			}
			for i, l := range as.Lhs {
				id, isID := l.(*ast.Ident)
				if !isID {
					continue
				}
				if info.Defs[id] == obj || (as.Tok == token.ASSIGN && info.Uses[id] == obj) {
					n++
					if len(as.Lhs) == len(as.Rhs) {
						found = aggqErrOrigin(info, scope, as.Rhs[i])
					}
				}
			}
			return true
		})
		if n == 1 {
			return found
		}
	}
	return ""
}

// aggqErrDeferJoins: for every deferred function literal of (dataSinkAggregator).Run, in order of registration, what it
// joins into the named result
func aggqErrDeferJoins(t *tr) [][]string {
	fd := aggqFindMethod(t.pkg, "dataSinkAggregator", "Run")
	if fd == nil || fd.Body == nil {
		t.errs = append(t.errs, "core/aggregator/encoder.go: (dataSinkAggregator).Run not found")
		return nil
	}
	info := t.pkg.TypesInfo
	var result types.Object
	if fd.Type.Results != nil {
		for _, f := range fd.Type.Results.List {
			for _, n := range f.Names {
				result = info.Defs[n]
			}
		}
	}
	if result == nil {
		t.errs = append(t.errs, "core/aggregator/encoder.go: Run has no named result")
		return nil
	}
	var out [][]string
	for _, st := range fd.Body.List {
		d, ok := st.(*ast.DeferStmt)
		if !ok {
			continue
		}
		fl, ok := d.Call.Fun.(*ast.FuncLit)
		if !ok {
			continue
		}
		var joins []string
		ast.Inspect(fl.Body, func(n ast.Node) bool {
			as, ok := n.(*ast.AssignStmt)
			if !ok || len(as.Lhs) != 1 || len(as.Rhs) != 1 {
				return true
			}
			id, isID := as.Lhs[0].(*ast.Ident)
			if !isID || info.Uses[id] != result {
				return true
			}
			if c, isCall := as.Rhs[0].(*ast.CallExpr); isCall && len(c.Args) == 2 {
				if sel, isSel := c.Fun.(*ast.SelectorExpr); isSel {
					if f, isFunc := info.Uses[sel.Sel].(*types.Func); isFunc && strings.HasSuffix(f.FullName(), "lib/errutil.Join") {
						if a0, isA := c.Args[0].(*ast.Ident); isA && info.Uses[a0] == result {
							o := aggqErrOrigin(info, fl, c.Args[1])
							if o == "" {
								o = "?" + phoutSrc(t, c.Args[1])
							}
							joins = append(joins, o)
							return true
						}
					}
				}
			}
			joins = append(joins, "assign:"+phoutSrc(t, as))
			return true
		})
		// a guard on the named result changes which joins happen
		ast.Inspect(fl.Body, func(n ast.Node) bool {
			ifs, ok := n.(*ast.IfStmt)
			if !ok {
				return true
			}
			mentions := false
			ast.Inspect(ifs.Cond, func(c ast.Node) bool {
				if id, isID := c.(*ast.Ident); isID && info.Uses[id] == result {
					mentions = true
				}
				return true
			})
			if mentions {
				joins = append(joins, "guard:"+phoutSrc(t, ifs.Cond))
			}
			return true
		})
		if len(joins) > 0 {
			out = append(out, joins)
		}
	}
	return out
}

func aggqErrFacts(b *strings.Builder, t *tr) {
	p := load("github.com/yandex/pandora/lib/errutil")
	t2 := &tr{pkg: p, known: map[string]string{}}
	tbl := aggqErrJoinTable(t2, p)
	t.errs = append(t.errs, t2.errs...)
	fmt.Fprintf(b, "/-- regenerated from `lib/errutil/errutil.go` `Join`: (condition, returned value) per case, `a`/`b` = first/second parameter -/\n")
	var rows []string
	for _, r := range tbl {
		rows = append(rows, "("+aggqLeanStr(r[0])+", "+aggqLeanStr(r[1])+")")
	}
	fmt.Fprintf(b, "def errutilJoinCases : List (String × String) :=\n  [%s]\n\n", strings.Join(rows, ", "))
	dj := aggqErrDeferJoins(t)
	fmt.Fprintf(b, "/-- regenerated from `(dataSinkAggregator).Run`: per deferred function (in order of registration) what it joins into the named result with `errutil.Join` -/\n")
	var ds []string
	for _, d := range dj {
		var es []string
		for _, e := range d {
			es = append(es, aggqLeanStr(e))
		}
		ds = append(ds, "["+strings.Join(es, ", ")+"]")
	}
	fmt.Fprintf(b, "def encoderDeferJoins : List (List String) :=\n  [%s]\n\n", strings.Join(ds, ", "))
}
