package main

// Area "c15walk" (property C15, round 3): regenerates from the CURRENT source, into lean/Pandora/Gen/C15Walk.lean (core Lean,
// vocabulary of Pandora/Model/C15Walk.lean and Model/C15.lean):
//
//	lib/mp/map.go                        GetMapValue       -> `walkCode : WalkCode` (the body of the segment loop: one instruction per statement),
//	                                                          `walkSplit` (prefix trimmed from the path, separator)
//	                                     calcIndex         -> `calcCode : List COp` (order of guards and keyword branches)
//	                                     extractFromSlice  -> `extractValid`, `extractCases` (list types accepted / handled; every case returns v[index])
//	scenario/templater/templater.go      parseStr, ParseFunc, GetFuncs -> `strFnFacts`, `funcNames`, `parseFuncExact`
//	scenario/templater/func.go           ExecTemplateFuncWithVariables + preprocessor.Process -> `entryCode`
//	scenario/provider.go                 Provider.Run      -> `feedIndex`, `feedPassNum`, `feedPassStop`, `feedLimitStop`, `feedOrder`
//
// Every statement of the translated regions must match a handled shape, otherwise gen fails (broken obligation). Local
// names never appear in the output.

import (
	"fmt"
	"go/ast"
	"go/constant"
	"go/token"
	"sort"
	"strconv"
	"strings"

	"golang.org/x/tools/go/packages"
)

func init() {
	areas["c15walk"] = area{
		pkgPath:   "github.com/yandex/pandora/lib/mp",
		module:    "C15Walk",
		namespace: "Pandora.Gen.C15Walk",
		imports:   []string{"Pandora.Model.C15Lock", "Pandora.Model.C15Walk"},
		extra:     c15walkExtra,
	}
}

type c15walkX struct {
	*c15scenX
}

func (x *c15walkX) rel(n ast.Node) string {
	return strings.TrimPrefix(x.pkg.Fset.Position(n.Pos()).Filename, repo+"/")
}

func (x *c15walkX) call(e ast.Expr) (string, *ast.CallExpr) {
	c, ok := e.(*ast.CallExpr)
	if !ok {
		return "", nil
	}
	return x.src(c.Fun), c
}

// strLit: a constant string expression
func (x *c15walkX) strLit(e ast.Expr) (string, bool) {
	if tv, ok := x.pkg.TypesInfo.Types[e]; ok && tv.Value != nil && tv.Value.Kind() == constant.String {
		return constant.StringVal(tv.Value), true
	}
	return "", false
}

// char1: a constant one-character string or a byte/rune constant, as a Lean Char literal
func (x *c15walkX) char1(e ast.Expr) (string, bool) {
	if s, ok := x.strLit(e); ok && len(s) == 1 {
		return c15walkChar(s[0]), true
	}
	if tv, ok := x.pkg.TypesInfo.Types[e]; ok && tv.Value != nil && tv.Value.Kind() == constant.Int {
		if v, ok := constant.Int64Val(tv.Value); ok && v > 0 && v < 128 {
			return c15walkChar(byte(v)), true
		}
	}
	return "", false
}

func c15walkChar(c byte) string {
	switch c {
	case '\'':
		return `'\''`
	case '\\':
		return `'\\'`
	}
	return "'" + string(c) + "'"
}

// returnsErr: `if <cond> { return …, <non-nil> }` with exactly one statement
func (x *c15walkX) returnsErr(s ast.Stmt, cond string) bool {
	is, ok := s.(*ast.IfStmt)
	if !ok || is.Init != nil || is.Else != nil || x.src(is.Cond) != cond || len(is.Body.List) != 1 {
		return false
	}
	r, ok := is.Body.List[0].(*ast.ReturnStmt)
	if !ok || len(r.Results) == 0 {
		return false
	}
	return x.src(r.Results[len(r.Results)-1]) != "nil"
}

// ---------------------------------------------------------------- GetMapValue

type c15walkNames struct {
	seg, idx, builder, cur, segments, iter string
}

// offset: e == base + k / base - k / base (k a small constant) -> k (signed)
func (x *c15walkX) offset(e ast.Expr, base string) (int64, bool) {
	if x.src(e) == base {
		return 0, true
	}
	if b, ok := e.(*ast.BinaryExpr); ok && x.src(b.X) == base {
		if tv, ok := x.pkg.TypesInfo.Types[b.Y]; ok && tv.Value != nil && tv.Value.Kind() == constant.Int {
			k, _ := constant.Int64Val(tv.Value)
			switch b.Op {
			case token.ADD:
				return k, true
			case token.SUB:
				return -k, true
			}
		}
	}
	return 0, false
}

func (x *c15walkX) branchOps(stmts []ast.Stmt, nm c15walkNames) []string {
	var ops []string
	openVar, idxStrVar, valVar := "", "", ""
	for i := 0; i < len(stmts); i++ {
		s := stmts[i]
		as, isAs := s.(*ast.AssignStmt)
		if isAs && len(as.Rhs) == 1 {
			rhs := as.Rhs[0]
			// openBraceIdx := strings.Index(segment, "[")
			if n, c := x.call(rhs); n == "strings.Index" && len(as.Lhs) == 1 && as.Tok == token.DEFINE && len(c.Args) == 2 && x.src(c.Args[0]) == nm.seg {
				if ch, ok := x.char1(c.Args[1]); ok {
					openVar = x.src(as.Lhs[0])
					ops = append(ops, ".openIdx "+ch)
					continue
				}
			}
			// indexStr := strings.ToLower(strings.TrimSpace(segment[openBraceIdx+1 : len(segment)-1]))
			if len(as.Lhs) == 1 && as.Tok == token.DEFINE && openVar != "" {
				lower, trim := false, false
				e := rhs
				for {
					n, c := x.call(e)
					if n == "strings.ToLower" && len(c.Args) == 1 && !lower {
						lower, e = true, c.Args[0]
						continue
					}
					if n == "strings.TrimSpace" && len(c.Args) == 1 && !trim {
						trim, e = true, c.Args[0]
						continue
					}
					break
				}
				if sl, ok := e.(*ast.SliceExpr); ok && !sl.Slice3 && x.src(sl.X) == nm.seg && sl.Low != nil && sl.High != nil {
					lo, ok1 := x.offset(sl.Low, openVar)
					hi, ok2 := x.offset(sl.High, "len("+nm.seg+")")
					if ok1 && ok2 {
						idxStrVar = x.src(as.Lhs[0])
						ops = append(ops, fmt.Sprintf(".indexStr %v %v %s %s", lower, trim, c15walkInt(lo), c15walkInt(-hi)))
						continue
					}
				}
			}
			// segment = segment[:openBraceIdx]
			if len(as.Lhs) == 1 && as.Tok == token.ASSIGN && x.src(as.Lhs[0]) == nm.seg && openVar != "" {
				if sl, ok := rhs.(*ast.SliceExpr); ok && !sl.Slice3 && x.src(sl.X) == nm.seg && sl.Low == nil && sl.High != nil && x.src(sl.High) == openVar {
					ops = append(ops, ".cutName")
					continue
				}
			}
			// pathVal, ok := current[segment]; if !ok { return nil, err }
			if len(as.Lhs) == 2 && as.Tok == token.DEFINE && x.src(rhs) == nm.cur+"["+nm.seg+"]" && i+1 < len(stmts) && x.returnsErr(stmts[i+1], "!"+x.src(as.Lhs[1])) {
				valVar = x.src(as.Lhs[0])
				ops = append(ops, ".lookup")
				i++
				continue
			}
			// sliceElement, err := extractFromSlice(pathVal, indexStr, curSegment.String(), iter); if err != nil { return nil, … }
			if n, c := x.call(rhs); n == "extractFromSlice" && len(as.Lhs) == 2 && len(c.Args) == 4 && valVar != "" && idxStrVar != "" &&
				x.src(c.Args[0]) == valVar && x.src(c.Args[1]) == idxStrVar && x.src(c.Args[3]) == nm.iter &&
				i+1 < len(stmts) && x.returnsErr(stmts[i+1], x.src(as.Lhs[1])+" != nil") {
				key := ""
				switch x.src(c.Args[2]) {
				case nm.builder + ".String()":
					key = ".builder"
				case nm.seg:
					key = ".segment"
				}
				if key != "" {
					valVar = x.src(as.Lhs[0])
					ops = append(ops, ".extract "+key)
					i++
					continue
				}
			}
			// current, ok = x.(map[string]any); if !ok { if i != len(segments)-1 { return nil, err }; return x, nil }
			if ta, ok := rhs.(*ast.TypeAssertExpr); ok && len(as.Lhs) == 2 && as.Tok == token.ASSIGN && x.src(as.Lhs[0]) == nm.cur && valVar != "" &&
				x.src(ta.X) == valVar && x.src(ta.Type) == "map[string]any" && i+1 < len(stmts) {
				if is, ok := stmts[i+1].(*ast.IfStmt); ok && is.Init == nil && is.Else == nil && x.src(is.Cond) == "!"+x.src(as.Lhs[1]) && len(is.Body.List) == 2 {
					okInner := x.returnsErr(is.Body.List[0], nm.idx+" != len("+nm.segments+")-1") || x.returnsErr(is.Body.List[0], nm.idx+" != len("+nm.segments+") - 1")
					r, isRet := is.Body.List[1].(*ast.ReturnStmt)
					if okInner && isRet && len(r.Results) == 2 && x.src(r.Results[0]) == valVar && x.src(r.Results[1]) == "nil" && i+2 == len(stmts) {
						ops = append(ops, ".descend")
						i++
						continue
					}
				}
			}
		}
		x.fail(s, "statement of a branch of the segment loop: %s", x.src(s))
	}
	return ops
}

func c15walkInt(k int64) string {
	if k < 0 {
		return fmt.Sprintf("(%d)", k)
	}
	return strconv.FormatInt(k, 10)
}

func (x *c15walkX) walkCode(fd *ast.FuncDecl) string {
	x.ctx = "GetMapValue"
	if fd.Type.Params == nil || len(fd.Type.Params.List) != 3 {
		return x.fail(fd, "GetMapValue: three parameters expected")
	}
	pname := func(i int) string { return fd.Type.Params.List[i].Names[0].Name }
	nm := c15walkNames{cur: pname(0), iter: pname(2)}
	path := pname(1)
	var loop *ast.RangeStmt
	split := ""
	for i, s := range fd.Body.List {
		switch v := s.(type) {
		case *ast.IfStmt:
			// if current == nil { return nil, nil }
			if x.src(v.Cond) == nm.cur+" == nil" && loop == nil {
				continue
			}
		case *ast.DeclStmt:
			if gd, ok := v.Decl.(*ast.GenDecl); ok && gd.Tok == token.VAR && len(gd.Specs) == 1 {
				if vs, ok := gd.Specs[0].(*ast.ValueSpec); ok && len(vs.Names) == 1 && len(vs.Values) == 0 && x.src(vs.Type) == "strings.Builder" && loop == nil {
					nm.builder = vs.Names[0].Name
					continue
				}
			}
		case *ast.AssignStmt:
			// segments := strings.Split(strings.TrimPrefix(path, "."), ".")
			if len(v.Lhs) == 1 && len(v.Rhs) == 1 && v.Tok == token.DEFINE && loop == nil {
				if n, c := x.call(v.Rhs[0]); n == "strings.Split" && len(c.Args) == 2 {
					if n2, c2 := x.call(c.Args[0]); n2 == "strings.TrimPrefix" && len(c2.Args) == 2 && x.src(c2.Args[0]) == path {
						p, ok1 := x.strLit(c2.Args[1])
						sep, ok2 := x.strLit(c.Args[1])
						if ok1 && ok2 {
							nm.segments = x.src(v.Lhs[0])
							split = fmt.Sprintf("(%s, %s)", strconv.Quote(p), strconv.Quote(sep))
							continue
						}
					}
				}
			}
		case *ast.RangeStmt:
			if loop == nil && nm.segments != "" && x.src(v.X) == nm.segments && v.Key != nil && v.Value != nil {
				loop = v
				nm.idx, nm.seg = x.src(v.Key), x.src(v.Value)
				continue
			}
		case *ast.ReturnStmt:
			if loop != nil && i == len(fd.Body.List)-1 && len(v.Results) == 2 && x.src(v.Results[0]) == nm.cur && x.src(v.Results[1]) == "nil" {
				continue
			}
		}
		x.fail(s, "statement of GetMapValue: %s", x.src(s))
	}
	if loop == nil || nm.builder == "" || split == "" {
		return x.fail(fd, "GetMapValue: key builder / split / segment loop not all found")
	}
	var head []string
	needle, suffix := "", ""
	var indexed, plain []string
	for i, s := range loop.Body.List {
		if as, ok := s.(*ast.AssignStmt); ok && len(as.Lhs) == 1 && len(as.Rhs) == 1 && as.Tok == token.ASSIGN && x.src(as.Lhs[0]) == nm.seg {
			if n, c := x.call(as.Rhs[0]); n == "strings.TrimSpace" && len(c.Args) == 1 && x.src(c.Args[0]) == nm.seg {
				head = append(head, ".trim")
				continue
			}
		}
		if es, ok := s.(*ast.ExprStmt); ok {
			n, c := x.call(es.X)
			if n == nm.builder+".WriteByte" && len(c.Args) == 1 {
				if ch, ok := x.char1(c.Args[0]); ok {
					head = append(head, ".keyByte "+ch)
					continue
				}
			}
			if n == nm.builder+".WriteString" && len(c.Args) == 1 && x.src(c.Args[0]) == nm.seg {
				head = append(head, ".keySeg")
				continue
			}
		}
		if is, ok := s.(*ast.IfStmt); ok && is.Init == nil && i == len(loop.Body.List)-1 {
			if be, ok := is.Cond.(*ast.BinaryExpr); ok && be.Op == token.LAND {
				n1, c1 := x.call(be.X)
				n2, c2 := x.call(be.Y)
				eb, isBlock := is.Else.(*ast.BlockStmt)
				if n1 == "strings.Contains" && n2 == "strings.HasSuffix" && len(c1.Args) == 2 && len(c2.Args) == 2 &&
					x.src(c1.Args[0]) == nm.seg && x.src(c2.Args[0]) == nm.seg && isBlock {
					a, ok1 := x.char1(c1.Args[1])
					b, ok2 := x.char1(c2.Args[1])
					if ok1 && ok2 {
						needle, suffix = a, b
						indexed = x.branchOps(is.Body.List, nm)
						plain = x.branchOps(eb.List, nm)
						continue
					}
				}
			}
		}
		x.fail(s, "statement of the segment loop: %s", x.src(s))
	}
	if needle == "" {
		return x.fail(loop, "the `if strings.Contains(segment, …) && strings.HasSuffix(segment, …)` of the segment loop was not found")
	}
	return fmt.Sprintf("/-- regenerated from `%s` func `GetMapValue`: the body of `for %s, %s := range %s` -/\ndef walkCode : WalkCode where\n  head := [%s]\n  needle := %s\n  suffix := %s\n  indexed := [%s]\n  plain := [%s]\n\n/-- `%s := strings.Split(strings.TrimPrefix(%s, p), sep)`: (p, sep) -/\ndef walkSplit : String × String := %s\n",
		x.rel(fd), "i", "segment", "segments", strings.Join(head, ", "), needle, suffix, strings.Join(indexed, ", "), strings.Join(plain, ", "), "segments", "path", split)
}

// ---------------------------------------------------------------- calcIndex

// kwConj: cond is a conjunction whose conjuncts are `indexStr != "k"` (plus, when withErr, exactly one `err != nil`)
func (x *c15walkX) kwConj(e ast.Expr, idxStr string, withErr bool) ([]string, bool) {
	var parts []ast.Expr
	var flat func(e ast.Expr)
	flat = func(e ast.Expr) {
		if p, ok := e.(*ast.ParenExpr); ok {
			flat(p.X)
			return
		}
		if b, ok := e.(*ast.BinaryExpr); ok && b.Op == token.LAND {
			flat(b.X)
			flat(b.Y)
			return
		}
		parts = append(parts, e)
	}
	flat(e)
	var kws []string
	errs := 0
	for _, p := range parts {
		if x.src(p) == "err != nil" {
			errs++
			continue
		}
		b, ok := p.(*ast.BinaryExpr)
		if !ok || b.Op != token.NEQ || x.src(b.X) != idxStr {
			return nil, false
		}
		s, ok := x.strLit(b.Y)
		if !ok {
			return nil, false
		}
		kws = append(kws, strconv.Quote(s))
	}
	if (withErr && errs != 1) || (!withErr && errs != 0) || len(kws) == 0 {
		return nil, false
	}
	return kws, true
}

func (x *c15walkX) calcCode(fd *ast.FuncDecl) string {
	x.ctx = "calcIndex"
	if fd.Type.Params == nil {
		return x.fail(fd, "calcIndex: parameters")
	}
	var pn []string
	for _, f := range fd.Type.Params.List {
		for _, n := range f.Names {
			pn = append(pn, n.Name)
		}
	}
	if len(pn) != 4 {
		return x.fail(fd, "calcIndex: four parameters expected")
	}
	idxStr, segment, length, iter := pn[0], pn[1], pn[2], pn[3]
	var ops []string
	done := false
	for _, s := range fd.Body.List {
		if done {
			break // the statements after `index = iter.Next(segment)` are `Gen.C15Scen.nextIndex`
		}
		switch v := s.(type) {
		case *ast.AssignStmt:
			if len(v.Rhs) == 1 {
				n, c := x.call(v.Rhs[0])
				if n == "strconv.Atoi" && len(v.Lhs) == 2 && len(c.Args) == 1 && x.src(c.Args[0]) == idxStr && x.src(v.Lhs[1]) == "err" {
					ops = append(ops, ".atoi")
					continue
				}
				if n == iter+".Next" && len(v.Lhs) == 1 && len(c.Args) == 1 && x.src(c.Args[0]) == segment {
					ops = append(ops, ".next")
					done = true
					continue
				}
			}
		case *ast.IfStmt:
			if v.Init != nil || v.Else != nil {
				break
			}
			if kws, ok := x.kwConj(v.Cond, idxStr, true); ok && len(v.Body.List) == 1 && x.returnsErr(s, x.src(v.Cond)) {
				ops = append(ops, ".refuseBad ["+strings.Join(kws, ", ")+"]")
				continue
			}
			c := x.src(v.Cond)
			if (c == length+" <= 0" || c == length+" == 0" || c == length+" < 1") && x.returnsErr(s, c) {
				ops = append(ops, ".refuseEmpty")
				continue
			}
			if kws, ok := x.kwConj(v.Cond, idxStr, false); ok {
				ops = append(ops, ".numeric ["+strings.Join(kws, ", ")+"]") // the branch itself: Gen.C15Flow.idxNumeric
				continue
			}
			if b, ok := v.Cond.(*ast.BinaryExpr); ok && b.Op == token.EQL && x.src(b.X) == idxStr && len(v.Body.List) == 1 {
				kw, okk := x.strLit(b.Y)
				r, okr := v.Body.List[0].(*ast.ReturnStmt)
				if okk && okr && len(r.Results) == 2 && x.src(r.Results[1]) == "nil" {
					switch x.src(r.Results[0]) {
					case length + " - 1", length + "-1":
						ops = append(ops, ".last "+strconv.Quote(kw))
						continue
					case iter + ".Rand(" + length + ")":
						ops = append(ops, ".rand "+strconv.Quote(kw))
						continue
					}
				}
			}
		}
		x.fail(s, "statement of calcIndex: %s", x.src(s))
	}
	if !done {
		return x.fail(fd, "calcIndex: `index = iter.Next(segment)` not found")
	}
	return fmt.Sprintf("/-- regenerated from `%s` func `calcIndex`: the guards and the keyword branches in source order (the numeric branch is `Gen.C15Flow.idxNumeric`, the tail after `iter.Next` is `Gen.C15Scen.nextIndex`) -/\ndef calcCode : List COp :=\n  [%s]\n",
		x.rel(fd), strings.Join(ops, ", "))
}

// ---------------------------------------------------------------- extractFromSlice

func (x *c15walkX) extract(fd *ast.FuncDecl) string {
	x.ctx = "extractFromSlice"
	var valid, cases []string
	idxVar := ""
	ast.Inspect(fd.Body, func(n ast.Node) bool {
		if as, ok := n.(*ast.AssignStmt); ok && len(as.Rhs) == 1 {
			if cl, ok := as.Rhs[0].(*ast.CompositeLit); ok && x.src(cl.Type) == "[]reflect.Type" {
				for _, e := range cl.Elts {
					nm, c := x.call(e)
					if nm == "reflect.TypeOf" && len(c.Args) == 1 {
						if inner, ok := c.Args[0].(*ast.CompositeLit); ok && len(inner.Elts) == 0 {
							valid = append(valid, strconv.Quote(x.src(inner.Type)))
							continue
						}
					}
					x.fail(e, "element of validTypes: %s", x.src(e))
				}
			}
			if nm, _ := x.call(as.Rhs[0]); nm == "calcIndex" && len(as.Lhs) == 2 {
				idxVar = x.src(as.Lhs[0])
			}
		}
		return true
	})
	for _, s := range fd.Body.List {
		ts, ok := s.(*ast.TypeSwitchStmt)
		if !ok {
			continue
		}
		as, ok := ts.Assign.(*ast.AssignStmt)
		if !ok || len(as.Lhs) != 1 {
			x.fail(ts, "type switch without a bound variable")
			continue
		}
		v := x.src(as.Lhs[0])
		for _, cc := range ts.Body.List {
			cl := cc.(*ast.CaseClause)
			if len(cl.List) != 1 {
				x.fail(cl, "case with %d types", len(cl.List))
				continue
			}
			ty := x.src(cl.List[0])
			last, ok := cl.Body[len(cl.Body)-1].(*ast.ReturnStmt)
			if !ok || len(last.Results) != 2 || x.src(last.Results[1]) != "nil" {
				x.fail(cl, "case %s does not end in `return …, nil`", ty)
				continue
			}
			want := v + "[" + idxVar + "]"
			switch {
			case len(cl.Body) == 1 && x.src(last.Results[0]) == want:
			case len(cl.Body) == 3 && ty == "[]map[string]string":
				// currentData := make(map[string]any, len(v[index])); for k, val := range v[index] { currentData[k] = val }; return currentData, nil
				a0, ok0 := cl.Body[0].(*ast.AssignStmt)
				r1, ok1 := cl.Body[1].(*ast.RangeStmt)
				good := ok0 && ok1 && len(a0.Lhs) == 1 && x.src(a0.Lhs[0]) == x.src(last.Results[0]) && x.src(r1.X) == want && r1.Key != nil && r1.Value != nil && len(r1.Body.List) == 1
				if good {
					if ia, ok := r1.Body.List[0].(*ast.AssignStmt); !ok || len(ia.Lhs) != 1 || x.src(ia.Lhs[0]) != x.src(a0.Lhs[0])+"["+x.src(r1.Key)+"]" || x.src(ia.Rhs[0]) != x.src(r1.Value) {
						good = false
					}
				}
				if !good {
					x.fail(cl, "case %s: copy of the row expected", ty)
				}
			default:
				x.fail(cl, "case %s does not return %s", ty, want)
			}
			cases = append(cases, strconv.Quote(ty))
		}
	}
	if len(valid) == 0 || len(cases) == 0 || idxVar == "" {
		return x.fail(fd, "extractFromSlice: validTypes / calcIndex / type switch not all found")
	}
	return fmt.Sprintf("/-- regenerated from `%s` func `extractFromSlice`: the list types accepted (`validTypes`) and the cases of the type switch, each of which returns row `index` -/\ndef extractValid : List String := [%s]\n\ndef extractCases : List String := [%s]\n",
		x.rel(fd), strings.Join(valid, ", "), strings.Join(cases, ", "))
}

// ---------------------------------------------------------------- templater: parseStr, ParseFunc, GetFuncs, Exec…

func (x *c15walkX) strFn(parseStr, parseFunc, getFuncs *ast.FuncDecl) string {
	x.ctx = "templater"
	var b strings.Builder
	// parseStr
	openC, closeC, sepC := "", "", ""
	trimArgs, emptyNoArgs := false, false
	v := parseStr.Type.Params.List[0].Names[0].Name
	for _, s := range parseStr.Body.List {
		switch w := s.(type) {
		case *ast.AssignStmt:
			if len(w.Rhs) == 1 && len(w.Lhs) == 1 {
				n, c := x.call(w.Rhs[0])
				if n == "strings.Split" && len(c.Args) == 2 && x.src(c.Args[0]) == v {
					if ch, ok := x.char1(c.Args[1]); ok {
						if openC == "" {
							openC = ch
						} else {
							sepC = ch
						}
						continue
					}
				}
				if n == "strings.TrimSuffix" && len(c.Args) == 2 && x.src(w.Lhs[0]) == v {
					// v = strings.TrimSuffix(strings.Join(args[1:], "("), ")")
					if n2, c2 := x.call(c.Args[0]); n2 == "strings.Join" && len(c2.Args) == 2 && strings.HasSuffix(x.src(c2.Args[0]), "[1:]") {
						j, ok1 := x.char1(c2.Args[1])
						cl, ok2 := x.char1(c.Args[1])
						if ok1 && ok2 && j == openC {
							closeC = cl
							continue
						}
					}
				}
				// name := args[0]
				if strings.HasSuffix(x.src(w.Rhs[0]), "[0]") && w.Tok == token.DEFINE {
					continue
				}
			}
		case *ast.IfStmt:
			c := x.src(w.Cond)
			switch {
			case strings.HasPrefix(c, "len(") && (strings.HasSuffix(c, ") == 0") || strings.HasSuffix(c, ") == 1")) && !strings.Contains(c, "&&"):
				continue // no `(`: the whole text is the name
			case strings.Contains(c, ") == 1 && ") && strings.HasSuffix(c, `[0] == ""`):
				emptyNoArgs = true
				continue
			}
		case *ast.ForStmt:
			// for i := 0; i < len(args); i++ { args[i] = strings.TrimSpace(args[i]) }
			if len(w.Body.List) == 1 {
				if as, ok := w.Body.List[0].(*ast.AssignStmt); ok && len(as.Rhs) == 1 {
					if n, c := x.call(as.Rhs[0]); n == "strings.TrimSpace" && len(c.Args) == 1 && x.src(c.Args[0]) == x.src(as.Lhs[0]) {
						trimArgs = true
						continue
					}
				}
			}
		case *ast.ReturnStmt:
			continue
		}
		x.fail(s, "statement of parseStr: %s", x.src(s))
	}
	if openC == "" || closeC == "" || sepC == "" {
		return x.fail(parseStr, "parseStr: open / close / separator not all found")
	}
	fmt.Fprintf(&b, "/-- regenerated from `%s` func `parseStr` -/\ndef strFnFacts : StrFnFacts := { openC := %s, closeC := %s, sepC := %s, trimArgs := %v, emptyNoArgs := %v }\n\n",
		x.rel(parseStr), openC, closeC, sepC, trimArgs, emptyNoArgs)
	// GetFuncs
	var names []string
	ast.Inspect(getFuncs.Body, func(n ast.Node) bool {
		if cl, ok := n.(*ast.CompositeLit); ok {
			for _, e := range cl.Elts {
				if kv, ok := e.(*ast.KeyValueExpr); ok {
					if s, ok := x.strLit(kv.Key); ok {
						names = append(names, s)
					}
				}
			}
			return false
		}
		return true
	})
	sort.Strings(names)
	var q []string
	for _, n := range names {
		q = append(q, strconv.Quote(n))
	}
	fmt.Fprintf(&b, "/-- regenerated from `%s` func `GetFuncs`: the names usable in a preprocessor mapping (sorted) -/\ndef funcNames : List String := [%s]\n\n", x.rel(getFuncs), strings.Join(q, ", "))
	// ParseFunc: name, args := parseStr(v); if f, ok := GetFuncs()[name]; ok { return f, args }; return nil, nil
	exact := false
	if len(parseFunc.Body.List) == 3 {
		a0, ok0 := parseFunc.Body.List[0].(*ast.AssignStmt)
		i1, ok1 := parseFunc.Body.List[1].(*ast.IfStmt)
		r2, ok2 := parseFunc.Body.List[2].(*ast.ReturnStmt)
		if ok0 && ok1 && ok2 && len(a0.Lhs) == 2 && len(a0.Rhs) == 1 && i1.Init != nil && len(r2.Results) == 2 && x.src(r2.Results[0]) == "nil" {
			if n, _ := x.call(a0.Rhs[0]); n == "parseStr" {
				if ia, ok := i1.Init.(*ast.AssignStmt); ok && len(ia.Rhs) == 1 && x.src(ia.Rhs[0]) == "GetFuncs()["+x.src(a0.Lhs[0])+"]" && x.src(i1.Cond) == x.src(ia.Lhs[1]) && len(i1.Body.List) == 1 {
					if r, ok := i1.Body.List[0].(*ast.ReturnStmt); ok && len(r.Results) == 2 && x.src(r.Results[0]) == x.src(ia.Lhs[0]) && x.src(r.Results[1]) == x.src(a0.Lhs[1]) {
						exact = true
					}
				}
			}
		}
	}
	if !exact {
		x.fail(parseFunc, "ParseFunc: `name, args := parseStr(v); if f, ok := GetFuncs()[name]; ok { return f, args }; return nil, nil` expected")
	}
	fmt.Fprintf(&b, "/-- `ParseFunc` looks the text before the first `(` up in `GetFuncs()` by its exact name -/\ndef parseFuncExact : Bool := %v\n", exact)
	return b.String()
}

func (x *c15walkX) entryCode(process *ast.FuncDecl, xe *c15walkX, exec *ast.FuncDecl) string {
	x.ctx = "Preprocessor.Process"
	funcFirst := false
	for _, s := range process.Body.List {
		rs, ok := s.(*ast.RangeStmt)
		if !ok || x.src(rs.X) != "p.Mapping" || rs.Value == nil {
			continue
		}
		v := x.src(rs.Value)
		funVar, argsVar := "", ""
		for _, b := range rs.Body.List {
			if as, ok := b.(*ast.AssignStmt); ok && len(as.Rhs) == 1 && len(as.Lhs) == 2 {
				if n, c := x.call(as.Rhs[0]); n == "templater.ParseFunc" && len(c.Args) == 1 && x.src(c.Args[0]) == v {
					funVar, argsVar = x.src(as.Lhs[0]), x.src(as.Lhs[1])
				}
			}
			if is, ok := b.(*ast.IfStmt); ok && funVar != "" && x.src(is.Cond) == funVar+" != nil" {
				eb, okb := is.Else.(*ast.BlockStmt)
				if okb && len(is.Body.List) == 1 && len(eb.List) == 1 {
					a1, ok1 := is.Body.List[0].(*ast.AssignStmt)
					a2, ok2 := eb.List[0].(*ast.AssignStmt)
					if ok1 && ok2 && len(a1.Rhs) == 1 && len(a2.Rhs) == 1 {
						n1, c1 := x.call(a1.Rhs[0])
						n2, c2 := x.call(a2.Rhs[0])
						if n1 == "templater.ExecTemplateFuncWithVariables" && len(c1.Args) == 4 && x.src(c1.Args[0]) == funVar && x.src(c1.Args[1]) == argsVar &&
							x.src(c1.Args[2]) == "templateVars" && x.src(c1.Args[3]) == "p.iterator" &&
							n2 == "mp.GetMapValue" && len(c2.Args) == 3 && x.src(c2.Args[0]) == "templateVars" && x.src(c2.Args[1]) == v && x.src(c2.Args[2]) == "p.iterator" {
							funcFirst = true
						}
					}
				}
			}
		}
	}
	if !funcFirst {
		x.fail(process, "Preprocessor.Process: `fun, args := templater.ParseFunc(v); if fun != nil { Exec…(fun, args, templateVars, p.iterator) } else { mp.GetMapValue(templateVars, v, p.iterator) }` not found")
	}
	// ExecTemplateFuncWithVariables: for i := range args { v, err := mp.GetMapValue(templateVars, args[i], iter); if err == nil { a[i] = v } else { a[i] = args[i] } }
	xe.ctx = "ExecTemplateFuncWithVariables"
	argOk, argErr := "", ""
	var pn []string
	for _, f := range exec.Type.Params.List {
		for _, n := range f.Names {
			pn = append(pn, n.Name)
		}
	}
	if len(pn) != 4 {
		return xe.fail(exec, "four parameters expected")
	}
	args, vars, iter := pn[1], pn[2], pn[3]
	rule := func(e ast.Expr, val, arg string) string {
		switch xe.src(e) {
		case val:
			return ".value"
		case arg:
			return ".literal"
		case "nil":
			return ".nilValue"
		}
		return ""
	}
	callsWithArgs := false
	for _, s := range exec.Body.List {
		switch w := s.(type) {
		case *ast.RangeStmt:
			if xe.src(w.X) != args || w.Key == nil || len(w.Body.List) != 2 {
				break
			}
			arg := args + "[" + xe.src(w.Key) + "]"
			as, ok := w.Body.List[0].(*ast.AssignStmt)
			is, ok2 := w.Body.List[1].(*ast.IfStmt)
			if !ok || !ok2 || len(as.Lhs) != 2 || len(as.Rhs) != 1 {
				break
			}
			n, c := xe.call(as.Rhs[0])
			if n != "mp.GetMapValue" || len(c.Args) != 3 || xe.src(c.Args[0]) != vars || xe.src(c.Args[1]) != arg || xe.src(c.Args[2]) != iter {
				break
			}
			val, errv := xe.src(as.Lhs[0]), xe.src(as.Lhs[1])
			eb, okb := is.Else.(*ast.BlockStmt)
			if !okb || len(is.Body.List) != 1 || len(eb.List) != 1 {
				break
			}
			t1, okt := is.Body.List[0].(*ast.AssignStmt)
			t2, oke := eb.List[0].(*ast.AssignStmt)
			if !okt || !oke || len(t1.Rhs) != 1 || len(t2.Rhs) != 1 {
				break
			}
			switch xe.src(is.Cond) {
			case errv + " == nil":
				argOk, argErr = rule(t1.Rhs[0], val, arg), rule(t2.Rhs[0], val, arg)
			case errv + " != nil":
				argErr, argOk = rule(t1.Rhs[0], val, arg), rule(t2.Rhs[0], val, arg)
			}
		case *ast.TypeSwitchStmt:
			for _, cc := range w.Body.List {
				cl := cc.(*ast.CaseClause)
				if len(cl.List) == 1 && strings.Contains(xe.src(cl.List[0]), "...any") && len(cl.Body) == 1 {
					if r, ok := cl.Body[0].(*ast.ReturnStmt); ok && len(r.Results) == 1 {
						if c, ok := r.Results[0].(*ast.CallExpr); ok && c.Ellipsis != token.NoPos && len(c.Args) == 1 {
							callsWithArgs = true
						}
					}
				}
			}
		}
	}
	if argOk == "" || argErr == "" || !callsWithArgs {
		xe.fail(exec, "ExecTemplateFuncWithVariables: the argument loop `v, err := mp.GetMapValue(vars, args[i], iter); if err == nil { a[i] = … } else { a[i] = … }` / the variadic call were not found")
		argOk, argErr = ".value", ".value"
	}
	return fmt.Sprintf("/-- regenerated from `%s` (`Preprocessor.Process`: function or path) and `%s` (`ExecTemplateFuncWithVariables`: what an argument becomes) -/\ndef entryCode : EntryCode := { funcFirst := %v, argOk := %s, argErr := %s }\n",
		x.rel(process), xe.rel(exec), funcFirst, argOk, argErr)
}

// ---------------------------------------------------------------- Provider.Run

func (x *c15walkX) feed(fd *ast.FuncDecl) string {
	x.ctx = "Provider.Run"
	var loop *ast.ForStmt
	for _, s := range fd.Body.List {
		if f, ok := s.(*ast.ForStmt); ok && f.Cond == nil && f.Init == nil && f.Post == nil {
			loop = f
		}
	}
	if loop == nil {
		return x.fail(fd, "the endless loop of Run was not found")
	}
	x.vars = map[string]string{"p.cfg.Passes": "passes", "p.cfg.Limit": "limit", "ammoNum": "ammoNum", "passNum": "passNum", "length": "length"}
	var order []string
	var b strings.Builder
	idxVar := ""
	for _, s := range loop.Body.List {
		switch v := s.(type) {
		case *ast.AssignStmt:
			if len(v.Lhs) == 1 && len(v.Rhs) == 1 {
				l, r := x.src(v.Lhs[0]), x.src(v.Rhs[0])
				switch {
				case r == "ctx.Err()":
					order = append(order, `"ctx"`)
					continue
				case strings.Contains(r, "ammoNum") && strings.Contains(r, "%") && v.Tok == token.DEFINE:
					idxVar = l
					fmt.Fprintf(&b, "/-- `%s := %s` -/\ndef feedIndex (ammoNum length : Int) : Int := %s\n\n", "i", r, x.expr(v.Rhs[0], nil))
					order = append(order, `"index"`)
					continue
				case l == "passNum":
					fmt.Fprintf(&b, "/-- `passNum = %s` -/\ndef feedPassNum (ammoNum length : Int) : Int := %s\n\n", r, x.expr(v.Rhs[0], nil))
					order = append(order, `"pass"`)
					continue
				case idxVar != "" && r == "p.ammos["+idxVar+"]":
					order = append(order, `"pick"`)
					continue
				}
			}
		case *ast.IncDecStmt:
			if x.src(v.X) == "ammoNum" && v.Tok == token.INC {
				order = append(order, `"incr"`)
				continue
			}
		case *ast.IfStmt:
			c := x.src(v.Cond)
			if v.Init == nil && v.Else == nil {
				if c == "err != nil" {
					continue // context cancelled
				}
				if len(v.Body.List) == 1 {
					if r, ok := v.Body.List[0].(*ast.ReturnStmt); ok && len(r.Results) == 1 {
						switch x.src(r.Results[0]) {
						case "decoders.ErrPassLimit":
							fmt.Fprintf(&b, "/-- `if %s { return ErrPassLimit }` -/\ndef feedPassStop (passes passNum : Int) : Prop := %s\n\ninstance (passes passNum : Int) : Decidable (feedPassStop passes passNum) := by unfold feedPassStop; exact inferInstance\n\n", c, x.expr(v.Cond, nil))
							order = append(order, `"passStop"`)
							continue
						case "decoders.ErrAmmoLimit":
							fmt.Fprintf(&b, "/-- `if %s { return ErrAmmoLimit }` -/\ndef feedLimitStop (limit ammoNum : Int) : Prop := %s\n\ninstance (limit ammoNum : Int) : Decidable (feedLimitStop limit ammoNum) := by unfold feedLimitStop; exact inferInstance\n\n", c, x.expr(v.Cond, nil))
							order = append(order, `"limitStop"`)
							continue
						}
					}
				}
			}
		case *ast.SelectStmt:
			// select { case <-ctx.Done(): …; case p.sink <- ammo: }
			sends := 0
			for _, cc := range v.Body.List {
				if cm, ok := cc.(*ast.CommClause); ok {
					if snd, ok := cm.Comm.(*ast.SendStmt); ok && x.src(snd.Chan) == "p.sink" {
						sends++
					}
				}
			}
			if sends == 1 {
				order = append(order, `"send"`)
				continue
			}
		}
		x.fail(s, "statement of the loop of Run: %s", x.src(s))
	}
	x.vars = nil
	pos := map[string]int{}
	for i, o := range order {
		if _, dup := pos[o]; dup {
			x.fail(loop, "statement %s occurs twice in the loop of Run", o)
		}
		pos[o] = i + 1
	}
	before := func(a, b string) bool { return pos[a] != 0 && pos[b] != 0 && pos[a] < pos[b] }
	facts := []struct {
		name string
		ok   bool
	}{
		{"index-before-incr", before(`"index"`, `"incr"`)},
		{"pass-before-passStop", before(`"pass"`, `"passStop"`)},
		{"pass-before-incr", before(`"pass"`, `"incr"`)},
		{"passStop-before-incr", before(`"passStop"`, `"incr"`)},
		{"limitStop-before-incr", before(`"limitStop"`, `"incr"`)},
		{"incr-before-send", before(`"incr"`, `"send"`)},
		{"index-before-pick", before(`"index"`, `"pick"`)},
		{"pick-before-send", before(`"pick"`, `"send"`)},
	}
	var fs []string
	for _, f := range facts {
		fs = append(fs, fmt.Sprintf("(%s, %v)", strconv.Quote(f.name), f.ok))
	}
	fmt.Fprintf(&b, "/-- regenerated from `%s` method `Provider.Run`: the order of the statements of the loop that matters (independent statements may be reordered) -/\ndef feedFacts : List (String × Bool) := [%s]\n", x.rel(fd), strings.Join(fs, ", "))
	return b.String()
}

// c15walkMethod finds a method also when its receiver type is generic (`*Provider[A]`).
func c15walkMethod(p *packages.Package, recvType, name string) *ast.FuncDecl {
	for _, f := range p.Syntax {
		for _, d := range f.Decls {
			fd, ok := d.(*ast.FuncDecl)
			if !ok || fd.Name.Name != name || fd.Recv == nil || len(fd.Recv.List) != 1 {
				continue
			}
			ty := fd.Recv.List[0].Type
			if st, ok := ty.(*ast.StarExpr); ok {
				ty = st.X
			}
			if ix, ok := ty.(*ast.IndexExpr); ok {
				ty = ix.X
			}
			if id, ok := ty.(*ast.Ident); ok && id.Name == recvType {
				return fd
			}
		}
	}
	return nil
}

func c15walkExtra(t *tr) string {
	const (
		pMp   = "github.com/yandex/pandora/lib/mp"
		pTpl  = "github.com/yandex/pandora/components/providers/scenario/templater"
		pPre  = "github.com/yandex/pandora/components/providers/scenario/http/preprocessor"
		pProv = "github.com/yandex/pandora/components/providers/scenario"
	)
	pk := c15scenLoad(pMp, pTpl, pPre, pProv)
	var b strings.Builder
	b.WriteString("open Pandora.Model.C15\n\n")
	need := func(p *packages.Package, recv, name string) *ast.FuncDecl {
		fd := c15scenFunc(p, recv, name)
		if fd == nil {
			t.errs = append(t.errs, fmt.Sprintf("c15walk: %s.%s not found in %s", recv, name, p.PkgPath))
		}
		return fd
	}
	mk := func(p *packages.Package) *c15walkX {
		return &c15walkX{&c15scenX{t: t, pkg: p, calls: map[string]string{}}}
	}
	xm := mk(pk[pMp])
	if fd := need(pk[pMp], "", "GetMapValue"); fd != nil {
		b.WriteString(xm.walkCode(fd) + "\n")
	}
	if fd := need(pk[pMp], "", "calcIndex"); fd != nil {
		b.WriteString(xm.calcCode(fd) + "\n")
	}
	if fd := need(pk[pMp], "", "extractFromSlice"); fd != nil {
		b.WriteString(xm.extract(fd) + "\n")
	}
	xt := mk(pk[pTpl])
	ps, pf, gf := need(pk[pTpl], "", "parseStr"), need(pk[pTpl], "", "ParseFunc"), need(pk[pTpl], "", "GetFuncs")
	if ps != nil && pf != nil && gf != nil {
		b.WriteString(xt.strFn(ps, pf, gf) + "\n")
	}
	xp := mk(pk[pPre])
	pr, ex := need(pk[pPre], "Preprocessor", "Process"), need(pk[pTpl], "", "ExecTemplateFuncWithVariables")
	if pr != nil && ex != nil {
		b.WriteString(xp.entryCode(pr, mk(pk[pTpl]), ex) + "\n")
	}
	xv := mk(pk[pProv])
	if fd := c15walkMethod(pk[pProv], "Provider", "Run"); fd != nil {
		b.WriteString(xv.feed(fd) + "\n")
	} else {
		t.errs = append(t.errs, "c15walk: Provider.Run not found in "+pProv)
	}
	return b.String()
}
