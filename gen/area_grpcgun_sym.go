package main

// Area "grpcgun", fifth part (property C20, round 4): small pieces of ARITHMETIC / CONTROL the gRPC path depends on are
// re-extracted as Lean FUNCTIONS (not as text) by a tiny symbolic executor over go/ast + go/types:
//
//	components/providers/scenario/provider.go  (*Provider[A]).Run   which ammo is next, when passes / limit stop the run
//	lib/mp/map.go                              calcIndex            a written index, `last`, the wrap of `next`
//	lib/math/gcd_lcm.go                        GCD                  loop condition, loop step, result
//	components/providers/scenario/config       SpreadNames          the weight that counts, how often a scenario is listed
//	components/guns/grpc/core.go               MakeGRPCConnect      the dial timeout
//
// The executor understands straight-line assignments (`:=`, `=`, `+=`, `-=`, `%=`, `/=`, `++`, `--`), `if` with and without
// `else` (a branch that returns ends the path; a branch that only assigns is merged into `if c then new else old`),
// `return`, integer constants (evaluated by go/types), conversions between integer types, `len(x)` of a named input.
// All Go integers become Lean `Int` (`/` = `Int.tdiv`, `%` = `Int.tmod`: Go truncates towards zero). Variables are
// identified by their go/types object, other l-values (`weights[i]`, `input[i].Weight`) by their canonical text; INPUTS
// are named by the caller. Renaming locals, reordering independent statements, splitting or fusing assignments does not
// change the extracted function up to what the bridge lemmas prove (they are stated semantically: `∀ inputs, f … = model`).

import (
	"fmt"
	"go/ast"
	"go/constant"
	"go/token"
	"go/types"
	"strings"

	"golang.org/x/tools/go/packages"
)

type grpcgunSymEnv struct {
	p    *packages.Package
	fn   *ast.FuncDecl
	objs map[types.Object]string // current value of a local / parameter
	txts map[string]string       // current value of an l-value or input named by its canonical text
	errs *[]string
}

func (e *grpcgunSymEnv) clone() *grpcgunSymEnv {
	c := &grpcgunSymEnv{p: e.p, fn: e.fn, objs: map[types.Object]string{}, txts: map[string]string{}, errs: e.errs}
	for k, v := range e.objs {
		c.objs[k] = v
	}
	for k, v := range e.txts {
		c.txts[k] = v
	}
	return c
}

func (e *grpcgunSymEnv) fail(format string, a ...any) {
	*e.errs = append(*e.errs, fmt.Sprintf(format, a...))
}

func (e *grpcgunSymEnv) canon(n ast.Node) string { return grpcgunR4Canon(e.p, e.fn, n) }

// expr translates an integer / boolean expression; ok=false when it contains something the executor does not know.
func (e *grpcgunSymEnv) expr(x ast.Expr) (string, bool) {
	if tv, ok := e.p.TypesInfo.Types[x]; ok && tv.Value != nil {
		switch tv.Value.Kind() {
		case constant.Int:
			if v, exact := constant.Int64Val(tv.Value); exact {
				if v < 0 {
					return fmt.Sprintf("(%d)", v), true
				}
				return fmt.Sprint(v), true
			}
		case constant.Bool:
			if constant.BoolVal(tv.Value) {
				return "True", true
			}
			return "False", true
		}
	}
	switch y := x.(type) {
	case *ast.ParenExpr:
		return e.expr(y.X)
	case *ast.Ident:
		if o := ggObj(e.p, y); o != nil {
			if v, ok := e.objs[o]; ok {
				return v, true
			}
		}
		return "", false
	case *ast.SelectorExpr, *ast.IndexExpr:
		if v, ok := e.txts[e.canon(y)]; ok {
			return v, true
		}
		return "", false
	case *ast.CallExpr:
		if len(y.Args) == 1 {
			if tv, ok := e.p.TypesInfo.Types[y.Fun]; ok && tv.IsType() { // conversion between integer types
				if b, ok := tv.Type.Underlying().(*types.Basic); ok && b.Info()&types.IsInteger != 0 {
					return e.expr(y.Args[0])
				}
			}
			if id, ok := y.Fun.(*ast.Ident); ok && id.Name == "len" {
				if v, ok := e.txts["len("+e.canon(y.Args[0])+")"]; ok {
					return v, true
				}
			}
		}
		return "", false
	case *ast.UnaryExpr:
		v, ok := e.expr(y.X)
		if !ok {
			return "", false
		}
		switch y.Op {
		case token.NOT:
			return "(¬ " + v + ")", true
		case token.SUB:
			return "(-" + v + ")", true
		}
		return "", false
	case *ast.BinaryExpr:
		a, ok1 := e.expr(y.X)
		b, ok2 := e.expr(y.Y)
		if !ok1 || !ok2 {
			return "", false
		}
		switch y.Op {
		case token.ADD:
			return "(" + a + " + " + b + ")", true
		case token.SUB:
			return "(" + a + " - " + b + ")", true
		case token.MUL:
			return "(" + a + " * " + b + ")", true
		case token.QUO:
			return "(Int.tdiv " + a + " " + b + ")", true
		case token.REM:
			return "(Int.tmod " + a + " " + b + ")", true
		case token.EQL:
			return "(" + a + " = " + b + ")", true
		case token.NEQ:
			return "(" + a + " ≠ " + b + ")", true
		case token.LSS:
			return "(" + a + " < " + b + ")", true
		case token.LEQ:
			return "(" + a + " ≤ " + b + ")", true
		case token.GTR:
			return "(" + a + " > " + b + ")", true
		case token.GEQ:
			return "(" + a + " ≥ " + b + ")", true
		case token.LAND:
			return "(" + a + " ∧ " + b + ")", true
		case token.LOR:
			return "(" + a + " ∨ " + b + ")", true
		}
	}
	return "", false
}

func (e *grpcgunSymEnv) get(l ast.Expr) (string, bool) { return e.expr(l) }

func (e *grpcgunSymEnv) set(l ast.Expr, v string) bool {
	if id, ok := l.(*ast.Ident); ok {
		if id.Name == "_" {
			return true
		}
		if o := ggObj(e.p, id); o != nil {
			e.objs[o] = v
			return true
		}
		return false
	}
	e.txts[e.canon(l)] = v
	return true
}

// assign executes one assignment / inc-dec statement; ok=false when it is not understood.
func (e *grpcgunSymEnv) assign(s ast.Stmt) bool {
	switch y := s.(type) {
	case *ast.IncDecStmt:
		old, ok := e.get(y.X)
		if !ok {
			return false
		}
		if y.Tok == token.INC {
			return e.set(y.X, "("+old+" + 1)")
		}
		return e.set(y.X, "("+old+" - 1)")
	case *ast.AssignStmt:
		if len(y.Lhs) != 1 || len(y.Rhs) != 1 {
			return false
		}
		r, ok := e.expr(y.Rhs[0])
		if !ok {
			return false
		}
		if y.Tok == token.DEFINE || y.Tok == token.ASSIGN {
			return e.set(y.Lhs[0], r)
		}
		old, ok := e.get(y.Lhs[0])
		if !ok {
			return false
		}
		op := map[token.Token]string{token.ADD_ASSIGN: "(%s + %s)", token.SUB_ASSIGN: "(%s - %s)", token.MUL_ASSIGN: "(%s * %s)",
			token.REM_ASSIGN: "(Int.tmod %s %s)", token.QUO_ASSIGN: "(Int.tdiv %s %s)"}[y.Tok]
		if op == "" {
			return false
		}
		return e.set(y.Lhs[0], fmt.Sprintf(op, old, r))
	}
	return false
}

// merge: after `if c { … } else { … }` whose branches only assign: every variable becomes `if c then a else b`.
func (e *grpcgunSymEnv) merge(c string, a, b *grpcgunSymEnv) {
	for o, va := range a.objs {
		vb, okb := b.objs[o]
		if !okb {
			continue // declared inside the branch
		}
		if va != vb {
			e.objs[o] = "(if " + c + " then " + va + " else " + vb + ")"
		}
	}
	for t, va := range a.txts {
		vb, okb := b.txts[t]
		if !okb {
			vb = va
			if old, ok := e.txts[t]; ok {
				vb = old
			}
		}
		if va != vb {
			e.txts[t] = "(if " + c + " then " + va + " else " + vb + ")"
		} else {
			e.txts[t] = va
		}
	}
	for t, vb := range b.txts {
		if _, oka := a.txts[t]; !oka {
			old, ok := e.txts[t]
			if !ok {
				e.txts[t] = vb
			} else if old != vb {
				e.txts[t] = "(if " + c + " then " + old + " else " + vb + ")"
			}
		}
	}
}

// run executes statements; returns the Lean expression of the (first) returned value when every path returns.
// lenient: statements the executor does not understand are skipped (they must not assign a tracked variable — the
// caller states which variables matter by what it reads afterwards). stop: a hook deciding that a `return` is a STOP of
// a loop (returns its label).
func (e *grpcgunSymEnv) run(ss []ast.Stmt, lenient bool) (ret string, returned bool, ok bool) {
	for i, s := range ss {
		switch y := s.(type) {
		case *ast.ReturnStmt:
			if len(y.Results) == 0 {
				return "", false, false
			}
			v, okv := e.expr(y.Results[0])
			if !okv {
				return "", false, false
			}
			return v, true, true
		case *ast.IfStmt:
			if y.Init != nil {
				if lenient {
					continue
				}
				return "", false, false
			}
			c, okc := e.expr(y.Cond)
			if !okc {
				if lenient {
					continue
				}
				return "", false, false
			}
			thenEnv := e.clone()
			tRet, tReturned, tOK := thenEnv.run(y.Body.List, lenient)
			if !tOK {
				return "", false, false
			}
			elseEnv := e.clone()
			eRet, eReturned, eOK := "", false, true
			if y.Else != nil {
				switch el := y.Else.(type) {
				case *ast.BlockStmt:
					eRet, eReturned, eOK = elseEnv.run(el.List, lenient)
				case *ast.IfStmt:
					eRet, eReturned, eOK = elseEnv.run([]ast.Stmt{el}, lenient)
				}
				if !eOK {
					return "", false, false
				}
			}
			switch {
			case tReturned && eReturned:
				return "(if " + c + " then " + tRet + " else " + eRet + ")", true, true
			case tReturned:
				rest, rReturned, rOK := elseEnv.run(ss[i+1:], lenient)
				if !rOK || !rReturned {
					return "", false, false
				}
				return "(if " + c + " then " + tRet + " else " + rest + ")", true, true
			case eReturned:
				rest, rReturned, rOK := thenEnv.run(ss[i+1:], lenient)
				if !rOK || !rReturned {
					return "", false, false
				}
				return "(if " + c + " then " + rest + " else " + eRet + ")", true, true
			default:
				e.merge(c, thenEnv, elseEnv)
			}
		default:
			if !e.assign(s) && !lenient {
				return "", false, false
			}
		}
	}
	return "", false, true
}

func grpcgunSymNewEnv(p *packages.Package, fn *ast.FuncDecl, errs *[]string) *grpcgunSymEnv {
	return &grpcgunSymEnv{p: p, fn: fn, objs: map[types.Object]string{}, txts: map[string]string{}, errs: errs}
}

// grpcgunSymLocal finds the object of the local variable / parameter of fn that is called name in the source.
func grpcgunSymBind(e *grpcgunSymEnv, role string, pick func(id *ast.Ident, o types.Object) bool, val string) bool {
	found := false
	ast.Inspect(e.fn, func(x ast.Node) bool {
		if found {
			return false
		}
		if id, ok := x.(*ast.Ident); ok {
			if o := e.p.TypesInfo.Defs[id]; o != nil && pick(id, o) {
				e.objs[o] = val
				found = true
			}
		}
		return true
	})
	if !found {
		e.fail("%s: %s not found", e.fn.Name.Name, role)
	}
	return found
}

// grpcgunSymParam binds the k-th parameter of fn.
func grpcgunSymParam(e *grpcgunSymEnv, k int, val string) {
	n := 0
	for _, f := range e.fn.Type.Params.List {
		for _, id := range f.Names {
			if n == k {
				if o := e.p.TypesInfo.Defs[id]; o != nil {
					e.objs[o] = val
				}
			}
			n++
		}
	}
}

func grpcgunSymExtra(t *tr, many map[string]*packages.Package) string {
	var b strings.Builder
	const root = "github.com/yandex/pandora/"
	def := func(doc, sig, val string) {
		b.WriteString("/-- " + doc + " -/\ndef " + sig + " :=\n  " + val + "\n\n")
	}
	bad := func(what string) string {
		t.errs = append(t.errs, "grpcgun (symbolic): "+what+" not recognised")
		return "0"
	}

	// ---- the scenario provider's loop
	{
		pp := many[root+"components/providers/scenario"]
		idx, next := "", ""
		var stops []string
		if run := grpcgunR4Method(pp, "Provider", "Run"); run != nil {
			e := grpcgunSymNewEnv(pp, run, &t.errs)
			e.txts["$recv.cfg.Passes"] = "passes"
			e.txts["$recv.cfg.Limit"] = "limit"
			e.txts["len($recv.ammos)"] = "length"
			var loop *ast.ForStmt
			for _, s := range run.Body.List {
				if f, ok := s.(*ast.ForStmt); ok && f.Cond == nil {
					loop = f
					break
				}
				e.assign(s) // the prologue: length := uint(len(p.ammos)); counters := 0
			}
			if loop != nil {
				// at the head of an iteration the counter of delivered ammo is `ammoNum`: it is the variable that the
				// loop body increments; every other counter is recomputed from it
				var counter types.Object
				ast.Inspect(loop.Body, func(x ast.Node) bool {
					if inc, ok := x.(*ast.IncDecStmt); ok && inc.Tok == token.INC && counter == nil {
						counter = ggObj(pp, inc.X)
					}
					return true
				})
				if counter != nil {
					e.objs[counter] = "ammoNum"
				}
				for _, s := range loop.Body.List {
					if ifs, ok := s.(*ast.IfStmt); ok && ifs.Init == nil && ifs.Else == nil {
						if n := len(ifs.Body.List); n > 0 {
							if r, ok := ifs.Body.List[n-1].(*ast.ReturnStmt); ok && len(r.Results) == 1 && strings.HasPrefix(ggSrc(pp, r.Results[0]), "decoders.Err") {
								if c, ok := e.expr(ifs.Cond); ok {
									stops = append(stops, "(decide "+c+", "+ggQuote(strings.TrimPrefix(ggSrc(pp, r.Results[0]), "decoders."))+")")
								} else {
									stops = append(stops, "(false, \"unrecognised\")")
								}
								continue
							}
						}
						continue // the context checks
					}
					if sel, ok := s.(*ast.SelectStmt); ok {
						for _, c := range sel.Body.List {
							if snd, ok := c.(*ast.CommClause).Comm.(*ast.SendStmt); ok {
								// the value sent: p.ammos[<index>] (possibly through a local)
								var ix *ast.IndexExpr
								switch v := snd.Value.(type) {
								case *ast.IndexExpr:
									ix = v
								case *ast.Ident:
									if o := ggObj(pp, v); o != nil {
										ast.Inspect(loop.Body, func(x ast.Node) bool {
											if as, ok := x.(*ast.AssignStmt); ok && len(as.Lhs) == 1 && ggObj(pp, as.Lhs[0]) == o {
												if i2, ok := as.Rhs[0].(*ast.IndexExpr); ok {
													ix = i2
												}
											}
											return true
										})
									}
								}
								if ix != nil && e.canon(ix.X) == "$recv.ammos" {
									// the index expression is evaluated where the ammo is taken from the list; its value was
									// recorded when the local holding it was assigned
									if v, ok := e.txts["@index"]; ok {
										idx = v
									}
								}
							}
						}
						if counter != nil {
							next = e.objs[counter]
						}
						continue
					}
					// `ammo := p.ammos[i]`: record the index as of now
					if as, ok := s.(*ast.AssignStmt); ok && len(as.Rhs) == 1 {
						if ix, ok := as.Rhs[0].(*ast.IndexExpr); ok && e.canon(ix.X) == "$recv.ammos" {
							if v, ok := e.expr(ix.Index); ok {
								e.txts["@index"] = v
							}
							continue
						}
					}
					e.assign(s)
				}
			}
		}
		if idx == "" {
			idx = bad("scenario provider: the index of the ammo handed over")
		}
		if next == "" {
			next = bad("scenario provider: the counter")
		}
		def("`(*Provider[A]).Run`: the checks that end the run, in order, as (condition, error) at the head of an iteration in which `ammoNum` ammo have been handed over (`passes`, `limit`: the options, 0 = not configured; `length`: the size of the ammo list)",
			"scenProviderStops (passes limit length ammoNum : Int) : List (Bool × String)", "["+strings.Join(stops, ", ")+"]")
		def("… the index (into the ammo list) of the ammo handed over in that iteration", "scenProviderIndex (passes limit length ammoNum : Int) : Int", idx)
		def("… the counter when it is handed over", "scenProviderCount (passes limit length ammoNum : Int) : Int", next)
	}

	// ---- calcIndex
	{
		mp := many[root+"lib/mp"]
		written, last, wrap := "", "", ""
		if f := grpcgunR4Func(mp, "calcIndex"); f != nil {
			mk := func() *grpcgunSymEnv {
				e := grpcgunSymNewEnv(mp, f, &t.errs)
				grpcgunSymParam(e, 2, "length")
				return e
			}
			var indexObj types.Object
			if as, ok := f.Body.List[0].(*ast.AssignStmt); ok && len(as.Lhs) == 2 {
				indexObj = ggObj(mp, as.Lhs[0])
			}
			for i, s := range f.Body.List {
				ifs, ok := s.(*ast.IfStmt)
				if ok {
					c := grpcgunR4Canon(mp, f, ifs.Cond)
					n := len(ifs.Body.List)
					if n == 0 {
						continue
					}
					_, endsInReturn := ifs.Body.List[n-1].(*ast.ReturnStmt)
					switch {
					case c == `$0 != "next" && $0 != "rand" && $0 != "last"` && endsInReturn:
						e := mk()
						if indexObj != nil {
							e.objs[indexObj] = "index"
						}
						if v, returned, ok := e.run(ifs.Body.List, false); ok && returned {
							written = v
						}
					case c == `$0 == "last"` && endsInReturn:
						e := mk()
						if v, returned, ok := e.run(ifs.Body.List, false); ok && returned {
							last = v
						}
					}
					continue
				}
				// index = iter.Next(segment): the rest of the function wraps what the iterator returned
				if as, ok := s.(*ast.AssignStmt); ok && len(as.Rhs) == 1 && strings.HasSuffix(ggSrc(mp, as.Rhs[0].(ast.Expr)), ".Next("+ggSrc(mp, f.Type.Params.List[1].Names[0])+")") {
					e := mk()
					e.set(as.Lhs[0], "drawn")
					if v, returned, ok := e.run(f.Body.List[i+1:], false); ok && returned {
						wrap = v
					}
				}
			}
		}
		if written == "" {
			written = bad("calcIndex: a written index")
		}
		if last == "" {
			last = bad("calcIndex: last")
		}
		if wrap == "" {
			wrap = bad("calcIndex: next")
		}
		def("`mp.calcIndex` for a WRITTEN index (any integer) on a list of `length` elements", "calcIndexWritten (index length : Int) : Int", written)
		def("… for `last`", "calcIndexLast (length : Int) : Int", last)
		def("… for `next`: what is made of the number `drawn` the iterator returned", "calcIndexNext (drawn length : Int) : Int", wrap)
	}

	// ---- GCD
	{
		lm := many[root+"lib/math"]
		cond, stepA, stepB, res := "", "", "", ""
		if f := grpcgunR4Func(lm, "GCD"); f != nil && len(f.Body.List) >= 2 {
			if loop, ok := f.Body.List[0].(*ast.ForStmt); ok && loop.Init == nil && loop.Post == nil && loop.Cond != nil {
				e := grpcgunSymNewEnv(lm, f, &t.errs)
				grpcgunSymParam(e, 0, "a")
				grpcgunSymParam(e, 1, "b")
				if c, ok := e.expr(loop.Cond); ok {
					cond = "decide " + c
				}
				if _, returned, ok := e.run(loop.Body.List, false); ok && !returned {
					pa, _ := e.expr(f.Type.Params.List[0].Names[0])
					var pb string
					if len(f.Type.Params.List[0].Names) > 1 {
						pb, _ = e.expr(f.Type.Params.List[0].Names[1])
					} else if len(f.Type.Params.List) > 1 {
						pb, _ = e.expr(f.Type.Params.List[1].Names[0])
					}
					stepA, stepB = pa, pb
				}
				e2 := grpcgunSymNewEnv(lm, f, &t.errs)
				grpcgunSymParam(e2, 0, "a")
				grpcgunSymParam(e2, 1, "b")
				if v, returned, ok := e2.run(f.Body.List[1:], false); ok && returned {
					res = v
				}
			}
		}
		if cond == "" {
			cond = "decide (" + bad("GCD: the loop condition") + " = 1)"
		}
		if stepA == "" || stepB == "" {
			stepA, stepB = bad("GCD: the loop body"), "0"
		}
		if res == "" {
			res = bad("GCD: the result")
		}
		def("`math.GCD(a, b)`: the loop goes on while …", "gcdLoopCond (a b : Int) : Bool", cond)
		def("… one turn of the loop makes of (a, b)", "gcdLoopStep (a b : Int) : Int × Int", "("+stepA+", "+stepB+")")
		def("… and after the loop the function returns", "gcdResult (a b : Int) : Int", res)
	}

	// ---- SpreadNames: the weight that counts, the number of entries
	{
		cp := many[root+"components/providers/scenario/config"]
		wCounts, wKept, cnt := "", "", ""
		if f := grpcgunR4Func(cp, "SpreadNames"); f != nil {
			for _, s := range f.Body.List {
				r, ok := s.(*ast.RangeStmt)
				if !ok {
					continue
				}
				e := grpcgunSymNewEnv(cp, f, &t.errs)
				if r.Value == nil && r.Key != nil {
					// for i := range input { … input[i].Weight … weights[i] = … }
					key := "$0[" + grpcgunR4Canon(cp, f, r.Key) + "].Weight"
					e.txts[key] = "w"
					if _, returned, ok := e.run(r.Body.List, true); ok && !returned {
						wKept = e.txts[key]
						for t2, v := range e.txts {
							if t2 != key && strings.HasSuffix(t2, "["+grpcgunR4Canon(cp, f, r.Key)+"]") {
								wCounts = v
							}
						}
					}
				} else if r.Value != nil {
					// for _, sc := range input { cnt := int(sc.Weight / div) … names[sc.Name] = cnt }
					e.txts[grpcgunR4Canon(cp, f, r.Value)+".Weight"] = "w"
					// the divisor: the local assigned from GCDM
					ast.Inspect(f.Body, func(x ast.Node) bool {
						if as, ok := x.(*ast.AssignStmt); ok && len(as.Lhs) == 1 && len(as.Rhs) == 1 {
							if c, ok := as.Rhs[0].(*ast.CallExpr); ok && strings.HasSuffix(ggSrc(cp, c.Fun), "GCDM") {
								if o := ggObj(cp, as.Lhs[0]); o != nil {
									e.objs[o] = "d"
								}
							}
						}
						return true
					})
					if _, returned, ok := e.run(r.Body.List, true); ok && !returned {
						for t2, v := range e.txts {
							if strings.HasSuffix(t2, "["+grpcgunR4Canon(cp, f, r.Value)+".Name]") {
								cnt = v
							}
						}
					}
				}
			}
		}
		if wCounts == "" {
			wCounts = bad("SpreadNames: the weight handed to GCDM")
		}
		if wKept == "" {
			wKept = bad("SpreadNames: the weight kept for the division")
		}
		if cnt == "" {
			cnt = bad("SpreadNames: the number of entries")
		}
		def("`config.SpreadNames`: the weight of a scenario written with weight `w` that enters the gcd", "spreadWeightForGcd (w : Int) : Int", wCounts)
		def("… and the weight that is later divided by the gcd", "spreadWeightKept (w : Int) : Int", wKept)
		def("… how often a scenario of (kept) weight `w` enters the ammo list when the gcd is `d`", "spreadCount (w d : Int) : Int", cnt)
	}

	// ---- the dial timeout
	{
		gp := many[root+"components/guns/grpc"]
		dial := ""
		if f := grpcgunR4Func(gp, "MakeGRPCConnect"); f != nil {
			e := grpcgunSymNewEnv(gp, f, &t.errs)
			e.txts["$2.Timeout"] = "conf"
			for _, s := range f.Body.List {
				// the statement that makes the dial context: evaluate its timeout argument as of now
				done := false
				ast.Inspect(s, func(x ast.Node) bool {
					if c, ok := x.(*ast.CallExpr); ok && ggSrc(gp, c.Fun) == "context.WithTimeout" && len(c.Args) == 2 {
						if v, ok := e.expr(c.Args[1]); ok {
							dial = v
						}
						done = true
					}
					return true
				})
				if done {
					break
				}
				e.run([]ast.Stmt{s}, true)
			}
		}
		if dial == "" {
			dial = bad("MakeGRPCConnect: the dial timeout")
		}
		def("`MakeGRPCConnect`: the timeout of the DIAL context in ns (`conf` = `dial_options.timeout` in ns, 0 = not configured)", "dialTimeoutNs (conf : Int) : Int", dial)
	}
	return b.String()
}
