package main

// Area "chosencases", round 3: the EPILOGUE of (*Provider).Run of components/providers/http/provider — the deferred
// function that closes the sink, closes the ammo source and makes one error of Run's result and the error of Close —
// regenerated statement by statement into
//
//	def httpRunDefer (hasClose closeFails : Bool) (errV : EV) : Epilogue
//
// (`EV` = an error value as errors.Is sees it, `Epilogue` = sink closed, number of Close calls, the error Run returns;
// lean/Pandora/Model/C14Fin.lean), plus three facts about where the source is closed:
//
//	closeCallsElsewhere   calls of the Provider's `Close` field anywhere else in the package (must be 0: the source is
//	                      closed by the deferred function only, so exactly once, after the path has ended, in both modes)
//	deferBeforeReturns    no `return` of Run stands before the `defer` statement
//	newProviderSetsClose  NewProvider fills the `Close` field
//
// Reading of Go used here (trusted): the statements of the deferred function literal are read in order, in
// continuation style (what follows an `if` follows both of its branches unless the branch returned):
//
//	close(p.Sink)                              the sink is closed on this path
//	if COND { … } [else { … }]                 COND built with && || ! from  X == nil, X != nil  (X = err — the named result
//	                                           of Run —, a local bound to the result of p.Close(), or the field p.Close itself)
//	                                           and errors.Is(X, <sentinel of package decoders | context.Canceled>)
//	v := p.Close()  /  v = p.Close()  /  _ = p.Close()  /  p.Close()      one more call of Close on this path
//	err = nil | err = v | err = errors.Join(a, b) | err = fmt.Errorf(FORMAT, a, b) | err = xerrors.Errorf(FORMAT, a, b)
//	                                           the FORMAT is parsed: fmt.Errorf keeps (errors.Is still finds) every operand
//	                                           of a %w; xerrors.Errorf keeps the operand of its ONLY %w and nothing when
//	                                           there are several (golang.org/x/xerrors fmt.go)
//	return                                     the deferred function ends
//
// Anything else makes gen fail (broken obligation).

import (
	"fmt"
	"go/ast"
	"go/constant"
	"go/token"
	"go/types"
	"strings"

	"golang.org/x/tools/go/packages"
)

type chosencasesFin struct {
	t      *tr
	pkg    *packages.Package
	errObj types.Object          // the named result `err` of Run
	locals map[types.Object]string // locals bound to the result of p.Close() -> Lean name
	depth  int
}

func (f *chosencasesFin) fail(n ast.Node, format string, a ...any) string {
	msg := fmt.Sprintf("%s: unsupported (chosencases Run epilogue): %s", f.pkg.Fset.Position(n.Pos()), fmt.Sprintf(format, a...))
	f.t.errs = append(f.t.errs, msg)
	return "(UNSUPPORTED)"
}

func (f *chosencasesFin) src(n ast.Node) string { return chosencasesSrc(f.pkg, n) }

func (f *chosencasesFin) unparen(e ast.Expr) ast.Expr {
	for {
		p, ok := e.(*ast.ParenExpr)
		if !ok {
			return e
		}
		e = p.X
	}
}

// chosencasesFinIsCloseField: sel is the field `Close` of the struct Provider
func chosencasesFinIsCloseField(pkg *packages.Package, e ast.Expr) bool {
	sel, ok := e.(*ast.SelectorExpr)
	if !ok || sel.Sel.Name != "Close" {
		return false
	}
	s, ok := pkg.TypesInfo.Selections[sel]
	if !ok || s.Kind() != types.FieldVal {
		return false
	}
	t := s.Recv()
	if p, ok := t.(*types.Pointer); ok {
		t = p.Elem()
	}
	n, ok := t.(*types.Named)
	return ok && n.Obj().Name() == "Provider"
}

func (f *chosencasesFin) isCloseCall(e ast.Expr) bool {
	c, ok := f.unparen(e).(*ast.CallExpr)
	return ok && len(c.Args) == 0 && chosencasesFinIsCloseField(f.pkg, c.Fun)
}

func (f *chosencasesFin) isNil(e ast.Expr) bool {
	id, ok := f.unparen(e).(*ast.Ident)
	if !ok {
		return false
	}
	_, isNil := f.pkg.TypesInfo.Uses[id].(*types.Nil)
	return isNil
}

// an error VARIABLE: err (the result of Run) or a local bound to p.Close(); returns its Lean name
func (f *chosencasesFin) errVar(e ast.Expr) (string, bool) {
	id, ok := f.unparen(e).(*ast.Ident)
	if !ok {
		return "", false
	}
	o := f.pkg.TypesInfo.Uses[id]
	if o == nil {
		o = f.pkg.TypesInfo.Defs[id]
	}
	if o == nil {
		return "", false
	}
	if o == f.errObj {
		return "errV", true
	}
	if n, ok := f.locals[o]; ok {
		return n, true
	}
	return "", false
}

func (f *chosencasesFin) pkgVarClass(e ast.Expr) (string, bool) {
	var id *ast.Ident
	switch v := f.unparen(e).(type) {
	case *ast.SelectorExpr:
		id = v.Sel
	case *ast.Ident:
		id = v
	default:
		return "", false
	}
	o, ok := f.pkg.TypesInfo.Uses[id].(*types.Var)
	if !ok || o.Pkg() == nil || o.Parent() != o.Pkg().Scope() {
		return "", false
	}
	if o.Pkg().Path() == "context" && o.Name() == "Canceled" {
		return "RunRes.canceled", true
	}
	if o.Pkg().Path() == chosencasesDecodersPath {
		if r, ok := chosencasesSentinelVars[o.Name()]; ok {
			return r, true
		}
	}
	return "", false
}

func (f *chosencasesFin) pkgFunc(e ast.Expr) (pkgPath, name string, args []ast.Expr, ok bool) {
	c, isCall := f.unparen(e).(*ast.CallExpr)
	if !isCall {
		return
	}
	sel, isSel := c.Fun.(*ast.SelectorExpr)
	if !isSel {
		return
	}
	fn, isFn := f.pkg.TypesInfo.Uses[sel.Sel].(*types.Func)
	if !isFn || fn.Pkg() == nil || fn.Type().(*types.Signature).Recv() != nil {
		return
	}
	return fn.Pkg().Path(), fn.Name(), c.Args, true
}

func (f *chosencasesFin) cond(e ast.Expr) string {
	e = f.unparen(e)
	switch v := e.(type) {
	case *ast.UnaryExpr:
		if v.Op == token.NOT {
			return "(¬ " + f.cond(v.X) + ")"
		}
	case *ast.BinaryExpr:
		switch v.Op {
		case token.LAND:
			return "(" + f.cond(v.X) + " ∧ " + f.cond(v.Y) + ")"
		case token.LOR:
			return "(" + f.cond(v.X) + " ∨ " + f.cond(v.Y) + ")"
		case token.EQL, token.NEQ:
			a, b := v.X, v.Y
			if f.isNil(a) {
				a, b = b, a
			}
			r := ""
			if f.isNil(b) {
				if n, ok := f.errVar(a); ok {
					r = "(" + n + ".isNil = true)"
				} else if chosencasesFinIsCloseField(f.pkg, f.unparen(a)) {
					r = "(hasClose = false)"
				}
			}
			if r != "" {
				if v.Op == token.NEQ {
					return "(¬ " + r + ")"
				}
				return r
			}
		}
	case *ast.CallExpr:
		if p, n, args, ok := f.pkgFunc(e); ok && n == "Is" && len(args) == 2 &&
			(p == "errors" || p == "golang.org/x/xerrors" || p == "github.com/pkg/errors") {
			if name, ok := f.errVar(args[0]); ok {
				if cls, ok := f.pkgVarClass(args[1]); ok {
					return "(" + name + ".run = " + cls + ")"
				}
			}
		}
	}
	return f.fail(e, "condition: %s", f.src(e))
}

// an error EXPRESSION -> Lean term of type EV
func (f *chosencasesFin) errExpr(e ast.Expr) string {
	e = f.unparen(e)
	if f.isNil(e) {
		return "(EV.ofRun RunRes.nil)"
	}
	if n, ok := f.errVar(e); ok {
		return n
	}
	if cls, ok := f.pkgVarClass(e); ok {
		return "(EV.ofRun " + cls + ")"
	}
	if p, n, args, ok := f.pkgFunc(e); ok {
		switch {
		case p == "errors" && n == "Join" && len(args) == 2:
			return "(EV.join " + f.errExpr(args[0]) + " " + f.errExpr(args[1]) + " true true)"
		case (p == "fmt" || p == "golang.org/x/xerrors") && n == "Errorf" && len(args) >= 1:
			tv, okc := f.pkg.TypesInfo.Types[args[0]]
			if !okc || tv.Value == nil || tv.Value.Kind() != constant.String {
				break
			}
			ws, okf := chosencasesWrapVerbs(constant.StringVal(tv.Value))
			if !okf {
				break
			}
			wraps := map[int]bool{}
			for _, w := range ws {
				wraps[w+1] = true // index into args
			}
			if p != "fmt" && len(ws) != 1 {
				wraps = map[int]bool{} // xerrors: more than one %w wraps nothing
			}
			// the operands that are error values, in order
			var ops []string
			var keep []bool
			for i := 1; i < len(args); i++ {
				t := f.pkg.TypesInfo.TypeOf(args[i])
				if t == nil || !types.Implements(t, chosencasesErrorIface()) {
					continue
				}
				ops = append(ops, f.errExpr(args[i]))
				keep = append(keep, wraps[i])
			}
			b := func(v bool) string {
				if v {
					return "true"
				}
				return "false"
			}
			switch len(ops) {
			case 0:
				return "(EV.ofRun RunRes.errOther)"
			case 1:
				return "(EV.join " + ops[0] + " (EV.ofRun RunRes.nil) " + b(keep[0]) + " false)"
			case 2:
				return "(EV.join " + ops[0] + " " + ops[1] + " " + b(keep[0]) + " " + b(keep[1]) + ")"
			}
		case (p == "errors" || p == "golang.org/x/xerrors" || p == "github.com/pkg/errors") && n == "New":
			return "(EV.ofRun RunRes.errOther)"
		}
	}
	return f.fail(e, "error value: %s", f.src(e))
}

func chosencasesErrorIface() *types.Interface {
	return types.Universe.Lookup("error").Type().Underlying().(*types.Interface)
}

type chosencasesFinState struct {
	sink  bool
	calls int
}

func (f *chosencasesFin) fin(st chosencasesFinState, ind string) string {
	return fmt.Sprintf("%s⟨%v, %d, errV⟩", ind, st.sink, st.calls)
}

// a statement that (only) calls p.Close(): `v := p.Close()`, `v = p.Close()`, `_ = p.Close()`, `p.Close()`;
// returns the Lean binding to emit ("" = the result is dropped)
func (f *chosencasesFin) closeStmt(s ast.Stmt) (bind string, ok bool) {
	switch v := s.(type) {
	case *ast.ExprStmt:
		if f.isCloseCall(v.X) {
			return "", true
		}
	case *ast.AssignStmt:
		if len(v.Lhs) == 1 && len(v.Rhs) == 1 && f.isCloseCall(v.Rhs[0]) {
			id, isId := v.Lhs[0].(*ast.Ident)
			if !isId {
				return "", false
			}
			if id.Name == "_" {
				return "", true
			}
			o := f.pkg.TypesInfo.Defs[id]
			if o == nil {
				o = f.pkg.TypesInfo.Uses[id]
			}
			if o == nil {
				return "", false
			}
			if o == f.errObj {
				return "errV", true
			}
			name := "closeV"
			if n, seen := f.locals[o]; seen {
				name = n
			} else {
				if len(f.locals) > 0 {
					name = fmt.Sprintf("closeV%d", len(f.locals)+1)
				}
				f.locals[o] = name
			}
			return name, true
		}
	}
	return "", false
}

// statements -> Lean term of type Epilogue
func (f *chosencasesFin) stmts(list []ast.Stmt, st chosencasesFinState, ind string) string {
	if len(list) == 0 {
		return f.fin(st, ind)
	}
	f.depth++
	defer func() { f.depth-- }()
	if f.depth > 16 {
		return f.fail(list[0], "nested too deeply")
	}
	s, rest := list[0], list[1:]
	if bind, ok := f.closeStmt(s); ok {
		st.calls++
		if bind == "" {
			return f.stmts(rest, st, ind)
		}
		return ind + "let " + bind + " : EV := EV.ofClose closeFails\n" + f.stmts(rest, st, ind)
	}
	switch v := s.(type) {
	case *ast.ReturnStmt:
		if len(v.Results) == 0 {
			return f.fin(st, ind)
		}
	case *ast.ExprStmt:
		if c, ok := v.X.(*ast.CallExpr); ok {
			if id, ok := c.Fun.(*ast.Ident); ok && id.Name == "close" && len(c.Args) == 1 && f.src(c.Args[0]) == "p.Sink" {
				if st.sink {
					return f.fail(s, "p.Sink is closed twice")
				}
				st.sink = true
				return f.stmts(rest, st, ind)
			}
		}
		if strings.HasPrefix(f.src(v.X), "p.Deps.Log.") {
			return f.stmts(rest, st, ind)
		}
	case *ast.BlockStmt:
		return f.stmts(append(append([]ast.Stmt{}, v.List...), rest...), st, ind)
	case *ast.AssignStmt:
		if len(v.Lhs) == 1 && len(v.Rhs) == 1 && v.Tok == token.ASSIGN {
			if n, ok := f.errVar(v.Lhs[0]); ok && n == "errV" {
				return ind + "let errV : EV := " + f.errExpr(v.Rhs[0]) + "\n" + f.stmts(rest, st, ind)
			}
		}
	case *ast.IfStmt:
		pre := ""
		if v.Init != nil {
			bind, ok := f.closeStmt(v.Init)
			if !ok {
				break
			}
			st.calls++
			if bind != "" {
				pre = ind + "let " + bind + " : EV := EV.ofClose closeFails\n"
			}
		}
		c := f.cond(v.Cond)
		var els []ast.Stmt
		switch e := v.Else.(type) {
		case nil:
		case *ast.BlockStmt:
			els = e.List
		case *ast.IfStmt:
			els = []ast.Stmt{e}
		default:
			return f.fail(s, "else of %s", f.src(s))
		}
		thenT := f.stmts(append(append([]ast.Stmt{}, v.Body.List...), rest...), st, ind+"  ")
		elseT := f.stmts(append(append([]ast.Stmt{}, els...), rest...), st, ind)
		return pre + ind + "if " + c + " then\n" + thenT + "\n" + ind + "else\n" + elseT
	}
	return f.fail(s, "statement of the deferred function of Run: %s", f.src(s))
}

// chosencasesEpilogue: the deferred function of (*Provider).Run and where else the source is closed
func chosencasesEpilogue(t *tr, pp *packages.Package) string {
	f := &chosencasesFin{t: t, pkg: pp, locals: map[types.Object]string{}}
	fd := chosencasesMethod(pp, "Provider", "Run")
	if fd == nil {
		t.errs = append(t.errs, "(*Provider).Run not found")
		return ""
	}
	// the named error result
	if fd.Type.Results != nil {
		for _, fld := range fd.Type.Results.List {
			for _, n := range fld.Names {
				if t := pp.TypesInfo.TypeOf(fld.Type); t != nil && types.Implements(t, chosencasesErrorIface()) {
					f.errObj = pp.TypesInfo.Defs[n]
				}
			}
		}
	}
	if f.errObj == nil {
		f.fail(fd, "Run has no named error result")
		return ""
	}
	// the ONE deferred function literal; no return before it
	var lit *ast.FuncLit
	deferFirst := true
	seenDefer := false
	for _, s := range fd.Body.List {
		if d, ok := s.(*ast.DeferStmt); ok {
			fl, isLit := d.Call.Fun.(*ast.FuncLit)
			if !isLit || lit != nil || len(d.Call.Args) != 0 {
				f.fail(s, "Run defers something else than one function literal: %s", f.src(s))
				return ""
			}
			lit = fl
			seenDefer = true
			continue
		}
		if !seenDefer {
			ast.Inspect(s, func(n ast.Node) bool {
				if _, ok := n.(*ast.FuncLit); ok {
					return false
				}
				if _, ok := n.(*ast.ReturnStmt); ok {
					deferFirst = false
				}
				return true
			})
		}
	}
	if lit == nil {
		f.fail(fd, "Run has no deferred function literal")
		return ""
	}
	body := f.stmts(lit.Body.List, chosencasesFinState{}, "  ")

	// calls of the field Close anywhere else in the package
	elsewhere := 0
	for _, file := range pp.Syntax {
		ast.Inspect(file, func(n ast.Node) bool {
			if n == ast.Node(lit) {
				return false
			}
			if c, ok := n.(*ast.CallExpr); ok && chosencasesFinIsCloseField(pp, c.Fun) {
				elsewhere++
			}
			return true
		})
	}

	// NewProvider fills the field
	sets := false
	if np := chosencasesMethod(t.pkg, "", "NewProvider"); np != nil {
		ast.Inspect(np, func(n ast.Node) bool {
			cl, ok := n.(*ast.CompositeLit)
			if !ok {
				return true
			}
			if tt := t.pkg.TypesInfo.TypeOf(cl); tt == nil || !strings.HasSuffix(tt.String(), "provider.Provider") {
				return true
			}
			for _, el := range cl.Elts {
				if kv, ok := el.(*ast.KeyValueExpr); ok {
					if id, ok := kv.Key.(*ast.Ident); ok && id.Name == "Close" {
						if v, ok := kv.Value.(*ast.Ident); !ok || v.Name != "nil" {
							sets = true
						}
					}
				}
			}
			return true
		})
	}
	pos := pp.Fset.Position(lit.Pos())
	return fmt.Sprintf("\n/-- regenerated from `%s:%d` Run: the deferred function (`hasClose` = p.Close is set, `closeFails` = closing the\n"+
		"ammo source returns an error, `errV` = what the streaming / preloaded path made of `err`); result: sink closed, calls of Close, the error Run returns -/\n"+
		"def httpRunDefer (hasClose closeFails : Bool) (errV : EV) : Epilogue :=\n%s\n\n"+
		"/-- regenerated: calls of the Provider's `Close` field in package provider outside that deferred function -/\ndef closeCallsElsewhere : Nat := %d\n\n"+
		"/-- regenerated: no `return` of Run stands before its `defer` statement -/\ndef deferBeforeReturns : Bool := %v\n\n"+
		"/-- regenerated from NewProvider: the `Close` field of the provider is filled -/\ndef newProviderSetsClose : Bool := %v\n\n",
		chosencasesShortPath(pos.Filename), pos.Line, body, elsewhere, deferFirst, sets)
}

// chosencasesSourceGuards: which configurations the two source constructors of NewProvider reject — the top-level
// `if COND { return nil, nil, <error> }` statements of uriReadSeekCloser and fileReadSeekCloser, COND built with && || !
// from `conf.Decoder != config.DecoderURI` / `==`, `conf.File != ""` / `==`, `path == ""` / `!=` (path = conf.File).
func chosencasesSourceGuards(t *tr) string {
	pkg := t.pkg
	x := &chosencasesCtx{t: t, pkg: pkg, fn: "source constructors"}
	var cond func(e ast.Expr) string
	cond = func(e ast.Expr) string {
		for {
			p, ok := e.(*ast.ParenExpr)
			if !ok {
				break
			}
			e = p.X
		}
		switch v := e.(type) {
		case *ast.UnaryExpr:
			if v.Op == token.NOT {
				return "(!" + cond(v.X) + ")"
			}
		case *ast.BinaryExpr:
			switch v.Op {
			case token.LAND:
				return "(" + cond(v.X) + " && " + cond(v.Y) + ")"
			case token.LOR:
				return "(" + cond(v.X) + " || " + cond(v.Y) + ")"
			case token.EQL, token.NEQ:
				l, r := chosencasesSrc(pkg, v.X), chosencasesSrc(pkg, v.Y)
				if l == `""` || l == "config.DecoderURI" {
					l, r = r, l
				}
				atom := ""
				switch {
				case l == "conf.Decoder" && r == "config.DecoderURI":
					atom = "isUri"
				case (l == "conf.File" || l == "path") && r == `""`:
					atom = "(!hasFile)"
				}
				if atom != "" {
					if v.Op == token.NEQ {
						return "(!" + atom + ")"
					}
					return atom
				}
			}
		}
		return x.fail(e, "guard %s", chosencasesSrc(pkg, e))
	}
	guards := func(name string) string {
		fd := findFunc(pkg, name)
		if fd == nil {
			t.errs = append(t.errs, "func "+name+" not found")
			return "false"
		}
		out := []string{}
		for _, s := range fd.Body.List {
			is, ok := s.(*ast.IfStmt)
			if !ok || is.Init != nil || is.Else != nil || len(is.Body.List) != 1 {
				continue
			}
			r, ok := is.Body.List[0].(*ast.ReturnStmt)
			if !ok || len(r.Results) != 3 || chosencasesSrc(pkg, r.Results[0]) != "nil" {
				continue
			}
			if c := chosencasesSrc(pkg, is.Cond); c == "err != nil" {
				continue // an I/O error of opening the file, not a configuration
			}
			out = append(out, cond(is.Cond))
		}
		if len(out) == 0 {
			return "false"
		}
		return strings.Join(out, " || ")
	}
	return fmt.Sprintf("/-- regenerated from uriReadSeekCloser: the configurations it rejects (`isUri` = conf.Decoder is the uri decoder,\n`hasFile` = conf.File is not empty) -/\n"+
		"def urisRejected (isUri hasFile : Bool) : Bool := %s\n\n"+
		"/-- regenerated from fileReadSeekCloser: the configurations it rejects -/\ndef fileRejected (hasFile : Bool) : Bool := %s\n\n",
		guards("uriReadSeekCloser"), guards("fileReadSeekCloser"))
}
