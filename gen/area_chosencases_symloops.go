package main

// Area "chosencases", round 4: the DRIVERS of the symbolic executor (area_chosencases_sym.go) for the two loops of the
// http provider, (*Provider).runPreloaded and (*Provider).runFullScan.  They replace replayLoop / fullScanLoop of
// area_chosencases_loops.go (text-shape matchers) and emit the same Lean signatures:
//
//	runPreloadedPre  (length : Nat) : Option RunRes                       what happens before the loop
//	runPreloadedStep (passes limit length : Nat) (c : Bool) (ammoNum passNum : Nat) : Act (Nat × Nat)
//	runPreloadedDone : RunRes                                             the Done branch of the send select
//	runFullScanStep  (limit : Nat) (c : Bool) (ammoNum passNum : Nat) (sr : ScanRes) (chosen : Bool) : Act Nat
//	runFullScanDone  : RunRes
//	passCounterImplemented : Bool                                         every file decoder has PassNum() uint
//
// What the drivers add to the reading of Go of the executor (trusted):
//   - the function body is executed up to its one `for { … }` loop (an init statement is allowed, a condition / post
//     statement is not); a `return` before the loop is a result of …Pre; the loop must be the last statement that is
//     reached;
//   - ONE iteration of the loop is executed from a state in which every local of the function that the loop assigns
//     holds an unknown natural number; exactly one of them may be read before it is assigned (the loop-carried
//     counter, Lean `ammoNum`) and it must be 0 when the loop is entered;
//   - `p.Limit` / `p.Passes` (any spelling: p.Config.Limit …) are the bounds, `len(p.ammos)` is `length`,
//     `p.ammos[e]` is the preloaded ammo number e, `passes.PassNum()` on the result of `p.Decoder.(passCounter)` is
//     `passNum`, `confutil.IsChosenCase(a.Tag(), p.…ChosenCases)` with `a` the ammo Scan returned in THIS iteration
//     is `chosen`;
//   - `a, err := p.Decoder.Scan(ctx)` (at most once per iteration) splits on the five results of the decoder machine;
//   - the send is a `select` with exactly the two cases `<-ctx.Done()` and `p.Sink <- a` (no default), a = the ammo of
//     this iteration; at most one send per iteration; the Done case must return, its result is …Done;
//   - an iteration ends (end of the body or `continue`) as `Act.offer i s` when it sent ammo i, as `Act.tau s` when not.

import (
	"fmt"
	"go/ast"
	"go/token"
	"go/types"
	"strings"

	"golang.org/x/tools/go/packages"
)

type chosencasesLoopDrv struct {
	x        *chosencasesSym
	fd       *ast.FuncDecl
	full     bool // runFullScan (state Nat, Scan + filter) / runPreloaded (state Nat × Nat)
	loop     *ast.ForStmt
	loopEnv  *chosencasesSt
	outer    []types.Object
	names    map[types.Object]string
	carried  types.Object
	done     string
	inLoop   bool
}

func chosencasesNewSym(t *tr, pkg *packages.Package, fd *ast.FuncDecl) *chosencasesSym {
	x := &chosencasesSym{t: t, pkg: pkg, fn: fd.Name.Name}
	if fd.Recv != nil && len(fd.Recv.List) == 1 && len(fd.Recv.List[0].Names) == 1 {
		x.recv = pkg.TypesInfo.Defs[fd.Recv.List[0].Names[0]]
	}
	for _, f := range fd.Type.Params.List {
		if tt := pkg.TypesInfo.TypeOf(f.Type); tt != nil && tt.String() == "context.Context" && len(f.Names) == 1 {
			x.ctxO = pkg.TypesInfo.Defs[f.Names[0]]
		}
	}
	return x
}

func (d *chosencasesLoopDrv) field(owner, name string, e *ast.SelectorExpr, st *chosencasesSt) (chosencasesSV, bool) {
	switch name {
	case "Limit":
		if owner == "config" {
			return chosencasesNat("limit"), true
		}
	case "Passes":
		if owner == "config" {
			return chosencasesNat("passes"), true
		}
	case "ammos":
		return chosencasesRef("ammos"), true
	case "Sink":
		return chosencasesRef("sink"), true
	case "Decoder":
		return chosencasesRef("decoder"), true
	case "ChosenCases":
		return chosencasesRef("cases"), true
	case "Config", "ProviderBase":
		return chosencasesRef("recv"), true
	}
	return chosencasesSV{}, false
}

func (d *chosencasesLoopDrv) index(e *ast.IndexExpr, st *chosencasesSt) (chosencasesSV, bool) {
	a := d.x.eval(e.X, st)
	i := d.x.eval(e.Index, st)
	if a.kind == "ref" && a.ref == "ammos" && i.kind == "nat" && !d.full {
		return chosencasesSV{kind: "ref", ref: "replay", idx: i.lean}, true
	}
	return chosencasesSV{}, false
}

func (d *chosencasesLoopDrv) call(c *ast.CallExpr, st *chosencasesSt) (chosencasesSV, bool) {
	x := d.x
	ci := x.callee(c)
	switch {
	case ci.kind == "builtin" && ci.name == "len" && len(c.Args) == 1:
		if a := x.eval(c.Args[0], st); a.kind == "ref" && a.ref == "ammos" && !d.full {
			return chosencasesNat("length"), true
		}
	case ci.kind == "method" && ci.name == "PassNum" && len(c.Args) == 0 && d.full:
		if r := x.eval(ci.recv, st); r.kind == "ref" && r.ref == "passes" {
			return chosencasesNat("passNum"), true
		}
	case ci.kind == "method" && ci.name == "Tag" && len(c.Args) == 0:
		if r := x.eval(ci.recv, st); r.kind == "ref" && (r.ref == "scan" || r.ref == "replay") {
			return chosencasesSV{kind: "ref", ref: "tag:" + r.ref, idx: r.idx}, true
		}
	case ci.kind == "func" && ci.name == "IsChosenCase" && strings.HasSuffix(ci.pkg, "/lib/confutil") && len(c.Args) == 2 && d.full:
		tag := x.eval(c.Args[0], st)
		cs := x.eval(c.Args[1], st)
		if tag.kind == "ref" && tag.ref == "tag:scan" && tag.idx == "i" && cs.kind == "ref" && cs.ref == "cases" {
			return chosencasesProp("(chosen = true)"), true
		}
	}
	return chosencasesSV{}, false
}

// isDoneRecv: `<-ctx.Done()` as the communication of a select case
func (d *chosencasesLoopDrv) isDoneRecv(s ast.Stmt) bool {
	var e ast.Expr
	switch v := s.(type) {
	case *ast.ExprStmt:
		e = v.X
	case *ast.AssignStmt:
		if len(v.Rhs) == 1 {
			e = v.Rhs[0]
		}
	}
	u, ok := chosencasesUnparen(e).(*ast.UnaryExpr)
	if e == nil || !ok || u.Op != token.ARROW {
		return false
	}
	c, ok := chosencasesUnparen(u.X).(*ast.CallExpr)
	if !ok {
		return false
	}
	ci := d.x.callee(c)
	if ci.kind != "method" || ci.name != "Done" || len(c.Args) != 0 {
		return false
	}
	id, ok := chosencasesUnparen(ci.recv).(*ast.Ident)
	return ok && d.x.obj(id) == d.x.ctxO
}

func (d *chosencasesLoopDrv) stmt(s ast.Stmt, rest []ast.Stmt, st *chosencasesSt, k chosencasesCont, ind string) (string, bool) {
	x := d.x
	switch v := s.(type) {
	case *ast.ForStmt:
		if d.inLoop {
			return ind + x.fail(s, "a loop inside the loop"), true
		}
		if v.Cond != nil || v.Post != nil {
			return ind + x.fail(s, "the loop has a condition / post statement"), true
		}
		if v.Init != nil {
			bare := &ast.ForStmt{For: v.For, Body: v.Body}
			return x.exec(append([]ast.Stmt{v.Init, bare}, rest...), st, k, ind), true
		}
		if d.loop != nil && d.loop.Body != v.Body {
			return ind + x.fail(s, "a second loop"), true
		}
		if d.loopEnv != nil {
			return ind + x.fail(s, "the loop is reached on more than one path"), true
		}
		d.loop = v
		d.loopEnv = st.clone()
		if len(rest) != 0 {
			x.fail(rest[0], "statements after the loop")
		}
		return ind + "(none : Option RunRes)", true
	case *ast.RangeStmt:
		return ind + x.fail(s, "range loop"), true
	case *ast.AssignStmt:
		// a, err := p.Decoder.Scan(ctx)
		if len(v.Rhs) == 1 && len(v.Lhs) == 2 && d.full && d.inLoop {
			if c, ok := chosencasesUnparen(v.Rhs[0]).(*ast.CallExpr); ok {
				ci := x.callee(c)
				if ci.kind == "method" && ci.name == "Scan" && len(c.Args) == 1 {
					r := x.eval(ci.recv, st)
					a := x.eval(c.Args[0], st)
					if r.kind != "ref" || (r.ref != "decoder" && r.ref != "recv") || a.kind != "ref" || a.ref != "ctx" {
						return ind + x.fail(s, "Scan call %s", x.src(c)), true
					}
					if st.flags["scanned"] {
						return ind + x.fail(s, "a second Scan in one iteration"), true
					}
					arms := []struct{ pat, cls string }{{"ScanRes.ammo i", "nil"}, {"ScanRes.errLimit", "errLimit"},
						{"ScanRes.errPass", "errPasses"}, {"ScanRes.errNoAmmo", "errNoAmmo"}, {"ScanRes.unexpected", "errOther"}}
					var b strings.Builder
					b.WriteString(ind + "(match sr with\n")
					for _, arm := range arms {
						s2 := st.clone()
						s2.flags["scanned"] = true
						am := chosencasesRef("nilref")
						if arm.cls == "nil" {
							am = chosencasesSV{kind: "ref", ref: "scan", idx: "i"}
						}
						if !x.assign(v.Lhs[0], am, v.Tok == token.DEFINE, s2) || !x.assign(v.Lhs[1], chosencasesErrC(arm.cls), v.Tok == token.DEFINE, s2) {
							return ind + x.fail(s, "targets of %s", x.src(s)), true
						}
						b.WriteString(ind + "| " + arm.pat + " =>\n" + x.exec(rest, s2, k, ind+"    ") + "\n")
					}
					return strings.TrimRight(b.String(), "\n") + ")", true
				}
			}
		}
	case *ast.SendStmt:
		return ind + x.fail(s, "a send outside a select with ctx.Done()"), true
	case *ast.SelectStmt:
		if !d.inLoop || len(v.Body.List) != 2 {
			return ind + x.fail(s, "select shape"), true
		}
		var doneC, sendC *ast.CommClause
		for _, c := range v.Body.List {
			cc := c.(*ast.CommClause)
			switch {
			case cc.Comm == nil:
				return ind + x.fail(s, "select with a default case"), true
			case d.isDoneRecv(cc.Comm):
				doneC = cc
			default:
				if _, ok := cc.Comm.(*ast.SendStmt); ok {
					sendC = cc
				}
			}
		}
		if doneC == nil || sendC == nil {
			return ind + x.fail(s, "select is not {<-ctx.Done(), send}"), true
		}
		snd := sendC.Comm.(*ast.SendStmt)
		ch := x.eval(snd.Chan, st)
		val := x.eval(snd.Value, st)
		want := "replay"
		if d.full {
			want = "scan"
		}
		if ch.kind != "ref" || ch.ref != "sink" || val.kind != "ref" || val.ref != want {
			return ind + x.fail(s, "send %s", x.src(snd)), true
		}
		if st.sent != "" {
			return ind + x.fail(s, "a second send in one iteration"), true
		}
		// the Done branch, with a cancelled context
		ds := st.clone()
		ds.ctx = 1
		var got []string
		saveR, saveC := x.onReturn, x.onCont
		x.onReturn = func(r *ast.ReturnStmt, st *chosencasesSt, ind string) string {
			got = append(got, d.retClass(r, st))
			return ""
		}
		x.onCont = func(st *chosencasesSt, ind string) string { got = append(got, "(falls through)"); return "" }
		x.exec(doneC.Body, ds, func(st *chosencasesSt, ind string) string { got = append(got, "(falls through)"); return "" }, "")
		x.onReturn, x.onCont = saveR, saveC
		if len(got) != 1 || !strings.HasPrefix(got[0], "RunRes.") {
			return ind + x.fail(doneC, "the Done branch of the select does not return one class of error: %v", got), true
		}
		if d.done != "" && d.done != got[0] {
			return ind + x.fail(doneC, "two different results of the Done branch: %s, %s", d.done, got[0]), true
		}
		d.done = got[0]
		s2 := st.clone()
		s2.sent = val.idx
		return x.exec(append(append([]ast.Stmt{}, sendC.Body...), rest...), s2, k, ind), true
	}
	return "", false
}

// retClass: the class of the error a `return` hands back (the last result)
func (d *chosencasesLoopDrv) retClass(r *ast.ReturnStmt, st *chosencasesSt) string {
	x := d.x
	if len(r.Results) != 1 {
		return x.fail(r, "return %s", x.src(r))
	}
	v := x.eval(r.Results[0], st)
	switch v.kind {
	case "nil":
		return "RunRes.nil"
	case "err":
		return v.lean
	}
	return x.fail(r, "returned value %s", x.src(r.Results[0]))
}

func (d *chosencasesLoopDrv) stateText(st *chosencasesSt) string {
	cv := st.env[d.carried].lean
	if d.full {
		return cv
	}
	second := "passNum"
	for _, o := range d.outer {
		if o != d.carried {
			second = st.env[o].lean
			break
		}
	}
	return "(" + cv + ", " + second + ")"
}

func (d *chosencasesLoopDrv) endIter(st *chosencasesSt, ind string) string {
	if st.sent != "" {
		return ind + "Act.offer " + st.sent + " " + d.stateText(st)
	}
	return ind + "Act.tau " + d.stateText(st)
}

// iteration: one iteration of the loop from the generic state; names = Lean names of the outer variables
func (d *chosencasesLoopDrv) iteration() string {
	x := d.x
	st := d.loopEnv.clone()
	st.ctx, st.sent = 0, ""
	for _, o := range d.outer {
		st.env[o] = chosencasesSV{kind: "nat", lean: d.names[o], head: o}
	}
	x.reads = map[types.Object]bool{}
	d.inLoop = true
	x.onReturn = func(r *ast.ReturnStmt, st *chosencasesSt, ind string) string { return ind + "Act.ret " + d.retClass(r, st) }
	x.onCont = d.endIter
	x.onBreak = nil
	out := x.exec(d.loop.Body.List, st, d.endIter, "  ")
	d.inLoop = false
	return out
}

func chosencasesSymLoop(t *tr, pkg *packages.Package, fd *ast.FuncDecl, full bool) string {
	x := chosencasesNewSym(t, pkg, fd)
	d := &chosencasesLoopDrv{x: x, fd: fd, full: full}
	x.field, x.index, x.call, x.stmt = d.field, d.index, d.call, d.stmt
	if x.recv == nil || x.ctxO == nil {
		return x.fail(fd, "receiver / context parameter not found")
	}
	// before the loop
	x.onReturn = func(r *ast.ReturnStmt, st *chosencasesSt, ind string) string { return ind + "some " + d.retClass(r, st) }
	st0 := &chosencasesSt{env: map[types.Object]chosencasesSV{}, flags: map[string]bool{}}
	pre := x.exec(fd.Body.List, st0, func(st *chosencasesSt, ind string) string {
		return ind + x.fail(fd, "the function falls through without reaching its loop")
	}, "  ")
	if d.loop == nil || d.loopEnv == nil {
		return x.fail(fd, "no `for { … }` loop reached")
	}
	// the locals the loop assigns that live outside it
	for _, o := range x.assignedOuter(d.loop.Body) {
		if _, known := d.loopEnv.env[o]; known {
			if d.loopEnv.env[o].kind != "nat" {
				x.fail(d.loop, "the loop assigns %s, which is not a counter", o.Name())
				continue
			}
			d.outer = append(d.outer, o)
		} else {
			x.fail(d.loop, "the loop assigns %s, which is not a local defined before it", o.Name())
		}
	}
	// dry run: which of them is read before it is assigned
	d.names = map[types.Object]string{}
	for i, o := range d.outer {
		d.names[o] = fmt.Sprintf("ov%d", i)
	}
	if len(d.outer) > 0 {
		d.carried = d.outer[0]
	}
	nerr := len(t.errs)
	d.iteration()
	t.errs = t.errs[:nerr]
	var carried []types.Object
	for _, o := range d.outer {
		if x.reads[o] {
			carried = append(carried, o)
		}
	}
	if len(carried) != 1 {
		var ns []string
		for _, o := range carried {
			ns = append(ns, o.Name())
		}
		return x.fail(d.loop, "the loop must carry exactly one counter from one iteration to the next, found %v", ns)
	}
	d.carried = carried[0]
	if len(d.outer) > 2 || (full && len(d.outer) > 1) {
		x.fail(d.loop, "too many locals assigned by the loop")
	}
	if v := d.loopEnv.env[d.carried]; v.lean != "0" {
		x.fail(d.loop, "the counter %s is %s, not 0, when the loop is entered", d.carried.Name(), v.lean)
	}
	for _, o := range d.outer {
		if o == d.carried {
			d.names[o] = "ammoNum"
		} else {
			d.names[o] = "passNum"
		}
	}
	d.done = ""
	body := d.iteration()
	if d.done == "" {
		d.done = x.fail(d.loop, "no send select in the loop")
	}
	pos := pkg.Fset.Position(fd.Pos())
	if full {
		if strings.Contains(pre, "some ") {
			x.fail(fd, "runFullScan returns before its loop")
		}
		return fmt.Sprintf("/-- regenerated (symbolic execution of one iteration) from the `for` loop of runFullScan, `%s:%d` (state = ammoNum; `passNum` = Decoder.PassNum(),\n`sr` = what Decoder.Scan returns, `chosen` = IsChosenCase of the scanned ammo) -/\n"+
			"def runFullScanStep (limit : Nat) (c : Bool) (ammoNum passNum : Nat) (sr : ScanRes) (chosen : Bool) : Act Nat :=\n%s\n\n"+
			"/-- regenerated: result of the `case <-ctx.Done()` branch of the send select of runFullScan -/\ndef runFullScanDone : RunRes := %s\n\n",
			chosencasesShortPath(pos.Filename), pos.Line, body, d.done)
	}
	return fmt.Sprintf("/-- regenerated from `%s:%d` %s: what happens before the loop (`none` = the loop is entered with ammoNum = 0) -/\n"+
		"def runPreloadedPre (length : Nat) : Option RunRes :=\n%s\n\n"+
		"/-- regenerated (symbolic execution of one iteration) from the `for` loop of %s (state = ammoNum, passNum) -/\n"+
		"def runPreloadedStep (passes limit length : Nat) (c : Bool) (ammoNum passNum : Nat) : Act (Nat × Nat) :=\n%s\n\n"+
		"/-- regenerated: result of the `case <-ctx.Done()` branch of the send select of %s -/\ndef runPreloadedDone : RunRes := %s\n\n",
		chosencasesShortPath(pos.Filename), pos.Line, fd.Name.Name, pre, fd.Name.Name, body, fd.Name.Name, d.done)
}

// chosencasesPassCounter: the interface runFullScan asserts on the decoder is implemented by every file decoder of
// package decoders (a renamed method would make the assertion fail silently at run time)
func chosencasesPassCounter(t *tr, pp, dec *packages.Package) string {
	ok := true
	why := ""
	obj := pp.Types.Scope().Lookup("passCounter")
	var iface *types.Interface
	if obj != nil {
		iface, _ = obj.Type().Underlying().(*types.Interface)
	}
	if iface == nil {
		ok, why = false, "no interface passCounter in package provider"
	} else {
		for _, n := range []string{"uriDecoder", "uripostDecoder", "rawDecoder", "jsonlineDecoder"} {
			o := dec.Types.Scope().Lookup(n)
			if o == nil {
				ok, why = false, "decoder type "+n+" not found"
				break
			}
			if !types.Implements(types.NewPointer(o.Type()), iface) {
				ok, why = false, "*"+n+" does not implement passCounter"
				break
			}
		}
	}
	if why != "" {
		why = " (" + why + ")"
	}
	return fmt.Sprintf("/-- regenerated (go/types): *uriDecoder, *uripostDecoder, *rawDecoder, *jsonlineDecoder implement provider.passCounter%s -/\ndef passCounterImplemented : Bool := %v\n\n", why, ok)
}

// ---- Provider.Run: which methods run, in which order, under which condition, and what becomes of their results ------
//
// Reading (trusted): `p.Deps = deps` and the `defer` statement are skipped (the deferred function is read by
// area_chosencases_fin.go); a `for … range p.Middlewares` loop that calls none of the three path methods and assigns
// nothing outside itself is skipped (a failing InitMiddleware ends Run before either path: same code for both modes);
// `p.loadAmmo(ctx)`, `p.runPreloaded(ctx)`, `p.runFullScan(ctx)` return the unknown classes loadV, preV, fullV and are
// recorded, in order, on the path on which they are called; `p.Config.Preload` (any spelling) is `preload`; a bare
// `return` returns the named result.  Emitted: httpRunBody preload loadV preV fullV = (calls made, class returned).

func chosencasesSymRun(t *tr, pkg *packages.Package, fd *ast.FuncDecl) string {
	x := chosencasesNewSym(t, pkg, fd)
	if x.recv == nil || x.ctxO == nil {
		return x.fail(fd, "receiver / context parameter not found")
	}
	paths := map[string]string{"loadAmmo": "loadV", "runPreloaded": "preV", "runFullScan": "fullV"}
	st0 := &chosencasesSt{env: map[types.Object]chosencasesSV{}, flags: map[string]bool{}}
	var named types.Object
	if fd.Type.Results != nil && len(fd.Type.Results.List) == 1 {
		if ns := fd.Type.Results.List[0].Names; len(ns) == 1 {
			named = pkg.TypesInfo.Defs[ns[0]]
			st0.env[named] = chosencasesErrC("nil")
		}
	}
	for _, f := range fd.Type.Params.List { // the other parameters (deps) are opaque
		for _, n := range f.Names {
			if o := pkg.TypesInfo.Defs[n]; o != nil && o != x.ctxO {
				st0.env[o] = chosencasesRef("param")
			}
		}
	}
	x.field = func(owner, name string, e *ast.SelectorExpr, st *chosencasesSt) (chosencasesSV, bool) {
		switch name {
		case "Preload":
			if owner == "config" {
				return chosencasesProp("(preload = true)"), true
			}
		case "Config", "ProviderBase":
			return chosencasesRef("recv"), true
		case "Middlewares":
			return chosencasesRef("mws"), true
		}
		return chosencasesSV{}, false
	}
	x.call = func(c *ast.CallExpr, st *chosencasesSt) (chosencasesSV, bool) {
		ci := x.callee(c)
		if v, ok := paths[ci.name]; ok && ci.kind == "method" && len(c.Args) == 1 {
			r := x.eval(ci.recv, st)
			a := x.eval(c.Args[0], st)
			if r.kind == "ref" && r.ref == "recv" && a.kind == "ref" && a.ref == "ctx" {
				if st.flags["called:"+ci.name] {
					return x.failV(c, "%s is called twice on one path", ci.name), true
				}
				st.flags["called:"+ci.name] = true
				st.trace = append(st.trace, ci.name)
				return chosencasesErrS(v), true
			}
		}
		return chosencasesSV{}, false
	}
	x.stmt = func(s ast.Stmt, rest []ast.Stmt, st *chosencasesSt, k chosencasesCont, ind string) (string, bool) {
		next := func() string { return x.exec(rest, st, k, ind) }
		switch v := s.(type) {
		case *ast.DeferStmt:
			return next(), true
		case *ast.AssignStmt:
			if len(v.Lhs) == 1 && v.Tok == token.ASSIGN {
				if sel, ok := chosencasesUnparen(v.Lhs[0]).(*ast.SelectorExpr); ok {
					if _, name, ok := x.fieldInfo(sel); ok && name == "Deps" {
						return next(), true
					}
				}
			}
		case *ast.RangeStmt:
			if r := x.eval(v.X, st); r.kind != "ref" || r.ref != "mws" {
				return ind + x.fail(s, "range over %s", x.src(v.X)), true
			}
			bad := len(x.assignedOuter(v.Body)) != 0
			ast.Inspect(v.Body, func(n ast.Node) bool {
				if c, ok := n.(*ast.CallExpr); ok {
					if _, isPath := paths[x.callee(c).name]; isPath {
						bad = true
					}
				}
				return true
			})
			if bad {
				return ind + x.fail(s, "the middleware loop calls a path method or assigns a variable of Run"), true
			}
			return next(), true
		}
		return "", false
	}
	x.onReturn = func(r *ast.ReturnStmt, st *chosencasesSt, ind string) string {
		var v chosencasesSV
		switch {
		case len(r.Results) == 0 && named != nil:
			v = st.env[named]
		case len(r.Results) == 1:
			v = x.eval(r.Results[0], st)
		default:
			return ind + x.fail(r, "return %s", x.src(r))
		}
		cls := ""
		switch v.kind {
		case "nil":
			cls = "RunRes.nil"
		case "err":
			cls = v.lean
		default:
			cls = x.fail(r, "returned value")
		}
		return ind + "(" + chosencasesLeanStrList(st.trace) + ", " + cls + ")"
	}
	body := x.exec(fd.Body.List, st0, func(st *chosencasesSt, ind string) string {
		if named != nil { // falling off the end of a function with results does not compile; kept for completeness
			return ind + x.fail(fd, "Run falls through")
		}
		return ind + x.fail(fd, "Run falls through")
	}, "  ")
	pos := pkg.Fset.Position(fd.Pos())
	return fmt.Sprintf("/-- regenerated (symbolic execution) from `%s:%d` Run: the path methods that are called, in order, and the class of the error that is\n"+
		"handed to the deferred function, as a function of `preload` and of what loadAmmo / runPreloaded / runFullScan return -/\n"+
		"def httpRunBody (preload : Bool) (loadV preV fullV : RunRes) : List String × RunRes :=\n%s\n\n"+
		"/-- what Run makes of the result of runPreloaded (derived from httpRunBody) -/\n"+
		"def httpRunMap (errV : RunRes) : RunRes := (httpRunBody true RunRes.nil errV RunRes.nil).2\n\n",
		chosencasesShortPath(pos.Filename), pos.Line, body)
}

// ---- Provider.loadAmmo: what is kept of the loaded ammo -----------------------------------------------------------------
//
// Reading (trusted): the success path of loadAmmo (`err` of `ammos, err := p.Decoder.LoadAmmo(ctx)` is nil: the error
// branch is read by chosencasesLF) is executed; `p.ammos = make(T, 0[, n])` / `p.ammos = nil` empties the list; ONE
// `for … range ammos` loop follows, whose body is executed for a generic element (`ammo`, or `ammos[k]` with k the range
// key): `confutil.IsChosenCase(<element>.Tag(), p.…ChosenCases)` is `chosen ammo`, `p.ammos = append(p.ammos, <element>)`
// (at most once per iteration) keeps the element; nothing else may be assigned; after the loop loadAmmo returns nil.

func chosencasesSymKeep(t *tr, pkg *packages.Package, fd *ast.FuncDecl) string {
	x := chosencasesNewSym(t, pkg, fd)
	if x.recv == nil || x.ctxO == nil {
		return x.fail(fd, "receiver / context parameter not found")
	}
	inLoop, loops, emptied, returned := false, 0, false, 0
	step := ""
	isAmmosField := func(e ast.Expr) bool {
		sel, ok := chosencasesUnparen(e).(*ast.SelectorExpr)
		if !ok {
			return false
		}
		_, name, ok := x.fieldInfo(sel)
		return ok && name == "ammos"
	}
	x.field = func(owner, name string, e *ast.SelectorExpr, st *chosencasesSt) (chosencasesSV, bool) {
		switch name {
		case "ammos":
			return chosencasesRef("kept"), true
		case "Decoder":
			return chosencasesRef("decoder"), true
		case "ChosenCases":
			return chosencasesRef("cases"), true
		case "Config", "ProviderBase":
			return chosencasesRef("recv"), true
		}
		return chosencasesSV{}, false
	}
	x.index = func(e *ast.IndexExpr, st *chosencasesSt) (chosencasesSV, bool) {
		a, i := x.eval(e.X, st), x.eval(e.Index, st)
		if a.kind == "ref" && a.ref == "loaded" && i.kind == "nat" && i.lean == "rangeKey" && inLoop {
			return chosencasesRef("elem"), true
		}
		return chosencasesSV{}, false
	}
	x.call = func(c *ast.CallExpr, st *chosencasesSt) (chosencasesSV, bool) {
		ci := x.callee(c)
		switch {
		case ci.kind == "method" && ci.name == "Tag" && len(c.Args) == 0:
			if r := x.eval(ci.recv, st); r.kind == "ref" && r.ref == "elem" {
				return chosencasesRef("tag:elem"), true
			}
		case ci.kind == "func" && ci.name == "IsChosenCase" && strings.HasSuffix(ci.pkg, "/lib/confutil") && len(c.Args) == 2:
			tag, cs := x.eval(c.Args[0], st), x.eval(c.Args[1], st)
			if tag.kind == "ref" && tag.ref == "tag:elem" && cs.kind == "ref" && cs.ref == "cases" {
				return chosencasesProp("(chosen ammo = true)"), true
			}
		case ci.kind == "builtin" && ci.name == "len" && len(c.Args) == 1:
			if a := x.eval(c.Args[0], st); a.kind == "ref" && a.ref == "loaded" {
				return chosencasesNat("loadedLen"), true
			}
		}
		return chosencasesSV{}, false
	}
	endIter := func(st *chosencasesSt, ind string) string {
		if st.appended {
			return ind + "kept ++ [ammo]"
		}
		return ind + "kept"
	}
	x.stmt = func(s ast.Stmt, rest []ast.Stmt, st *chosencasesSt, k chosencasesCont, ind string) (string, bool) {
		switch v := s.(type) {
		case *ast.AssignStmt:
			if len(v.Lhs) == 2 && len(v.Rhs) == 1 && !inLoop {
				if c, ok := chosencasesUnparen(v.Rhs[0]).(*ast.CallExpr); ok {
					if ci := x.callee(c); ci.kind == "method" && ci.name == "LoadAmmo" {
						if r := x.eval(ci.recv, st); r.kind == "ref" && (r.ref == "decoder" || r.ref == "recv") {
							if !x.assign(v.Lhs[0], chosencasesRef("loaded"), v.Tok == token.DEFINE, st) ||
								!x.assign(v.Lhs[1], chosencasesErrC("nil"), v.Tok == token.DEFINE, st) {
								return ind + x.fail(s, "targets of %s", x.src(s)), true
							}
							return x.exec(rest, st, k, ind), true
						}
					}
				}
			}
			if len(v.Lhs) == 1 && len(v.Rhs) == 1 && v.Tok == token.ASSIGN && isAmmosField(v.Lhs[0]) {
				rhs := chosencasesUnparen(v.Rhs[0])
				if x.isNilIdent(rhs) && !inLoop {
					emptied = true
					return x.exec(rest, st, k, ind), true
				}
				if c, ok := rhs.(*ast.CallExpr); ok {
					ci := x.callee(c)
					if ci.kind == "builtin" && ci.name == "make" && len(c.Args) >= 2 && !inLoop {
						if l := x.eval(c.Args[1], st); l.kind == "nat" && l.lean == "0" {
							emptied = true
							return x.exec(rest, st, k, ind), true
						}
					}
					if ci.kind == "builtin" && ci.name == "append" && len(c.Args) == 2 && !c.Ellipsis.IsValid() && inLoop {
						a, e := x.eval(c.Args[0], st), x.eval(c.Args[1], st)
						if a.kind == "ref" && a.ref == "kept" && e.kind == "ref" && e.ref == "elem" && !st.appended {
							st.appended = true
							return x.exec(rest, st, k, ind), true
						}
					}
				}
				return ind + x.fail(s, "assignment to p.ammos: %s", x.src(s)), true
			}
		case *ast.RangeStmt:
			loops++
			if r := x.eval(v.X, st); inLoop || loops > 1 || !emptied || r.kind != "ref" || r.ref != "loaded" || v.Tok != token.DEFINE {
				return ind + x.fail(s, "the filter loop must be the one `for … := range <loaded ammo>` after p.ammos was emptied"), true
			}
			s2 := st.clone()
			if v.Key != nil && !x.assign(v.Key, chosencasesNat("rangeKey"), true, s2) {
				return ind + x.fail(s, "range key"), true
			}
			if v.Value != nil && !x.assign(v.Value, chosencasesRef("elem"), true, s2) {
				return ind + x.fail(s, "range value"), true
			}
			if outer := x.assignedOuter(v.Body); len(outer) != 0 {
				return ind + x.fail(s, "the filter loop assigns %s", outer[0].Name()), true
			}
			inLoop = true
			saveR, saveC := x.onReturn, x.onCont
			x.onReturn = func(r *ast.ReturnStmt, st *chosencasesSt, ind string) string {
				return ind + x.fail(r, "return inside the filter loop")
			}
			x.onCont = endIter
			step = x.exec(v.Body.List, s2, endIter, "  ")
			x.onReturn, x.onCont = saveR, saveC
			inLoop = false
			return x.exec(rest, st, k, ind), true
		case *ast.ForStmt:
			return ind + x.fail(s, "for loop in loadAmmo"), true
		}
		return "", false
	}
	x.onReturn = func(r *ast.ReturnStmt, st *chosencasesSt, ind string) string {
		returned++
		if len(r.Results) == 1 {
			if v := x.eval(r.Results[0], st); v.kind == "nil" || (v.kind == "err" && v.cls == "nil") {
				if loops != 1 {
					x.fail(r, "loadAmmo returns nil without having run its filter loop")
				}
				return ""
			}
		}
		return x.fail(r, "on its success path loadAmmo returns %s", x.src(r))
	}
	st0 := &chosencasesSt{env: map[types.Object]chosencasesSV{}, flags: map[string]bool{}, ctx: 2}
	x.exec(fd.Body.List, st0, func(st *chosencasesSt, ind string) string { return x.fail(fd, "loadAmmo falls through") }, "")
	if returned != 1 || step == "" {
		step = "  " + x.fail(fd, "loadAmmo: %d returns on the success path, filter loop found: %v", returned, step != "")
	}
	return "/-- regenerated (symbolic execution of one iteration of the `for … range ammos` loop of loadAmmo): what becomes of the kept\n" +
		"list for one loaded ammo (`chosen ammo` = confutil.IsChosenCase(ammo.Tag(), p.Config.ChosenCases)) -/\n" +
		"def loadAmmoKeepStep {α : Type} (chosen : α → Bool) (kept : List α) (ammo : α) : List α :=\n" + step + "\n\n" +
		"/-- regenerated from `components/providers/http/provider/provider.go` loadAmmo: what is kept of the ammo that\n" +
		"`Decoder.LoadAmmo` returned when loadAmmoFail is `none`: p.ammos is emptied, then the loop runs over all of them in order -/\n" +
		"def loadAmmoKeep {α : Type} (chosen : α → Bool) (ammos : List α) : List α :=\n" +
		"  ammos.foldl (loadAmmoKeepStep chosen) []\n\n"
}

// ---- confutil.IsChosenCase ---------------------------------------------------------------------------------------------
//
// Reading (trusted): the function has one string parameter (the tag, Lean `checkCase`) and one []string parameter (the
// configured list, Lean `chosenCases`), in either order, and returns a bool.  `len(list)` is `chosenCases.length`,
// `list == nil` is read as `length = 0` (a nil and an empty list are the same configuration), `slices.Contains(list, s)`
// is `chosenCases.contains s`.  ONE `for … range list` loop is allowed: its body is executed for a generic element
// (`c`, or `list[k]` with k the range key); it may return a bool or go on to the next element (fall through / continue),
// it may assign nothing outside itself.  Emitted: isChosenCaseStep checkCase c : Option Bool (`none` = next element) and
// isChosenCase = the statements around the loop, the loop being `chosenCases.findSome? (isChosenCaseStep checkCase)`.

func chosencasesSymFilter(t *tr, pkg *packages.Package, fd *ast.FuncDecl) string {
	x := &chosencasesSym{t: t, pkg: pkg, fn: fd.Name.Name}
	st0 := &chosencasesSt{env: map[types.Object]chosencasesSV{}, flags: map[string]bool{}, ctx: 2}
	nStr, nList := 0, 0
	for _, f := range fd.Type.Params.List {
		for _, n := range f.Names {
			o := pkg.TypesInfo.Defs[n]
			if o == nil {
				continue
			}
			switch tt := o.Type().Underlying().(type) {
			case *types.Basic:
				if tt.Kind() == types.String {
					st0.env[o] = chosencasesSV{kind: "str", lean: "checkCase"}
					nStr++
				}
			case *types.Slice:
				if b, ok := tt.Elem().Underlying().(*types.Basic); ok && b.Kind() == types.String {
					st0.env[o] = chosencasesRef("list")
					nList++
				}
			}
		}
	}
	if nStr != 1 || nList != 1 || fd.Type.Results == nil || len(fd.Type.Results.List) != 1 {
		return x.fail(fd, "IsChosenCase must take one string and one []string and return one value")
	}
	inLoop, loops := false, 0
	step := "  none"
	boolOf := func(r *ast.ReturnStmt, st *chosencasesSt) string {
		if len(r.Results) != 1 {
			return x.fail(r, "return %s", x.src(r))
		}
		v := x.eval(r.Results[0], st)
		if v.kind != "prop" {
			return x.fail(r, "returned value %s", x.src(r.Results[0]))
		}
		if v.k != nil {
			return fmt.Sprintf("%v", *v.k)
		}
		return "(decide " + v.lean + ")"
	}
	x.index = func(e *ast.IndexExpr, st *chosencasesSt) (chosencasesSV, bool) {
		a, i := x.eval(e.X, st), x.eval(e.Index, st)
		if a.kind == "ref" && a.ref == "list" && i.kind == "nat" && i.lean == "rangeKey" && inLoop {
			return chosencasesSV{kind: "str", lean: "c"}, true
		}
		return chosencasesSV{}, false
	}
	x.call = func(c *ast.CallExpr, st *chosencasesSt) (chosencasesSV, bool) {
		ci := x.callee(c)
		switch {
		case ci.kind == "builtin" && ci.name == "len" && len(c.Args) == 1:
			if a := x.eval(c.Args[0], st); a.kind == "ref" && a.ref == "list" {
				return chosencasesNat("chosenCases.length"), true
			}
		case ci.kind == "func" && ci.name == "Contains" && (ci.pkg == "slices" || ci.pkg == "golang.org/x/exp/slices") && len(c.Args) == 2:
			a, s := x.eval(c.Args[0], st), x.eval(c.Args[1], st)
			if a.kind == "ref" && a.ref == "list" && s.kind == "str" {
				return chosencasesProp("(chosenCases.contains " + s.lean + " = true)"), true
			}
		}
		return chosencasesSV{}, false
	}
	x.stmt = func(s ast.Stmt, rest []ast.Stmt, st *chosencasesSt, k chosencasesCont, ind string) (string, bool) {
		switch v := s.(type) {
		case *ast.RangeStmt:
			loops++
			if r := x.eval(v.X, st); inLoop || loops > 1 || r.kind != "ref" || r.ref != "list" || v.Tok != token.DEFINE {
				return ind + x.fail(s, "only one `for … := range <the list>` loop is read"), true
			}
			if outer := x.assignedOuter(v.Body); len(outer) != 0 {
				return ind + x.fail(s, "the loop assigns %s", outer[0].Name()), true
			}
			s2 := st.clone()
			if v.Key != nil && !x.assign(v.Key, chosencasesNat("rangeKey"), true, s2) {
				return ind + x.fail(s, "range key"), true
			}
			if v.Value != nil && !x.assign(v.Value, chosencasesSV{kind: "str", lean: "c"}, true, s2) {
				return ind + x.fail(s, "range value"), true
			}
			inLoop = true
			saveR, saveC := x.onReturn, x.onCont
			x.onReturn = func(r *ast.ReturnStmt, st *chosencasesSt, ind string) string { return ind + "some " + boolOf(r, st) }
			x.onCont = func(st *chosencasesSt, ind string) string { return ind + "none" }
			step = x.exec(v.Body.List, s2, func(st *chosencasesSt, ind string) string { return ind + "none" }, "  ")
			x.onReturn, x.onCont = saveR, saveC
			inLoop = false
			return ind + "(match chosenCases.findSome? (isChosenCaseStep checkCase) with\n" +
				ind + "| some r_ => r_\n" +
				ind + "| none =>\n" + x.exec(rest, st, k, ind+"    ") + ")", true
		case *ast.ForStmt:
			return ind + x.fail(s, "for loop"), true
		}
		return "", false
	}
	// comparisons of the list with nil
	x.field = nil
	x.onReturn = func(r *ast.ReturnStmt, st *chosencasesSt, ind string) string { return ind + boolOf(r, st) }
	body := x.exec(fd.Body.List, st0, func(st *chosencasesSt, ind string) string { return ind + x.fail(fd, "falls through") }, "  ")
	pos := pkg.Fset.Position(fd.Pos())
	return fmt.Sprintf("/-- regenerated (symbolic execution of the loop body for one element of the list) from `%s:%d` %s: `none` = go on to the next element -/\n"+
		"def isChosenCaseStep (checkCase : String) (c : String) : Option Bool :=\n%s\n\n"+
		"/-- regenerated (symbolic execution) from `%s` func `%s` -/\n"+
		"def isChosenCase (checkCase : String) (chosenCases : List String) : Bool :=\n%s\n\n",
		chosencasesShortPath(pos.Filename), pos.Line, fd.Name.Name, step, chosencasesShortPath(pos.Filename), fd.Name.Name, body)
}
