package main

// Area "grpcstatus" (property C10), second part: facts that tie the C10 model's decision trees to the source.
//
//	docRows, docDefault        the mapping table of docs/eng/grpc-generator.md (rows in file order; the `-` row is the default)
//	idCounterType, nextIDShape, idCounterOtherUses
//	                           ProviderBase.idCounter is a sync/atomic.Uint64 that only NextID touches, by `Add(1)`
//	slice<Func>                the SAMPLE-RELEVANT SLICE of every function that creates, fills or reports a sample:
//	                           the statements that call Report / SetProtoCode / SetErr / AddTag / SetID / Acquire / autotag /
//	                           NextID / NewGunAmmo / ConvertGrpcStatus / reportErr / shoot / shootStep / Panic, or assign one
//	                           of the variables err, code, sample, tag, grpcErr, plus every return, every defer of a closure
//	                           and the if/for/switch headers that enclose any of these.  Statements about logging, tracing,
//	                           dumping, templating and timing are NOT part of a slice, so reordering or editing them does not
//	                           change it; adding, removing, moving or re-guarding a statement that decides how many samples
//	                           are reported or what they carry does.
//
// Bridge lemmas (lean/Pandora/Bridge/GrpcStatus.lean) compare every slice with the text the model was written against.

import (
	"fmt"
	"go/ast"
	"go/constant"
	"go/token"
	"go/types"
	"os"
	"path/filepath"
	"regexp"
	"sort"
	"strings"

	"golang.org/x/tools/go/packages"
)

func gsLeanStr(s string) string {
	r := strings.NewReplacer(`\`, `\\`, `"`, `\"`, "\n", `\n`, "\t", `\t`)
	return `"` + r.Replace(s) + `"`
}

func gsLeanStrList(l []string, ind string) string {
	if len(l) == 0 {
		return "[]"
	}
	var q []string
	for _, s := range l {
		q = append(q, ind+gsLeanStr(s))
	}
	return "[\n" + strings.Join(q, ",\n") + "]"
}

// ---------------------------------------------------------------- 5. documented table

var gsRowRe = regexp.MustCompile(`^\|([^|]*)\|([^|]*)\|([^|]*)\|\s*$`)

func gsDocTable(t *tr, b *strings.Builder) {
	path := filepath.Join(repo, "docs", "eng", "grpc-generator.md")
	src, err := os.ReadFile(path)
	if err != nil {
		t.errs = append(t.errs, "docs/eng/grpc-generator.md: "+err.Error())
		return
	}
	lines := strings.Split(string(src), "\n")
	start := -1
	for i, l := range lines {
		if strings.HasPrefix(l, "#") && strings.Contains(l, "Mapping table") {
			start = i
			break
		}
	}
	if start < 0 {
		t.errs = append(t.errs, "docs/eng/grpc-generator.md: heading `Mapping table` not found")
		return
	}
	var rows []string
	def := ""
	inTable := false
	for _, l := range lines[start+1:] {
		m := gsRowRe.FindStringSubmatch(strings.TrimSpace(l))
		if m == nil {
			if inTable {
				break
			}
			if strings.HasPrefix(l, "#") {
				break
			}
			continue
		}
		inTable = true
		code, http := strings.TrimSpace(m[2]), strings.TrimSpace(m[3])
		if strings.HasPrefix(code, "--") || strings.Contains(code, "Code") {
			continue // header and separator rows
		}
		isNum := func(s string) bool {
			if s == "" {
				return false
			}
			for _, c := range s {
				if c < '0' || c > '9' {
					return false
				}
			}
			return true
		}
		switch {
		case isNum(code) && isNum(http):
			rows = append(rows, "("+code+", "+http+")")
		case code == "-" && isNum(http) && def == "":
			def = http
		default:
			t.errs = append(t.errs, fmt.Sprintf("docs/eng/grpc-generator.md: unsupported table row %q", l))
		}
	}
	if len(rows) == 0 || def == "" {
		t.errs = append(t.errs, "docs/eng/grpc-generator.md: mapping table has no rows or no default (`-`) row")
		def = orZero(def)
	}
	b.WriteString("/-- regenerated from `docs/eng/grpc-generator.md`, \"Mapping table gPRC StatusCode -> HTTP StatusCode\":\nthe rows (gRPC status code, HTTP status code) in file order -/\n")
	b.WriteString("def docRows : List (Nat × Nat) := [" + strings.Join(rows, ", ") + "]\n\n")
	b.WriteString("/-- the row `unknown | - | N` of the same table -/\ndef docDefault : Nat := " + def + "\n\n")
}

// ---------------------------------------------------------------- 6. id counter

func gsFindMethod(p *packages.Package, recv, name string) *ast.FuncDecl {
	for _, f := range p.Syntax {
		for _, d := range f.Decls {
			fd, ok := d.(*ast.FuncDecl)
			if !ok || fd.Recv == nil || fd.Name.Name != name || len(fd.Recv.List) != 1 {
				continue
			}
			ty := fd.Recv.List[0].Type
			if st, ok := ty.(*ast.StarExpr); ok {
				ty = st.X
			}
			if id, ok := ty.(*ast.Ident); ok && id.Name == recv {
				return fd
			}
		}
	}
	return nil
}

func gsIDCounter(t *tr, b *strings.Builder) {
	bp := load("github.com/yandex/pandora/components/providers/base")
	obj := bp.Types.Scope().Lookup("ProviderBase")
	var field *types.Var
	if obj != nil {
		if st, ok := obj.Type().Underlying().(*types.Struct); ok {
			for i := 0; i < st.NumFields(); i++ {
				if st.Field(i).Name() == "idCounter" {
					field = st.Field(i)
				}
			}
		}
	}
	if field == nil {
		t.errs = append(t.errs, "base.ProviderBase.idCounter not found")
		return
	}
	b.WriteString("/-- type of `ProviderBase.idCounter` (components/providers/base) -/\ndef idCounterType : String := " + gsLeanStr(types.TypeString(field.Type(), nil)) + "\n\n")
	fd := gsFindMethod(bp, "ProviderBase", "NextID")
	shape := ""
	if fd == nil || fd.Body == nil {
		t.errs = append(t.errs, "base.(*ProviderBase).NextID not found")
	} else {
		shape = "other: " + strings.Join(strings.Fields(nodeString(bp, fd.Body)), " ")
		// `return <recv>.idCounter.Add(<const>)`
		if len(fd.Body.List) == 1 {
			if r, ok := fd.Body.List[0].(*ast.ReturnStmt); ok && len(r.Results) == 1 {
				if call, ok := r.Results[0].(*ast.CallExpr); ok && len(call.Args) == 1 {
					if sel, ok := call.Fun.(*ast.SelectorExpr); ok {
						if inner, ok := sel.X.(*ast.SelectorExpr); ok && bp.TypesInfo.Uses[inner.Sel] == field {
							if tv, ok := bp.TypesInfo.Types[call.Args[0]]; ok && tv.Value != nil && tv.Value.Kind() == constant.Int {
								shape = "return idCounter." + sel.Sel.Name + "(" + tv.Value.ExactString() + ")"
							}
						}
					}
				}
			}
		}
	}
	b.WriteString("/-- body of `(*ProviderBase).NextID`, normalised: the result of ONE atomic read-modify-write of the counter -/\ndef nextIDShape : String := " + gsLeanStr(shape) + "\n\n")
	// every other use of the field in the package (it is unexported: no other package can touch it)
	var uses []string
	for id, o := range bp.TypesInfo.Uses {
		if o != field {
			continue
		}
		pos := bp.Fset.Position(id.Pos())
		if strings.HasSuffix(pos.Filename, "_test.go") {
			continue
		}
		if fd != nil && id.Pos() >= fd.Pos() && id.End() <= fd.End() {
			continue
		}
		rel, _ := filepath.Rel(repo, pos.Filename)
		uses = append(uses, fmt.Sprintf("%s:%d", rel, pos.Line))
	}
	sort.Strings(uses)
	b.WriteString("/-- every use of `idCounter` outside `NextID` (non-test files of its package; the field is unexported) -/\ndef idCounterOtherUses : List String := " + gsLeanStrList(uses, "  ") + "\n\n")
}

// ---------------------------------------------------------------- 7. slices

var gsSliceCalls = map[string]bool{"Report": true, "SetProtoCode": true, "SetErr": true, "AddTag": true, "SetID": true, "Acquire": true,
	"autotag": true, "NextID": true, "NewGunAmmo": true, "ConvertGrpcStatus": true, "reportErr": true, "shoot": true, "shootStep": true,
	"Panic": true, "panic": true, "SetUserProto": true, "SetUserNet": true}
var gsSliceVars = map[string]bool{"err": true, "code": true, "sample": true, "tag": true, "grpcErr": true}

type gsSlicer struct {
	p *packages.Package
}

func (s *gsSlicer) text(n ast.Node) string {
	return strings.Join(strings.Fields(nodeString(s.p, n)), " ")
}

// relevant: the node (function literals included) calls one of gsSliceCalls or assigns/declares one of gsSliceVars.
func (s *gsSlicer) relevant(n ast.Node) bool {
	if n == nil {
		return false
	}
	found := false
	ast.Inspect(n, func(x ast.Node) bool {
		if found {
			return false
		}
		switch v := x.(type) {
		case *ast.CallExpr:
			switch f := v.Fun.(type) {
			case *ast.SelectorExpr:
				if gsSliceCalls[f.Sel.Name] {
					found = true
				}
			case *ast.Ident:
				if gsSliceCalls[f.Name] {
					found = true
				}
			}
		case *ast.AssignStmt:
			for _, l := range v.Lhs {
				if id, ok := l.(*ast.Ident); ok && gsSliceVars[id.Name] {
					found = true
				}
			}
		case *ast.ValueSpec:
			for _, id := range v.Names {
				if gsSliceVars[id.Name] {
					found = true
				}
			}
		case *ast.ReturnStmt:
			found = true
		}
		return !found
	})
	return found
}

func (s *gsSlicer) stmts(list []ast.Stmt, ind string) []string {
	var out []string
	for _, st := range list {
		out = append(out, s.stmt(st, ind)...)
	}
	return out
}

func (s *gsSlicer) stmt(st ast.Stmt, ind string) []string {
	switch v := st.(type) {
	case nil:
		return nil
	case *ast.BlockStmt:
		return s.stmts(v.List, ind)
	case *ast.ReturnStmt:
		return []string{ind + s.text(v)}
	case *ast.DeferStmt:
		if fl, ok := v.Call.Fun.(*ast.FuncLit); ok {
			inner := s.stmts(fl.Body.List, ind+"  ")
			if len(inner) == 0 {
				return nil
			}
			return append(append([]string{ind + "defer func() {"}, inner...), ind+"}()")
		}
		if s.relevant(v.Call) {
			return []string{ind + s.text(v)}
		}
		return nil
	case *ast.IfStmt:
		body := s.stmts(v.Body.List, ind+"  ")
		var els []string
		if v.Else != nil {
			els = s.stmt(v.Else, ind+"  ")
		}
		if len(body) == 0 && len(els) == 0 {
			// a guard without sample-relevant content; its init may still assign a tracked variable that lives on
			return nil
		}
		hdr := "if "
		if v.Init != nil {
			hdr += s.text(v.Init) + "; "
		}
		hdr += s.text(v.Cond) + " {"
		out := append([]string{ind + hdr}, body...)
		if len(els) > 0 {
			out = append(out, ind+"} else {")
			out = append(out, els...)
		}
		return append(out, ind+"}")
	case *ast.ForStmt:
		body := s.stmts(v.Body.List, ind+"  ")
		if len(body) == 0 {
			return nil
		}
		hdr := "for"
		if v.Init != nil || v.Cond != nil || v.Post != nil {
			hdr += " " + s.text(v.Init) + "; " + s.text(v.Cond) + "; " + s.text(v.Post)
		}
		return append(append([]string{ind + hdr + " {"}, body...), ind+"}")
	case *ast.RangeStmt:
		body := s.stmts(v.Body.List, ind+"  ")
		if len(body) == 0 {
			return nil
		}
		hdr := "for "
		if v.Key != nil {
			hdr += s.text(v.Key)
			if v.Value != nil {
				hdr += ", " + s.text(v.Value)
			}
			hdr += " " + v.Tok.String() + " "
		}
		hdr += "range " + s.text(v.X) + " {"
		return append(append([]string{ind + hdr}, body...), ind+"}")
	case *ast.SwitchStmt:
		return s.switchLike("switch "+s.text(v.Init)+"; "+s.text(v.Tag), v.Body, ind)
	case *ast.TypeSwitchStmt:
		return s.switchLike("switch "+s.text(v.Init)+"; "+s.text(v.Assign), v.Body, ind)
	case *ast.SelectStmt:
		var out []string
		for _, c := range v.Body.List {
			cc := c.(*ast.CommClause)
			body := s.stmts(cc.Body, ind+"    ")
			if len(body) == 0 {
				continue
			}
			out = append(out, ind+"  case "+s.text(cc.Comm)+":")
			out = append(out, body...)
		}
		if len(out) == 0 {
			return nil
		}
		return append(append([]string{ind + "select {"}, out...), ind+"}")
	case *ast.LabeledStmt:
		return s.stmt(v.Stmt, ind)
	case *ast.GoStmt:
		if s.relevant(v.Call) {
			return []string{ind + s.text(v)}
		}
		return nil
	default:
		if s.relevant(st) {
			return []string{ind + s.text(st)}
		}
		return nil
	}
}

func (s *gsSlicer) switchLike(hdr string, body *ast.BlockStmt, ind string) []string {
	var out []string
	for _, c := range body.List {
		cc := c.(*ast.CaseClause)
		inner := s.stmts(cc.Body, ind+"    ")
		if len(inner) == 0 {
			continue
		}
		lbl := "default:"
		if cc.List != nil {
			var ls []string
			for _, e := range cc.List {
				ls = append(ls, s.text(e))
			}
			lbl = "case " + strings.Join(ls, ", ") + ":"
		}
		out = append(out, ind+"  "+lbl)
		out = append(out, inner...)
	}
	if len(out) == 0 {
		return nil
	}
	return append(append([]string{ind + hdr + " {"}, out...), ind+"}")
}

type gsSliceSpec struct {
	pkg, recv, fn, lean string
	full              bool // the whole body, normalised, instead of the slice
}

func gsSlices(t *tr, b *strings.Builder) {
	specs := []gsSliceSpec{
		{"github.com/yandex/pandora/components/guns/http", "BaseGun", "Shoot", "sliceBaseShoot", false},
		{"github.com/yandex/pandora/components/guns/http", "", "autotag", "srcAutotag", true},
		{"github.com/yandex/pandora/components/guns/http_scenario", "ScenarioGun", "Shoot", "sliceScenarioShoot", false},
		{"github.com/yandex/pandora/components/guns/http_scenario", "ScenarioGun", "shoot", "sliceScenarioShootLoop", false},
		{"github.com/yandex/pandora/components/guns/http_scenario", "ScenarioGun", "shootStep", "sliceScenarioShootStep", false},
		{"github.com/yandex/pandora/components/guns/http_scenario", "ScenarioGun", "reportErr", "sliceScenarioReportErr", false},
		{"github.com/yandex/pandora/components/guns/grpc", "Gun", "Shoot", "sliceGrpcShoot", false},
		{"github.com/yandex/pandora/components/guns/grpc", "Gun", "shoot", "sliceGrpcShootInner", false},
		{"github.com/yandex/pandora/components/guns/grpc/scenario", "Gun", "Shoot", "sliceGrpcScenarioShoot", false},
		{"github.com/yandex/pandora/components/guns/grpc/scenario", "Gun", "shoot", "sliceGrpcScenarioShootLoop", false},
		{"github.com/yandex/pandora/components/guns/grpc/scenario", "Gun", "shootStep", "sliceGrpcScenarioShootStep", false},
		{"github.com/yandex/pandora/core/aggregator/netsample", "", "Acquire", "srcAcquire", true},
		{"github.com/yandex/pandora/core/aggregator/netsample", "Sample", "AddTag", "srcAddTag", true},
		{"github.com/yandex/pandora/core/aggregator/netsample", "Sample", "SetID", "srcSetID", true},
		{"github.com/yandex/pandora/core/aggregator/netsample", "Sample", "SetProtoCode", "srcSetProtoCode", true},
		{"github.com/yandex/pandora/core/aggregator/netsample", "Sample", "SetErr", "srcSetErr", true},
		{"github.com/yandex/pandora/components/providers/http/ammo", "GunAmmo", "Request", "srcGunAmmoRequest", true},
		{"github.com/yandex/pandora/components/providers/http/ammo", "", "NewGunAmmo", "srcNewGunAmmo", true},
		{"github.com/yandex/pandora/components/providers/http/provider", "Provider", "Acquire", "sliceHTTPProviderAcquire", false},
	}
	cache := map[string]*packages.Package{}
	for _, sp := range specs {
		p := cache[sp.pkg]
		if p == nil {
			if sp.pkg == t.pkg.PkgPath {
				p = t.pkg
			} else {
				p = load(sp.pkg)
			}
			cache[sp.pkg] = p
		}
		var fd *ast.FuncDecl
		if sp.recv == "" {
			fd = findFunc(p, sp.fn)
		} else {
			fd = gsFindMethod(p, sp.recv, sp.fn)
		}
		name := sp.fn
		if sp.recv != "" {
			name = "(" + sp.recv + ")." + sp.fn
		}
		if fd == nil || fd.Body == nil {
			t.errs = append(t.errs, "function "+name+" not found in "+sp.pkg)
			b.WriteString("def " + sp.lean + " : List String := []\n\n")
			continue
		}
		rel, _ := filepath.Rel(repo, p.Fset.Position(fd.Pos()).Filename)
		sl := &gsSlicer{p: p}
		var lines []string
		kind := "sample-relevant slice"
		if sp.full {
			kind = "whole body (one statement per entry, whitespace normalised)"
			lines = gsFullBody(sl, fd.Body.List, "")
		} else {
			lines = sl.stmts(fd.Body.List, "")
		}
		b.WriteString(fmt.Sprintf("/-- %s of `%s` in `%s` -/\ndef %s : List String := %s\n\n", kind, name, rel, sp.lean, gsLeanStrList(lines, "  ")))
	}
	_ = token.NoPos
}

// gsFullBody prints every statement; compound statements keep their structure.
func gsFullBody(s *gsSlicer, list []ast.Stmt, ind string) []string {
	var out []string
	for _, st := range list {
		out = append(out, ind+s.text(st))
	}
	return out
}
