package main

// Area "grpcstatus" (property C10), second part: facts that tie the C10 model's decision trees to the source.
//
//	docRows, docDefault        the mapping table of docs/eng/grpc-generator.md (rows in file order; the `-` row is the default)
//	idCounterType, nextIDShape, idCounterOtherUses
//	                           ProviderBase.idCounter is a sync/atomic.Uint64 that only NextID touches, by `Add(1)`
//	slice<Func>                the SAMPLE-RELEVANT SLICE of every function that creates, fills or reports a sample:
//	                           the statements that call Report / SetProtoCode / SetErr / AddTag / SetID / Acquire / autotag /
//	                           NextID / NewGunAmmo / ConvertGrpcStatus / reportErr / shoot / shootStep / Panic, or assign a
//	                           TRACKED local variable, plus every return, every defer of a closure and the if/for/switch
//	                           headers that enclose any of these.  Tracked variables are found by what they are, not by
//	                           their names: locals of type *netsample.Sample, locals handed as a bare identifier to one of
//	                           the calls above (the code, the tag, the error), and — to a fixed point — locals read by the
//	                           condition of a header the slice keeps (a backward slice over control dependence).
//	                           Function-local identifiers (receiver, parameters, variables, constants) are printed as
//	                           v1, v2 ... in order of first appearance in the slice, and a run of consecutive setter calls
//	                           on one sample with pairwise different setters (they write different fields) is printed in
//	                           a canonical order.  So: renaming locals, reordering independent setter calls, and adding,
//	                           editing or moving statements about logging, tracing, dumping, templating and timing do NOT
//	                           change a slice; adding, removing, moving or re-guarding a statement that decides how many
//	                           samples are reported or what they carry does.
//
// Bridge lemmas (lean/Pandora/Bridge/GrpcStatus.lean) compare every slice with the text the model was written against.

import (
	"fmt"
	"go/ast"
	"go/constant"
	"go/token"
	"go/types"
	"os"
	"path/filepath"
	"reflect"
	"regexp"
	"sort"
	"strings"

	"golang.org/x/tools/go/packages"
)

func gsLeanStr(s string) string {
	r := strings.NewReplacer(`\`, `\\`, `"`, `\"`, "\n", `\n`, "\t", `\t`)
	return `"` + r.Replace(s) + `"`
}

func gsLeanStrList(l []string, ind string) string {
	if len(l) == 0 {
		return "[]"
	}
	var q []string
	for _, s := range l {
		q = append(q, ind+gsLeanStr(s))
	}
	return "[\n" + strings.Join(q, ",\n") + "]"
}

// ---------------------------------------------------------------- 5. documented table

var gsRowRe = regexp.MustCompile(`^\|([^|]*)\|([^|]*)\|([^|]*)\|\s*$`)

func gsDocTable(t *tr, b *strings.Builder) {
	path := filepath.Join(repo, "docs", "eng", "grpc-generator.md")
	src, err := os.ReadFile(path)
	if err != nil {
		t.errs = append(t.errs, "docs/eng/grpc-generator.md: "+err.Error())
		return
	}
	lines := strings.Split(string(src), "\n")
	start := -1
	for i, l := range lines {
		if strings.HasPrefix(l, "#") && strings.Contains(l, "Mapping table") {
			start = i
			break
		}
	}
	if start < 0 {
		t.errs = append(t.errs, "docs/eng/grpc-generator.md: heading `Mapping table` not found")
		return
	}
	var rows []string
	def := ""
	inTable := false
	for _, l := range lines[start+1:] {
		m := gsRowRe.FindStringSubmatch(strings.TrimSpace(l))
		if m == nil {
			if inTable {
				break
			}
			if strings.HasPrefix(l, "#") {
				break
			}
			continue
		}
		inTable = true
		code, http := strings.TrimSpace(m[2]), strings.TrimSpace(m[3])
		if strings.HasPrefix(code, "--") || strings.Contains(code, "Code") {
			continue // header and separator rows
		}
		isNum := func(s string) bool {
			if s == "" {
				return false
			}
			for _, c := range s {
				if c < '0' || c > '9' {
					return false
				}
			}
			return true
		}
		switch {
		case isNum(code) && isNum(http):
			rows = append(rows, "("+code+", "+http+")")
		case code == "-" && isNum(http) && def == "":
			def = http
		default:
			t.errs = append(t.errs, fmt.Sprintf("docs/eng/grpc-generator.md: unsupported table row %q", l))
		}
	}
	if len(rows) == 0 || def == "" {
		t.errs = append(t.errs, "docs/eng/grpc-generator.md: mapping table has no rows or no default (`-`) row")
		def = orZero(def)
	}
	b.WriteString("/-- regenerated from `docs/eng/grpc-generator.md`, \"Mapping table gPRC StatusCode -> HTTP StatusCode\":\nthe rows (gRPC status code, HTTP status code) in file order -/\n")
	b.WriteString("def docRows : List (Nat × Nat) := [" + strings.Join(rows, ", ") + "]\n\n")
	b.WriteString("/-- the row `unknown | - | N` of the same table -/\ndef docDefault : Nat := " + def + "\n\n")
}

// ---------------------------------------------------------------- 6. id counter

func gsFindMethod(p *packages.Package, recv, name string) *ast.FuncDecl {
	for _, f := range p.Syntax {
		for _, d := range f.Decls {
			fd, ok := d.(*ast.FuncDecl)
			if !ok || fd.Recv == nil || fd.Name.Name != name || len(fd.Recv.List) != 1 {
				continue
			}
			ty := fd.Recv.List[0].Type
			if st, ok := ty.(*ast.StarExpr); ok {
				ty = st.X
			}
			if id, ok := ty.(*ast.Ident); ok && id.Name == recv {
				return fd
			}
		}
	}
	return nil
}

func gsIDCounter(t *tr, b *strings.Builder) {
	bp := grpcstatusLoad("github.com/yandex/pandora/components/providers/base")
	obj := bp.Types.Scope().Lookup("ProviderBase")
	var field *types.Var
	if obj != nil {
		if st, ok := obj.Type().Underlying().(*types.Struct); ok {
			for i := 0; i < st.NumFields(); i++ {
				if st.Field(i).Name() == "idCounter" {
					field = st.Field(i)
				}
			}
		}
	}
	if field == nil {
		t.errs = append(t.errs, "base.ProviderBase.idCounter not found")
		return
	}
	b.WriteString("/-- type of `ProviderBase.idCounter` (components/providers/base) -/\ndef idCounterType : String := " + gsLeanStr(types.TypeString(field.Type(), nil)) + "\n\n")
	fd := gsFindMethod(bp, "ProviderBase", "NextID")
	shape := ""
	if fd == nil || fd.Body == nil {
		t.errs = append(t.errs, "base.(*ProviderBase).NextID not found")
	} else {
		shape = "other: " + strings.Join(strings.Fields(nodeString(bp, fd.Body)), " ")
		// `return <recv>.idCounter.Add(<const>)`
		if len(fd.Body.List) == 1 {
			if r, ok := fd.Body.List[0].(*ast.ReturnStmt); ok && len(r.Results) == 1 {
				if call, ok := r.Results[0].(*ast.CallExpr); ok && len(call.Args) == 1 {
					if sel, ok := call.Fun.(*ast.SelectorExpr); ok {
						if inner, ok := sel.X.(*ast.SelectorExpr); ok && bp.TypesInfo.Uses[inner.Sel] == field {
							if tv, ok := bp.TypesInfo.Types[call.Args[0]]; ok && tv.Value != nil && tv.Value.Kind() == constant.Int {
								shape = "return idCounter." + sel.Sel.Name + "(" + tv.Value.ExactString() + ")"
							}
						}
					}
				}
			}
		}
	}
	b.WriteString("/-- body of `(*ProviderBase).NextID`, normalised: the result of ONE atomic read-modify-write of the counter -/\ndef nextIDShape : String := " + gsLeanStr(shape) + "\n\n")
	// every other use of the field in the package (it is unexported: no other package can touch it)
	var uses []string
	for id, o := range bp.TypesInfo.Uses {
		if o != field {
			continue
		}
		pos := bp.Fset.Position(id.Pos())
		if strings.HasSuffix(pos.Filename, "_test.go") {
			continue
		}
		if fd != nil && id.Pos() >= fd.Pos() && id.End() <= fd.End() {
			continue
		}
		rel, _ := filepath.Rel(repo, pos.Filename)
		uses = append(uses, fmt.Sprintf("%s:%d", rel, pos.Line))
	}
	sort.Strings(uses)
	b.WriteString("/-- every use of `idCounter` outside `NextID` (non-test files of its package; the field is unexported) -/\ndef idCounterOtherUses : List String := " + gsLeanStrList(uses, "  ") + "\n\n")
}

// ---------------------------------------------------------------- 7. slices

var gsSliceCalls = map[string]bool{"Report": true, "SetProtoCode": true, "SetErr": true, "AddTag": true, "SetID": true, "Acquire": true,
	"autotag": true, "NextID": true, "NewGunAmmo": true, "ConvertGrpcStatus": true, "reportErr": true, "shoot": true, "shootStep": true,
	"Panic": true, "panic": true, "SetUserProto": true, "SetUserNet": true}

// gsLocalRef is one occurrence of a function-local object (receiver, parameter, result, local variable or constant) in
// the source text.
type gsLocalRef struct {
	pos, end int // file offsets
	obj      types.Object
}

type gsSlicer struct {
	p *packages.Package
	// locals: every identifier inside the function that denotes an object declared inside it, by file offset
	locals []gsLocalRef
	// index of a local object (placeholder number)
	localIdx map[types.Object]int
	// tracked: the local variables whose assignments belong to the slice. Start: variables of type *netsample.Sample and
	// variables handed (as a bare identifier) to one of gsSliceCalls; closed under "is read by the header of an if / for /
	// switch that the slice keeps" (a backward slice over control dependence, local variables only). Names play no role.
	tracked map[types.Object]bool
	// condVars: local variables read by the headers kept in the current pass
	condVars map[types.Object]bool
	// round 3: single-use temporaries. `t := <expr>` immediately followed by a statement that hands t (its only use) to a call
	// as an argument is printed as if the expression stood in the argument's place: inlineRHS[t] is the expression, the
	// defining statement is skipped. Moving the evaluation of an argument into a temporary (or back) does not change a slice.
	inlineRHS map[types.Object]ast.Expr
	skipStmt  map[ast.Stmt]bool
}

func gsNewSlicer(p *packages.Package, fd *ast.FuncDecl) *gsSlicer {
	s := &gsSlicer{p: p, localIdx: map[types.Object]int{}, tracked: map[types.Object]bool{}, condVars: map[types.Object]bool{},
		inlineRHS: map[types.Object]ast.Expr{}, skipStmt: map[ast.Stmt]bool{}}
	inside := func(o types.Object) bool {
		if o == nil || !o.Pos().IsValid() {
			return false
		}
		switch o.(type) {
		case *types.Var, *types.Const:
		default:
			return false
		}
		if v, ok := o.(*types.Var); ok && v.IsField() {
			return false
		}
		return o.Pos() >= fd.Pos() && o.Pos() < fd.End()
	}
	ast.Inspect(fd, func(n ast.Node) bool {
		id, ok := n.(*ast.Ident)
		if !ok || id.Name == "_" {
			return true
		}
		o := p.TypesInfo.Defs[id]
		if o == nil {
			o = p.TypesInfo.Uses[id]
		}
		if !inside(o) {
			return true
		}
		if _, seen := s.localIdx[o]; !seen {
			s.localIdx[o] = len(s.localIdx)
		}
		s.locals = append(s.locals, gsLocalRef{p.Fset.Position(id.Pos()).Offset, p.Fset.Position(id.End()).Offset, o})
		return true
	})
	sort.Slice(s.locals, func(i, j int) bool { return s.locals[i].pos < s.locals[j].pos })
	// initial tracked set
	for o := range s.localIdx {
		if v, ok := o.(*types.Var); ok && gsIsSamplePtr(v.Type()) {
			s.tracked[o] = true
		}
	}
	ast.Inspect(fd, func(n ast.Node) bool {
		call, ok := n.(*ast.CallExpr)
		if !ok || !gsIsSliceCall(call) || gsIsHopCall(call) {
			return true
		}
		for _, a := range call.Args {
			if id, ok := a.(*ast.Ident); ok {
				if o := p.TypesInfo.Uses[id]; o != nil {
					if _, local := s.localIdx[o]; local {
						s.tracked[o] = true
					}
				}
			}
		}
		return true
	})
	s.findTemporaries(fd)
	return s
}

// findTemporaries: see inlineRHS.
func (s *gsSlicer) findTemporaries(fd *ast.FuncDecl) {
	uses := map[types.Object]int{}
	ast.Inspect(fd, func(n ast.Node) bool {
		if id, ok := n.(*ast.Ident); ok {
			if o := s.p.TypesInfo.Uses[id]; o != nil {
				uses[o]++
			}
		}
		return true
	})
	walk := func(list []ast.Stmt) {
		for i, st := range list {
			as, ok := st.(*ast.AssignStmt)
			if !ok || as.Tok != token.DEFINE || len(as.Lhs) != 1 || len(as.Rhs) != 1 || i+1 >= len(list) {
				continue
			}
			id, ok := as.Lhs[0].(*ast.Ident)
			if !ok || id.Name == "_" {
				continue
			}
			o := s.p.TypesInfo.Defs[id]
			if o == nil || uses[o] != 1 {
				continue
			}
			hasLit := false
			ast.Inspect(as.Rhs[0], func(n ast.Node) bool {
				if _, ok := n.(*ast.FuncLit); ok {
					hasLit = true
				}
				return !hasLit
			})
			if hasLit {
				continue
			}
			// the single use: a direct argument of a call, or the whole right-hand side of an assignment, in the NEXT statement
			found := false
			next := list[i+1]
			switch next.(type) {
			case *ast.ExprStmt, *ast.AssignStmt, *ast.ReturnStmt:
				ast.Inspect(next, func(n ast.Node) bool {
					if _, ok := n.(*ast.FuncLit); ok {
						return false
					}
					if c, ok := n.(*ast.CallExpr); ok {
						for _, a := range c.Args {
							if aid, ok := a.(*ast.Ident); ok && s.p.TypesInfo.Uses[aid] == o {
								found = true
							}
						}
					}
					if a, ok := n.(*ast.AssignStmt); ok {
						for _, r := range a.Rhs {
							if rid, ok := r.(*ast.Ident); ok && s.p.TypesInfo.Uses[rid] == o {
								found = true
							}
						}
					}
					return true
				})
			}
			if found {
				s.inlineRHS[o] = as.Rhs[0]
				s.skipStmt[st] = true
			}
		}
	}
	ast.Inspect(fd, func(n ast.Node) bool {
		switch v := n.(type) {
		case *ast.BlockStmt:
			walk(v.List)
		case *ast.CaseClause:
			walk(v.Body)
		case *ast.CommClause:
			walk(v.Body)
		}
		return true
	})
}

func gsIsSamplePtr(t types.Type) bool {
	pt, ok := t.(*types.Pointer)
	if !ok {
		return false
	}
	n, ok := pt.Elem().(*types.Named)
	return ok && n.Obj().Name() == "Sample" && n.Obj().Pkg() != nil && strings.HasSuffix(n.Obj().Pkg().Path(), "core/aggregator/netsample")
}

// gsIsHopCall: calls that only lead on to another sliced function (or end the program): what they are handed does not
// make a variable sample-relevant by itself (a sample among the arguments is tracked by its type).
func gsIsHopCall(v *ast.CallExpr) bool {
	name := ""
	switch f := v.Fun.(type) {
	case *ast.SelectorExpr:
		name = f.Sel.Name
	case *ast.Ident:
		name = f.Name
	}
	return name == "shoot" || name == "shootStep" || name == "Panic" || name == "panic"
}

func gsIsSliceCall(v *ast.CallExpr) bool {
	switch f := v.Fun.(type) {
	case *ast.SelectorExpr:
		return gsSliceCalls[f.Sel.Name]
	case *ast.Ident:
		return gsSliceCalls[f.Name]
	}
	return false
}

// text: the source text of the node, whitespace normalised, every function-local identifier replaced by the placeholder
// \x01<n>\x02 of its object (gsCanonLocals turns them into v1, v2 ... in order of first appearance in the slice).
func (s *gsSlicer) text(n ast.Node) string {
	if n == nil {
		return ""
	}
	start := s.p.Fset.Position(n.Pos())
	end := s.p.Fset.Position(n.End())
	src, err := os.ReadFile(start.Filename)
	if err != nil || end.Offset > len(src) {
		return ""
	}
	var b strings.Builder
	at := start.Offset
	i := sort.Search(len(s.locals), func(i int) bool { return s.locals[i].pos >= start.Offset })
	for ; i < len(s.locals) && s.locals[i].end <= end.Offset; i++ {
		r := s.locals[i]
		if r.pos < at {
			continue
		}
		b.Write(src[at:r.pos])
		if rhs, ok := s.inlineRHS[r.obj]; ok && r.pos >= int(0) && !s.isDef(r) {
			b.WriteString(s.text(rhs))
		} else {
			fmt.Fprintf(&b, "\x01%d\x02", s.localIdx[r.obj])
		}
		at = r.end
	}
	b.Write(src[at:end.Offset])
	return strings.Join(strings.Fields(b.String()), " ")
}

// isDef: the occurrence is the defining one of its object
func (s *gsSlicer) isDef(r gsLocalRef) bool {
	return s.p.Fset.Position(r.obj.Pos()).Offset == r.pos
}

var gsPlaceholderRe = regexp.MustCompile("\x01([0-9]+)\x02")

// gsCanonLocals numbers the local objects v1, v2 ... in order of first appearance in the lines.
func gsCanonLocals(lines []string) []string {
	names := map[string]string{}
	out := make([]string, len(lines))
	for i, l := range lines {
		out[i] = gsPlaceholderRe.ReplaceAllStringFunc(l, func(m string) string {
			if n, ok := names[m]; ok {
				return n
			}
			n := fmt.Sprintf("v%d", len(names)+1)
			names[m] = n
			return n
		})
	}
	return out
}

func (s *gsSlicer) localOf(id *ast.Ident) types.Object {
	o := s.p.TypesInfo.Defs[id]
	if o == nil {
		o = s.p.TypesInfo.Uses[id]
	}
	if o == nil {
		return nil
	}
	if _, ok := s.localIdx[o]; !ok {
		return nil
	}
	return o
}

// noteCond records the local variables a kept header reads.
func (s *gsSlicer) noteCond(nodes ...ast.Node) {
	for _, n := range nodes {
		if n == nil || reflect.ValueOf(n).IsNil() {
			continue
		}
		ast.Inspect(n, func(x ast.Node) bool {
			if id, ok := x.(*ast.Ident); ok {
				if o := s.localOf(id); o != nil {
					if _, isVar := o.(*types.Var); isVar {
						s.condVars[o] = true
					}
				}
			}
			return true
		})
	}
}

// relevant: the node (function literals included) calls one of gsSliceCalls or assigns/declares a tracked variable.
func (s *gsSlicer) relevant(n ast.Node) bool {
	if n == nil {
		return false
	}
	found := false
	ast.Inspect(n, func(x ast.Node) bool {
		if found {
			return false
		}
		switch v := x.(type) {
		case *ast.CallExpr:
			if gsIsSliceCall(v) {
				found = true
			}
		case *ast.AssignStmt:
			for _, l := range v.Lhs {
				if id, ok := l.(*ast.Ident); ok {
					if o := s.localOf(id); o != nil && s.tracked[o] {
						found = true
					}
				}
			}
		case *ast.ValueSpec:
			for _, id := range v.Names {
				if o := s.localOf(id); o != nil && s.tracked[o] {
					found = true
				}
			}
		case *ast.IncDecStmt:
			if id, ok := v.X.(*ast.Ident); ok {
				if o := s.localOf(id); o != nil && s.tracked[o] {
					found = true
				}
			}
		case *ast.ReturnStmt:
			found = true
		}
		return !found
	})
	return found
}

// gsSetterOf: `<tracked sample variable>.<Setter>(...)` as an expression statement: (variable, setter name).
var gsSetters = map[string]bool{"SetProtoCode": true, "SetErr": true, "AddTag": true, "SetID": true, "SetUserProto": true, "SetUserNet": true}

func (s *gsSlicer) setterOf(st ast.Stmt) (types.Object, string) {
	es, ok := st.(*ast.ExprStmt)
	if !ok {
		return nil, ""
	}
	call, ok := es.X.(*ast.CallExpr)
	if !ok {
		return nil, ""
	}
	sel, ok := call.Fun.(*ast.SelectorExpr)
	if !ok || !gsSetters[sel.Sel.Name] {
		return nil, ""
	}
	id, ok := sel.X.(*ast.Ident)
	if !ok {
		return nil, ""
	}
	o := s.localOf(id)
	if o == nil {
		return nil, ""
	}
	return o, sel.Sel.Name
}

// stmts: the slice of a statement list. A run of consecutive setter calls on the same sample with pairwise different
// setters (AddTag / SetProtoCode / SetID / SetErr write different fields: they commute) is printed in a canonical order,
// so that reordering such independent statements does not change the slice.
func (s *gsSlicer) stmts(list []ast.Stmt, ind string) []string {
	var out []string
	for i := 0; i < len(list); {
		if s.skipStmt[list[i]] {
			i++
			continue
		}
		o, name := s.setterOf(list[i])
		if o == nil {
			out = append(out, s.stmt(list[i], ind)...)
			i++
			continue
		}
		j := i
		seen := map[string]bool{}
		var run []string
		for j < len(list) {
			o2, n2 := s.setterOf(list[j])
			if o2 != o || seen[n2] {
				break
			}
			seen[n2] = true
			run = append(run, n2+"\x00"+ind+s.text(list[j]))
			j++
		}
		_ = name
		sort.Strings(run)
		for _, r := range run {
			out = append(out, r[strings.IndexByte(r, 0)+1:])
		}
		i = j
	}
	return out
}

func (s *gsSlicer) stmt(st ast.Stmt, ind string) []string {
	switch v := st.(type) {
	case nil:
		return nil
	case *ast.BlockStmt:
		return s.stmts(v.List, ind)
	case *ast.ReturnStmt:
		return []string{ind + s.text(v)}
	case *ast.DeferStmt:
		if fl, ok := v.Call.Fun.(*ast.FuncLit); ok {
			inner := s.stmts(fl.Body.List, ind+"  ")
			if len(inner) == 0 {
				return nil
			}
			return append(append([]string{ind + "defer func() {"}, inner...), ind+"}()")
		}
		if s.relevant(v.Call) {
			return []string{ind + s.text(v)}
		}
		return nil
	case *ast.IfStmt:
		body := s.stmts(v.Body.List, ind+"  ")
		var els []string
		if v.Else != nil {
			els = s.stmt(v.Else, ind+"  ")
		}
		if len(body) == 0 && len(els) == 0 {
			// a guard without sample-relevant content; its init may still assign a tracked variable that lives on
			return nil
		}
		s.noteCond(v.Cond)
		hdr := "if "
		if v.Init != nil {
			hdr += s.text(v.Init) + "; "
		}
		hdr += s.text(v.Cond) + " {"
		out := append([]string{ind + hdr}, body...)
		if len(els) > 0 {
			out = append(out, ind+"} else {")
			out = append(out, els...)
		}
		return append(out, ind+"}")
	case *ast.ForStmt:
		body := s.stmts(v.Body.List, ind+"  ")
		if len(body) == 0 {
			return nil
		}
		s.noteCond(v.Cond)
		hdr := "for"
		if v.Init != nil || v.Cond != nil || v.Post != nil {
			hdr += " " + s.text(v.Init) + "; " + s.text(v.Cond) + "; " + s.text(v.Post)
		}
		return append(append([]string{ind + hdr + " {"}, body...), ind+"}")
	case *ast.RangeStmt:
		body := s.stmts(v.Body.List, ind+"  ")
		if len(body) == 0 {
			return nil
		}
		s.noteCond(v.X)
		hdr := "for "
		if v.Key != nil {
			hdr += s.text(v.Key)
			if v.Value != nil {
				hdr += ", " + s.text(v.Value)
			}
			hdr += " " + v.Tok.String() + " "
		}
		hdr += "range " + s.text(v.X) + " {"
		return append(append([]string{ind + hdr}, body...), ind+"}")
	case *ast.SwitchStmt:
		r := s.switchLike("switch "+s.text(v.Init)+"; "+s.text(v.Tag), v.Body, ind)
		if len(r) > 0 {
			s.noteCond(v.Tag)
		}
		return r
	case *ast.TypeSwitchStmt:
		r := s.switchLike("switch "+s.text(v.Init)+"; "+s.text(v.Assign), v.Body, ind)
		if len(r) > 0 {
			s.noteCond(v.Assign)
		}
		return r
	case *ast.SelectStmt:
		var out []string
		for _, c := range v.Body.List {
			cc := c.(*ast.CommClause)
			body := s.stmts(cc.Body, ind+"    ")
			if len(body) == 0 {
				continue
			}
			out = append(out, ind+"  case "+s.text(cc.Comm)+":")
			out = append(out, body...)
		}
		if len(out) == 0 {
			return nil
		}
		return append(append([]string{ind + "select {"}, out...), ind+"}")
	case *ast.LabeledStmt:
		return s.stmt(v.Stmt, ind)
	case *ast.GoStmt:
		if s.relevant(v.Call) {
			return []string{ind + s.text(v)}
		}
		return nil
	default:
		if s.relevant(st) {
			return []string{ind + s.text(st)}
		}
		return nil
	}
}

func (s *gsSlicer) switchLike(hdr string, body *ast.BlockStmt, ind string) []string {
	var out []string
	for _, c := range body.List {
		cc := c.(*ast.CaseClause)
		inner := s.stmts(cc.Body, ind+"    ")
		if len(inner) == 0 {
			continue
		}
		lbl := "default:"
		if cc.List != nil {
			var ls []string
			for _, e := range cc.List {
				ls = append(ls, s.text(e))
			}
			lbl = "case " + strings.Join(ls, ", ") + ":"
		}
		out = append(out, ind+"  "+lbl)
		out = append(out, inner...)
	}
	if len(out) == 0 {
		return nil
	}
	return append(append([]string{ind + hdr + " {"}, out...), ind+"}")
}

type gsSliceSpec struct {
	pkg, recv, fn, lean string
	full                bool   // the whole body, normalised, instead of the slice
	mention             string // only the top-level statements of the body that mention this identifier (normalised)
}

func gsSlices(t *tr, b *strings.Builder) {
	specs := []gsSliceSpec{
		{"github.com/yandex/pandora/components/guns/http", "BaseGun", "Shoot", "sliceBaseShoot", false, ""},
		{"github.com/yandex/pandora/components/guns/http", "", "autotag", "srcAutotag", true, ""},
		{"github.com/yandex/pandora/components/guns/http_scenario", "ScenarioGun", "Shoot", "sliceScenarioShoot", false, ""},
		{"github.com/yandex/pandora/components/guns/http_scenario", "ScenarioGun", "shoot", "sliceScenarioShootLoop", false, ""},
		{"github.com/yandex/pandora/components/guns/http_scenario", "ScenarioGun", "shootStep", "sliceScenarioShootStep", false, ""},
		{"github.com/yandex/pandora/components/guns/http_scenario", "ScenarioGun", "reportErr", "sliceScenarioReportErr", false, ""},
		{"github.com/yandex/pandora/components/guns/grpc", "Gun", "Shoot", "sliceGrpcShoot", false, ""},
		{"github.com/yandex/pandora/components/guns/grpc", "Gun", "shoot", "sliceGrpcShootInner", false, ""},
		{"github.com/yandex/pandora/components/guns/grpc/scenario", "Gun", "Shoot", "sliceGrpcScenarioShoot", false, ""},
		{"github.com/yandex/pandora/components/guns/grpc/scenario", "Gun", "shoot", "sliceGrpcScenarioShootLoop", false, ""},
		{"github.com/yandex/pandora/components/guns/grpc/scenario", "Gun", "shootStep", "sliceGrpcScenarioShootStep", false, ""},
		{"github.com/yandex/pandora/core/aggregator/netsample", "", "Acquire", "srcAcquire", true, ""},
		{"github.com/yandex/pandora/core/aggregator/netsample", "Sample", "AddTag", "srcAddTag", true, ""},
		{"github.com/yandex/pandora/core/aggregator/netsample", "Sample", "SetID", "srcSetID", true, ""},
		{"github.com/yandex/pandora/core/aggregator/netsample", "Sample", "SetProtoCode", "srcSetProtoCode", true, ""},
		{"github.com/yandex/pandora/core/aggregator/netsample", "Sample", "SetErr", "srcSetErr", true, ""},
		{"github.com/yandex/pandora/components/providers/http/ammo", "GunAmmo", "Request", "srcGunAmmoRequest", true, ""},
		{"github.com/yandex/pandora/components/providers/http/ammo", "", "NewGunAmmo", "srcNewGunAmmo", true, ""},
		{"github.com/yandex/pandora/components/providers/http/provider", "Provider", "Acquire", "sliceHTTPProviderAcquire", false, ""},
		// round 3: which client does the exchange; the pause of a scenario step
		{"github.com/yandex/pandora/components/guns/http", "noRedirectClient", "Do", "srcNoRedirectClientDo", true, ""},
		{"github.com/yandex/pandora/components/guns/http_scenario", "ScenarioGun", "shootStep", "srcScenarioPause", true, "Sleep"},
		{"github.com/yandex/pandora/components/guns/grpc/scenario", "Gun", "shootStep", "srcGrpcScenarioPause", true, "Sleep"},
		// round 4: the whole-object overwrite the grpc/json decoder relies on
		{"github.com/yandex/pandora/components/providers/grpc", "Ammo", "Reset", "srcGrpcAmmoReset", true, ""},
		{"github.com/yandex/pandora/components/providers/grpc", "Provider", "Release", "srcGrpcProviderRelease", true, ""},
		// round 6: the sample the engine reports for a shot it does not send
		{"github.com/yandex/pandora/core/aggregator/netsample", "Sample", "SetUserNet", "srcSetUserNet", true, ""},
	}
	cache := map[string]*packages.Package{}
	for _, sp := range specs {
		p := cache[sp.pkg]
		if p == nil {
			if sp.pkg == t.pkg.PkgPath {
				p = t.pkg
			} else {
				p = grpcstatusLoad(sp.pkg)
			}
			cache[sp.pkg] = p
		}
		var fd *ast.FuncDecl
		if sp.recv == "" {
			fd = findFunc(p, sp.fn)
		} else {
			fd = gsFindMethod(p, sp.recv, sp.fn)
		}
		name := sp.fn
		if sp.recv != "" {
			name = "(" + sp.recv + ")." + sp.fn
		}
		if fd == nil || fd.Body == nil {
			t.errs = append(t.errs, "function "+name+" not found in "+sp.pkg)
			b.WriteString("def " + sp.lean + " : List String := []\n\n")
			continue
		}
		rel, _ := filepath.Rel(repo, p.Fset.Position(fd.Pos()).Filename)
		sl := gsNewSlicer(p, fd)
		var lines []string
		kind := "sample-relevant slice (locals numbered in order of appearance)"
		if sp.full {
			kind = "whole body (one statement per entry, whitespace normalised, locals numbered in order of appearance)"
			lines = gsFullBody(sl, fd.Body.List, "")
			if sp.mention != "" {
				kind = "top-level statements mentioning `" + sp.mention + "` (whitespace normalised, locals numbered in order of appearance)"
				lines = nil
				for _, st := range fd.Body.List {
					hit := false
					ast.Inspect(st, func(n ast.Node) bool {
						if id, ok := n.(*ast.Ident); ok && id.Name == sp.mention {
							hit = true
						}
						return !hit
					})
					if hit {
						lines = append(lines, sl.text(st))
					}
				}
			}
		} else {
			// fixed point: the variables read by the headers the slice keeps are tracked too
			for iter := 0; iter < 20; iter++ {
				sl.condVars = map[types.Object]bool{}
				lines = sl.stmts(fd.Body.List, "")
				grew := false
				for o := range sl.condVars {
					if !sl.tracked[o] {
						sl.tracked[o] = true
						grew = true
					}
				}
				if !grew {
					break
				}
			}
		}
		lines = gsCanonLocals(lines)
		b.WriteString(fmt.Sprintf("/-- %s of `%s` in `%s` -/\ndef %s : List String := %s\n\n", kind, name, rel, sp.lean, gsLeanStrList(lines, "  ")))
	}
	_ = token.NoPos
}

// gsFullBody prints every statement; compound statements keep their structure.
func gsFullBody(s *gsSlicer, list []ast.Stmt, ind string) []string {
	var out []string
	for _, st := range list {
		if s.skipStmt[st] {
			continue
		}
		out = append(out, ind+s.text(st))
	}
	return out
}
