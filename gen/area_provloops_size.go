package main

// Area "provloops", fifth part (property C08, round 6): the TOKEN LIMIT of the bufio.Scanner a provider reads its ammo
// file with, pass by pass.
//
//	grpcjson (*Provider).start    def grpcScanMax (mas passNum : Nat) : Nat
//	decoders uriDecoder           def uriScanMax (passNum : Nat) : Nat
//
// The scanner set-up statements are executed in program order over an abstract value "token limit of the scanner the
// variable holds" — the statements before the pass loop, then THREE iterations of the loop body (the limit in force
// when the reading loop is reached in the first, in the second and in the third iteration; the last two must agree):
//
//	scanner := bufio.NewScanner(f)  (also `=`, `var scanner = …`)         limit := 65536 (bufio.MaxScanTokenSize)
//	scanner := helper(f) / p.helper(f)                                     limit := what executing the helper's body gives
//	                                                                        the variable it returns (a function of the package)
//	if <MaxAmmoSize> != 0 { …; scanner.Buffer(buf, <MaxAmmoSize>) }        limit := if mas ≠ 0 then mas else limit
//	scanner.Buffer(buf, CONST)                                             limit := CONST (go/types constant, e.g. math.MaxInt)
//	scanner.Buffer(buf, <MaxAmmoSize>)                                     limit := mas
//	the reading loop                                                        leaves the scanner at the end of its input: the next
//	                                                                        reading loop must be reached with a scanner built since
//	any other statement that mentions bufio.NewScanner / .Buffer( / assigns the scanner variable   unsupported
//
// Reading of Go trusted here: a bufio.Scanner keeps the limit it was given until the variable is assigned a new scanner;
// the reading loop is the `for` statement whose condition calls `<scanner>.Scan()`.  For uri.go the two sites are the
// `scanner:` field of the composite literal newURIDecoder returns (first pass) and the assignment `d.scanner = …` in
// Scan (every later pass: executed after each seek to the start, regenerated separately as "the reader is renewed").

import (
	"fmt"
	"go/ast"
	"go/token"
	"strings"

	"golang.org/x/tools/go/packages"
)

type provloopsSize struct {
	t   *tr
	p   *packages.Package
	ctx string
	mas []string // source texts of the expression that is the MaxAmmoSize option
	// the scanner the variable holds has been read to the end of its input (a bufio.Scanner that reported the end stays
	// there: the next reading loop needs a fresh one)
	stale bool
}

func (x *provloopsSize) src(n ast.Node) string { return provloopsSrcText(x.p, n) }

func (x *provloopsSize) fail(n ast.Node, format string, a ...any) string {
	x.t.errs = append(x.t.errs, fmt.Sprintf("%s: unsupported (provloops size %s): %s", x.p.Fset.Position(n.Pos()), x.ctx, fmt.Sprintf(format, a...)))
	return "(UNSUPPORTED)"
}

func (x *provloopsSize) isMas(e ast.Expr) bool {
	s := x.src(e)
	for _, m := range x.mas {
		if s == m {
			return true
		}
	}
	return false
}

// limOfExpr: the token limit of the scanner an expression evaluates to ("" = not a scanner constructor)
func (x *provloopsSize) limOfExpr(e ast.Expr, depth int) string {
	call, ok := e.(*ast.CallExpr)
	if !ok {
		return ""
	}
	if x.src(call.Fun) == "bufio.NewScanner" {
		return "65536"
	}
	if depth > 2 {
		return ""
	}
	// a function / method of the package that builds and returns a scanner
	name := ""
	switch f := call.Fun.(type) {
	case *ast.Ident:
		name = f.Name
	case *ast.SelectorExpr:
		name = f.Sel.Name
	}
	if name == "" {
		return ""
	}
	var fd *ast.FuncDecl
	for _, file := range x.p.Syntax {
		for _, d := range file.Decls {
			if g, ok := d.(*ast.FuncDecl); ok && g.Name.Name == name && g.Body != nil {
				fd = g
			}
		}
	}
	if fd == nil || fd.Type.Results == nil || len(fd.Type.Results.List) != 1 || x.src(fd.Type.Results.List[0].Type) != "*bufio.Scanner" {
		return ""
	}
	// the variable the helper returns
	last, ok := fd.Body.List[len(fd.Body.List)-1].(*ast.ReturnStmt)
	if !ok || len(last.Results) != 1 {
		return ""
	}
	if direct := x.limOfExpr(last.Results[0], depth+1); direct != "" && len(fd.Body.List) == 1 {
		return direct
	}
	id, ok := last.Results[0].(*ast.Ident)
	if !ok {
		return ""
	}
	lim := ""
	x.walk(fd.Body.List[:len(fd.Body.List)-1], id.Name, &lim, nil, depth+1)
	return lim
}

func provloopsSizeMentions(txt, v string) bool {
	return strings.Contains(txt, "bufio.NewScanner") || strings.Contains(txt, v+".Buffer(") ||
		strings.HasPrefix(txt, v+" = ") || strings.HasPrefix(txt, v+" := ") || strings.Contains(txt, " "+v+" = ")
}

// walk executes a statement list over the limit of the scanner held by the variable `v`; `atLoop` is called when the
// reading loop (a `for` whose condition calls v.Scan()) is reached
func (x *provloopsSize) walk(stmts []ast.Stmt, v string, lim *string, atLoop func(n ast.Node, lim string), depth int) {
	for _, s := range stmts {
		txt := x.src(s)
		switch st := s.(type) {
		case *ast.AssignStmt:
			if len(st.Lhs) == 1 && len(st.Rhs) == 1 && x.src(st.Lhs[0]) == v {
				if l := x.limOfExpr(st.Rhs[0], depth); l != "" {
					*lim = l
					x.stale = false
					continue
				}
				*lim = x.fail(s, "the scanner variable is assigned %s", x.src(st.Rhs[0]))
				continue
			}
		case *ast.DeclStmt:
			if gd, ok := st.Decl.(*ast.GenDecl); ok && gd.Tok == token.VAR && len(gd.Specs) == 1 {
				if vs, ok := gd.Specs[0].(*ast.ValueSpec); ok && len(vs.Names) == 1 && vs.Names[0].Name == v && len(vs.Values) == 1 {
					if l := x.limOfExpr(vs.Values[0], depth); l != "" {
						*lim = l
						continue
					}
				}
			}
		case *ast.ExprStmt:
			if call, ok := st.X.(*ast.CallExpr); ok && x.src(call.Fun) == v+".Buffer" && len(call.Args) == 2 {
				if *lim == "" {
					x.fail(s, "Buffer on a scanner that was not built yet")
					continue
				}
				if x.isMas(call.Args[1]) {
					*lim = "mas"
					continue
				}
				if tv, ok := x.p.TypesInfo.Types[call.Args[1]]; ok && tv.Value != nil {
					*lim = tv.Value.ExactString()
					continue
				}
				*lim = x.fail(s, "buffer size %s", x.src(call.Args[1]))
				continue
			}
		case *ast.IfStmt:
			if st.Init == nil && st.Else == nil {
				if be, ok := st.Cond.(*ast.BinaryExpr); ok && (be.Op == token.NEQ || be.Op == token.GTR) && x.isMas(be.X) && x.src(be.Y) == "0" {
					// if MaxAmmoSize != 0 { …; scanner.Buffer(buf, MaxAmmoSize) }
					inner := *lim
					x.walk(st.Body.List, v, &inner, nil, depth)
					if inner == "mas" && *lim != "" {
						*lim = "(if mas ≠ 0 then mas else " + *lim + ")"
						continue
					}
					if inner == *lim {
						continue // the branch does not touch the scanner
					}
					*lim = x.fail(s, "set-up under %s", x.src(st.Cond))
					continue
				}
			}
		case *ast.ForStmt:
			if st.Cond != nil && strings.Contains(x.src(st.Cond), v+".Scan()") {
				if provloopsSizeMentions(x.src(st.Body), v) {
					x.fail(s, "the reading loop changes its scanner")
				}
				if x.stale {
					x.fail(s, "the reading loop is entered with a scanner that has already been read to the end of the file (no fresh scanner after the seek)")
				}
				x.stale = true
				if atLoop != nil {
					if *lim == "" {
						*lim = x.fail(s, "the reading loop is reached before a scanner was built")
					}
					atLoop(s, *lim)
				}
				continue
			}
		}
		if provloopsSizeMentions(txt, v) {
			x.fail(s, "scanner set-up in a statement of this shape: %s", txt)
		}
	}
}

func provloopsSizeExtra(t *tr, gp, dp *packages.Package) string {
	var b strings.Builder
	// ------------------------------------------------------------ grpcjson start
	{
		x := &provloopsSize{t: t, p: gp, ctx: "grpcjson.start", mas: []string{"p.Config.MaxAmmoSize", "p.MaxAmmoSize"}}
		fd := provloopsMethod(gp, "Provider", "start")
		var outer *ast.ForStmt
		idx := -1
		if fd != nil {
			for i, s := range fd.Body.List {
				if f, ok := s.(*ast.ForStmt); ok && outer == nil {
					outer, idx = f, i
				}
			}
		}
		if outer == nil {
			t.errs = append(t.errs, "provloops size: grpcjson (*Provider).start: pass loop not found")
		} else {
			lim := ""
			var seen []string
			at := func(n ast.Node, l string) { seen = append(seen, l) }
			x.walk(fd.Body.List[:idx], "scanner", &lim, at, 0)
			if len(seen) != 0 {
				x.fail(fd, "a reading loop before the pass loop")
			}
			for it := 0; it < 3; it++ {
				x.walk(outer.Body.List, "scanner", &lim, at, 0)
			}
			if len(seen) != 3 {
				x.fail(outer, "the pass loop does not have exactly one reading loop `for …; scanner.Scan() && …`")
			} else {
				if seen[1] != seen[2] {
					x.fail(outer, "the scanner of the third pass differs from the one of the second")
				}
				fmt.Fprintf(&b, "/-- regenerated from `components/providers/grpc/grpcjson/provider.go` start (scanner set-up executed over three\n"+
					"iterations of the pass loop): the token limit of the bufio.Scanner that reads the lines while the pass counter is\n"+
					"`passNum` (1 = first pass); `mas` = the MaxAmmoSize option -/\n"+
					"def grpcScanMax (mas passNum : Nat) : Nat := if passNum ≤ 1 then %s else %s\n\n", seen[0], seen[1])
			}
		}
	}
	// ------------------------------------------------------------ uri.go
	{
		x := &provloopsSize{t: t, p: dp, ctx: "uriDecoder"}
		first, later := "", ""
		if fd := provloopsMethod(dp, "", "newURIDecoder"); fd != nil {
			ast.Inspect(fd, func(n ast.Node) bool {
				if kv, ok := n.(*ast.KeyValueExpr); ok && x.src(kv.Key) == "scanner" {
					first = x.limOfExpr(kv.Value, 0)
				}
				return true
			})
		}
		if fd := provloopsMethod(dp, "uriDecoder", "Scan"); fd != nil {
			n := 0
			ast.Inspect(fd, func(nd ast.Node) bool {
				if as, ok := nd.(*ast.AssignStmt); ok && len(as.Lhs) == 1 && len(as.Rhs) == 1 && x.src(as.Lhs[0]) == "d.scanner" {
					later = x.limOfExpr(as.Rhs[0], 0)
					n++
				}
				return true
			})
			if n != 1 {
				later = ""
			}
		}
		if first == "" || later == "" {
			t.errs = append(t.errs, "provloops size: uri.go: the scanner of newURIDecoder / the one Scan builds after the seek not found")
		} else {
			fmt.Fprintf(&b, "/-- regenerated from `components/providers/http/decoders/uri.go`: the token limit of the scanner newURIDecoder builds (first\n"+
				"pass) and of the one Scan builds after every seek to the start of the file (later passes) -/\n"+
				"def uriScanMax (passNum : Nat) : Nat := if passNum ≤ 1 then %s else %s\n\n", first, later)
		}
	}
	return b.String()
}

// provloopsDefaultsExtra: the limit / passes a generic JSON provider gets when its config does not mention them —
// the composite literal DefaultDecodeProviderConfig returns (core/provider; the registered factory of `type: json` starts
// from DefaultJSONProviderConfig, which embeds it): a key that is absent is the zero value, a key that is present must be
// a constant.
func provloopsDefaultsExtra(t *tr, p *packages.Package) string {
	x := &provloopsSize{t: t, p: p, ctx: "DefaultDecodeProviderConfig"}
	fd := provloopsMethod(p, "", "DefaultDecodeProviderConfig")
	if fd == nil || len(fd.Body.List) == 0 {
		t.errs = append(t.errs, "provloops defaults: core/provider DefaultDecodeProviderConfig not found")
		return ""
	}
	ret, ok := fd.Body.List[len(fd.Body.List)-1].(*ast.ReturnStmt)
	if !ok || len(ret.Results) != 1 || len(fd.Body.List) != 1 {
		x.fail(fd, "the function is not a single `return DecodeProviderConfig{…}`")
		return ""
	}
	lit, ok := ret.Results[0].(*ast.CompositeLit)
	if !ok {
		x.fail(ret, "the result is not a composite literal")
		return ""
	}
	vals := map[string]string{"Limit": "0", "Passes": "0"}
	for _, el := range lit.Elts {
		kv, ok := el.(*ast.KeyValueExpr)
		if !ok {
			x.fail(el, "positional field")
			continue
		}
		k := x.src(kv.Key)
		if _, want := vals[k]; want {
			if tv, ok := p.TypesInfo.Types[kv.Value]; ok && tv.Value != nil {
				vals[k] = tv.Value.ExactString()
			} else {
				vals[k] = x.fail(kv.Value, "default of %s is not a constant", k)
			}
		}
	}
	// the JSON provider's default embeds it unchanged
	embeds := false
	if jd := provloopsMethod(p, "", "DefaultJSONProviderConfig"); jd != nil && len(jd.Body.List) == 1 {
		embeds = x.src(jd.Body.List[0]) == "return JSONProviderConfig{Decode: DefaultDecodeProviderConfig()}"
	}
	return fmt.Sprintf("/-- regenerated from `core/provider/decoder.go` DefaultDecodeProviderConfig: the (limit, passes) of a generic JSON provider whose\n"+
		"config does not mention them; `decodeDefaultEmbedded`: DefaultJSONProviderConfig (what the registered `type: json` factory starts from)\n"+
		"is `JSONProviderConfig{Decode: DefaultDecodeProviderConfig()}` -/\n"+
		"def decodeDefaultBounds : Nat × Nat := (%s, %s)\ndef decodeDefaultEmbedded : Bool := %v\n\n", vals["Limit"], vals["Passes"], embeds)
}
