package main

// Area "config" (property C17): facts about configuration decoding, re-read from the current source on every run.
//
//	core/config/config.go     newDecoderConfig literal: errorUnused, zeroFields, weaklyTypedInput, tagName, squashFlag,
//	                          decoderFields (every key the literal sets); DefaultHooks() order: defaultHooks;
//	                          the initial value of the package variable `hooks`
//	core/import/import.go     Import(): hook registrations in order (importHooks), tag resolvers (tagResolvers)
//	core/plugin/pluginconfig  AddHooks(): pluginHooks; PluginNameKey
//	lib/confutil              cast(): reflect kind -> cast function (castTable); parse function and covered kinds of every
//	                          castX (castParse, castKinds); findTags' regexp (tagRegexp); the condition under which
//	                          ResolveCustomTags casts (castCondition); envTokenResolver returns an error for an unset
//	                          variable (envUnsetIsError); propertyTokenResolver's error returns (propertyErrorReturns)
//	cli/cli.go readConfig     the discard_overflow defaulting: discardKey, discardDefault, discardBeforeDecode
//
// Anything that does not have the expected shape is a translation error (gen exits non-zero).

import (
	"bytes"
	"fmt"
	"go/ast"
	"go/constant"
	"go/printer"
	"go/token"
	"go/types"
	"reflect"
	"sort"
	"strconv"
	"strings"

	"golang.org/x/tools/go/packages"
)

func init() {
	areas["config"] = area{
		pkgPath:   "github.com/yandex/pandora/core/config",
		module:    "Config",
		namespace: "Pandora.Gen.Config",
		imports:   []string{"Pandora.Model.C17Ns"},
		extra:     configExtra,
	}
}

func cfQ(xs []string) string {
	var q []string
	for _, x := range xs {
		q = append(q, fmt.Sprintf("%q", x))
	}
	return "[" + strings.Join(q, ", ") + "]"
}

func cfPairs(xs [][2]string) string {
	var q []string
	for _, x := range xs {
		q = append(q, fmt.Sprintf("(%q, %q)", x[0], x[1]))
	}
	return "[" + strings.Join(q, ", ") + "]"
}

// cfSrc prints a node from the syntax tree (so that identifiers renamed by configCanonLocals show), white space normalised
func cfSrc(p *packages.Package, n ast.Node) string {
	if n == nil || reflect.ValueOf(n).IsNil() {
		return ""
	}
	var buf bytes.Buffer
	if err := printer.Fprint(&buf, p.Fset, n); err != nil {
		return strings.Join(strings.Fields(nodeString(p, n)), " ")
	}
	return strings.Join(strings.Fields(buf.String()), " ")
}

func cfBoolConst(p *packages.Package, e ast.Expr) (bool, bool) {
	tv, ok := p.TypesInfo.Types[e]
	if !ok || tv.Value == nil || tv.Value.Kind() != constant.Bool {
		return false, false
	}
	return constant.BoolVal(tv.Value), true
}

func cfStringConst(p *packages.Package, e ast.Expr) (string, bool) {
	tv, ok := p.TypesInfo.Types[e]
	if !ok || tv.Value == nil || tv.Value.Kind() != constant.String {
		return "", false
	}
	return constant.StringVal(tv.Value), true
}

func leanBool(b bool) string {
	if b {
		return "true"
	}
	return "false"
}

// cfReturnedLiteral: the composite literal a function returns in its last statement (through & if present)
func cfReturnedLiteral(fd *ast.FuncDecl) *ast.CompositeLit {
	if fd == nil || fd.Body == nil || len(fd.Body.List) == 0 {
		return nil
	}
	r, ok := fd.Body.List[len(fd.Body.List)-1].(*ast.ReturnStmt)
	if !ok || len(r.Results) != 1 {
		return nil
	}
	e := r.Results[0]
	if u, ok := e.(*ast.UnaryExpr); ok && u.Op == token.AND {
		e = u.X
	}
	cl, _ := e.(*ast.CompositeLit)
	return cl
}

// configStmts flattens a statement list: `if c { body }` becomes "if c {", body…, "}"; other statements are printed
func configStmts(p *packages.Package, list []ast.Stmt, out *[]string) {
	for _, st := range list {
		switch x := st.(type) {
		case *ast.IfStmt:
			head := "if "
			if x.Init != nil {
				head += cfSrc(p, x.Init) + "; "
			}
			*out = append(*out, head+cfSrc(p, x.Cond)+" {")
			configStmts(p, x.Body.List, out)
			if x.Else != nil {
				*out = append(*out, "} else {")
				if eb, ok := x.Else.(*ast.BlockStmt); ok {
					configStmts(p, eb.List, out)
				} else {
					configStmts(p, []ast.Stmt{x.Else}, out)
				}
			}
			*out = append(*out, "}")
		default:
			*out = append(*out, cfSrc(p, st))
		}
	}
}

func configExtra(t *tr) string {
	var b strings.Builder
	p := t.pkg

	// ---- 1. newDecoderConfig
	cl := cfReturnedLiteral(findFunc(p, "newDecoderConfig"))
	if cl == nil {
		t.errs = append(t.errs, "newDecoderConfig: expected `return &mapstructure.DecoderConfig{...}` as last statement")
		return ""
	}
	flags := map[string]bool{"ErrorUnused": false, "ZeroFields": false, "WeaklyTypedInput": false, "Squash": false,
		"ErrorUnset": false, "IgnoreUntaggedFields": false}
	tagName := "mapstructure"
	var keys []string
	for _, el := range cl.Elts {
		kvx, ok := el.(*ast.KeyValueExpr)
		if !ok {
			gsFail(t, p, el, "newDecoderConfig: positional element in the literal")
			continue
		}
		k := kvx.Key.(*ast.Ident).Name
		keys = append(keys, k)
		if _, isFlag := flags[k]; isFlag {
			v, ok := cfBoolConst(p, kvx.Value)
			if !ok {
				gsFail(t, p, kvx.Value, "newDecoderConfig: %s is not a boolean constant", k)
			}
			flags[k] = v
		}
		if k == "TagName" {
			v, ok := cfStringConst(p, kvx.Value)
			if !ok {
				gsFail(t, p, kvx.Value, "newDecoderConfig: TagName is not a string constant")
			}
			tagName = v
		}
	}
	sort.Strings(keys)
	b.WriteString("/-- regenerated from `core/config/config.go` func `newDecoderConfig`: fields of the `mapstructure.DecoderConfig` literal -/\n")
	b.WriteString("def errorUnused : Bool := " + leanBool(flags["ErrorUnused"]) + "\n")
	b.WriteString("def zeroFields : Bool := " + leanBool(flags["ZeroFields"]) + "\n")
	b.WriteString("def weaklyTypedInput : Bool := " + leanBool(flags["WeaklyTypedInput"]) + "\n")
	b.WriteString("def squashFlag : Bool := " + leanBool(flags["Squash"]) + "\n")
	b.WriteString("def errorUnset : Bool := " + leanBool(flags["ErrorUnset"]) + "\n")
	b.WriteString("def ignoreUntaggedFields : Bool := " + leanBool(flags["IgnoreUntaggedFields"]) + "\n")
	b.WriteString(fmt.Sprintf("def tagName : String := %q\n", tagName))
	b.WriteString("/-- every key the literal sets (sorted) -/\ndef decoderFields : List String := " + cfQ(keys) + "\n\n")

	// ---- 2. DefaultHooks order, initial value of `hooks`
	hl := cfReturnedLiteral(findFunc(p, "DefaultHooks"))
	if hl == nil {
		t.errs = append(t.errs, "DefaultHooks: expected `return []mapstructure.DecodeHookFunc{...}`")
		return ""
	}
	var hooks []string
	for _, el := range hl.Elts {
		hooks = append(hooks, cfSrc(p, el))
	}
	b.WriteString("/-- `DefaultHooks()`: the hook chain in call order -/\ndef defaultHooks : List String := " + cfQ(hooks) + "\n")
	hooksInit := ""
	for _, f := range p.Syntax {
		for _, d := range f.Decls {
			gd, ok := d.(*ast.GenDecl)
			if !ok || gd.Tok != token.VAR {
				continue
			}
			for _, s := range gd.Specs {
				vs := s.(*ast.ValueSpec)
				for i, n := range vs.Names {
					if n.Name == "hooks" && i < len(vs.Values) {
						hooksInit = cfSrc(p, vs.Values[i])
					}
				}
			}
		}
	}
	if hooksInit == "" {
		t.errs = append(t.errs, "core/config: package variable `hooks` with an initial value not found")
	}
	b.WriteString(fmt.Sprintf("/-- initial value of the package variable `hooks` -/\ndef hooksInit : String := %q\n\n", hooksInit))

	// WholeNumberHook (if present): source kinds, guarded target kinds, the refusal condition
	var wnKinds []string
	wnCond, wnFrom := "", ""
	if wn := findFunc(p, "WholeNumberHook"); wn != nil {
		ast.Inspect(wn.Body, func(n ast.Node) bool {
			switch x := n.(type) {
			case *ast.CaseClause:
				for _, k := range x.List {
					wnKinds = append(wnKinds, strings.TrimPrefix(cfSrc(p, k), "reflect."))
				}
			case *ast.IfStmt:
				body := cfSrc(p, x.Body)
				if strings.HasPrefix(body, "{ return nil,") {
					wnCond = cfSrc(p, x.Cond)
				}
				if body == "{ return data, nil }" && wnFrom == "" {
					wnFrom = cfSrc(p, x.Cond)
				}
			}
			return true
		})
	}
	b.WriteString("/-- `WholeNumberHook`: passes everything unless this fails / the guarded target kinds / when it refuses -/\n")
	b.WriteString(fmt.Sprintf("def wholeNumberPass : String := %q\n", wnFrom))
	b.WriteString("def wholeNumberKinds : List String := " + cfQ(wnKinds) + "\n")
	b.WriteString(fmt.Sprintf("def wholeNumberRefuses : String := %q\n\n", wnCond))
	b.WriteString(configNumberRange(t, p))

	// ---- 3. core/import Import(): hooks and resolvers in registration order
	ip := load("github.com/yandex/pandora/core/import")
	imp := findFunc(ip, "Import")
	if imp == nil {
		t.errs = append(t.errs, "core/import: func Import not found")
		return ""
	}
	var importHooks []string
	var resolvers [][2]string
	for _, st := range imp.Body.List {
		es, ok := st.(*ast.ExprStmt)
		if !ok {
			continue
		}
		call, ok := es.X.(*ast.CallExpr)
		if !ok {
			continue
		}
		fn := cfSrc(ip, call.Fun)
		switch fn {
		case "config.AddTypeHook", "config.AddKindHook":
			if len(call.Args) == 1 {
				importHooks = append(importHooks, cfSrc(ip, call.Args[0]))
			}
		case "pluginconfig.AddHooks":
			importHooks = append(importHooks, "pluginconfig.AddHooks()")
		case "config.SetHooks":
			gsFail(t, ip, call, "Import replaces the hook chain with config.SetHooks (not modelled)")
		case "confutil.RegisterTagResolver":
			if len(call.Args) == 2 {
				name, ok := cfStringConst(ip, call.Args[0])
				if !ok {
					gsFail(t, ip, call.Args[0], "RegisterTagResolver: name is not a string constant")
				}
				// RegisterTagResolver lower-cases the tag type
				resolvers = append(resolvers, [2]string{strings.ToLower(name), cfSrc(ip, call.Args[1])})
			}
		}
	}
	b.WriteString("/-- `coreimport.Import`: hooks appended to the chain, in order -/\ndef importHooks : List String := " + cfQ(importHooks) + "\n")
	b.WriteString("/-- `coreimport.Import`: registered tag resolvers (tag type lower-cased as `RegisterTagResolver` does, resolver) -/\ndef tagResolvers : List (String × String) := " + cfPairs(resolvers) + "\n")
	b.WriteString(configShortcuts(t, ip))
	// resolver variables: what they are bound to
	cu := load("github.com/yandex/pandora/lib/confutil")
	var bindings [][2]string
	for _, f := range cu.Syntax {
		for _, d := range f.Decls {
			gd, ok := d.(*ast.GenDecl)
			if !ok || gd.Tok != token.VAR {
				continue
			}
			for _, s := range gd.Specs {
				vs := s.(*ast.ValueSpec)
				for i, n := range vs.Names {
					if strings.HasSuffix(n.Name, "TagResolver") && i < len(vs.Values) {
						bindings = append(bindings, [2]string{"confutil." + n.Name, cfSrc(cu, vs.Values[i])})
					}
				}
			}
		}
	}
	sort.Slice(bindings, func(i, j int) bool { return bindings[i][0] < bindings[j][0] })
	b.WriteString("/-- the resolver variables of lib/confutil and the functions they are bound to -/\ndef resolverBindings : List (String × String) := " + cfPairs(bindings) + "\n\n")

	// ---- 4. pluginconfig.AddHooks, PluginNameKey
	pc := load("github.com/yandex/pandora/core/plugin/pluginconfig")
	var pluginHooks []string
	if ah := findFunc(pc, "AddHooks"); ah != nil {
		for _, st := range ah.Body.List {
			if es, ok := st.(*ast.ExprStmt); ok {
				if call, ok := es.X.(*ast.CallExpr); ok && len(call.Args) == 1 && strings.HasPrefix(cfSrc(pc, call.Fun), "config.Add") {
					pluginHooks = append(pluginHooks, cfSrc(pc, call.Args[0]))
				}
			}
		}
	} else {
		t.errs = append(t.errs, "pluginconfig.AddHooks not found")
	}
	b.WriteString("/-- `pluginconfig.AddHooks` -/\ndef pluginHooks : List String := " + cfQ(pluginHooks) + "\n")
	if v, ok := gsPkgConst(t, pc, "PluginNameKey"); ok {
		b.WriteString(fmt.Sprintf("def pluginNameKey : String := %q\n\n", constant.StringVal(v)))
	}

	// ---- 5. confutil.cast and the castX functions
	castFn := findFunc(cu, "cast")
	var table [][2]string
	castOtherwise := ""
	if castFn == nil {
		t.errs = append(t.errs, "confutil.cast not found")
	} else {
		var sw *ast.SwitchStmt
		for _, st := range castFn.Body.List {
			if s, ok := st.(*ast.SwitchStmt); ok {
				sw = s
			}
		}
		if sw == nil || cfSrc(cu, sw.Tag) != "t.Kind()" {
			gsFail(t, cu, castFn, "cast: expected `switch t.Kind() {...}`")
		} else {
			for _, cs := range sw.Body.List {
				cc := cs.(*ast.CaseClause)
				target := ""
				if len(cc.Body) == 1 {
					if r, ok := cc.Body[0].(*ast.ReturnStmt); ok && len(r.Results) >= 1 {
						if call, ok := r.Results[0].(*ast.CallExpr); ok {
							target = cfSrc(cu, call.Fun)
						} else {
							target = "return " + cfSrc(cu, r.Results[0])
						}
					}
				}
				if target == "" {
					gsFail(t, cu, cc, "cast: case body must be a single return")
				}
				for _, k := range cc.List {
					table = append(table, [2]string{strings.TrimPrefix(cfSrc(cu, k), "reflect."), target})
				}
				if cc.List == nil {
					// `default:` — what every kind outside the table gets
					if r, ok := cc.Body[0].(*ast.ReturnStmt); ok && len(cc.Body) == 1 {
						castOtherwise = configResultsSrc(cu, r)
					}
				}
			}
			// … or the return after the switch
			if castOtherwise == "" {
				if r, ok := castFn.Body.List[len(castFn.Body.List)-1].(*ast.ReturnStmt); ok {
					castOtherwise = configResultsSrc(cu, r)
				}
			}
		}
	}
	// rows sorted by kind: the order of the cases does not matter
	sort.Slice(table, func(i, j int) bool { return table[i][0] < table[j][0] })
	b.WriteString("/-- `confutil.cast`: reflect kind ↦ what the case returns (rows sorted by kind) -/\ndef castTable : List (String × String) := " + cfPairs(table) + "\n")
	b.WriteString(fmt.Sprintf("/-- `confutil.cast`: what a kind outside the table gets (`default:` or the return after the switch) -/\ndef castOtherwise : String := %q\n", castOtherwise))
	var parse [][2]string
	var kindsOf []string
	seenFn := map[string]bool{}
	for _, e := range table {
		fn := e[1]
		if !strings.HasPrefix(fn, "cast") || seenFn[fn] {
			continue
		}
		seenFn[fn] = true
		fd := findFunc(cu, fn)
		if fd == nil {
			t.errs = append(t.errs, "confutil."+fn+" not found")
			continue
		}
		first := ""
		var ks []string
		ast.Inspect(fd.Body, func(n ast.Node) bool {
			switch x := n.(type) {
			case *ast.CallExpr:
				if s := cfSrc(cu, x.Fun); strings.HasPrefix(s, "strconv.") && first == "" {
					first = s
					for _, a := range x.Args[1:] {
						first += " " + cfSrc(cu, a)
					}
				}
			case *ast.CaseClause:
				for _, k := range x.List {
					ks = append(ks, strings.TrimPrefix(cfSrc(cu, k), "reflect."))
				}
			}
			return true
		})
		parse = append(parse, [2]string{fn, first})
		kindsOf = append(kindsOf, fmt.Sprintf("(%q, %s)", fn, cfQ(ks)))
	}
	b.WriteString("/-- the strconv call (with its base / bit-size arguments) every castX starts with -/\ndef castParse : List (String × String) := " + cfPairs(parse) + "\n")
	b.WriteString("/-- the kinds every castX converts to -/\ndef castKinds : List (String × List String) := [" + strings.Join(kindsOf, ", ") + "]\n")

	// findTags regexp, cast condition
	regex := ""
	if ft := findFunc(cu, "findTags"); ft != nil {
		ast.Inspect(ft.Body, func(n ast.Node) bool {
			if call, ok := n.(*ast.CallExpr); ok && cfSrc(cu, call.Fun) == "regexp.MustCompile" && len(call.Args) == 1 {
				if s, ok := cfStringConst(cu, call.Args[0]); ok {
					regex = s
				}
			}
			return true
		})
	}
	if regex == "" {
		t.errs = append(t.errs, "findTags: regexp.MustCompile(<constant>) not found")
	}
	b.WriteString(fmt.Sprintf("/-- the regular expression of `findTags` -/\ndef tagRegexp : String := %q\n", regex))
	castCond := ""
	unregisteredSkipped := false
	resolverErrReturned := false
	if rc := findFunc(cu, "ResolveCustomTags"); rc != nil {
		pureDefs := configPureDefs(cu, rc)
		ast.Inspect(rc.Body, func(n ast.Node) bool {
			ifs, ok := n.(*ast.IfStmt)
			if !ok {
				return true
			}
			body := cfSrc(cu, ifs.Body)
			cond := cfSrc(cu, ifs.Cond)
			if strings.Contains(body, "cast(res, targetType)") {
				// locals that only name a pure expression (a hoisted strings.TrimSpace(s)) are written out
				castCond = cfSrc(cu, configInline(cu, ifs.Cond, pureDefs, 0))
			}
			if cond == "err == ErrResolverNotRegistered" && strings.HasPrefix(body, "{ continue }") {
				unregisteredSkipped = true
			}
			if cond == "err != nil" && body == "{ return nil, err }" {
				if init := cfSrc(cu, ifs.Init); init == "" {
					resolverErrReturned = true
				}
			}
			return true
		})
	} else {
		t.errs = append(t.errs, "ResolveCustomTags not found")
	}
	b.WriteString(fmt.Sprintf("/-- `ResolveCustomTags` casts to the target kind under this condition -/\ndef castCondition : String := %q\n", castCond))
	b.WriteString("/-- a tag whose type has no resolver is left in place (`continue`) -/\ndef unregisteredTagSkipped : Bool := " + leanBool(unregisteredSkipped) + "\n")
	b.WriteString("/-- `ResolveCustomTags` returns the resolver's error -/\ndef resolverErrorReturned : Bool := " + leanBool(resolverErrReturned) + "\n")

	// envTokenResolver by what it returns on which path (area_config_env.go): layout-independent
	envErr := false
	var envPaths, envOsCalls []string
	if er := findFunc(cu, "envTokenResolver"); er != nil {
		var lookupParam bool
		envPaths, envOsCalls, lookupParam = configEnvFacts(cu, er)
		missErr, missNil := false, false
		for _, pth := range envPaths {
			if strings.HasPrefix(pth, "missing:") || strings.HasPrefix(pth, "always:") || strings.HasPrefix(pth, "?:") {
				if strings.HasSuffix(pth, ",error") {
					missErr = true
				} else {
					missNil = true
				}
			}
		}
		envErr = missErr && !missNil
		if !lookupParam {
			gsFail(t, cu, er, "envTokenResolver: expected os.LookupEnv(<parameter>)")
		}
	} else {
		t.errs = append(t.errs, "envTokenResolver not found")
	}
	b.WriteString("/-- `envTokenResolver`: every return as <path condition>:<value>,<error> (found / missing = the ok result of os.LookupEnv of the parameter) -/\ndef envResolverPaths : List String := " + leanStrList(envPaths) + "\n")
	b.WriteString("/-- `envTokenResolver`: what it uses of package os -/\ndef envResolverOsCalls : List String := " + leanStrList(envOsCalls) + "\n")
	b.WriteString("/-- `envTokenResolver`: an unset variable is an error -/\ndef envUnsetIsError : Bool := " + leanBool(envErr) + "\n")
	// propertyTokenResolver: every return with a non-nil error, and the final return
	var propErrs []string
	finalIsErr := false
	restoreProp := configCanonLocals(cu, findFunc(cu, "propertyTokenResolver"))
	if pr := findFunc(cu, "propertyTokenResolver"); pr != nil {
		ast.Inspect(pr.Body, func(n ast.Node) bool {
			if r, ok := n.(*ast.ReturnStmt); ok && len(r.Results) == 2 {
				if id, isIdent := r.Results[1].(*ast.Ident); !isIdent || id.Name != "nil" {
					s := cfSrc(cu, r.Results[1])
					if i := strings.Index(s, "\""); i >= 0 {
						if j := strings.Index(s[i+1:], "\""); j >= 0 {
							s = s[i+1 : i+1+j]
						}
					}
					propErrs = append(propErrs, s)
				}
			}
			return true
		})
		if last, ok := pr.Body.List[len(pr.Body.List)-1].(*ast.ReturnStmt); ok && len(last.Results) == 2 {
			if id, isIdent := last.Results[1].(*ast.Ident); !isIdent || id.Name != "nil" {
				finalIsErr = true
			}
		}
	} else {
		t.errs = append(t.errs, "propertyTokenResolver not found")
	}
	b.WriteString("/-- `propertyTokenResolver`: the error returns (format strings), in source order -/\ndef propertyErrorReturns : List String := " + cfQ(propErrs) + "\n")
	b.WriteString("/-- `propertyTokenResolver` ends with an error return (property not found) -/\ndef propertyMissingIsError : Bool := " + leanBool(finalIsErr) + "\n\n")

	// propertyTokenResolver: how the argument is cut and how a line is matched (the scanner loop)
	var propLoop []string
	propCut := ""
	if pr := findFunc(cu, "propertyTokenResolver"); pr != nil {
		ast.Inspect(pr.Body, func(n ast.Node) bool {
			switch x := n.(type) {
			case *ast.AssignStmt:
				if len(x.Rhs) == 1 {
					if call, ok := x.Rhs[0].(*ast.CallExpr); ok && strings.HasPrefix(cfSrc(cu, call.Fun), "strings.Cut") && propCut == "" {
						propCut = cfSrc(cu, x)
					}
				}
			case *ast.ForStmt:
				propLoop = append(propLoop, "for "+cfSrc(cu, x.Cond))
				configStmts(cu, x.Body.List, &propLoop)
				return false
			case *ast.RangeStmt:
				propLoop = append(propLoop, "range "+cfSrc(cu, x.X))
				configStmts(cu, x.Body.List, &propLoop)
				return false
			}
			return true
		})
	}
	restoreProp()
	b.WriteString(fmt.Sprintf("/-- `propertyTokenResolver`: how `file#key` is cut -/\ndef propertyCut : String := %q\n", propCut))
	b.WriteString("/-- `propertyTokenResolver`: the scanner loop, statement by statement (`if c {` … `}` flattened) -/\ndef propertyLoop : List String := " + cfQ(propLoop) + "\n\n")

	// ---- 5b. parseConf / fillConf (pluginconfig), DecodeAndValidate, the validator
	var parseConds, fillStmts, fillReturns, hookCalls []string
	restoreParse := configCanonLocals(pc, findFunc(pc, "parseConf"))
	if pf := findFunc(pc, "parseConf"); pf != nil {
		var closure *ast.FuncLit
		ast.Inspect(pf.Body, func(n ast.Node) bool {
			if fl, ok := n.(*ast.FuncLit); ok && closure == nil {
				closure = fl
				return false
			}
			if ifs, ok := n.(*ast.IfStmt); ok {
				if c := cfSrc(pc, ifs.Cond); c != "tag.Debug" {
					parseConds = append(parseConds, c)
				} else {
					return false // debug logging only
				}
			}
			return true
		})
		sort.Strings(parseConds)
		if closure == nil {
			t.errs = append(t.errs, "parseConf: the fillConf closure not found")
		} else {
			for _, st := range closure.Body.List {
				switch x := st.(type) {
				case *ast.IfStmt:
					if c := cfSrc(pc, x.Cond); c != "tag.Debug" {
						fillStmts = append(fillStmts, "if "+c)
					}
				default:
					fillStmts = append(fillStmts, cfSrc(pc, st))
				}
			}
			ast.Inspect(closure.Body, func(n ast.Node) bool {
				if r, ok := n.(*ast.ReturnStmt); ok {
					fillReturns = append(fillReturns, cfSrc(pc, r))
				}
				return true
			})
		}
	} else {
		t.errs = append(t.errs, "pluginconfig.parseConf not found")
	}
	restoreParse()
	for _, fn := range []string{"Hook", "FactoryHook"} {
		if fd := findFunc(pc, fn); fd != nil {
			ast.Inspect(fd.Body, func(n ast.Node) bool {
				if r, ok := n.(*ast.ReturnStmt); ok && len(r.Results) == 1 {
					if call, ok := r.Results[0].(*ast.CallExpr); ok {
						hookCalls = append(hookCalls, fn+": "+cfSrc(pc, call))
					}
				}
				return true
			})
		}
	}
	b.WriteString("/-- `parseConf`: the conditions it tests (sorted; outside the fillConf closure, debug logging left out) -/\ndef parseConfConds : List String := " + cfQ(parseConds) + "\n")
	b.WriteString("/-- the fillConf closure of `parseConf`: its statements (an `if` by its condition; debug logging left out) -/\ndef fillConfStmts : List String := " + cfQ(fillStmts) + "\n")
	b.WriteString("/-- every return of the fillConf closure -/\ndef fillConfReturns : List String := " + cfQ(fillReturns) + "\n")
	b.WriteString("/-- what `Hook` / `FactoryHook` return -/\ndef pluginHookCalls : List String := " + cfQ(hookCalls) + "\n")
	var dvStmts []string
	if dv := findFunc(p, "DecodeAndValidate"); dv != nil {
		restore := configCanonLocals(p, dv)
		configStmts(p, dv.Body.List, &dvStmts)
		restore()
	} else {
		t.errs = append(t.errs, "config.DecodeAndValidate not found")
	}
	b.WriteString("/-- `config.DecodeAndValidate`, statement by statement -/\ndef decodeAndValidateStmts : List String := " + cfQ(dvStmts) + "\n")
	var vStmts []string
	if vf := findFunc(p, "Validate"); vf != nil {
		restore := configCanonLocals(p, vf)
		configStmts(p, vf.Body.List, &vStmts)
		restore()
	}
	b.WriteString("/-- `config.Validate` -/\ndef validateStmts : List String := " + cfQ(vStmts) + "\n")
	// the validator: tag name, registered validations
	vTag := ""
	if nv := findFunc(p, "newValidator"); nv != nil {
		ast.Inspect(nv.Body, func(n ast.Node) bool {
			if call, ok := n.(*ast.CallExpr); ok && strings.HasSuffix(cfSrc(p, call.Fun), ".SetTagName") && len(call.Args) == 1 {
				if sv, ok := cfStringConst(p, call.Args[0]); ok {
					vTag = sv
				}
			}
			return true
		})
	}
	b.WriteString(fmt.Sprintf("/-- the struct tag the validator reads -/\ndef validateTagName : String := %q\n", vTag))
	var regs [][2]string
	for _, f := range p.Syntax {
		for _, d := range f.Decls {
			gd, ok := d.(*ast.GenDecl)
			if !ok || gd.Tok != token.VAR {
				continue
			}
			for _, sp := range gd.Specs {
				vs := sp.(*ast.ValueSpec)
				for i, n := range vs.Names {
					if (n.Name == "validations" || n.Name == "stringValidations") && i < len(vs.Values) {
						if cl, ok := vs.Values[i].(*ast.CompositeLit); ok {
							for _, el := range cl.Elts {
								if ecl, ok := el.(*ast.CompositeLit); ok && len(ecl.Elts) == 2 {
									k, _ := cfStringConst(p, ecl.Elts[0])
									regs = append(regs, [2]string{k, cfSrc(p, ecl.Elts[1])})
								}
							}
						}
					}
				}
			}
		}
	}
	b.WriteString("/-- the validations core/config registers (tag, function) -/\ndef registeredValidations : List (String × String) := " + cfPairs(regs) + "\n")
	// the bodies of the repo's own validations as boolean functions of named atoms (area_config_bool.go)
	b.WriteString("\n" + configValidationBodies(t, p))

	// ---- 5c. every `validate:"…"` struct tag of the repository's non-test packages (examples / tests left out)
	{
		cfgAll := &packages.Config{Mode: packages.NeedName | packages.NeedSyntax | packages.NeedFiles, Dir: repo, BuildFlags: []string{"-tags=verif"}}
		all, err := packages.Load(cfgAll, "github.com/yandex/pandora/...")
		if err != nil {
			t.errs = append(t.errs, "loading all packages: "+err.Error())
		}
		var rows [][3]string
		var walk func(owner string, st *ast.StructType)
		walk = func(owner string, st *ast.StructType) {
			for _, f := range st.Fields.List {
				names := []string{}
				for _, n := range f.Names {
					names = append(names, n.Name)
				}
				if len(names) == 0 {
					names = []string{strings.TrimPrefix(strings.Join(strings.Fields(types.ExprString(f.Type)), ""), "*")}
				}
				if f.Tag != nil {
					if tagText, err := strconv.Unquote(f.Tag.Value); err == nil {
						if v, ok := reflect.StructTag(tagText).Lookup("validate"); ok {
							for _, n := range names {
								rows = append(rows, [3]string{owner, n, v})
							}
						}
					}
				}
				if inner, ok := f.Type.(*ast.StructType); ok {
					for _, n := range names {
						walk(owner+"."+n, inner)
					}
				}
			}
		}
		for _, pk := range all {
			rel := strings.TrimPrefix(pk.PkgPath, "github.com/yandex/pandora/")
			if strings.HasPrefix(rel, "examples") || strings.HasPrefix(rel, "tests") || strings.Contains(rel, "/mocks") {
				continue
			}
			for _, f := range pk.Syntax {
				ast.Inspect(f, func(n ast.Node) bool {
					ts, ok := n.(*ast.TypeSpec)
					if !ok {
						return true
					}
					if st, ok := ts.Type.(*ast.StructType); ok {
						walk(rel+"."+ts.Name.Name, st)
					}
					return true
				})
			}
		}
		sort.Slice(rows, func(i, j int) bool {
			if rows[i][0] != rows[j][0] {
				return rows[i][0] < rows[j][0]
			}
			return rows[i][1] < rows[j][1]
		})
		var q []string
		for _, r := range rows {
			q = append(q, fmt.Sprintf("(%q, %q, %q)", r[0], r[1], r[2]))
		}
		b.WriteString("/-- every `validate` struct tag of the non-test packages: (package.Type, field, tag), sorted -/\n")
		b.WriteString("def validateTags : List (String × String × String) := [\n  " + strings.Join(q, ",\n  ") + "]\n\n")
	}

	// ---- 6. cli.readConfig discard_overflow defaulting
	cp := load("github.com/yandex/pandora/cli")
	rcfg := findFunc(cp, "readConfig")
	key, dflt, found := "", false, false
	beforeDecode := false
	if rcfg == nil {
		t.errs = append(t.errs, "cli.readConfig not found")
	} else {
		// the defaulting may stand in readConfig itself or in a function of package cli that readConfig calls (round 4:
		// moving the loop into a helper is no change of behaviour); `where` = the function that holds it, `callPos` = where
		// readConfig reaches it
		type cand struct {
			fd      *ast.FuncDecl
			callPos token.Pos
		}
		cands := []cand{{rcfg, token.NoPos}}
		ast.Inspect(rcfg.Body, func(n ast.Node) bool {
			call, ok := n.(*ast.CallExpr)
			if !ok {
				return true
			}
			if id, ok := call.Fun.(*ast.Ident); ok {
				if fn, ok := cp.TypesInfo.ObjectOf(id).(*types.Func); ok && fn.Pkg() == cp.Types {
					if fd := findFunc(cp, id.Name); fd != nil && fd.Body != nil {
						cands = append(cands, cand{fd, call.Pos()})
					}
				}
			}
			return true
		})
		var assignPos, reachPos token.Pos
		var where *ast.FuncDecl
		for _, c := range cands {
			c := c
			// round 6: the comma-ok lookup may stand in the if's init statement or in a statement of its own in front of the
			// if (`_, given := m[K]` … `if !given { m[K] = true }`): `lookups` = the latest such assignment per variable
			lookups := map[string]*ast.AssignStmt{}
			ast.Inspect(c.fd.Body, func(n ast.Node) bool {
				if a, ok := n.(*ast.AssignStmt); ok && len(a.Rhs) == 1 && len(a.Lhs) == 2 {
					if _, isIx := a.Rhs[0].(*ast.IndexExpr); isIx {
						if id, ok := a.Lhs[1].(*ast.Ident); ok {
							lookups[id.Name] = a
						}
					}
				}
				ifs, ok := n.(*ast.IfStmt)
				if !ok || len(ifs.Body.List) != 1 {
					return true
				}
				var as *ast.AssignStmt
				if ifs.Init != nil {
					as, ok = ifs.Init.(*ast.AssignStmt)
					if !ok {
						return true
					}
				} else if un, ok := ifs.Cond.(*ast.UnaryExpr); ok && un.Op == token.NOT {
					if id, ok := un.X.(*ast.Ident); ok {
						as = lookups[id.Name]
					}
				}
				if as == nil || len(as.Rhs) != 1 || len(as.Lhs) != 2 {
					return true
				}
				// `if _, <present> := m[K]; !<present>`
				if un, ok := ifs.Cond.(*ast.UnaryExpr); !ok || un.Op != token.NOT || cfSrc(cp, un.X) != cfSrc(cp, as.Lhs[1]) {
					return true
				}
				ix, ok := as.Rhs[0].(*ast.IndexExpr)
				if !ok {
					return true
				}
				k, ok := cfStringConst(cp, ix.Index)
				if !ok {
					return true
				}
				set, ok := ifs.Body.List[0].(*ast.AssignStmt)
				if !ok || len(set.Lhs) != 1 || len(set.Rhs) != 1 {
					return true
				}
				lix, ok := set.Lhs[0].(*ast.IndexExpr)
				if !ok || cfSrc(cp, lix.X) != cfSrc(cp, ix.X) {
					return true
				}
				k2, ok := cfStringConst(cp, lix.Index)
				if !ok || k2 != k {
					return true
				}
				v, ok := cfBoolConst(cp, set.Rhs[0])
				if !ok {
					gsFail(t, cp, set, "readConfig: the default assigned to %q is not a boolean constant", k)
					return true
				}
				if found {
					gsFail(t, cp, ifs, "readConfig: more than one key is defaulted")
				}
				key, dflt, found = k, v, true
				assignPos = ifs.Pos()
				where = c.fd
				reachPos = c.callPos
				if c.fd == rcfg {
					reachPos = ifs.Pos()
				}
				return true
			})
		}
		if !found {
			t.errs = append(t.errs, "readConfig: `if _, ok := m[K]; !ok { m[K] = <bool> }` not found (in readConfig or a function of package cli it calls)")
		}
		// the defaulted pools are written back (`<viper>.Set("pools", …)`, after the defaulting, in the same function) and
		// readConfig reaches all of that before it decodes `v.AllSettings()`
		var decodePos, setPos token.Pos
		ast.Inspect(rcfg.Body, func(n ast.Node) bool {
			if call, ok := n.(*ast.CallExpr); ok {
				if strings.HasPrefix(cfSrc(cp, call), "config.DecodeAndValidate(v.AllSettings()") {
					decodePos = call.Pos()
				}
			}
			return true
		})
		if where != nil {
			ast.Inspect(where.Body, func(n ast.Node) bool {
				if call, ok := n.(*ast.CallExpr); ok && len(call.Args) == 2 {
					if sel, ok := call.Fun.(*ast.SelectorExpr); ok && sel.Sel.Name == "Set" {
						if k, ok := cfStringConst(cp, call.Args[0]); ok && k == "pools" && call.Pos() > assignPos {
							setPos = call.Pos()
						}
					}
				}
				return true
			})
		}
		beforeDecode = found && setPos.IsValid() && decodePos.IsValid() && assignPos < setPos && reachPos < decodePos
	}
	b.WriteString("/-- `cli.readConfig`: the key defaulted in every pool mapping that lacks it, and the value it gets -/\n")
	b.WriteString(fmt.Sprintf("def discardKey : String := %q\n", key))
	b.WriteString("def discardDefault : Bool := " + leanBool(dflt) + "\n")
	b.WriteString("/-- the defaulted pools are written back (`v.Set(\"pools\", pools)`) before `config.DecodeAndValidate(v.AllSettings(), …)` -/\ndef discardBeforeDecode : Bool := " + leanBool(beforeDecode) + "\n")
	b.WriteString(configPluginFacts(t))
	return b.String()
}

// configResultsSrc: the results of a return statement as source text, comma separated
func configResultsSrc(p *packages.Package, r *ast.ReturnStmt) string {
	var xs []string
	for _, e := range r.Results {
		xs = append(xs, cfSrc(p, e))
	}
	return strings.Join(xs, ", ")
}
