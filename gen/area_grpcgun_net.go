package main

// Area "grpcgun", second part (property C20): which endpoint every connection of the gRPC guns is dialled to, what the
// scenario gun hands down to the plain gun it wraps, and whether the templater renders every metadata value.
//
//	components/guns/grpc/core.go           makeConnect / makeReflectionConnect (the address each dials), which of the two
//	                                       prepareMethodList, prepareClientPool and Bind use, the metadata of the
//	                                       reflection request, replacePort as a decision list
//	components/guns/grpc/scenario/core.go  NewGun: the fields of the wrapped gun's configuration and where they come from
//	components/guns/grpc/scenario/templater_text.go   the loop over the metadata: guards, early exits, what is parsed,
//	                                       executed and stored; the function table given to the parser
//
// Everything is reported as canonical strings in which local variables are replaced by their (single) definition and
// parameters / receivers by $recv, $0, $1 …, so that renaming a local or a parameter, or reordering independent
// statements, does not change them.

import (
	"fmt"
	"go/ast"
	"go/token"
	"go/types"
	"strings"

	"golang.org/x/tools/go/packages"
)

// grpcgunNetAliases: parameter and receiver objects of fn ↦ positional names.
func grpcgunNetAliases(p *packages.Package, fn *ast.FuncDecl) map[types.Object]string {
	al := map[types.Object]string{}
	if fn.Recv != nil {
		for _, f := range fn.Recv.List {
			for _, n := range f.Names {
				if o := p.TypesInfo.Defs[n]; o != nil {
					al[o] = "$recv"
				}
			}
		}
	}
	// range variables: $key / $value of the n-th range statement
	nr := 0
	ast.Inspect(fn.Body, func(x ast.Node) bool {
		if r, ok := x.(*ast.RangeStmt); ok && r.Tok == token.DEFINE {
			nr++
			suffix := ""
			if nr > 1 {
				suffix = fmt.Sprint(nr)
			}
			if id, ok := r.Key.(*ast.Ident); ok {
				if o := p.TypesInfo.Defs[id]; o != nil {
					al[o] = "$key" + suffix
				}
			}
			if id, ok := r.Value.(*ast.Ident); ok {
				if o := p.TypesInfo.Defs[id]; o != nil {
					al[o] = "$value" + suffix
				}
			}
		}
		return true
	})
	k := 0
	if fn.Type.Params != nil {
		for _, f := range fn.Type.Params.List {
			for _, n := range f.Names {
				if o := p.TypesInfo.Defs[n]; o != nil {
					al[o] = fmt.Sprintf("$%d", k)
				}
				k++
			}
		}
	}
	return al
}

// grpcgunNetDefBefore: the right-hand side of the single assignment to obj that precedes pos inside fn; idx >= 0 when
// obj is the idx-th result of a multi-valued right-hand side.
func grpcgunNetDefBefore(p *packages.Package, fn *ast.FuncDecl, obj types.Object, pos token.Pos) (rhs ast.Expr, idx int, n int) {
	idx = -1
	ast.Inspect(fn.Body, func(x ast.Node) bool {
		as, ok := x.(*ast.AssignStmt)
		if !ok || as.Pos() >= pos {
			return true
		}
		for i, l := range as.Lhs {
			if ggObj(p, l) != obj {
				continue
			}
			n++
			if len(as.Lhs) == len(as.Rhs) {
				rhs, idx = as.Rhs[i], -1
			} else {
				rhs, idx = as.Rhs[0], i
			}
		}
		return true
	})
	return
}

// grpcgunNetDescribe: like ggDescribeAt, with parameters / receiver printed by their positional alias.
func grpcgunNetDescribe(p *packages.Package, fn *ast.FuncDecl, al map[types.Object]string, e ast.Expr, pos token.Pos, depth int) string {
	if depth > 24 {
		return ggSrc(p, e)
	}
	rec := func(x ast.Expr) string { return grpcgunNetDescribe(p, fn, al, x, pos, depth+1) }
	switch x := e.(type) {
	case *ast.Ident:
		o := ggObj(p, x)
		if a, ok := al[o]; ok {
			return a
		}
		if v, ok := o.(*types.Var); ok && !v.IsField() && v.Parent() != p.Types.Scope() && v.Parent() != types.Universe {
			rhs, idx, n := grpcgunNetDefBefore(p, fn, v, pos)
			if n == 0 {
				return x.Name
			}
			if n != 1 {
				return fmt.Sprintf("%s#%d", x.Name, n)
			}
			d := grpcgunNetDescribe(p, fn, al, rhs, rhs.Pos(), depth+1)
			if idx >= 0 {
				return fmt.Sprintf("result%d(%s)", idx, d)
			}
			return d
		}
		return x.Name
	case *ast.CallExpr:
		var as []string
		for _, a := range x.Args {
			as = append(as, rec(a))
		}
		return rec(x.Fun) + "(" + strings.Join(as, ", ") + ")"
	case *ast.SelectorExpr:
		return rec(x.X) + "." + x.Sel.Name
	case *ast.IndexExpr:
		return rec(x.X) + "[" + rec(x.Index) + "]"
	case *ast.BinaryExpr:
		return rec(x.X) + " " + x.Op.String() + " " + rec(x.Y)
	case *ast.UnaryExpr:
		return x.Op.String() + rec(x.X)
	case *ast.StarExpr:
		return "*" + rec(x.X)
	case *ast.ParenExpr:
		return "(" + rec(x.X) + ")"
	case *ast.TypeAssertExpr:
		return rec(x.X) + ".(" + ggSrc(p, x.Type) + ")"
	case *ast.CompositeLit:
		var es []string
		for _, el := range x.Elts {
			if kv, ok := el.(*ast.KeyValueExpr); ok {
				es = append(es, ggSrc(p, kv.Key)+": "+rec(kv.Value))
			} else {
				es = append(es, rec(el))
			}
		}
		return ggSrc(p, x.Type) + "{" + strings.Join(es, ", ") + "}"
	}
	return ggSrc(p, e)
}

// grpcgunNetDials: the source of every connection variable handed to `consumer(…)` inside fn (e.g. the argument of
// grpcdynamic.NewStub or grpcreflect.NewClientAuto), described.
func grpcgunNetDials(p *packages.Package, fn *ast.FuncDecl, consumer string, argIdx int) string {
	if fn == nil {
		return "unrecognised: function not found"
	}
	al := grpcgunNetAliases(p, fn)
	var out []string
	for _, c := range ggCalls(p, fn.Body, consumer) {
		if len(c.Args) <= argIdx {
			out = append(out, "unrecognised: "+ggSrc(p, c))
			continue
		}
		out = append(out, grpcgunNetDescribe(p, fn, al, c.Args[argIdx], c.Pos(), 0))
	}
	if len(out) == 0 {
		return "unrecognised: no " + consumer
	}
	return strings.Join(out, ";")
}

// grpcgunNetSingleReturn: the described result of a function whose body is one return statement.
func grpcgunNetSingleReturn(p *packages.Package, fn *ast.FuncDecl) string {
	if fn == nil {
		return "unrecognised: function not found"
	}
	al := grpcgunNetAliases(p, fn)
	var rets []*ast.ReturnStmt
	ast.Inspect(fn.Body, func(x ast.Node) bool {
		if r, ok := x.(*ast.ReturnStmt); ok {
			rets = append(rets, r)
		}
		return true
	})
	if len(rets) != 1 || len(rets[0].Results) != 1 {
		return fmt.Sprintf("unrecognised: %d return statements", len(rets))
	}
	return grpcgunNetDescribe(p, fn, al, rets[0].Results[0], rets[0].Pos(), 0)
}

// grpcgunNetDecisionList reads a function of the shape
//
//	(assignments | if <guard> { return <v> } | if <init>; <guard> { return <v> } | <x>[<i>] = <v>)* return <v>
//
// as a list of (guard, value) pairs in source order (the last guard is "otherwise") plus the element stores made on
// the way. Anything else makes it "unrecognised".
func grpcgunNetDecisionList(p *packages.Package, fn *ast.FuncDecl) (rows [][2]string, stores []string, why string) {
	if fn == nil {
		return nil, nil, "function not found"
	}
	al := grpcgunNetAliases(p, fn)
	d := func(e ast.Expr, pos token.Pos) string { return grpcgunNetDescribe(p, fn, al, e, pos, 0) }
	for i, s := range fn.Body.List {
		switch x := s.(type) {
		case *ast.AssignStmt:
			for k, l := range x.Lhs {
				if ix, ok := l.(*ast.IndexExpr); ok && len(x.Lhs) == len(x.Rhs) {
					stores = append(stores, d(ix.X, x.Pos())+"["+d(ix.Index, x.Pos())+"] = "+d(x.Rhs[k], x.Pos()))
				} else if _, ok := l.(*ast.Ident); !ok {
					return nil, nil, "assignment to " + ggSrc(p, l)
				}
			}
		case *ast.IfStmt:
			if x.Else != nil || len(x.Body.List) != 1 {
				return nil, nil, "if with else / several statements: " + ggSrc(p, x.Cond)
			}
			r, ok := x.Body.List[0].(*ast.ReturnStmt)
			if !ok || len(r.Results) != 1 {
				return nil, nil, "if body is not a single return: " + ggSrc(p, x.Cond)
			}
			rows = append(rows, [2]string{d(x.Cond, x.Body.Pos()), d(r.Results[0], r.Pos())})
		case *ast.ReturnStmt:
			if i != len(fn.Body.List)-1 || len(x.Results) != 1 {
				return nil, nil, "return in the middle"
			}
			rows = append(rows, [2]string{"otherwise", d(x.Results[0], x.Pos())})
		default:
			return nil, nil, fmt.Sprintf("statement %T", s)
		}
	}
	if len(rows) == 0 || rows[len(rows)-1][0] != "otherwise" {
		return nil, nil, "no final return"
	}
	return rows, stores, ""
}

func grpcgunNetStrList(xs []string) string {
	var q []string
	for _, x := range xs {
		q = append(q, ggQuote(x))
	}
	return "[" + strings.Join(q, ", ") + "]"
}

// grpcgunNetExtra is appended to the area's output by grpcGunExtra.
// grpcgunNetAmmoFacts: how grpc/json turns a line into the pooled ammo object: into what the JSON is decoded, what
// the pooled object is reset with, and what Reset does.
func grpcgunNetAmmoFacts(ap, jp *packages.Package) (decodeInto, resetArgs, resetBody string) {
	decodeInto, resetArgs, resetBody = "unrecognised", "unrecognised", "unrecognised"
	if da := findFunc(jp, "decodeAmmo"); da != nil {
		al := grpcgunNetAliases(jp, da)
		var fresh types.Object
		ast.Inspect(da.Body, func(x ast.Node) bool {
			c, ok := x.(*ast.CallExpr)
			if !ok {
				return true
			}
			sel, ok := c.Fun.(*ast.SelectorExpr)
			if !ok || sel.Sel.Name != "Unmarshal" || len(c.Args) != 2 {
				return true
			}
			arg := c.Args[1]
			if u, ok := arg.(*ast.UnaryExpr); ok && u.Op == token.AND {
				o := ggObj(jp, u.X)
				if v, ok := o.(*types.Var); ok && al[o] == "" && v.Parent() != jp.Types.Scope() {
					// a local: declared with `var x T` (zero value) and not assigned before the call?
					declared := false
					ast.Inspect(da.Body, func(y ast.Node) bool {
						if ds, ok := y.(*ast.DeclStmt); ok {
							if gd, ok := ds.Decl.(*ast.GenDecl); ok {
								for _, sp := range gd.Specs {
									if vs, ok := sp.(*ast.ValueSpec); ok && len(vs.Values) == 0 {
										for _, n := range vs.Names {
											if jp.TypesInfo.Defs[n] == o {
												declared = true
											}
										}
									}
								}
							}
						}
						return true
					})
					_, _, n := grpcgunNetDefBefore(jp, da, o, c.Pos())
					if declared && n == 0 {
						decodeInto = "&$fresh (a zero-valued local of type " + v.Type().String()[strings.LastIndex(v.Type().String(), "/")+1:] + ")"
						fresh = o
					} else {
						decodeInto = "&local assigned before"
					}
				} else {
					decodeInto = "&" + grpcgunNetDescribe(jp, da, al, u.X, c.Pos(), 0)
				}
			} else {
				decodeInto = grpcgunNetDescribe(jp, da, al, arg, c.Pos(), 0)
			}
			return true
		})
		if fresh != nil {
			al[fresh] = "$fresh"
		}
		var resets []string
		for _, c := range ggCallsSuffix(jp, da.Body, ".Reset") {
			var as []string
			for _, a := range c.Args {
				as = append(as, grpcgunNetDescribe(jp, da, al, a, c.Pos(), 0))
			}
			recv := ""
			if sel, ok := c.Fun.(*ast.SelectorExpr); ok {
				recv = grpcgunNetDescribe(jp, da, al, sel.X, c.Pos(), 0)
			}
			resets = append(resets, recv+".Reset("+strings.Join(as, ", ")+")")
		}
		resetArgs = strings.Join(resets, ";")
	}
	if rs := ggMethod(ap, "Ammo", "Reset"); rs != nil {
		al := grpcgunNetAliases(ap, rs)
		var sts []string
		for _, st := range rs.Body.List {
			if as, ok := st.(*ast.AssignStmt); ok && len(as.Lhs) == 1 && len(as.Rhs) == 1 {
				sts = append(sts, grpcgunNetDescribe(ap, rs, al, as.Lhs[0], as.Pos(), 0)+" = "+grpcgunNetDescribe(ap, rs, al, as.Rhs[0], as.Pos(), 0))
			} else {
				sts = append(sts, fmt.Sprintf("other statement %T", st))
			}
		}
		resetBody = strings.Join(sts, ";")
	}
	return
}

func grpcgunNetExtra(t *tr, gp, sp *packages.Package) string {
	var b strings.Builder
	def := func(doc, name, typ, val string) {
		b.WriteString("/-- " + doc + " -/\ndef " + name + " : " + typ + " := " + val + "\n\n")
	}

	// ---- endpoints
	def("the address `(*Gun).makeConnect` dials (`$recv` = the gun)", "connectTarget", "String",
		ggQuote(grpcgunNetSingleReturn(gp, ggMethod(gp, "Gun", "makeConnect"))))
	def("the address `(*Gun).makeReflectionConnect` dials", "reflectionTarget", "String",
		ggQuote(grpcgunNetSingleReturn(gp, ggMethod(gp, "Gun", "makeReflectionConnect"))))
	def("the connection `prepareMethodList` asks for the descriptors (argument of `grpcreflect.NewClientAuto`)", "reflectDial", "String",
		ggQuote(grpcgunNetDials(gp, ggMethod(gp, "Gun", "prepareMethodList"), "grpcreflect.NewClientAuto", 1)))
	def("the connections of the shared client pool (argument of `grpcdynamic.NewStub` in `prepareClientPool`)", "poolDial", "String",
		ggQuote(grpcgunNetDials(gp, ggMethod(gp, "Gun", "prepareClientPool"), "grpcdynamic.NewStub", 0)))
	def("an instance's own connection (argument of `grpcdynamic.NewStub` in `Bind`)", "bindDial", "String",
		ggQuote(grpcgunNetDials(gp, ggMethod(gp, "Gun", "Bind"), "grpcdynamic.NewStub", 0)))
	// metadata of the reflection request
	pml := ggMethod(gp, "Gun", "prepareMethodList")
	rmd := "unrecognised"
	if pml != nil {
		al := grpcgunNetAliases(gp, pml)
		cl := ggCalls(gp, pml.Body, "grpcreflect.NewClientAuto")
		if len(cl) == 1 && len(cl[0].Args) == 2 {
			rmd = grpcgunNetDescribe(gp, pml, al, cl[0].Args[0], cl[0].Pos(), 0)
		}
	}
	def("the context of the reflection request", "reflectContext", "String", ggQuote(rmd))
	// shoot / shootStep must not mention the reflection settings
	leaks := []string{}
	for _, f := range []struct {
		p  *packages.Package
		fn *ast.FuncDecl
		n  string
	}{{gp, ggMethod(gp, "Gun", "shoot"), "shoot"}, {sp, ggMethod(sp, "Gun", "shootStep"), "shootStep"}} {
		if f.fn == nil {
			continue
		}
		ast.Inspect(f.fn.Body, func(x ast.Node) bool {
			if s, ok := x.(*ast.SelectorExpr); ok && strings.HasPrefix(s.Sel.Name, "Reflect") {
				leaks = append(leaks, f.n+":"+ggSrc(f.p, s))
			}
			return true
		})
	}
	def("uses of the reflection settings inside `shoot` / `shootStep` (none: they concern the warm-up only)", "reflectSettingsInShoot", "List String", grpcgunNetStrList(leaks))

	// ---- replacePort
	rows, stores, why := grpcgunNetDecisionList(gp, findFunc(gp, "replacePort"))
	if why != "" {
		t.errs = append(t.errs, "replacePort: shape not recognised: "+why)
	}
	def("`replacePort($0 = host, $1 = port)` as a decision list (first guard that holds wins)", "replacePortRows", "List (String × String)", ggPairs(rows))
	def("element stores `replacePort` makes before its last return", "replacePortStores", "List String", grpcgunNetStrList(stores))

	// ---- scenario NewGun: the configuration of the wrapped gun
	ng := findFunc(sp, "NewGun")
	var copies [][2]string
	if ng != nil {
		al := grpcgunNetAliases(sp, ng)
		ast.Inspect(ng.Body, func(x ast.Node) bool {
			cl, ok := x.(*ast.CompositeLit)
			if !ok || !strings.HasSuffix(ggSrc(sp, cl.Type), "grpcgun.GunConfig") {
				return true
			}
			for _, el := range cl.Elts {
				kv, ok := el.(*ast.KeyValueExpr)
				if !ok {
					continue
				}
				if _, isLit := kv.Value.(*ast.CompositeLit); isLit {
					continue // nested option groups (dial options, answer log) are outside the property
				}
				copies = append(copies, [2]string{ggSrc(sp, kv.Key), grpcgunNetDescribe(sp, ng, al, kv.Value, kv.Pos(), 0)})
			}
			return false
		})
	}
	def("scalar fields of the plain gun's configuration as the scenario `NewGun($0 = conf)` fills them", "scenarioConfCopies", "List (String × String)", ggPairs(copies))

	// ---- scenario gun: what a failing step does to its shot, and how long the request variables live
	onErr, reqVars, stepReset, deferred, errOrder := "unrecognised", "unrecognised", "unrecognised", "unrecognised", "unrecognised"
	if sh := ggMethod(sp, "Gun", "shoot"); sh != nil {
		al := grpcgunNetAliases(sp, sh)
		ast.Inspect(sh.Body, func(x ast.Node) bool {
			r, ok := x.(*ast.RangeStmt)
			if !ok {
				return true
			}
			// err := g.shootStep(…); if err != nil { <what> }
			var errObj types.Object
			for _, st := range r.Body.List {
				if as, ok := st.(*ast.AssignStmt); ok && len(as.Rhs) == 1 && len(ggCallsSuffix(sp, as.Rhs[0], ".shootStep")) == 1 && len(as.Lhs) == 1 {
					errObj = ggObj(sp, as.Lhs[0])
				}
				if ifs, ok := st.(*ast.IfStmt); ok && errObj != nil {
					if be, ok := ifs.Cond.(*ast.BinaryExpr); ok && be.Op == token.NEQ && ggObj(sp, be.X) == errObj && ggSrc(sp, be.Y) == "nil" {
						var what []string
						for _, b := range ifs.Body.List {
							switch y := b.(type) {
							case *ast.ReturnStmt:
								var rs []string
								for _, e := range y.Results {
									if ggObj(sp, e) == errObj {
										rs = append(rs, "the step's error")
									} else {
										rs = append(rs, ggSrc(sp, e))
									}
								}
								what = append(what, "return "+strings.Join(rs, ", "))
							case *ast.BranchStmt:
								what = append(what, y.Tok.String())
							}
						}
						onErr = "range " + grpcgunNetDescribe(sp, sh, al, r.X, r.Pos(), 0) + ": " + strings.Join(what, ";")
					}
				}
			}
			return false
		})
		// templateVars["request"] = <fresh map made in this function>
		ast.Inspect(sh.Body, func(x ast.Node) bool {
			as, ok := x.(*ast.AssignStmt)
			if !ok || len(as.Lhs) != 1 || len(as.Rhs) != 1 {
				return true
			}
			if ix, ok := as.Lhs[0].(*ast.IndexExpr); ok && ggSrc(sp, ix.Index) == `"request"` {
				reqVars = grpcgunNetDescribe(sp, sh, al, ix.X, as.Pos(), 0) + `["request"] = ` + grpcgunNetDescribe(sp, sh, al, as.Rhs[0], as.Pos(), 0)
			}
			return true
		})
	}
	if st := ggMethod(sp, "Gun", "shootStep"); st != nil {
		al := grpcgunNetAliases(sp, st)
		aps := ggCallsSuffix(sp, st.Body, ".templ.Apply")
		invs := ggCallsSuffix(sp, st.Body, ".InvokeRpc")
		// requestVars[step.Name] = <fresh map>, before the templates are applied
		ast.Inspect(st.Body, func(x ast.Node) bool {
			as, ok := x.(*ast.AssignStmt)
			if !ok || len(as.Lhs) != 1 || len(as.Rhs) != 1 || len(aps) != 1 {
				return true
			}
			if ix, ok := as.Lhs[0].(*ast.IndexExpr); ok && strings.HasSuffix(ggSrc(sp, ix.Index), ".Name") {
				stepReset = fmt.Sprintf("%s[%s] = %s; before templ.Apply=%v", grpcgunNetDescribe(sp, st, al, ix.X, as.Pos(), 0),
					grpcgunNetDescribe(sp, st, al, ix.Index, as.Pos(), 0), grpcgunNetDescribe(sp, st, al, as.Rhs[0], as.Pos(), 0), as.Pos() < aps[0].Pos())
			}
			return true
		})
		// the sample is reported by a deferred function installed before anything can fail
		for i, s := range st.Body.List {
			if d, ok := s.(*ast.DeferStmt); ok {
				rep := len(ggCallsSuffix(sp, d.Call, ".Aggr.Report")) == 1
				first := true
				for _, prev := range st.Body.List[:i] {
					if _, isRet := prev.(*ast.ReturnStmt); isRet {
						first = false
					}
					ast.Inspect(prev, func(x ast.Node) bool {
						if _, isRet := x.(*ast.ReturnStmt); isRet {
							first = false
						}
						return true
					})
				}
				deferred = fmt.Sprintf("defer reports the sample=%v; no return before it=%v", rep, first)
				break
			}
		}
		// templ.Apply's error is returned before the call is made
		if len(aps) == 1 && len(invs) == 1 {
			var errObj types.Object
			ast.Inspect(st.Body, func(x ast.Node) bool {
				if as, ok := x.(*ast.AssignStmt); ok && len(as.Rhs) == 1 && as.Rhs[0] == ast.Expr(aps[0]) && len(as.Lhs) == 2 {
					errObj = ggObj(sp, as.Lhs[1])
				}
				return true
			})
			for _, s := range st.Body.List {
				ifs, ok := s.(*ast.IfStmt)
				if !ok || ifs.Pos() < aps[0].Pos() || ifs.Pos() > invs[0].Pos() || errObj == nil {
					continue
				}
				if be, ok := ifs.Cond.(*ast.BinaryExpr); ok && be.Op == token.NEQ && ggObj(sp, be.X) == errObj && len(ifs.Body.List) == 1 {
					if _, isRet := ifs.Body.List[0].(*ast.ReturnStmt); isRet {
						errOrder = "templ.Apply; if its error != nil return; … InvokeRpc"
					}
					break
				}
			}
		}
	}
	def("what the loop of the scenario `shoot` over the steps does when a step returns an error", "scenarioOnStepError", "String", ggQuote(onErr))
	def("the per-shot request variables: made afresh by every `shoot`", "scenarioRequestVars", "String", ggQuote(reqVars))
	def("a step's own variables are replaced by an empty map when the step begins (before its templates are rendered)", "scenarioStepVarsReset", "String", ggQuote(stepReset))
	def("how `shootStep` reports its sample", "scenarioSampleReport", "String", ggQuote(deferred))
	def("a templating error ends the step before any call is made", "scenarioTemplateErrorOrder", "String", ggQuote(errOrder))

	// ---- templater: the loop over the metadata
	ap := ggMethod(sp, "TextTemplater", "Apply")
	guards, exits := []string{}, []string{}
	loopShape := "unrecognised"
	if ap != nil {
		var loops []*ast.RangeStmt
		ast.Inspect(ap.Body, func(x ast.Node) bool {
			if r, ok := x.(*ast.RangeStmt); ok {
				loops = append(loops, r)
			}
			return true
		})
		if len(loops) == 1 && len(ap.Type.Params.List) >= 2 {
			r := loops[0]
			al := grpcgunNetAliases(sp, ap)
			loopShape = "range " + grpcgunNetDescribe(sp, ap, al, r.X, r.Pos(), 0)
			ast.Inspect(r.Body, func(x ast.Node) bool {
				switch s := x.(type) {
				case *ast.IfStmt:
					if c := ggSrc(sp, s.Cond); c != "err != nil" {
						guards = append(guards, c)
					}
				case *ast.BranchStmt:
					exits = append(exits, s.Tok.String())
				case *ast.ReturnStmt:
					if len(s.Results) == 2 && ggSrc(sp, s.Results[0]) == "nil" {
						return true // error return
					}
					exits = append(exits, "return "+ggSrc(sp, s))
				}
				return true
			})
			// what is executed and stored per key
			var ex, st []string
			for _, c := range ggCallsSuffix(sp, r.Body, ".Execute") {
				if len(c.Args) == 2 {
					ex = append(ex, grpcgunNetDescribe(sp, ap, al, c.Args[1], c.Pos(), 0))
				}
			}
			ast.Inspect(r.Body, func(x ast.Node) bool {
				if as, ok := x.(*ast.AssignStmt); ok {
					for i, l := range as.Lhs {
						if ix, ok := l.(*ast.IndexExpr); ok && len(as.Lhs) == len(as.Rhs) {
							same := ggObj(sp, ix.X) != nil && ggObj(sp, ix.X) == ggObj(sp, r.X) && ggObj(sp, ix.Index) != nil && ggObj(sp, ix.Index) == ggObj(sp, r.Key)
							rhs := ggSrc(sp, as.Rhs[i])
							if c, ok := as.Rhs[i].(*ast.CallExpr); ok {
								if sel, ok := c.Fun.(*ast.SelectorExpr); ok && len(c.Args) == 0 {
									// <builder>.String(): is it the builder the template was executed into?
									into := false
									for _, e := range ggCallsSuffix(sp, r.Body, ".Execute") {
										if len(e.Args) == 2 && ggObj(sp, e.Args[0]) != nil && ggObj(sp, e.Args[0]) == ggObj(sp, sel.X) {
											into = true
										}
									}
									rhs = fmt.Sprintf("%s() of the executed-into builder=%v", sel.Sel.Name, into)
								}
							}
							st = append(st, fmt.Sprintf("same-map-same-key=%v := %s", same, rhs))
						}
					}
				}
				return true
			})
			loopShape += " | execute with " + strings.Join(ex, ";") + " | store " + strings.Join(st, ";")
		}
	}
	def("the loop of `TextTemplater.Apply` over the metadata (`$1`): what every value is executed with and where the result goes", "templaterLoop", "String", ggQuote(loopShape))
	def("conditions inside that loop other than error checks (none: every value is parsed and executed)", "templaterLoopGuards", "List String", grpcgunNetStrList(guards))
	def("`continue` / `break` / non-error returns inside that loop (none)", "templaterLoopExits", "List String", grpcgunNetStrList(exits))
	// the parser's function table
	gt := ggMethod(sp, "TextTemplater", "getTemplate")
	parse := "unrecognised"
	if gt != nil {
		al := grpcgunNetAliases(sp, gt)
		ps := ggCallsSuffix(sp, gt.Body, ".Parse")
		if len(ps) == 1 && len(ps[0].Args) == 1 {
			recv := ""
			if sel, ok := ps[0].Fun.(*ast.SelectorExpr); ok {
				if inner, ok := sel.X.(*ast.CallExpr); ok {
					if isel, ok := inner.Fun.(*ast.SelectorExpr); ok {
						var as []string
						for _, a := range inner.Args {
							as = append(as, grpcgunNetDescribe(sp, gt, al, a, inner.Pos(), 0))
						}
						recv = isel.Sel.Name + "(" + strings.Join(as, ", ") + ")"
					}
				}
			}
			parse = recv + ".Parse(" + grpcgunNetDescribe(sp, gt, al, ps[0].Args[0], ps[0].Pos(), 0) + ")"
		}
	}
	def("how `getTemplate($0 = body, $1 = key)` parses a template it has not cached", "templateParse", "String", ggQuote(parse))
	return b.String()
}
