package main

// Area "c13src", round 6 (every identifier carries the prefix `c13src`):
//
//	components/providers/scenario/config        const MaxScenarioRequests, MaxSpreadSize; CheckSpread: both tests
//	components/providers/scenario/{http,grpc}   convertScenarioToAmmo: the tests on `cnt` that stand in front of the append loop;
//	                                            decodeAmmo: CheckSpread(names, size) stands between SpreadNames and the first `make`
//	components/providers/scenario/templater     const maxRandStringLength; randString after its ParseInt lines (whole function)
//	the `Run` of the four providers             the top-level statements classified: registers a defer that closes the sink |
//	                                            may return | other - in source order (is the sink closed on EVERY return path?)

import (
	"fmt"
	"go/ast"
	"go/constant"
	"go/token"
	"strings"

	"golang.org/x/tools/go/packages"
)

func c13srcConst(x *c13srcX, p *packages.Package, name string) string {
	obj := p.Types.Scope().Lookup(name)
	if obj == nil {
		x.fail(nil, "const %s not found in %s", name, p.PkgPath)
		return "(0 : Int)"
	}
	c, ok := obj.(interface{ Val() constant.Value })
	if !ok || constant.ToInt(c.Val()).Kind() != constant.Int {
		x.fail(nil, "%s is not an integer constant", name)
		return "(0 : Int)"
	}
	return constant.ToInt(c.Val()).ExactString()
}

// c13srcMentions: does the expression mention the identifier?
func c13srcMentions(e ast.Node, name string) bool {
	found := false
	ast.Inspect(e, func(n ast.Node) bool {
		if id, ok := n.(*ast.Ident); ok && id.Name == name {
			found = true
		}
		return !found
	})
	return found
}

// c13srcReturnsError: the block's last statement is `return …, <non-nil>`
func c13srcReturnsError(b *ast.BlockStmt) bool {
	if b == nil || len(b.List) == 0 {
		return false
	}
	rs, ok := b.List[len(b.List)-1].(*ast.ReturnStmt)
	return ok && len(rs.Results) > 0 && !c13srcIsNil(rs.Results[len(rs.Results)-1])
}

// c13srcRepeatGuard: in convertScenarioToAmmo, the tests on `cnt` in front of `for i := 0; i < cnt; i++ { … append … }`
func c13srcRepeatGuard(t *tr, p *packages.Package, lenText string) string {
	x := &c13srcX{t: t, p: p, env: map[string]string{"cnt": "cnt", lenText: "built"}}
	fd := c13srcFunc(p, "", "convertScenarioToAmmo")
	if fd == nil {
		return x.fail(nil, "convertScenarioToAmmo not found in %s", p.PkgPath)
	}
	var rng *ast.RangeStmt
	for _, s := range fd.Body.List {
		if r, ok := s.(*ast.RangeStmt); ok {
			rng = r
		}
	}
	if rng == nil {
		return x.fail(fd, "convertScenarioToAmmo: no range loop")
	}
	var conds []string
	for _, s := range rng.Body.List {
		switch y := s.(type) {
		case *ast.ForStmt:
			// the append loop: `for i := 0; i < cnt; i++`
			if y.Cond == nil || !c13srcMentions(y.Cond, "cnt") {
				continue
			}
			if c13srcText(p, y.Cond) != "i < cnt" || c13srcText(p, y.Init) != "i := 0" || c13srcText(p, y.Post) != "i++" {
				return x.fail(y, "convertScenarioToAmmo: the append loop is not `for i := 0; i < cnt; i++`")
			}
			if len(conds) == 0 {
				return "False"
			}
			return "(" + strings.Join(conds, " ∨ ") + ")"
		case *ast.IfStmt:
			if y.Init == nil && y.Else == nil && c13srcReturnsError(y.Body) && c13srcMentions(y.Cond, "cnt") {
				conds = append(conds, x.cond(y.Cond))
			}
		}
	}
	return x.fail(fd, "convertScenarioToAmmo: no append loop over cnt")
}

// c13srcChecksSpread: in decodeAmmo, `if err := config.CheckSpread(names, size); err != nil { return … }` follows
// `names, size := config.SpreadNames(…)` and no `make(` stands between them
func c13srcChecksSpread(t *tr, p *packages.Package) bool {
	x := &c13srcX{t: t, p: p}
	fd := c13srcFunc(p, "", "decodeAmmo")
	if fd == nil {
		x.fail(nil, "decodeAmmo not found in %s", p.PkgPath)
		return false
	}
	state := 0
	var n1, n2 string
	for _, s := range fd.Body.List {
		switch state {
		case 0:
			if as, ok := s.(*ast.AssignStmt); ok && len(as.Lhs) == 2 && len(as.Rhs) == 1 &&
				strings.HasPrefix(c13srcText(p, as.Rhs[0]), "config.SpreadNames(") {
				n1, n2 = c13srcText(p, as.Lhs[0]), c13srcText(p, as.Lhs[1])
				state = 1
			}
		case 1:
			if is, ok := s.(*ast.IfStmt); ok && is.Init != nil && c13srcReturnsError(is.Body) &&
				strings.HasSuffix(c13srcText(p, is.Init), "config.CheckSpread("+n1+", "+n2+")") &&
				(c13srcText(p, is.Cond) == "err != nil" || c13srcText(p, is.Cond) == "nil != err") {
				return true
			}
			// anything that allocates from the size before the check
			alloc := false
			ast.Inspect(s, func(n ast.Node) bool {
				if c, ok := n.(*ast.CallExpr); ok && c13srcText(p, c.Fun) == "make" {
					alloc = true
				}
				return true
			})
			if alloc {
				return false
			}
		}
	}
	return false
}

// c13srcRunStmts classifies the top-level statements of a provider's Run: 0 = registers a defer that closes the sink,
// 1 = may return (holds a return statement outside a function literal), 2 = anything else
func c13srcRunStmts(t *tr, p *packages.Package, recv string) string {
	x := &c13srcX{t: t, p: p}
	fd := c13srcFunc(p, recv, "Run")
	if fd == nil {
		x.fail(nil, "%s.Run not found in %s", recv, p.PkgPath)
		return "[]"
	}
	closes := func(n ast.Node) bool {
		found := false
		ast.Inspect(n, func(m ast.Node) bool {
			if c, ok := m.(*ast.CallExpr); ok {
				if id, ok := c.Fun.(*ast.Ident); ok && id.Name == "close" && len(c.Args) == 1 {
					found = true
				}
			}
			return !found
		})
		return found
	}
	returns := func(n ast.Node) bool {
		found := false
		ast.Inspect(n, func(m ast.Node) bool {
			switch m.(type) {
			case *ast.FuncLit:
				return false
			case *ast.ReturnStmt:
				found = true
			}
			return !found
		})
		return found
	}
	var out []string
	for _, s := range fd.Body.List {
		switch y := s.(type) {
		case *ast.DeferStmt:
			if closes(y.Call) {
				out = append(out, ".deferClose")
			} else {
				out = append(out, ".other")
			}
		default:
			if returns(s) {
				out = append(out, ".mayReturn")
			} else {
				out = append(out, ".other")
			}
		}
	}
	return "[" + strings.Join(out, ", ") + "]"
}

func c13srcRound6(t *tr) string {
	var b strings.Builder
	b.WriteString("/-! ## round 6: the bounds on announced repeat counts, the end of `Run` -/\n\n")
	cfg := c13srcLoad(t, "github.com/yandex/pandora/components/providers/scenario/config")
	tmpl := c13srcLoad(t, "github.com/yandex/pandora/components/providers/scenario/templater")
	shttp := c13srcLoad(t, "github.com/yandex/pandora/components/providers/scenario/http")
	sgrpc := c13srcLoad(t, "github.com/yandex/pandora/components/providers/scenario/grpc")
	x := &c13srcX{t: t, p: cfg}
	fmt.Fprintf(&b, "/-- `const MaxScenarioRequests` (components/providers/scenario/config/decode.go) -/\ndef maxScenarioRequests : Int := %s\n\n", c13srcConst(x, cfg, "MaxScenarioRequests"))
	fmt.Fprintf(&b, "/-- `const MaxSpreadSize` (components/providers/scenario/config/decode.go) -/\ndef maxSpreadSize : Int := %s\n\n", c13srcConst(x, cfg, "MaxSpreadSize"))
	fmt.Fprintf(&b, "/-- `const maxRandStringLength` (components/providers/scenario/templater/func.go) -/\ndef maxRandStringLength : Int := %s\n\n", c13srcConst(&c13srcX{t: t, p: tmpl}, tmpl, "maxRandStringLength"))

	fmt.Fprintf(&b, "/-- regenerated from `scenario/http/decode.go` `convertScenarioToAmmo`: the tests on `cnt` that return an error in front of the\nappend loop `for i := 0; i < cnt; i++` (`built` = `len(result.Requests)`) -/\ndef httpRepeatRefused (cnt built : Int) : Prop := %s\n", c13srcRepeatGuard(t, shttp, "len(result.Requests)"))
	b.WriteString("instance (cnt built : Int) : Decidable (httpRepeatRefused cnt built) := by unfold httpRepeatRefused; exact inferInstance\n\n")
	fmt.Fprintf(&b, "/-- the same in `scenario/grpc/decode.go` (`built` = `len(result.Calls)`) -/\ndef grpcRepeatRefused (cnt built : Int) : Prop := %s\n", c13srcRepeatGuard(t, sgrpc, "len(result.Calls)"))
	b.WriteString("instance (cnt built : Int) : Decidable (grpcRepeatRefused cnt built) := by unfold grpcRepeatRefused; exact inferInstance\n\n")

	// CheckSpread
	{
		fd := c13srcFunc(cfg, "", "CheckSpread")
		tot, cnt := "False", "False"
		if fd == nil || fd.Type.Params == nil || len(fd.Type.Params.List) != 2 {
			x.fail(nil, "CheckSpread(names, total) not found")
		} else {
			totalName := fd.Type.Params.List[1].Names[0].Name
			var tots, cnts []string
			for _, s := range fd.Body.List {
				switch y := s.(type) {
				case *ast.IfStmt:
					if y.Init == nil && y.Else == nil && c13srcReturnsError(y.Body) {
						xx := &c13srcX{t: t, p: cfg, env: map[string]string{totalName: "total"}}
						tots = append(tots, xx.cond(y.Cond))
					}
				case *ast.RangeStmt:
					val, _ := y.Value.(*ast.Ident)
					if val == nil {
						x.fail(y, "CheckSpread: range without a value variable")
						continue
					}
					for _, s2 := range y.Body.List {
						if is, ok := s2.(*ast.IfStmt); ok && is.Init == nil && is.Else == nil && c13srcReturnsError(is.Body) {
							xx := &c13srcX{t: t, p: cfg, env: map[string]string{val.Name: "cnt"}}
							cnts = append(cnts, xx.cond(is.Cond))
						}
					}
				case *ast.ReturnStmt:
				default:
					x.fail(s, "CheckSpread: statement %s", c13srcText(cfg, s))
				}
			}
			if len(tots) > 0 {
				tot = "(" + strings.Join(tots, " ∨ ") + ")"
			}
			if len(cnts) > 0 {
				cnt = "(" + strings.Join(cnts, " ∨ ") + ")"
			}
		}
		fmt.Fprintf(&b, "/-- regenerated from `scenario/config/decode.go` `CheckSpread`: the tests on the total that return an error -/\ndef checkSpreadTotal (total : Int) : Prop := %s\n", tot)
		b.WriteString("instance (total : Int) : Decidable (checkSpreadTotal total) := by unfold checkSpreadTotal; exact inferInstance\n\n")
		fmt.Fprintf(&b, "/-- … and the tests on each count of the map -/\ndef checkSpreadCount (cnt : Int) : Prop := %s\n", cnt)
		b.WriteString("instance (cnt : Int) : Decidable (checkSpreadCount cnt) := by unfold checkSpreadCount; exact inferInstance\n\n")
	}
	fmt.Fprintf(&b, "/-- `decodeAmmo` (http): `CheckSpread(names, size)` is called, and its error returned, right after `SpreadNames`, before any `make` -/\ndef httpDecodeAmmoChecksSpread : Bool := %v\n\n", c13srcChecksSpread(t, shttp))
	fmt.Fprintf(&b, "/-- the same in `decodeAmmo` (grpc) -/\ndef grpcDecodeAmmoChecksSpread : Bool := %v\n\n", c13srcChecksSpread(t, sgrpc))

	// randString
	{
		fd := c13srcFunc(tmpl, "", "randString")
		xx := &c13srcX{t: t, p: tmpl, env: map[string]string{"n": "n", "str.RandStringRunes(n, letters)": "n"}}
		body := ""
		if fd != nil && len(fd.Body.List) > 2 &&
			c13srcText(tmpl, fd.Body.List[0]) == "n, err := numbers.ParseInt(cnt)" {
			if is, ok := fd.Body.List[1].(*ast.IfStmt); ok && c13srcText(tmpl, is.Cond) == "err != nil" && c13srcReturnsError(is.Body) {
				body = xx.block(fd.Body.List[2:], "  ")
			}
		}
		if body == "" {
			body = "  " + xx.fail(nil, "func randString(cnt, letters) not found or does not start with numbers.ParseInt(cnt)")
		}
		b.WriteString("/-- regenerated from `templater/func.go` func `randString`, the statements after `n, err := numbers.ParseInt(cnt)` and its\nerror test: an error, or the length handed to `str.RandStringRunes` (= the `make([]rune, n)` there) -/\n")
		b.WriteString("def randStringLen (n : Int) : Res Int :=\n" + body + "\n\n")
	}

	// Run of the four providers
	runs := []struct{ name, path, recv string }{
		{"grpcRunStmts", "github.com/yandex/pandora/components/providers/grpc", "Provider"},
		{"httpRunStmts", "github.com/yandex/pandora/components/providers/http/provider", "Provider"},
		{"decodeRunStmts", "github.com/yandex/pandora/core/provider", "DecodeProvider"},
		{"scenarioRunStmts", "github.com/yandex/pandora/components/providers/scenario", "Provider"},
	}
	for _, r := range runs {
		p := c13srcLoad(t, r.path)
		fmt.Fprintf(&b, "/-- regenerated from `%s` `(*%s).Run` -/\ndef %s : List RunStmt := %s\n\n", strings.TrimPrefix(r.path, "github.com/yandex/pandora/"), r.recv, r.name, c13srcRunStmts(t, p, r.recv))
	}
	_ = token.ADD
	return b.String()
}
