package main

// Area "c12left" (property C12, round 4): what a composite RPS / startup profile answers to `Left()` — the question the
// instance loop (`Waiter.IsFinished`) and the finish callback of the shared RPS schedule ask before every shot.  Regenerated
// from the CURRENT source of core/schedule/composite.go into lean/Pandora/Gen/C12Left.lean over the vocabulary
// `Pandora.Go.C12Left` of lean/Pandora/Model/C12Left.lean (core-only):
//
//	NewComposite                 the loop that fills the slice stored in the `leftAfter` field: its direction, the initial values
//	                             of the variables that live across iterations, and its body as a function
//	                             (persistent variables, `scheds[i].Left()`) -> (left[i], persistent variables)
//	(*compositeSchedule).Left    what it decides from what it read under the read lock (`len(s.scheds)`, `s.leftAfter[0]`,
//	                             `s.scheds[0].Left()`) and the `started` flag: return a value, or shift to the next part and ask again
//
// Reading of Go used here (trusted, see notes/C12.md): the persistent variables are passed POSITIONALLY (ints in declaration
// order, then bools in declaration order — local names never reach the Lean text except as `let` names inside the body);
// an `if` whose block ends in `continue` skips the rest of the body; the locals of `Left()` are recognised by what they are
// assigned from, not by name; lock / unlock calls, `verifhook.At`, and a `panic` guarded by an `if` inside the writer section
// are not read (the writer section followed by `return s.Left()` is the single action `.shift`).  Anything else makes gen
// fail (broken obligation), never a silent default.

import (
	"bytes"
	"fmt"
	"go/ast"
	"go/printer"
	"go/token"
	"go/types"
	"strings"

	"golang.org/x/tools/go/packages"
)

func init() {
	areas["c12left"] = area{
		pkgPath:   "github.com/yandex/pandora/core/schedule",
		module:    "C12Left",
		namespace: "Pandora.Gen.C12Left",
		imports:   []string{"Pandora.Model.C12Left"},
		extra:     c12leftExtra,
	}
}

type c12leftTr struct {
	t *tr
	p *packages.Package
	// Go object -> Lean expression it stands for (roles of the locals of Left(), the loop variable's child)
	role map[types.Object]string
	// source text of an expression -> Lean name (the reads of the leaf `Left()` methods)
	atom map[string]string
}

func (x *c12leftTr) fail(n ast.Node, format string, a ...any) string {
	x.t.errs = append(x.t.errs, fmt.Sprintf("%s: unsupported (c12left): %s", x.p.Fset.Position(n.Pos()), fmt.Sprintf(format, a...)))
	return "(UNSUPPORTED)"
}

func (x *c12leftTr) src(n ast.Node) string {
	var b bytes.Buffer
	_ = printer.Fprint(&b, x.p.Fset, n)
	return strings.Join(strings.Fields(b.String()), " ")
}

func (x *c12leftTr) obj(id *ast.Ident) types.Object {
	if o := x.p.TypesInfo.Uses[id]; o != nil {
		return o
	}
	return x.p.TypesInfo.Defs[id]
}

func c12leftLeanType(t types.Type) string {
	if b, ok := t.Underlying().(*types.Basic); ok {
		switch {
		case b.Info()&types.IsBoolean != 0:
			return "Bool"
		case b.Info()&types.IsInteger != 0:
			return "Int"
		}
	}
	return ""
}

// isChildLeft: `<slice>[<i>].Left()`
func (x *c12leftTr) isChildLeft(e ast.Expr) bool {
	c, ok := e.(*ast.CallExpr)
	if !ok || len(c.Args) != 0 {
		return false
	}
	sel, ok := c.Fun.(*ast.SelectorExpr)
	if !ok || sel.Sel.Name != "Left" {
		return false
	}
	_, ok = sel.X.(*ast.IndexExpr)
	return ok
}

// intExpr / boolExpr: pure expressions over locals (by their Go names, bound by `let` in the emitted text, or by role)
func (x *c12leftTr) name(id *ast.Ident) string {
	if r, ok := x.role[x.obj(id)]; ok {
		return r
	}
	return id.Name
}

func (x *c12leftTr) intExpr(e ast.Expr) string {
	if a, ok := x.atom[x.src(e)]; ok {
		return a
	}
	switch v := e.(type) {
	case *ast.ParenExpr:
		return x.intExpr(v.X)
	case *ast.BasicLit:
		if v.Kind == token.INT {
			return "(" + v.Value + " : Int)"
		}
	case *ast.Ident:
		return x.name(v)
	case *ast.UnaryExpr:
		if v.Op == token.SUB {
			return "(-" + x.intExpr(v.X) + ")"
		}
	case *ast.BinaryExpr:
		switch v.Op {
		case token.ADD, token.SUB:
			return "(" + x.intExpr(v.X) + " " + v.Op.String() + " " + x.intExpr(v.Y) + ")"
		}
	case *ast.CallExpr:
		// a conversion between integer types of at least the width of int: the value is kept
		if len(v.Args) == 1 {
			if tv, ok := x.p.TypesInfo.Types[v.Fun]; ok && tv.IsType() && c12leftLeanType(tv.Type) == "Int" {
				if b, ok := tv.Type.Underlying().(*types.Basic); ok && (b.Kind() == types.Int || b.Kind() == types.Int64) {
					return x.intExpr(v.Args[0])
				}
			}
		}
		if x.isChildLeft(v) {
			return "childLeft"
		}
	}
	return x.fail(e, "integer expression %s", x.src(e))
}

func (x *c12leftTr) boolExpr(e ast.Expr) string {
	if a, ok := x.atom[x.src(e)]; ok {
		return a
	}
	switch v := e.(type) {
	case *ast.ParenExpr:
		return x.boolExpr(v.X)
	case *ast.Ident:
		switch v.Name {
		case "true", "false":
			return v.Name
		}
		return x.name(v)
	case *ast.UnaryExpr:
		if v.Op == token.NOT {
			return "(!" + x.boolExpr(v.X) + ")"
		}
	case *ast.CallExpr:
		// s.started.Load()
		if sel, ok := v.Fun.(*ast.SelectorExpr); ok && sel.Sel.Name == "Load" && len(v.Args) == 0 {
			if in, ok := sel.X.(*ast.SelectorExpr); ok && in.Sel.Name == "started" {
				return "started"
			}
		}
	case *ast.BinaryExpr:
		switch v.Op {
		case token.LAND:
			return "(" + x.boolExpr(v.X) + " && " + x.boolExpr(v.Y) + ")"
		case token.LOR:
			return "(" + x.boolExpr(v.X) + " || " + x.boolExpr(v.Y) + ")"
		case token.LSS, token.LEQ, token.GTR, token.GEQ, token.EQL, token.NEQ:
			if tv, ok := x.p.TypesInfo.Types[v.X]; ok && c12leftLeanType(tv.Type) == "Int" {
				op := map[token.Token]string{token.LSS: "<", token.LEQ: "≤", token.GTR: ">", token.GEQ: "≥", token.EQL: "=", token.NEQ: "≠"}[v.Op]
				return "decide (" + x.intExpr(v.X) + " " + op + " " + x.intExpr(v.Y) + ")"
			}
		}
	}
	return x.fail(e, "boolean expression %s", x.src(e))
}

func (x *c12leftTr) expr(e ast.Expr) (string, string) {
	tv, ok := x.p.TypesInfo.Types[e]
	if !ok {
		return x.fail(e, "untyped expression"), ""
	}
	switch c12leftLeanType(tv.Type) {
	case "Int":
		return x.intExpr(e), "Int"
	case "Bool":
		return x.boolExpr(e), "Bool"
	}
	return x.fail(e, "expression of type %s", tv.Type), ""
}

// ---------------------------------------------------------------- NewComposite: the loop

// body: the statements of the loop body in continuation style; `res` is the result tuple text (built from the CURRENT
// bindings of the names, which `let` shadows)
func (x *c12leftTr) body(list []ast.Stmt, slice types.Object, ind, res string) string {
	if len(list) == 0 {
		return ind + res + "\n"
	}
	st, rest := list[0], list[1:]
	switch v := st.(type) {
	case *ast.BranchStmt:
		if v.Tok == token.CONTINUE && v.Label == nil {
			return ind + res + "\n" // the rest of the body is skipped
		}
	case *ast.AssignStmt:
		if len(v.Lhs) == 1 && len(v.Rhs) == 1 {
			// left[i] = e
			if ix, ok := v.Lhs[0].(*ast.IndexExpr); ok && v.Tok == token.ASSIGN {
				if id, ok := ix.X.(*ast.Ident); ok && x.obj(id) == slice {
					return ind + "let left_i : Int := " + x.intExpr(v.Rhs[0]) + "\n" + x.body(rest, slice, ind, res)
				}
			}
			if id, ok := v.Lhs[0].(*ast.Ident); ok {
				switch v.Tok {
				case token.ASSIGN, token.DEFINE:
					e, ty := x.expr(v.Rhs[0])
					return ind + "let " + id.Name + " : " + ty + " := " + e + "\n" + x.body(rest, slice, ind, res)
				case token.ADD_ASSIGN, token.SUB_ASSIGN:
					op := "+"
					if v.Tok == token.SUB_ASSIGN {
						op = "-"
					}
					return ind + "let " + id.Name + " : Int := (" + id.Name + " " + op + " " + x.intExpr(v.Rhs[0]) + ")\n" + x.body(rest, slice, ind, res)
				}
			}
		}
	case *ast.IfStmt:
		if v.Init == nil {
			var els []ast.Stmt
			switch e := v.Else.(type) {
			case nil:
			case *ast.BlockStmt:
				els = e.List
			case *ast.IfStmt:
				els = []ast.Stmt{e}
			}
			thenL := append(append([]ast.Stmt{}, v.Body.List...), rest...)
			if n := len(v.Body.List); n > 0 {
				if br, ok := v.Body.List[n-1].(*ast.BranchStmt); ok && br.Tok == token.CONTINUE {
					thenL = v.Body.List
				}
			}
			elseL := append(append([]ast.Stmt{}, els...), rest...)
			if n := len(els); n > 0 {
				if br, ok := els[n-1].(*ast.BranchStmt); ok && br.Tok == token.CONTINUE {
					elseL = els
				}
			}
			return ind + "if " + x.boolExpr(v.Cond) + " then\n" + x.body(thenL, slice, ind+"  ", res) + ind + "else\n" + x.body(elseL, slice, ind+"  ", res)
		}
	}
	return ind + x.fail(st, "statement %s", x.src(st)) + "\n"
}

func (x *c12leftTr) newComposite(b *strings.Builder) {
	fd := findFunc(x.p, "NewComposite")
	if fd == nil {
		x.t.errs = append(x.t.errs, "c12left: function NewComposite not found")
		return
	}
	// the slice stored in the field `leftAfter` of the returned composite
	var slice types.Object
	ast.Inspect(fd.Body, func(n ast.Node) bool {
		if kv, ok := n.(*ast.KeyValueExpr); ok {
			if k, ok := kv.Key.(*ast.Ident); ok && k.Name == "leftAfter" {
				if id, ok := kv.Value.(*ast.Ident); ok {
					slice = x.obj(id)
				}
			}
		}
		return true
	})
	if slice == nil {
		x.t.errs = append(x.t.errs, "c12left: NewComposite: the value stored in the field leftAfter is not a local variable")
		return
	}
	// the loop that assigns to it
	var loop *ast.ForStmt
	var before []ast.Stmt
	for i, st := range fd.Body.List {
		fs, ok := st.(*ast.ForStmt)
		if !ok {
			continue
		}
		assigns := false
		ast.Inspect(fs.Body, func(n ast.Node) bool {
			if as, ok := n.(*ast.AssignStmt); ok {
				for _, l := range as.Lhs {
					if ix, ok := l.(*ast.IndexExpr); ok {
						if id, ok := ix.X.(*ast.Ident); ok && x.obj(id) == slice {
							assigns = true
						}
					}
				}
			}
			return true
		})
		if assigns {
			if loop != nil {
				x.fail(fs, "a second loop assigns to the leftAfter slice")
				return
			}
			loop, before = fs, fd.Body.List[:i]
		}
	}
	if loop == nil {
		x.t.errs = append(x.t.errs, "c12left: NewComposite: no loop assigns to the leftAfter slice")
		return
	}
	// direction
	order := ""
	hdr := x.src(loop.Init) + " ; " + x.src(loop.Cond) + " ; " + x.src(loop.Post)
	if as, ok := loop.Init.(*ast.AssignStmt); ok && len(as.Lhs) == 1 && len(as.Rhs) == 1 {
		iv, _ := as.Lhs[0].(*ast.Ident)
		post, _ := loop.Post.(*ast.IncDecStmt)
		cond, _ := loop.Cond.(*ast.BinaryExpr)
		if iv != nil && post != nil && cond != nil {
			init := x.src(as.Rhs[0])
			switch {
			case post.Tok == token.DEC && strings.HasPrefix(init, "len(") && strings.HasSuffix(init, ") - 1") &&
				(x.src(cond) == iv.Name+" >= 0" || x.src(cond) == iv.Name+" > -1" || x.src(cond) == "0 <= "+iv.Name):
				order = "lastToFirst"
			case post.Tok == token.INC && init == "0" && cond.Op == token.LSS && strings.HasPrefix(x.src(cond.Y), "len("):
				order = "firstToLast"
			}
		}
	}
	if order == "" {
		x.fail(loop, "loop header %s", hdr)
		return
	}
	// persistent variables: declared before the loop, of type int / bool, assigned in the loop body
	type pv struct {
		o        types.Object
		ty, init string
	}
	var pvs []pv
	assigned := map[types.Object]bool{}
	ast.Inspect(loop.Body, func(n ast.Node) bool {
		if as, ok := n.(*ast.AssignStmt); ok && as.Tok != token.DEFINE {
			for _, l := range as.Lhs {
				if id, ok := l.(*ast.Ident); ok {
					assigned[x.obj(id)] = true
				}
			}
		}
		return true
	})
	addVar := func(id *ast.Ident, val ast.Expr) {
		o := x.obj(id)
		if o == nil || o == slice || !assigned[o] {
			return
		}
		ty := c12leftLeanType(o.Type())
		if ty == "" {
			x.fail(id, "persistent variable %s of type %s", id.Name, o.Type())
			return
		}
		init := map[string]string{"Int": "(0 : Int)", "Bool": "false"}[ty]
		if val != nil {
			init, _ = x.expr(val)
		}
		pvs = append(pvs, pv{o, ty, init})
	}
	for _, st := range before {
		switch v := st.(type) {
		case *ast.DeclStmt:
			if gd, ok := v.Decl.(*ast.GenDecl); ok && gd.Tok == token.VAR {
				for _, sp := range gd.Specs {
					vs := sp.(*ast.ValueSpec)
					for i, id := range vs.Names {
						var val ast.Expr
						if i < len(vs.Values) {
							val = vs.Values[i]
						}
						addVar(id, val)
					}
				}
			}
		case *ast.AssignStmt:
			if v.Tok == token.DEFINE && len(v.Lhs) == len(v.Rhs) {
				for i, l := range v.Lhs {
					if id, ok := l.(*ast.Ident); ok {
						addVar(id, v.Rhs[i])
					}
				}
			}
		}
	}
	var ordered []pv
	for _, ty := range []string{"Int", "Bool"} {
		for _, p := range pvs {
			if p.ty == ty {
				ordered = append(ordered, p)
			}
		}
	}
	var tys, inits, params, names []string
	for i, p := range ordered {
		tys = append(tys, p.ty)
		inits = append(inits, p.init)
		params = append(params, fmt.Sprintf("(p%d : %s)", i, p.ty))
		names = append(names, p.o.Name())
	}
	if len(ordered) == 0 {
		x.fail(loop, "no persistent variable")
		return
	}
	fmt.Fprintf(b, "/-- regenerated from `core/schedule/composite.go` function `NewComposite`: the direction of the loop that fills the\nslice stored as `leftAfter` (`%s`) -/\ndef NewComposite_loopOrder : String := %q\n\n", hdr, order)
	fmt.Fprintf(b, "/-- … the initial values of the variables that live across its iterations (ints in declaration order, then bools) -/\ndef NewComposite_loopInit : %s := (%s)\n\n", strings.Join(tys, " × "), strings.Join(inits, ", "))
	fmt.Fprintf(b, "/-- … and its body: (persistent variables before the child, the child's `Left()`) ↦ (left[i], persistent variables after) -/\ndef NewComposite_loopBody %s (childLeft : Int) : Int × %s :=\n", strings.Join(params, " "), strings.Join(tys, " × "))
	b.WriteString("  let left_i : Int := (0 : Int)\n")
	for i, p := range ordered {
		fmt.Fprintf(b, "  let %s : %s := p%d\n", p.o.Name(), p.ty, i)
	}
	b.WriteString(x.body(loop.Body.List, slice, "  ", "(left_i, "+strings.Join(names, ", ")+")"))
	b.WriteString("\n")
}

// ---------------------------------------------------------------- (*compositeSchedule).Left

// decide: statements after the reader section, as a tree of returns
func (x *c12leftTr) decide(list []ast.Stmt, recv string, ind string) string {
	if len(list) == 0 {
		return ind + c12leftFailStr(x.t, "c12left: (*compositeSchedule).Left: a path without return") + "\n"
	}
	st, rest := list[0], list[1:]
	switch v := st.(type) {
	case *ast.ReturnStmt:
		if len(v.Results) == 1 {
			// return s.Left(): the writer section before it has shifted to the next part
			if c, ok := v.Results[0].(*ast.CallExpr); ok && x.src(c) == recv+".Left()" {
				return ind + ".shift\n"
			}
			return ind + ".ret " + x.intExpr(v.Results[0]) + "\n"
		}
	case *ast.IfStmt:
		if v.Init == nil {
			var els []ast.Stmt
			switch e := v.Else.(type) {
			case nil:
			case *ast.BlockStmt:
				els = e.List
			case *ast.IfStmt:
				els = []ast.Stmt{e}
			}
			// a guarded panic inside the writer section is not a decision
			if len(els) == 0 && c12leftEndsInPanic(v.Body.List) {
				return x.decide(rest, recv, ind)
			}
			thenL := v.Body.List
			if !c12leftTerminal(thenL) {
				thenL = append(append([]ast.Stmt{}, thenL...), rest...)
			}
			elseL := append(append([]ast.Stmt{}, els...), rest...)
			if len(els) > 0 && c12leftTerminal(els) {
				elseL = els
			}
			// the writer section: `if <len unchanged> { … startNext … }` — part of the shift, both branches go on to the same return
			if x.isShiftGuard(v) {
				return x.decide(rest, recv, ind)
			}
			return ind + "if " + x.boolExpr(v.Cond) + " then\n" + x.decide(thenL, recv, ind+"  ") + ind + "else\n" + x.decide(elseL, recv, ind+"  ")
		}
	case *ast.ExprStmt:
		// lock / unlock / hook calls
		if c, ok := v.X.(*ast.CallExpr); ok {
			s := x.src(c.Fun)
			if strings.HasSuffix(s, ".Lock") || strings.HasSuffix(s, ".Unlock") || strings.HasSuffix(s, ".RLock") || strings.HasSuffix(s, ".RUnlock") || s == "verifhook.At" {
				return x.decide(rest, recv, ind)
			}
		}
	case *ast.AssignStmt:
		// a local of the writer section (`shedsLeftNow := len(s.scheds)`): only used by the shift guard
		if v.Tok == token.DEFINE && len(v.Lhs) == 1 && strings.HasPrefix(x.src(v.Rhs[0]), "len("+recv+".") {
			if id, ok := v.Lhs[0].(*ast.Ident); ok {
				x.role[x.obj(id)] = "«writer-section length»"
				return x.decide(rest, recv, ind)
			}
		}
	}
	return ind + x.fail(st, "statement %s", x.src(st)) + "\n"
}

func c12leftFailStr(t *tr, msg string) string {
	t.errs = append(t.errs, msg)
	return "(UNSUPPORTED)"
}

func c12leftTerminal(list []ast.Stmt) bool {
	if len(list) == 0 {
		return false
	}
	switch v := list[len(list)-1].(type) {
	case *ast.ReturnStmt:
		return true
	case *ast.IfStmt:
		if b, ok := v.Else.(*ast.BlockStmt); ok {
			return c12leftTerminal(v.Body.List) && c12leftTerminal(b.List)
		}
	case *ast.ExprStmt:
		if c, ok := v.X.(*ast.CallExpr); ok {
			if id, ok := c.Fun.(*ast.Ident); ok && id.Name == "panic" {
				return true
			}
		}
	}
	return false
}

func c12leftEndsInPanic(list []ast.Stmt) bool {
	if len(list) == 0 {
		return false
	}
	if es, ok := list[len(list)-1].(*ast.ExprStmt); ok {
		if c, ok := es.X.(*ast.CallExpr); ok {
			if id, ok := c.Fun.(*ast.Ident); ok && id.Name == "panic" {
				return true
			}
		}
	}
	return false
}

// isShiftGuard: the `if` of the writer section whose block calls startNext
func (x *c12leftTr) isShiftGuard(v *ast.IfStmt) bool {
	found := false
	for _, st := range v.Body.List { // a DIRECT statement of the block
		if es, ok := st.(*ast.ExprStmt); ok {
			if c, ok := es.X.(*ast.CallExpr); ok && strings.HasSuffix(x.src(c.Fun), ".startNext") {
				found = true
			}
		}
	}
	return found && v.Else == nil
}

func (x *c12leftTr) leftMethod(b *strings.Builder) {
	var fd *ast.FuncDecl
	for _, f := range x.p.Syntax {
		for _, d := range f.Decls {
			if m, ok := d.(*ast.FuncDecl); ok && m.Recv != nil && m.Name.Name == "Left" && strings.Contains(x.src(m.Recv.List[0].Type), "compositeSchedule") {
				fd = m
			}
		}
	}
	if fd == nil || len(fd.Recv.List[0].Names) != 1 {
		x.t.errs = append(x.t.errs, "c12left: method (*compositeSchedule).Left not found")
		return
	}
	recv := fd.Recv.List[0].Names[0].Name
	// the reader section: locals recognised by what they are assigned from
	rest := fd.Body.List
	seen := map[string]bool{}
	i := 0
	for ; i < len(rest); i++ {
		st := rest[i]
		if es, ok := st.(*ast.ExprStmt); ok {
			if c, ok := es.X.(*ast.CallExpr); ok {
				s := x.src(c.Fun)
				if strings.HasSuffix(s, ".RLock") || strings.HasSuffix(s, ".RUnlock") {
					continue
				}
			}
		}
		as, ok := st.(*ast.AssignStmt)
		if !ok || as.Tok != token.DEFINE || len(as.Lhs) != 1 || len(as.Rhs) != 1 {
			break
		}
		id, _ := as.Lhs[0].(*ast.Ident)
		rhs := x.src(as.Rhs[0])
		r := ""
		switch {
		case rhs == "len("+recv+".scheds)":
			r = "schedsLeft"
		case rhs == recv+".leftAfter[0]" || rhs == "int("+recv+".leftAfter[0])":
			r = "leftAfter"
		case rhs == recv+".scheds[0].Left()":
			r = "left"
		}
		if id == nil || r == "" || seen[r] {
			x.fail(st, "reader section statement %s", x.src(st))
			return
		}
		seen[r] = true
		x.role[x.obj(id)] = r
	}
	if !(seen["schedsLeft"] && seen["leftAfter"] && seen["left"]) {
		x.fail(fd, "reader section of Left() does not read len(scheds), leftAfter[0] and scheds[0].Left()")
		return
	}
	b.WriteString("/-- regenerated from `core/schedule/composite.go` method `(*compositeSchedule).Left`: what it decides after the reader\nsection from what it read there and the `started` flag; `.shift` = the writer section (start the next part at the finish time\nof the current one) followed by `return s.Left()` -/\n")
	b.WriteString("def compositeSchedule_Left_decide (schedsLeft leftAfter left : Int) (started : Bool) : LeftAct :=\n")
	b.WriteString(x.decide(rest[i:], recv, "  "))
	b.WriteString("\n")
}

// startNext: `s.<field> = s.<field>[1:]` for the two slices, then the new first part is started at the finish time handed in
func (x *c12leftTr) startNext(b *strings.Builder) {
	var fd *ast.FuncDecl
	for _, f := range x.p.Syntax {
		for _, d := range f.Decls {
			if m, ok := d.(*ast.FuncDecl); ok && m.Recv != nil && m.Name.Name == "startNext" && strings.Contains(x.src(m.Recv.List[0].Type), "compositeSchedule") {
				fd = m
			}
		}
	}
	if fd == nil || len(fd.Recv.List[0].Names) != 1 || len(fd.Type.Params.List) != 1 || len(fd.Type.Params.List[0].Names) != 1 {
		x.t.errs = append(x.t.errs, "c12left: method (*compositeSchedule).startNext(<finish time>) not found")
		return
	}
	recv := fd.Recv.List[0].Names[0].Name
	par := fd.Type.Params.List[0].Names[0].Name
	drops := map[string]string{}
	starts := ""
	for _, st := range fd.Body.List {
		switch v := st.(type) {
		case *ast.AssignStmt:
			if v.Tok == token.ASSIGN && len(v.Lhs) == 1 && len(v.Rhs) == 1 {
				if sel, ok := v.Lhs[0].(*ast.SelectorExpr); ok && x.src(sel.X) == recv {
					if sl, ok := v.Rhs[0].(*ast.SliceExpr); ok && x.src(sl.X) == x.src(sel) && sl.High == nil && sl.Low != nil && !sl.Slice3 {
						if tv, ok := x.p.TypesInfo.Types[sl.Low]; ok && tv.Value != nil {
							drops[sel.Sel.Name] = tv.Value.ExactString()
							continue
						}
					}
				}
			}
		case *ast.ExprStmt:
			if c, ok := v.X.(*ast.CallExpr); ok && len(c.Args) == 1 && x.src(c.Args[0]) == par {
				if strings.HasPrefix(x.src(c.Fun), recv+".scheds[") && strings.HasSuffix(x.src(c.Fun), "].Start") {
					starts = strings.TrimSuffix(strings.TrimPrefix(x.src(c.Fun), recv+".scheds["), "].Start")
					continue
				}
			}
		}
		x.fail(st, "startNext: statement %s", x.src(st))
	}
	if drops["scheds"] == "" || drops["leftAfter"] == "" || starts == "" {
		x.fail(fd, "startNext does not re-slice scheds and leftAfter and start a part")
		return
	}
	fmt.Fprintf(b, "/-- regenerated from `(*compositeSchedule).startNext`: how many parts it drops from the front of `scheds` and of `leftAfter`, and\nwhich of the remaining parts it starts (at the finish time it was handed) -/\ndef startNext_drops : Nat × Nat × Nat := (%s, %s, %s)\n\n", drops["scheds"], drops["leftAfter"], starts)
}

// ---------------------------------------------------------------- Left() of the leaves

// leafBody: `x := e` / `if c { return e }` / `return e` as a Lean expression
func (x *c12leftTr) leafBody(list []ast.Stmt, ind string) string {
	if len(list) == 0 {
		return ind + c12leftFailStr(x.t, "c12left: leaf Left(): a path without return") + "\n"
	}
	st, rest := list[0], list[1:]
	switch v := st.(type) {
	case *ast.ReturnStmt:
		if len(v.Results) == 1 {
			return ind + x.intExpr(v.Results[0]) + "\n"
		}
	case *ast.AssignStmt:
		if v.Tok == token.DEFINE && len(v.Lhs) == 1 && len(v.Rhs) == 1 {
			if id, ok := v.Lhs[0].(*ast.Ident); ok {
				return ind + "let " + id.Name + " : Int := " + x.intExpr(v.Rhs[0]) + "\n" + x.leafBody(rest, ind)
			}
		}
	case *ast.IfStmt:
		if v.Init == nil && v.Else == nil && c12leftTerminal(v.Body.List) {
			return ind + "if " + x.boolExpr(v.Cond) + " then\n" + x.leafBody(v.Body.List, ind+"  ") + ind + "else\n" + x.leafBody(rest, ind+"  ")
		}
	}
	return ind + x.fail(st, "statement %s", x.src(st)) + "\n"
}

func (x *c12leftTr) leafLeft(b *strings.Builder, recvType, leanName, params, doc string, atoms map[string]string) {
	var fd *ast.FuncDecl
	for _, f := range x.p.Syntax {
		for _, d := range f.Decls {
			if m, ok := d.(*ast.FuncDecl); ok && m.Recv != nil && m.Name.Name == "Left" && strings.Contains(x.src(m.Recv.List[0].Type), recvType) {
				fd = m
			}
		}
	}
	if fd == nil || len(fd.Recv.List[0].Names) != 1 {
		x.t.errs = append(x.t.errs, "c12left: method (*"+recvType+").Left not found")
		return
	}
	recv := fd.Recv.List[0].Names[0].Name
	x.atom = map[string]string{}
	for k, v := range atoms {
		x.atom[strings.ReplaceAll(k, "$", recv)] = v
	}
	fmt.Fprintf(b, "/-- regenerated from `core/schedule` method `(*%s).Left`: %s -/\ndef %s %s : Int :=\n", recvType, doc, leanName, params)
	b.WriteString(x.leafBody(fd.Body.List, "  "))
	b.WriteString("\n")
	x.atom = nil
}

func c12leftExtra(t *tr) string {
	var b strings.Builder
	b.WriteString("open Pandora.Go.C12Left\n\n")
	x := &c12leftTr{t: t, p: t.pkg, role: map[types.Object]string{}}
	x.newComposite(&b)
	x.leftMethod(&b)
	x.startNext(&b)
	x.leafLeft(&b, "doAtSchedule", "doAtSchedule_Left", "(n i : Int)", "what a `once` / `const` part answers (n: its tokens, i: `Next` calls so far)",
		map[string]string{"$.n": "n", "$.i.Load()": "i"})
	x.leafLeft(&b, "unlimitedSchedule", "unlimitedSchedule_Left", "(started nowBeforeFinish : Bool)",
		"what an `unlimited` part answers (started: `IsStarted()`; nowBeforeFinish: `time.Now().Before(s.finish.Load())`)",
		map[string]string{"$.IsStarted()": "started", "time.Now().Before($.finish.Load())": "nowBeforeFinish"})
	return b.String()
}

var _ = packages.NeedName
